(* Correspondence driver: reads "CASE<TAB>IMPL-RESULT" lines produced by the Rust harness,
   recomputes every result with the OCaml extraction of the Coq model, and prints one line
   per case: "ok" when the model agrees, "DIFF<TAB>model-result" when it does not, "SKIP" when
   the case kind has no model counterpart (timing probes, diagnostics, serde).
   See /verif/PROTOCOL.md. *)
open Model

(* ---------- S-expressions ---------- *)
type sexp = A of string | S of int list | L of sexp list

exception Bad of string

let parse_sexp (s : string) : sexp =
  let n = String.length s in
  let pos = ref 0 in
  let peek () = if !pos < n then s.[!pos] else '\000' in
  let rec skip () = if !pos < n && s.[!pos] = ' ' then (incr pos; skip ()) in
  let is_atom c =
    (c >= 'a' && c <= 'z') || (c >= 'A' && c <= 'Z') || (c >= '0' && c <= '9') || c = '_' || c = '-' in
  let rec item () =
    skip ();
    match peek () with
    | '(' ->
      incr pos;
      let rec items acc =
        skip ();
        if peek () = ')' then (incr pos; L (List.rev acc))
        else if !pos >= n then raise (Bad "eof in list")
        else items (item () :: acc) in
      items []
    | '#' ->
      incr pos;
      let start = !pos in
      while !pos < n && (let c = s.[!pos] in (c >= '0' && c <= '9') || (c >= 'a' && c <= 'f') || c = '.') do incr pos done;
      let body = String.sub s start (!pos - start) in
      if body = "" then S []
      else S (List.map (fun h -> int_of_string ("0x" ^ h)) (String.split_on_char '.' body))
    | c when is_atom c ->
      let start = !pos in
      while !pos < n && is_atom s.[!pos] do incr pos done;
      A (String.sub s start (!pos - start))
    | _ -> raise (Bad ("unexpected char at " ^ string_of_int !pos))
  in
  let r = item () in
  skip ();
  if !pos <> n then raise (Bad "trailing input");
  r

let rec print_sexp (b : Buffer.t) (x : sexp) : unit =
  match x with
  | A a -> Buffer.add_string b a
  | S l ->
    Buffer.add_char b '#';
    List.iteri (fun i c -> if i > 0 then Buffer.add_char b '.'; Buffer.add_string b (Printf.sprintf "%x" c)) l
  | L l ->
    Buffer.add_char b '(';
    List.iteri (fun i y -> if i > 0 then Buffer.add_char b ' '; print_sexp b y) l;
    Buffer.add_char b ')'

let sexp_to_string x = let b = Buffer.create 256 in print_sexp b x; Buffer.contents b

(* ---------- numbers ---------- *)
let rec pos_of_int (i : int) : positive =
  if i = 1 then XH else if i land 1 = 0 then XO (pos_of_int (i lsr 1)) else XI (pos_of_int (i lsr 1))
let n_of_int (i : int) : n = if i = 0 then N0 else Npos (pos_of_int i)
let rec int_of_pos (p : positive) : int =
  match p with XH -> 1 | XO q -> 2 * int_of_pos q | XI q -> 2 * int_of_pos q + 1
let int_of_n (x : n) : int = match x with N0 -> 0 | Npos p -> int_of_pos p

let str_of_string (s : string) : str = List.init (String.length s) (fun i -> n_of_int (Char.code s.[i]))
let string_of_str (s : str) : string = String.concat "" (List.map (fun c -> String.make 1 (Char.chr (int_of_n c))) s)
(* decimal atoms <-> N through the model's own dec_value / print_N *)
let n_of_dec (s : string) : n = dec_value (str_of_string s)
let dec_of_n (x : n) : string = string_of_str (print_N x)
let z_of_dec (s : string) : z =
  if String.length s > 0 && s.[0] = '-' then
    (match n_of_dec (String.sub s 1 (String.length s - 1)) with N0 -> Z0 | Npos p -> Zneg p)
  else (match n_of_dec s with N0 -> Z0 | Npos p -> Zpos p)

let str_of_scalars (l : int list) : str = List.map n_of_int l
let scalars_of_str (s : str) : int list = List.map int_of_n s

(* ---------- data <-> sexp ---------- *)
let ident_of = function
  | L [A "n"; A d] -> Num (n_of_dec d)
  | L [A "a"; S l] -> Alpha (str_of_scalars l)
  | _ -> raise (Bad "ident")
let sexp_of_ident = function
  | Num x -> L [A "n"; A (dec_of_n x)]
  | Alpha s -> L [A "a"; S (scalars_of_str s)]
let version_of = function
  | L [A "v"; A ma; A mi; A pa; L pre; L bld] ->
    { major = n_of_dec ma; minor = n_of_dec mi; patch = n_of_dec pa;
      build = List.map ident_of bld; pre = List.map ident_of pre }
  | _ -> raise (Bad "version")
let sexp_of_version (v : version) =
  L [A "v"; A (dec_of_n v.major); A (dec_of_n v.minor); A (dec_of_n v.patch);
     L (List.map sexp_of_ident v.pre); L (List.map sexp_of_ident v.build)]
let pred_of = function
  | A "unb" -> Unbounded
  | L [A "inc"; v] -> Including (version_of v)
  | L [A "exc"; v] -> Excluding (version_of v)
  | _ -> raise (Bad "pred")
let sexp_of_pred = function
  | Unbounded -> A "unb"
  | Including v -> L [A "inc"; sexp_of_version v]
  | Excluding v -> L [A "exc"; sexp_of_version v]
let bound_of = function
  | L [A "lo"; p] -> Lower (pred_of p)
  | L [A "up"; p] -> Upper (pred_of p)
  | _ -> raise (Bad "bound")
let sexp_of_bound = function
  | Lower p -> L [A "lo"; sexp_of_pred p]
  | Upper p -> L [A "up"; sexp_of_pred p]
let bs_of = function
  | L [A "bs"; lo; up] -> { bs_upper = bound_of up; bs_lower = bound_of lo }
  | _ -> raise (Bad "bs")
let sexp_of_bs (b : boundset) = L [A "bs"; sexp_of_bound b.bs_lower; sexp_of_bound b.bs_upper]
let range_of = function
  | L (A "r" :: l) -> List.map bs_of l
  | _ -> raise (Bad "range")
let sexp_of_range (r : range) = L (A "r" :: List.map sexp_of_bs r)
let sexp_of_opt f = function None -> A "none" | Some x -> L [A "some"; f x]
let sexp_of_bool b = A (if b then "true" else "false")
let some_range_of = function
  | L [A "some"; r] -> range_of r
  | _ -> raise (Bad "some range")

let ctx_name = function
  | CVersion -> "version" | CVersionCore -> "version core" | CNumber -> "number component"
  | CIdentifier -> "identifier" | CBuild -> "build version" | CPreRelease -> "pre_release version"
let sexp_of_kind = function
  | KMaxLength -> A "maxlen" | KIncomplete -> A "incomplete" | KParseInt -> A "parseint"
  | KMaxInt x -> L [A "maxint"; A (dec_of_n x)]
  | KContext c -> L [A "ctx"; S (scalars_of_str (str_of_string (ctx_name c)))]
  | KNoValidRanges -> A "novalid" | KOther -> A "other"
let sexp_of_err (e : semver_error) =
  let loc = match location e with
    | Ok (l, c) -> L [A "loc"; A (dec_of_n l); A (dec_of_n c)]
    | Panic -> A "panic" in
  L [A "err"; sexp_of_kind e.e_kind; S (scalars_of_str e.e_input); A (dec_of_n e.e_offset); loc]

let sexp_of_cmp = function Lt -> A "lt" | Eq -> A "eq" | Gt -> A "gt"
let diff_name = function
  | Major -> "major" | Minor -> "minor" | Patch -> "patch" | PreMajor -> "premajor"
  | PreMinor -> "preminor" | PrePatch -> "prepatch" | PreRelease -> "prerelease"

let hash_key_eq (a : version) (b : version) : bool =
  a.major = b.major && a.minor = b.minor && a.patch = b.patch && idents_eqb a.pre b.pre

let int_types = ["u8", 8, false; "u16", 16, false; "u32", 32, false; "u64", 64, false; "usize", 64, false;
                 "i8", 8, true; "i16", 16, true; "i32", 32, true; "i64", 64, true; "isize", 64, true]

(* ---------- range syntax trees (case c01) ---------- *)
let partial_of = function
  | L [A "p"; L xs; L tag; L bld] ->
    let comp = function A "x" -> None | A d -> Some (n_of_dec d) | _ -> raise (Bad "component") in
    let xs = List.map comp xs in
    let nth k = if k < List.length xs then List.nth xs k else None in
    (* once a component is a wildcard, everything after it is one as well *)
    let ma = nth 0 in
    let mi = (match ma with None -> None | Some _ -> nth 1) in
    let pa = (match mi with None -> None | Some _ -> nth 2) in
    let full = (match pa with Some _ -> true | None -> false) in
    { p_major = ma; p_minor = mi; p_patch = pa;
      p_pre = (if full then List.map ident_of tag else []);
      p_build = (if full then List.map ident_of bld else []) }
  | _ -> raise (Bad "partial")
let form_of = function
  | "bare" -> FBare | "eq" -> FEq | "gt" -> FGt | "gte" -> FGte | "lt" -> FLt | "lte" -> FLte
  | "tilde" -> FTilde | "tildegt" -> FTildeGt | "caret" -> FCaret | _ -> raise (Bad "form")
let comp_of = function
  | L [A "c"; A f; p] -> Comp (form_of f, partial_of p)
  | L [A "garbage"; _] -> Garbage
  | _ -> raise (Bad "comp")
let alt_of = function
  | L [A "hyphen"; lo; hi] -> AHyphen (partial_of lo, partial_of hi)
  | L [A "set"; L cs] -> ASet (List.map comp_of cs)
  | _ -> raise (Bad "alt")
let ast_of = function
  | L (A "ast" :: alts) -> List.map alt_of alts
  | _ -> raise (Bad "ast")

(* SPEC line for a c01 case: (STRUCT (npm answers) (in a recorded departure class)) *)
let spec_result (case : sexp) : sexp option =
  match case with
  | L [A "c01"; _; ast; L vs] ->
    let t = ast_of ast in
    let r = compile t in
    let st = (match r with [] -> A "none" | _ -> L [A "some"; sexp_of_range r]) in
    let vs = List.map version_of vs in
    Some (L [st;
             L (List.map (fun v -> sexp_of_bool (npm_admits t v)) vs);
             L (List.map (fun v -> sexp_of_bool (List.exists (fun a -> known_class a v) t)) vs)])
  | _ -> None

(* ---------- the model's answer for one case ---------- *)
(* returns None when there is nothing to compare (SKIP) *)
let model_result (case : sexp) (impl : sexp) : sexp option =
  match case with
  | L [A "vparse"; S s] ->
    Some (match vparse (str_of_scalars s) with
        | Inl v -> L [A "ok"; sexp_of_version v]
        | Inr e -> sexp_of_err e)
  | L [A "vprint"; v] -> Some (S (scalars_of_str (vprint (version_of v))))
  | L [A "vcmp"; a; b] ->
    let a = version_of a and b = version_of b in
    Some (L [sexp_of_cmp (vcmp a b); sexp_of_bool (veqb a b); sexp_of_bool (hash_key_eq a b)])
  | L [A "vdiff"; a; b] ->
    Some (match vdiff (version_of a) (version_of b) with None -> A "none" | Some d -> A (diff_name d))
  | L [A "vsort"; L vs] ->
    let vs = List.map version_of vs in
    Some (L [L (List.map sexp_of_version (vsort vs));
             sexp_of_opt sexp_of_version (iter_max vs); sexp_of_opt sexp_of_version (iter_min vs)])
  | L [A "tuple3"; A _; A a; A b; A c] ->
    Some (sexp_of_version (from3 (z_of_dec a) (z_of_dec b) (z_of_dec c)))
  | L [A "tuple4"; A _; A a; A b; A c; A d] ->
    Some (sexp_of_version (from4 (z_of_dec a) (z_of_dec b) (z_of_dec c) (z_of_dec d)))
  | L [A "rparse"; S s] ->
    Some (match r_parse (str_of_scalars s) with
        | ROk r -> L [A "ok"; sexp_of_range r]
        | RErr e -> sexp_of_err e
        | ROutOfFuel -> A "outoffuel")
  | L (A ("rprint" | "sat" | "within" | "isect" | "diff" | "allows_all" | "allows_any" | "minv"
         | "maxsat" | "minsat" | "serde_r") :: _) when impl = L [A "none"] || impl = A "panic" ->
    (* operand evaluated to None on the implementation (or it panicked): nothing to recompute;
       a panic is flagged by the orchestrator, which treats every impl panic as a disagreement *)
    None
  | L [A "rprint"; _] ->
    (match impl with
     | L [es; _] ->
       let r = some_range_of es in
       Some (L [es; (match r_print r with Ok s -> S (scalars_of_str s) | Panic -> A "panic")])
     | _ -> raise (Bad "rprint impl"))
  | L [A "sat"; _; L vs] ->
    (match impl with
     | L [es; _] ->
       let r = some_range_of es in
       let f v = match r_satisfies_p r (version_of v) with Ok b -> sexp_of_bool b | Panic -> A "panic" in
       Some (L [es; L (List.map f vs)])
     | _ -> raise (Bad "sat impl"))
  | L [A "within"; _; L vs] ->
    (match impl with
     | L [es; _] ->
       let r = some_range_of es in
       Some (L [es; L (List.map (fun v -> sexp_of_bool (r_within r (version_of v))) vs)])
     | _ -> raise (Bad "within impl"))
  | L [A "isect"; _; _] ->
    (match impl with
     | L [ea; eb; _] ->
       Some (L [ea; eb; sexp_of_opt sexp_of_range (r_intersect (some_range_of ea) (some_range_of eb))])
     | _ -> raise (Bad "isect impl"))
  | L [A "diff"; _; _] ->
    (match impl with
     | L [ea; eb; _] ->
       Some (match r_difference (some_range_of ea) (some_range_of eb) with
           | Ok o -> L [ea; eb; sexp_of_opt sexp_of_range o]
           | Panic -> A "panic")
     | _ -> raise (Bad "diff impl"))
  | L [A "allows_all"; _; _] ->
    (match impl with
     | L [ea; eb; _] -> Some (L [ea; eb; sexp_of_bool (r_allows_all (some_range_of ea) (some_range_of eb))])
     | _ -> raise (Bad "allows_all impl"))
  | L [A "allows_any"; _; _] ->
    (match impl with
     | L [ea; eb; _] -> Some (L [ea; eb; sexp_of_bool (r_allows_any (some_range_of ea) (some_range_of eb))])
     | _ -> raise (Bad "allows_any impl"))
  | L [A "minv"; _] ->
    (match impl with
     | L [ea; _] -> Some (L [ea; sexp_of_opt sexp_of_version (r_min_version (some_range_of ea))])
     | _ -> raise (Bad "minv impl"))
  | L [A (("maxsat" | "minsat") as which); _; L vs] ->
    (match impl with
     | L [ea; got] ->
       let r = some_range_of ea in
       let vl = List.map version_of vs in
       let m = if which = "maxsat" then r_max_satisfying r vl else r_min_satisfying r vl in
       (* the model cannot name the index; it checks the value and that the index holds it *)
       (match m, got with
        | None, _ -> Some (L [ea; A "none"])
        | Some v, L [A "some"; A idx; gv] ->
          let i = int_of_string idx in
          let in_slice = i >= 0 && i < List.length vl && veqb_full (List.nth vl i) v in
          if in_slice && gv = sexp_of_version v then Some impl
          else Some (L [ea; L [A "some"; A "idx-of"; sexp_of_version v]])
        | Some v, _ -> Some (L [ea; L [A "some"; A "idx-of"; sexp_of_version v]]))
     | _ -> raise (Bad "maxsat impl"))
  | L [A "serde_r"; _] ->
    (* the deserialised range must be the model's parse of the model's print of the operand *)
    (match impl with
     | L [ea; _] ->
       let r = some_range_of ea in
       (match r_print r with
        | Panic -> Some (A "panic")
        | Ok s ->
          Some (L [ea; (match r_parse s with ROk r' -> L [A "some"; sexp_of_range r'] | _ -> A "none")]))
     | _ -> raise (Bad "serde_r impl"))
  | _ -> None

let () =
  let ic = if Array.length Sys.argv > 1 then open_in Sys.argv.(1) else stdin in
  let out = Buffer.create (1 lsl 16) in
  let flush_out () = print_string (Buffer.contents out); Buffer.clear out in
  (try
     while true do
       let line = input_line ic in
       if line <> "" then begin
         (match String.index_opt line '\t' with
          | None -> Buffer.add_string out "BADLINE\n"
          | Some i ->
            let cs = String.sub line 0 i and rs = String.sub line (i + 1) (String.length line - i - 1) in
            (try
               let case = parse_sexp cs and impl = parse_sexp rs in
               match spec_result case with
               | Some sp -> (Buffer.add_string out "SPEC\t"; Buffer.add_string out (sexp_to_string sp); Buffer.add_char out '\n')
               | None ->
               match model_result case impl with
               | None -> Buffer.add_string out "SKIP\n"
               | Some m ->
                 if m = impl then Buffer.add_string out "ok\n"
                 else (Buffer.add_string out "DIFF\t"; Buffer.add_string out (sexp_to_string m); Buffer.add_char out '\n')
             with
             | Bad msg -> Buffer.add_string out ("BAD\t" ^ msg ^ "\n")
             | Stack_overflow -> Buffer.add_string out "BAD\tstack overflow\n"
             | Failure msg -> Buffer.add_string out ("BAD\t" ^ msg ^ "\n")));
         if Buffer.length out > 60000 then flush_out ()
       end
     done
   with End_of_file -> ());
  flush_out ()
