use nodejs_semver::Version;
fn main(){ let t=std::fs::read_to_string("/tmp/scratch/diff/dv.txt").unwrap(); let vs:Vec<&str>=t.lines().filter(|l|!l.is_empty()).collect();
 let mut out=String::new();
 for a in &vs { for b in &vs { let x=Version::parse(a).unwrap(); let y=Version::parse(b).unwrap(); out.push_str(&format!("{} {} {}\n", a, b, x.diff(&y).map(|d| d.to_string()).unwrap_or("null".into()))); } }
 print!("{}", out); }
