use nodejs_semver::{Range, Version};
fn main() {
    let ranges = std::fs::read_to_string("/tmp/scratch/diff/ranges.txt").unwrap();
    let vers: Vec<Version> = std::fs::read_to_string("/tmp/scratch/diff/vers.txt").unwrap().lines().filter(|l| !l.is_empty()).map(|l| Version::parse(l).unwrap()).collect();
    for r in ranges.lines().filter(|l| !l.is_empty()) {
        let res = std::panic::catch_unwind(|| {
            let pr = Range::parse(r);
            let bits: String = vers.iter().map(|v| if pr.as_ref().map(|x| x.satisfies(v)).unwrap_or(false) {'1'} else {'0'}).collect();
            (pr.as_ref().ok().map(|x| x.to_string()), bits)
        });
        match res {
            Ok((p, bits)) => println!("{}", serde_json::to_string(&(r, p, bits)).unwrap()),
            Err(_) => println!("{}", serde_json::to_string(&(r, "PANIC", "")).unwrap()),
        }
    }
}
