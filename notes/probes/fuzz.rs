use nodejs_semver::{Range, Version};
struct Rng(u64);
impl Rng { fn next(&mut self)->u64{ self.0^=self.0<<13; self.0^=self.0>>7; self.0^=self.0<<17; self.0 } fn below(&mut self,n:usize)->usize{ (self.next()%(n as u64)) as usize } }
fn main(){
    std::panic::set_hook(Box::new(|_| {}));
    let toks=["0","1","2","9","900719925474099","900719925474100","18446744073709551615","99999999999999999999",".","-","+","<",">","=","<=",">=","~","~>","^","|","||"," ","  ","\t","v","V","x","X","*","a","alpha","-0","é","😀","\n","1.2.3","1.2","0.0.0","-a.1","+b"," - ","foo","\u{0141}"];
    let mut rng=Rng(0x9E3779B97F4A7C15);
    let n: usize = std::env::args().nth(1).map(|s| s.parse().unwrap()).unwrap_or(100000);
    let mut ranges: Vec<Range>=vec![Range::any()]; let mut versions: Vec<Version>=vec![];
    let mut panics=0usize; let mut okr=0; let mut okv=0;
    for _ in 0..n {
        let k=1+rng.below(8); let mut s=String::new(); for _ in 0..k { s.push_str(toks[rng.below(toks.len())]); }
        let r=std::panic::catch_unwind(|| {
            let v=Version::parse(&s); let r=Range::parse(&s);
            if let Err(e)=&v { let _=(e.input().len(), e.offset(), e.location(), e.kind().to_string(), e.to_string(), format!("{:?}", e)); let rep=miette::Report::new(e.clone()); let _=format!("{:?}", rep); }
            if let Err(e)=&r { let _=(e.input().len(), e.offset(), e.location(), e.to_string()); let rep=miette::Report::new(e.clone()); let _=format!("{:?}", rep); }
            (v.ok(), r.ok())
        });
        match r { Ok((v,r))=>{ if let Some(v)=v { okv+=1; if versions.len()<400 || rng.below(50)==0 { let i=rng.below(versions.len().max(1)); if versions.len()<400 {versions.push(v)} else {versions[i]=v} } }
                               if let Some(r)=r { okr+=1; if ranges.len()<400 || rng.below(20)==0 { let i=rng.below(ranges.len()); if ranges.len()<400 {ranges.push(r)} else {ranges[i]=r} } } }
                  Err(_)=>{ panics+=1; if panics<10 { println!("PANIC parse {:?}", s); } } }
    }
    println!("parsed versions {} ranges {} panics {}", okv, okr, panics);
    // operations on pairs, with results fed back
    let mut pool=ranges.clone(); let mut oppanics=0;
    for round in 0..3 {
        let mut newr=vec![];
        for i in 0..pool.len() { for _ in 0..6 { let j=rng.below(pool.len());
            let (a,b)=(&pool[i],&pool[j]);
            let r=std::panic::catch_unwind(|| {
                let i1=a.intersect(b); let d=a.difference(b); let _=(a.allows_all(b), a.allows_any(b), a.min_version(), a.to_string());
                let _=a.max_satisfying(&versions); let _=a.min_satisfying(&versions);
                for v in versions.iter().take(40) { let _=a.satisfies(v); let _=v.diff(&versions[0]); }
                let _=Range::parse(a.to_string());
                (i1,d) });
            match r { Ok((x,y))=>{ if let Some(x)=x { if x.to_string().len()<300 { newr.push(x);} } if let Some(y)=y { if y.to_string().len()<300 { newr.push(y);} } }
                      Err(_)=>{ oppanics+=1; if oppanics<10 { println!("PANIC op round {} {} | {}", round, a, b); } } }
        }}
        println!("round {} pool {} new {} oppanics {}", round, pool.len(), newr.len(), oppanics);
        newr.truncate(600); pool.extend(newr);
    }
}
