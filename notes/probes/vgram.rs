use nodejs_semver::Version;
use std::io::{BufRead, Write};
fn main() {
    let stdin = std::io::stdin(); let out = std::io::stdout(); let mut out = std::io::BufWriter::new(out.lock());
    for line in stdin.lock().lines() {
        let line = line.unwrap();
        let s = line.replace("\\t", "\t");
        match Version::parse(&s) {
            Ok(v) => { let p = v.to_string(); let rt = Version::parse(&p).map(|w| w == v && w.build == v.build && w.to_string()==p).unwrap_or(false);
                writeln!(out, "OK {}.{}.{} {:?} {:?} rt={}", v.major, v.minor, v.patch, v.pre_release, v.build, rt).unwrap(); }
            Err(e) => { let ok = e.input()==s && e.offset()<=s.len() && s.is_char_boundary(e.offset()); let _ = e.location(); writeln!(out, "ERR {}", ok).unwrap(); }
        }
    }
}
