use nodejs_semver::{Range, Version};
use std::io::BufRead;
fn main() {
    let stdin = std::io::stdin();
    for line in stdin.lock().lines() {
        let line = line.unwrap();
        let mut it = line.splitn(2, '\t');
        let cmd = it.next().unwrap();
        let rest = it.next().unwrap_or("");
        let r = std::panic::catch_unwind(|| match cmd {
            "v" => match Version::parse(rest) {
                Ok(v) => format!("Ok {:?} => {}", v, v),
                Err(e) => format!("Err kind={:?} input={:?} off={} ", e.kind(), e.input(), e.offset()),
            },
            "r" => match Range::parse(rest) {
                Ok(r) => format!("Ok {} :: {:?}", r, r.min_version().map(|v| v.to_string())),
                Err(e) => format!("Err kind={:?} input={:?} off={}", e.kind(), e.input(), e.offset()),
            },
            "s" => {
                let mut p = rest.splitn(2, '\t');
                let r = Range::parse(p.next().unwrap());
                let v = Version::parse(p.next().unwrap());
                match (r, v) { (Ok(r), Ok(v)) => format!("{} sat {} = {}", v, r, r.satisfies(&v)), (r, v) => format!("parse fail {:?} {:?}", r.is_ok(), v.is_ok()) }
            }
            "i" | "d" | "any" | "all" => {
                let mut p = rest.splitn(2, '\t');
                let a = Range::parse(p.next().unwrap()).unwrap();
                let b = Range::parse(p.next().unwrap()).unwrap();
                match cmd {
                    "i" => format!("{} ∩ {} = {:?}", a, b, a.intersect(&b).map(|x| x.to_string())),
                    "d" => format!("{} \\ {} = {:?}", a, b, a.difference(&b).map(|x| x.to_string())),
                    "any" => format!("{} any {} = {}", a, b, a.allows_any(&b)),
                    _ => format!("{} all {} = {}", a, b, a.allows_all(&b)),
                }
            }
            "diff" => {
                let mut p = rest.splitn(2, '\t');
                let a = Version::parse(p.next().unwrap()).unwrap();
                let b = Version::parse(p.next().unwrap()).unwrap();
                format!("{} diff {} = {:?}", a, b, a.diff(&b))
            }
            "loc" => {
                let s = rest.replace("\\n", "\n");
                match Range::parse(&s) { Ok(_) => "ok".into(), Err(e) => format!("R: {:?} input={:?} off={} loc={:?}", e.kind(), e.input(), e.offset(), e.location()) }
            }
            "vloc" => {
                let s = rest.replace("\\n", "\n");
                match Version::parse(&s) { Ok(_) => "ok".into(), Err(e) => format!("V: {:?} input={:?} off={} loc={:?} report={:?}", e.kind(), e.input(), e.offset(), e.location(), format!("{:?}", miette::Report::new(e.clone())).len()) }
            }
            _ => "?".into(),
        });
        match r { Ok(s) => println!("{:<40} {}", line.replace('\t', " | "), s), Err(_) => println!("{:<40} PANIC", line.replace('\t'," | ")) }
    }
}
