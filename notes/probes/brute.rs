use nodejs_semver::{Range, Version};
fn main() {
    let base = ["1.0.0-a", "1.0.0-a.0", "1.0.0", "1.0.1-0", "1.0.1", "2.0.0"];
    // version universe: base plus neighbours
    let uni_s = ["0.0.0-0","0.0.0","0.9.9","1.0.0-0","1.0.0-a","1.0.0-a.0","1.0.0-a.0.0","1.0.0-a.1","1.0.0-b","1.0.0","1.0.1-0","1.0.1-0.0","1.0.1-1","1.0.1","1.0.2-0","1.0.2","1.1.0","2.0.0-0","2.0.0-z","2.0.0","2.0.1-0","2.0.1","3.0.0"];
    let uni: Vec<Version> = uni_s.iter().map(|s| Version::parse(s).unwrap()).collect();
    let mut lowers: Vec<String> = vec!["".into()];
    let mut uppers: Vec<String> = vec!["".into()];
    for b in base { lowers.push(format!(">={}", b)); lowers.push(format!(">{}", b)); uppers.push(format!("<{}", b)); uppers.push(format!("<={}", b)); }
    let mut ivs: Vec<Range> = vec![Range::any()];
    for l in &lowers { for u in &uppers {
        if l.is_empty() && u.is_empty() { continue; }
        let t = format!("{} {}", l, u);
        if let Ok(r) = Range::parse(t.trim()) { ivs.push(r); }
    }}
    println!("intervals {}", ivs.len());
    let exact = |v: &Version| Range::parse(format!("{}", v)).unwrap();
    let within = |r: &Range, v: &Version| r.allows_any(&exact(v));
    let mut fails = 0usize; let mut checks = 0usize;
    macro_rules! chk { ($c:expr, $($arg:tt)*) => { checks+=1; if !($c) { fails+=1; if fails < 40 { println!($($arg)*); } } } }
    // within via allows_any(exact) must agree with bounds: sanity vs satisfies for releases
    for a in &ivs { for v in &uni { if !v.is_prerelease() { chk!(within(a,v)==a.satisfies(v), "within/sat mismatch {} {}", a, v); } } }
    for a in &ivs { for b in &ivs {
        let i = a.intersect(b); let d = a.difference(b);
        chk!(a.allows_any(b) == i.is_some(), "C09 {} | {}", a, b);
        chk!(a.allows_any(b) == b.allows_any(a), "C09sym {} | {}", a, b);
        chk!(a.allows_all(b) == b.difference(a).is_none(), "C10diff {} | {}", a, b);
        if a.allows_all(b) { chk!(a.allows_any(b), "C10any {} {}", a, b); }
        for v in &uni {
            let wa = within(a,v); let wb = within(b,v);
            let wi = i.as_ref().map(|r| within(r,v)).unwrap_or(false);
            let wd = d.as_ref().map(|r| within(r,v)).unwrap_or(false);
            chk!(wi == (wa && wb), "C07within {} ∩ {} @ {} -> {:?}", a, b, v, i.as_ref().map(|x| x.to_string()));
            chk!(wd == (wa && !wb), "C08within {} \\ {} @ {} -> {:?}", a, b, v, d.as_ref().map(|x| x.to_string()));
            if a.allows_all(b) && wb { chk!(wa, "C10subset {} {} {}", a, b, v); }
            let sa = a.satisfies(v); let sb = b.satisfies(v);
            let si = i.as_ref().map(|r| r.satisfies(v)).unwrap_or(false);
            if sa && sb { chk!(si, "C07fwd {} {} {}", a, b, v); }
            if si { chk!(wa && wb && (sa || sb), "C07bwd {} {} {}", a, b, v); }
            chk!(si == (wa && wb && (sa || sb)), "C02andpre {} {} {}", a, b, v);
            if !v.is_prerelease() { let sd = d.as_ref().map(|r| r.satisfies(v)).unwrap_or(false); chk!(sd == (sa && !sb), "C08rel {} {} {}", a, b, v); }
        }
    }}
    // C11 on single and double alternatives
    let mut rs: Vec<Range> = ivs.clone();
    for (k,a) in ivs.iter().enumerate() { for b in ivs.iter().skip(k%7).step_by(7) { rs.push(Range::parse(format!("{}||{}", a, b)).unwrap_or(a.clone())); } }
    for r in &rs {
        match r.min_version() {
            Some(m) => { chk!(r.satisfies(&m), "C11sat {} -> {}", r, m); for v in &uni { if r.satisfies(v) { chk!(m <= *v, "C11least {} -> {} but {}", r, m, v); } } }
            None => { for v in &uni { chk!(!r.satisfies(v), "C11none {} but {}", r, v); } }
        }
        // C13
        let t = r.to_string();
        match Range::parse(&t) { Ok(r2) => { for v in &uni { chk!(r2.satisfies(v)==r.satisfies(v) && within(&r2,v)==within(r,v), "C13 {} @ {}", t, v); } } Err(_) => { chk!(false, "C13 parse fail {}", t); } }
    }
    println!("checks {} fails {}", checks, fails);
}
