use nodejs_semver::{Range, Version};
use std::panic::catch_unwind;
fn r(s: &str) -> Range { Range::parse(s).unwrap() }
fn v(s: &str) -> Version { Version::parse(s).unwrap() }
fn show<T: std::fmt::Debug>(name: &str, f: impl FnOnce() -> T + std::panic::UnwindSafe) {
    match catch_unwind(f) { Ok(x) => println!("{name}: {x:?}"), Err(_) => println!("{name}: PANIC") }
}
fn main() {
    std::panic::set_hook(Box::new(|_| {}));
    show("D1a <=1.2.3 ∩ <1.2.3 sat 1.2.3", || r("<=1.2.3").intersect(&r("<1.2.3")).map(|x| x.satisfies(&v("1.2.3"))));
    show("D1b <1.2.3 ∩ <=1.2.3 sat 1.2.3", || r("<1.2.3").intersect(&r("<=1.2.3")).map(|x| x.satisfies(&v("1.2.3"))));
    show("D1c <1.2.3 allows_all <=1.2.3", || r("<1.2.3").allows_all(&r("<=1.2.3")));
    show("D1d <1.2.3 minus 1.2.3", || r("<1.2.3").difference(&r("1.2.3")).map(|x| x.to_string()));
    show("D1e prop witness", || r("2.1 - 3.0 || <2.3.2 <1.0 =3.2.1-0").difference(&r("=3.1.0-0")).map(|x| x.to_string()));
    show("D2 <1.0.0 allows_any >1.0.0", || r("<1.0.0").allows_any(&r(">1.0.0")));
    show("D3 >=1.0.0 minus (1.5.0||2.0.0) sat 1.5.0", || r(">=1.0.0").difference(&r("1.5.0 || 2.0.0")).map(|x| (x.to_string(), x.satisfies(&v("1.5.0")))));
    show("D4 '>=1.2.3 <1.0.0' sat 0.5.0", || Range::parse(">=1.2.3 <1.0.0").map(|x| (x.to_string(), x.satisfies(&v("0.5.0")))));
    show("D5a >1.x.3", || Range::parse(">1.x.3").map(|x| x.to_string()));
    show("D5b ^1.x.3", || Range::parse("^1.x.3").map(|x| x.to_string()).map_err(|e| e.to_string()));
    show("D5c >=x.1.2", || Range::parse(">=x.1.2").map(|x| x.to_string()));
    show("D5d >=1.2.x-alpha", || Range::parse(">=1.2.x-alpha").map(|x| x.to_string()));
    for s in [">x", "<x", "<=x", "=x", "^x", "~x", "1 - x", ">=x", "x - 1"] {
        show(&format!("D6 {s}"), || Range::parse(s).map(|x| x.to_string()).map_err(|e| e.to_string()));
    }
    for s in ["1.2.3.4", "1.2.3 foo", "1.2.3-", "1.2.3+", "1.2.3-a..b", "1.2.3-Ł", "1.2.3alpha", "1.2.3 "] {
        show(&format!("D7/8 vparse {s:?}"), || Version::parse(s).map(|x| format!("{x:?}")).map_err(|e| e.to_string()));
    }
    show("D9 1.2.900719925474100", || Version::parse("1.2.900719925474100").map_err(|e| (e.input().to_string(), e.offset(), e.kind().clone())));
    show("D9 range err 'foo'", || Range::parse("foo").map_err(|e| (e.input().to_string(), e.offset(), e.kind().clone(), e.location())));
    show("D9 range err '  foo bar'", || Range::parse("  foo bar").map_err(|e| (e.input().to_string(), e.offset(), e.kind().clone(), e.location())));
    let long = format!("{}é", "1".repeat(255));
    show("D10 long multibyte location", || Version::parse(&long).map_err(|e| (e.offset(), e.location())));
    show("D11a >1.0.0 <1.0.1 min", || r(">1.0.0 <1.0.1").min_version().map(|x| x.to_string()));
    show("D11b <0.0.0-0 || >=2.0.0 min", || r("<0.0.0-0 || >=2.0.0").min_version().map(|x| x.to_string()));
    show("D11c >1.0.0 <1.0.1-5 min", || r(">1.0.0 <1.0.1-5").min_version().map(|x| x.to_string()));
    show("D12 <1 >=1.0.0-alpha sat 1.0.0-beta", || r("<1 >=1.0.0-alpha").satisfies(&v("1.0.0-beta")));
    show("D13 ^0 <0.0.0-5 sat 0.0.0-0", || r("^0 <0.0.0-5").satisfies(&v("0.0.0-0")));
    show("D14 '1.2.3 ||' sat 2.0.0", || r("1.2.3 ||").satisfies(&v("2.0.0")));
    show("D17 >900719925474099", || { let x = r(">900719925474099"); (x.to_string(), Range::parse(x.to_string()).map_err(|e| e.to_string())) });
}
