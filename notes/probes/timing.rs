use nodejs_semver::Range;
use std::time::Instant;
fn main(){
    let shapes: Vec<(&str, Box<dyn Fn(usize)->String>)> = vec![
        ("blanks", Box::new(|n| " ".repeat(n))),
        ("ors", Box::new(|n| "||".repeat(n/2))),
        ("hyph", Box::new(|n| "1 - 1x ".repeat(n/7))),
        ("longtok", Box::new(|n| "a".repeat(n))),
        ("alts", Box::new(|n| "1.2.3||".repeat(n/7))),
        ("conj", Box::new(|n| ">=1.2.3 ".repeat(n/8))),
        ("digits", Box::new(|n| "1".repeat(n))),
        ("dots", Box::new(|n| "1.".repeat(n/2))),
        ("ops", Box::new(|n| ">".repeat(n))),
        ("pipes", Box::new(|n| "|".repeat(n))),
        ("tildes", Box::new(|n| "~ ".repeat(n/2))),
    ];
    for (name,f) in &shapes {
        let mut prev=0f64; let mut line=format!("{:8}", name);
        for n in [10_000usize, 100_000, 1_000_000] {
            let s=f(n); let t=Instant::now(); let r=Range::parse(&s); let dt=t.elapsed().as_secs_f64();
            line.push_str(&format!(" n={} {:.4}s ok={} ratio={:.1}", n, dt, r.is_ok(), if prev>0.0 {dt/prev} else {0.0})); prev=dt;
        }
        println!("{}", line);
    }
}
