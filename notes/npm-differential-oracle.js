const semver = require('/root/.nvm/versions/node/v20.20.2/lib/node_modules/npm/node_modules/semver');
const fs=require('fs');
const ranges=fs.readFileSync('ranges.txt','utf8').split('\n').filter(x=>x.length);
const vers=fs.readFileSync('vers.txt','utf8').split('\n').filter(x=>x.length);
for (const r of ranges){
  let R=null; try{ R=new semver.Range(r,{loose:true}); }catch(e){}
  let bits='';
  for(const v of vers){ bits += (R && R.test(new semver.SemVer(v,{loose:true})))?'1':'0'; }
  console.log(JSON.stringify([r, R?R.range:null, bits]));
}
