# Executable reading of DESIGN.md Appendix A (npm documented desugaring)
import itertools, random, sys, json, functools
MAXI=900719925474099
def idkey(x):
    return (0,int(x),'') if x.isdigit() else (1,0,x)
def vkey(v):  # v=(M,m,p,tag tuple)
    M,m,p,t=v
    return (M,m,p, 1 if not t else 0, tuple(idkey(x) for x in t))
def vcmp(a,b):
    ka,kb=vkey(a),vkey(b)
    return (ka>kb)-(ka<kb)
def parse_tag(t): return tuple(t.split('.')) if t else ()
# partial: (xs, tag) xs list of 'x' or int, len 1..3 ; tag only if 3 numbers
def norm(xs):
    out=[]; seen=False
    for c in xs:
        if c=='x': seen=True
        out.append('x' if seen else c)
    return out
def desugar(form, part):
    xs,tag=part; xs=norm(xs)+['x']*(3-len(xs)); M,m,p=xs
    if p=='x': tag=()
    ANY=[('>=',(0,0,0,()))]; NONE=[('<',(0,0,0,('0',)))]
    Z=('0',)
    if form in ('bare','='):
        if M=='x': return ANY
        if m=='x': return [('>=',(M,0,0,())),('<',(M+1,0,0,Z))]
        if p=='x': return [('>=',(M,m,0,())),('<',(M,m+1,0,Z))]
        return [('=',(M,m,p,tag))]
    if form=='>':
        if M=='x': return NONE
        if m=='x': return [('>=',(M+1,0,0,()))]
        if p=='x': return [('>=',(M,m+1,0,()))]
        return [('>',(M,m,p,tag))]
    if form=='>=':
        if M=='x': return ANY
        if m=='x': return [('>=',(M,0,0,()))]
        if p=='x': return [('>=',(M,m,0,()))]
        return [('>=',(M,m,p,tag))]
    if form=='<':
        if M=='x': return NONE
        if m=='x': return [('<',(M,0,0,Z))]
        if p=='x': return [('<',(M,m,0,Z))]
        return [('<',(M,m,p,tag))]
    if form=='<=':
        if M=='x': return ANY
        if m=='x': return [('<',(M+1,0,0,Z))]
        if p=='x': return [('<',(M,m+1,0,Z))]
        return [('<=',(M,m,p,tag))]
    if form in ('~','~>'):
        if M=='x': return ANY
        if m=='x': return [('>=',(M,0,0,())),('<',(M+1,0,0,Z))]
        if p=='x': return [('>=',(M,m,0,())),('<',(M,m+1,0,Z))]
        return [('>=',(M,m,p,tag)),('<',(M,m+1,0,Z))]
    if form=='^':
        if M=='x': return ANY
        if m=='x': return [('>=',(M,0,0,())),('<',(M+1,0,0,Z))]
        if p=='x':
            return [('>=',(M,m,0,())),('<',(M,m+1,0,Z) if M==0 else (M+1,0,0,Z))]
        if M>0: up=(M+1,0,0,Z)
        elif m>0: up=(0,m+1,0,Z)
        else: up=(0,0,p+1,Z)
        return [('>=',(M,m,p,tag)),('<',up)]
    raise Exception(form)
def hyphen(a,b):
    xs,tag=a; xs=norm(xs)+['x']*(3-len(xs)); M,m,p=xs
    if M=='x': lo=[('>=',(0,0,0,()))]
    elif m=='x': lo=[('>=',(M,0,0,()))]
    elif p=='x': lo=[('>=',(M,m,0,()))]
    else: lo=[('>=',(M,m,p,tag))]
    xs,tag=b; xs=norm(xs)+['x']*(3-len(xs)); M,m,p=xs
    Z=('0',)
    if M=='x': hi=[]
    elif m=='x': hi=[('<',(M+1,0,0,Z))]
    elif p=='x': hi=[('<',(M,m+1,0,Z))]
    else: hi=[('<=',(M,m,p,tag))]
    return lo+hi
def holds(c,v):
    op,w=c; k=vcmp(v,w)
    return {'=':k==0,'>':k>0,'>=':k>=0,'<':k<0,'<=':k<=0}[op]
def admits_set(cs,v):
    if not all(holds(c,v) for c in cs): return False
    if v[3]:
        return any(c[1][3] and c[1][:3]==v[:3] for c in cs)
    return True
# rendering
def rpart(part):
    xs,tag=part
    s='.'.join(str(c) for c in xs)
    if tag: s+='-'+'.'.join(tag)
    return s
def rcomp(c):
    if c[0]=='garbage': return c[1]
    form,part=c
    return ('' if form=='bare' else form)+rpart(part)
def ralt(a):
    if a[0]=='hyphen': return rpart(a[1])+' - '+rpart(a[2])
    return ' '.join(rcomp(c) for c in a[1])
def alt_admits(a,v):
    if a[0]=='hyphen': return admits_set(hyphen(a[1],a[2]),v)
    cs=[c for c in a[1] if c[0]!='garbage']
    if not cs: return False
    return admits_set([d for c in cs for d in desugar(*c)],v)
if __name__=='__main__':
    random.seed(int(sys.argv[1])); NP=int(sys.argv[2])
    nums=[0,1,2]; tags=[(),('0',),('a',),('a','1')]
    parts=[]
    for k in (1,2,3):
        for xs in itertools.product(['x']+nums,repeat=k):
            if k==3 and all(c!='x' for c in xs):
                for t in tags: parts.append((list(xs),t))
            else: parts.append((list(xs),()))
    forms=['bare','=','>','>=','<','<=','~','~>','^']
    singles=[(f,p) for f in forms for p in parts]
    alts=[('set',[c]) for c in singles]
    for _ in range(NP):
        k=random.choice([2,2,2,3])
        cs=[random.choice(singles) for _ in range(k)]
        if random.random()<0.1: cs.insert(random.randrange(len(cs)+1),('garbage',random.choice(['foo','1.2.3.4','~1.y'])))
        alts.append(('set',cs))
    for _ in range(NP//3):
        alts.append(('hyphen',random.choice(parts),random.choice(parts)))
    ranges=[[a] for a in alts]
    for _ in range(NP//3):
        ranges.append([random.choice(alts),random.choice(alts)])
    vers=[(a,b,c,t) for a in range(4) for b in range(4) for c in range(4) for t in [(),('0',),('a',),('a','0'),('a','1'),('b',)]]
    vers.append((MAXI,MAXI,MAXI,()))
    with open('ranges.txt','w') as f:
        for r in ranges: f.write(' || '.join(ralt(a) for a in r)+'\n')
    with open('vers.txt','w') as f:
        for v in vers: f.write(f"{v[0]}.{v[1]}.{v[2]}"+('-'+'.'.join(v[3]) if v[3] else '')+'\n')
    with open('spec.out','w') as f:
        for r in ranges:
            bits=''.join('1' if any(alt_admits(a,v) for a in r) else '0' for v in vers)
            f.write(json.dumps([' || '.join(ralt(a) for a in r),bits])+'\n')
    print(len(ranges),len(vers))
