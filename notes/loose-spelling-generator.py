import random, sys, json
sys.path.insert(0,'.')
import spec, itertools
random.seed(11)
nums=[0,1,2,10]; tags=[(),('0',),('a',),('a','1'),('rc-1',)]
parts=[]
for k in (1,2,3):
    for xs in itertools.product(['x']+nums,repeat=k):
        if k==3 and all(c!='x' for c in xs):
            for t in tags: parts.append((list(xs),t))
        else: parts.append((list(xs),()))
forms=['bare','=','>','>=','<','<=','~','~>','^']
def lpart(part):
    xs,tag=part
    def comp(c):
        if c=='x': return random.choice(['x','X','*'])
        return '0'*random.choice([0,0,0,1,2])+str(c)
    s='.'.join(comp(c) for c in xs)
    if tag:
        hy = '' if (tag[0][0].isalpha() and random.random()<0.4) else '-'
        s+=hy+'.'.join(tag)
    if len(xs)==3 and all(c!='x' for c in xs) and random.random()<0.15: s+='+b.7'
    if random.random()<0.25: s='v'+' '*random.choice([0,0,1,2])+s
    elif random.random()<0.1: s=' '*0+s
    return s
def lcomp(c):
    if c[0]=='garbage': return c[1]
    form,part=c
    sp=lambda: ' '*random.choice([0,0,1,3])
    if form=='bare': return lpart(part)
    if form in ('~','~>'):
        t='~'+(sp()+'>' if form=='~>' else '')
        return t+sp()+lpart(part)
    return form+sp()+lpart(part)
def lalt(a):
    if a[0]=='hyphen': return lpart(a[1])+' '*random.choice([1,2])+'-'+' '*random.choice([1,3])+lpart(a[2])
    return (' '*random.choice([1,1,2,4])).join(lcomp(c) for c in a[1])
singles=[(f,p) for f in forms for p in parts]
alts=[('set',[c]) for c in singles]
for _ in range(20000):
    cs=[random.choice(singles) for _ in range(random.choice([2,2,3]))]
    if random.random()<0.15: cs.insert(random.randrange(len(cs)+1),('garbage',random.choice(['foo','latest','beta4','foo.bar','a-b'])))
    alts.append(('set',cs))
for _ in range(8000): alts.append(('hyphen',random.choice(parts),random.choice(parts)))
ranges=[[a] for a in alts]+[[random.choice(alts),random.choice(alts)] for _ in range(8000)]
canon=[]; loose=[]
for r in ranges:
    canon.append(' || '.join(spec.ralt(a) for a in r))
    loose.append((' '*random.choice([0,1,2])+'||'+' '*random.choice([0,1,2])).join(lalt(a) for a in r))
open('ranges.txt','w').write('\n'.join(canon+loose)+'\n')
open('vers.txt','w').write('1.0.0\n')
print(len(canon))
