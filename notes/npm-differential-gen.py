import random, sys
random.seed(int(sys.argv[1])); N=int(sys.argv[2])
nums=['0','1','2']
pres=['0','1','alpha','beta','alpha.1','0.0']
def xr():
    return random.choice(['x','X','*']) if random.random()<0.2 else random.choice(nums)
def partial():
    k=random.choice([1,2,3,3,3,3])
    parts=[xr() for _ in range(k)]
    # keep x only trailing most of the time
    s='.'.join(parts)
    if k==3 and all(p.isdigit() for p in parts):
        if random.random()<0.5:
            t=random.choice(pres)
            s+= ('' if (random.random()<0.1 and t[0].isalpha()) else '-')+t
        if random.random()<0.1: s+='+b.1'
    if random.random()<0.05: s='v'+s
    if random.random()<0.05: s='0'+s
    return s
def comp():
    r=random.random()
    if r<0.5:
        op=random.choice(['<','<=','>','>=','='])
        return op+(' ' if random.random()<0.1 else '')+partial()
    if r<0.65: return partial()
    if r<0.8: return random.choice(['~','~>'])+partial()
    if r<0.95: return '^'+partial()
    return random.choice(['foo','1.2.3.4','~1.y','1.2beta'])
def alt():
    if random.random()<0.15: return partial()+' - '+partial()
    return ' '.join(comp() for _ in range(random.choice([1,2,2,3])))
def rng(): return ' || '.join(alt() for _ in range(random.choice([1,1,1,2])))
seen=set()
while len(seen)<N: seen.add(rng())
for s in sorted(seen): print(s)
