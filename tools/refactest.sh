#!/bin/bash
# usage: refactest.sh <patch.diff> [<ID> ...]  -- apply a behaviour-preserving refactoring to /repo, run the quick checks (all by default), undo it.
# Every VIOLATION here is a false alarm (or a no-failing-input-found report, which the rules allow but which we try to avoid).
set -u
patch=$1; shift
ids=${@:-C01 C02 C03 C04 C05 C06 C07 C08 C09 C10 C11 C12 C13 C14 C15 C16 C17 C18}
rm -rf /verif/build/evidence.keep; cp -r /verif/evidence /verif/build/evidence.keep
if [ -n "${SEED_PRIVATE:-}" ]; then
  # /repo is being read by a long background check: run against a private copy of /repo with the change applied instead
  priv=/tmp/refacrepo-$$; rm -rf $priv; mkdir -p $priv
  rsync -a --exclude target --exclude .git /repo/ $priv/
  ( cd $priv && patch -p1 -s < "$patch" ) || { echo "patch does not apply to the copy of /repo"; exit 2; }
  export VERIF_REPO=$priv
else
  cd /repo && git status --porcelain | grep -v '^??' | grep . && { echo "repo not clean"; exit 2; }
  git -C /repo apply "$patch" || { echo "patch does not apply"; exit 2; }
fi
for id in $ids; do
  ( cd /verif && timeout 1800 python3 tools/check.py "$id" 2>&1 | grep -E "VIOLATION|^C[0-9]+ " | cut -c1-220 )
  for n in 1 2 3; do f=/verif/evidence/replay/$id-$n.json; [ -f $f ] && python3 -c "
import json; r=json.load(open('$f')); print('     ', r.get('what','')[:400].replace('\n',' '))"; done
  python3 -c "
import json
e=json.load(open('/verif/evidence/$id.json')); st=e['coverage'].get('source_tables',{})
bad={k:(v.get('status'), v.get('proof','')[:30], v.get('reason','')[:80]) for k,v in st.items() if v.get('status')!='ok' or 'generic' in v.get('proof','')}
if bad: print('      translators:', bad)"
done
if [ -n "${SEED_PRIVATE:-}" ]; then rm -rf $priv /verif/build/harness-alt; else git -C /repo checkout -- .; fi
rm -rf /verif/evidence; mv /verif/build/evidence.keep /verif/evidence
