"""Families and evaluators for satisfaction-level properties: C03 (prerelease gate), C14
(max/min_satisfying), and the shared machinery used by C01/C02 (range texts with syntax trees)."""
from lib import *
import rangegen as RG

def probes_for(trees, extra=()):
    vs = []
    for r in trees: vs += RG.tree_versions(r)
    return probe_versions(list(dict.fromkeys(vs)) + list(extra))

def written_tag_on(a, v):
    """does alternative `a` contain a comparator written with a prerelease tag on v's major.minor.patch?"""
    ps = [a[1], a[2]] if a[0] == 'hyphen' else [c[1] for c in a[1] if c[0] != 'garbage']
    for (xs, tag, _b) in ps:
        if tag and len(xs) == 3 and all(c != 'x' for c in xs) and tuple(xs) == v[:3]: return True
    return False

# ------------------------------------------------------------------ C03
def gen_gate(tier, rng):
    nums = [0, 1, 2] + HV.nums(1)
    singles = [('set', [(f, p)]) for f in RG.FORMS for p in RG.all_partials(nums)]
    alts = list(singles)
    # the same-tuple test of the gate at every power of two (a tagged comparator on x.x.x / 0.0.x / x.0.0)
    for x in power_values():
        for xs in ([x, x, x], [0, 0, x], [x, 0, 0]):
            alts += [('set', [(f, (xs, ('a',), ()))]) for f in ('>=', '<', '^', 'bare')]
    n = 1500 if tier == 'quick' else 30000
    for _ in range(n):
        alts.append(RG.random_alt(rng, nums + [3], garbage=0.05))
    # conjunctions built to exercise opt-in through either side and its survival under intersection
    tagged = [p for p in RG.all_partials(nums) if p[1]]
    for _ in range(n // 3):
        p = rng.choice(tagged); q = rng.choice(RG.all_partials(nums))
        alts.append(('set', [(rng.choice(['>=', '>', '<', '<=', '=', '^', '~', 'bare']), p), (rng.choice(RG.FORMS), q)]))
        alts.append(('hyphen', rng.choice([p, q]), rng.choice([p, q])))
    multi = [[rng.choice(alts) for _ in range(rng.choice([2, 3]))] for _ in range(n // 5)]
    trees = [[a] for a in alts] + multi
    # probes: the versions around every number and tag that occurs in the tree itself
    cases = []; meta_trees = {}; nprobes = 0
    sp = RG.Spelling()
    for r in trees:
        t = RG.render(r, sp)
        if t in meta_trees: continue
        meta_trees[t] = r
        probes = probes_for([r]); nprobes += len(probes)
        pv = [enc_version(v) for v in probes]
        e = E_parse(t)
        cases.append(dump(['sat', e, pv])); cases.append(dump(['within', e, pv]))
        if len(meta_trees) % 5 == 0:
            # the same probes with build metadata, and the same tree with build metadata on every full partial
            cases.append(dump(['sat', e, [enc_version(v[:4] + (('b', 7),)) for v in probes]]))
            rb = with_builds(r)
            tb = RG.render(rb, sp)
            if tb != t and tb not in meta_trees:
                cases.append(dump(['sat', E_parse(tb), pv]))
                meta_trees[tb] = rb
    # Range::any() -- the one range no text parses to (both bounds unbounded): no comparator is tagged, so it admits every release and no prerelease
    any_probes = [V(0, 0, 0), V(0, 0, 0, (0,)), V(1, 2, 3), V(1, 2, 3, ('alpha',)), V(2, 0, 0, ('rc', 1), ('build', 5)), V(MAX, MAX, MAX), V(MAX, MAX, MAX, ('a',)), V(1, 0, 0, (), ('b',))]
    cases.append(dump(['sat', ['any'], [enc_version(v) for v in any_probes]])); cases.append(dump(['within', ['any'], [enc_version(v) for v in any_probes]]))
    gen_gate.any_probes = any_probes
    gen_gate.trees = meta_trees
    probes = range(nprobes // max(1, len(meta_trees)))
    return cases, {'exhaustive': True, 'single_comparators': len(singles), 'random_alternatives': n, 'multi_alternative': len(multi),
                   'mean_probe_versions_per_range': len(probes),
                   'what': 'every single comparator (9 forms x every partial shape over {x,0,1,2} x 6 tags) plus %d random comparator sets / hyphen ranges and %d multi-alternative ranges, '
                           'each evaluated on the ~%d versions induced by its own numbers and tags (same tuple / neighbouring tuple / other tuple; tags before, between and after the comparator tags), with and without build metadata on either side'
                           % (n, len(multi), len(probes))}

def with_builds(r):
    out = []
    for a in r:
        def pb(p):
            xs, tag, b = p
            return (xs, tag, ('b7', '1')) if len(xs) == 3 and all(c != 'x' for c in xs) else p
        if a[0] == 'hyphen': out.append(('hyphen', pb(a[1]), pb(a[2])))
        else: out.append(('set', [c if c[0] == 'garbage' else (c[0], pb(c[1])) for c in a[1]]))
    return out
def strip_builds(r):
    out = []
    for a in r:
        def pb(p): return (p[0], p[1], ())
        if a[0] == 'hyphen': out.append(('hyphen', pb(a[1]), pb(a[2])))
        else: out.append(('set', [c if c[0] == 'garbage' else (c[0], pb(c[1])) for c in a[1]]))
    return out

def read_membership(triples):
    sat = {}; within = {}; struct = {}; case_of = {}
    for c, o, v in triples:
        pc = parse(c)
        if pc[0] not in ('sat', 'within'): continue
        text = str(pc[1][1]) if pc[1][0] == 'parse' else dump(pc[1])
        vs = [dec_version(x) for x in pc[2]]
        tbl = sat if pc[0] == 'sat' else within
        case_of.setdefault((pc[0], text), c)
        if o in ('panic', '(inconsistent)'):
            tbl[text] = o; continue
        po = parse(o)
        d = tbl.setdefault(text, {})
        if not isinstance(d, dict): continue
        if po == ['none']:
            struct[text] = None
            d.update({x: False for x in vs})
        else:
            struct[text] = dec_some_range(po[0])
            d.update({x: (b == 'true') for x, b in zip(vs, po[1])})
    return sat, within, struct, case_of

def eval_gate(triples, tier, rng):
    import families as F
    sat, within, struct, case_of = read_membership(triples)
    trees = gen_gate.trees
    fails = []; nontrivial = 0; certs = []
    dist = {'ranges': 0, 'unparseable': 0, 'tagged_admitted': 0, 'tagged_within_but_gated_out': 0, 'release_checks': 0, 'build_variants': 0}
    def add(what, kind, text, v, which='sat'):
        fails.append({'what': what, 'case': dump([which, E_parse(text), [enc_version(v)]]), 'input': [text, vtext(v)], 'kind': kind})
    for text, r in trees.items():
        s = sat.get(text); w = within.get(text)
        if s is None: continue
        dist['ranges'] += 1
        if not isinstance(s, dict) or (w is not None and not isinstance(w, dict)):
            fails.append({'what': 'satisfies/allows_any panicked or Version::satisfies disagreed with Range::satisfies on `%s`' % text,
                          'case': case_of[('sat', text)], 'input': [text], 'kind': 'gate-panic'}); continue
        st = struct.get(text)
        if st is None: dist['unparseable'] += 1; continue
        if w is None: w = {v: py_r_within(st, v) for v in s}
        hit = False
        for v in s:
            base = v[:4] + ((),)
            if v[4]:
                # build metadata on the version never changes the answer
                if base in s and s[base] != s[v]:
                    add('build metadata on the version changes the answer: `%s` satisfied by %s: %s, by %s: %s' % (text, vtext(base), s[base], vtext(v), s[v]), 'gate-build-v', text, v)
                dist['build_variants'] += 1
                continue
            if v not in w: continue
            if not v[3]:
                dist['release_checks'] += 1
                if s[v] != w[v]:
                    add('release %s: satisfies `%s` = %s but lies within its bounds = %s (the gate must not affect releases)' % (vtext(v), text, s[v], w[v]), 'gate-release', text, v)
                continue
            # prerelease: the data-level gate on the parsed structure ...
            want = py_r_sat(st, v)
            if s[v] != want:
                add('prerelease %s: satisfies `%s` = %s but (within an alternative whose lower or upper bound is a prerelease of the same major.minor.patch) = %s'
                    % (vtext(v), text, s[v], want), 'gate-struct', text, v)
            # ... and the text-level reading for a single alternative
            if len(r) == 1:
                wt = written_tag_on(r[0], v)
                if s[v] and not wt:
                    add('prerelease %s satisfies `%s` although no comparator of it carries a prerelease tag on %d.%d.%d' % ((vtext(v), text) + v[:3]), 'gate-unwritten', text, v)
                if w[v] and wt and not s[v]:
                    add('prerelease %s lies within the bounds of `%s`, which has a prerelease comparator on the same tuple, but does not satisfy it' % (vtext(v), text), 'gate-written', text, v)
            if s[v]: dist['tagged_admitted'] += 1; hit = True
            elif w[v]: dist['tagged_within_but_gated_out'] += 1; hit = True
        if hit: nontrivial += 1
        # build metadata on the range side
        rs = strip_builds(r)
        if rs != r:
            t0 = RG.render(rs)
            s0 = sat.get(t0)
            if isinstance(s0, dict):
                for v in s:
                    if v in s0 and s0[v] != s[v]:
                        add('build metadata on a comparator changes the answer: %s satisfies `%s`: %s, `%s`: %s' % (vtext(v), text, s[v], t0, s0[v]), 'gate-build-r', text, v); break
        if len(certs) < 3000 and rng.random() < 0.15:
            vs = [v for v in s if v[3] and not v[4]][:6]
            if vs:
                certs.append('map (r_satisfies %s) [%s] = [%s]' % (F.g_range(st), ';'.join(F.g_version(v) for v in vs), ';'.join(F.g_bool(s[v]) for v in vs)))
    for c, o, v_ in triples:
        pc = parse(c)
        if pc[0] == 'sat' and pc[1] == ['any'] and o not in ('panic', '(inconsistent)'):
            po = parse(o)
            for ver, b in zip(gen_gate.any_probes, po[1]):
                if (b == 'true') != (not ver[3]):
                    fails.append({'what': 'Range::any() %s %s: it has no tagged comparator, so it admits every release and no prerelease' % ('admits' if b == 'true' else 'rejects', vtext(ver)),
                                  'case': dump(['sat', ['any'], [enc_version(ver)]]), 'input': ['Range::any()', vtext(ver)], 'kind': 'gate-any'})
    return {'failures': fails, 'nontrivial': nontrivial, 'distribution': dist, 'certs': certs}

# ------------------------------------------------------------------ C14
def gen_extreme(tier, rng):
    nums = [0, 1, 2, 3] + HV.nums(3)
    n = 1500 if tier == 'quick' else 40000
    cases = []; lists = 0
    pool_tags = [(), (), (), (0,), ('a',), ('a', 1), ('rc', 2), ('beta',)]
    for _ in range(n):
        r = RG.random_range(rng, nums, garbage=0.03)
        t = RG.render(r)
        around = RG.tree_versions(r)
        l = []
        for _ in range(rng.randint(0, 9)):
            k = rng.random()
            if k < 0.5 and around:
                b = rng.choice(around); v = V(b[0], b[1], b[2], rng.choice(pool_tags + [b[3]]), rng.choice(BUILDS))
            else:
                v = V(rng.choice(nums), rng.choice(nums), rng.choice(nums), rng.choice(pool_tags), rng.choice(BUILDS))
            l.append(v)
            if rng.random() < 0.2: l.append(V(v[0], v[1], v[2], v[3], rng.choice(BUILDS)))     # duplicate up to build metadata
            if v[3] and rng.random() < 0.6:
                # several prereleases of one tuple, and its release: the extreme must be chosen by the tag
                l.append(V(v[0], v[1], v[2], rng.choice(pool_tags[3:]), rng.choice(BUILDS)))
                if rng.random() < 0.5: l.append(V(v[0], v[1], v[2], (), rng.choice(BUILDS)))
        rng.shuffle(l)
        if False:
            pass
        ev = [enc_version(v) for v in l]
        e = E_parse(t)
        lists += 1
        for perm in (ev, rng.sample(ev, len(ev))):
            cases.append(dump(['maxsat', e, perm])); cases.append(dump(['minsat', e, perm]))
        cases.append(dump(['sat', e, ev]))
    # long lists: SIZES elements, the extreme tuples present as release AND as admitted prerelease, the release placed before its prerelease,
    # in the given order, reversed and shuffled
    nlong = 0
    for nn in SIZES:
        core = [V(1, 9, 0), V(1, 2, 3)] + [V(1, 3 + (i % 5), i) for i in range(nn - 4)] + [V(1, 2, 3, ('beta', 2)), V(1, 9, 0, ('rc', 1))]
        for t in ('>=1.2.3-beta.1 <=1.9.0 || >=1.9.0-rc.0 <2.0.0', '>=1.2.3-beta.1 <2.0.0', '*', '^1.2.3-beta.1 || 1.9.0-rc.1'):
            e = E_parse(t)
            for l in (core, core[::-1], rng.sample(core, len(core))):
                ev = [enc_version(v) for v in l]; nlong += 1
                cases.append(dump(['maxsat', e, ev])); cases.append(dump(['minsat', e, ev])); cases.append(dump(['sat', e, ev]))
    return cases, {'random_ranges_with_lists': lists, 'long_lists': nlong,
                   'what': '%d random ranges, each with a list of 0-9 versions drawn around its bounds (unsorted, duplicates up to build metadata, prereleases above the highest satisfying release), '
                           'max_satisfying and min_satisfying on the list and on a random permutation of it, satisfies on every element' % lists}

def eval_extreme(triples, tier, rng):
    import families as F
    fails = []; nontrivial = 0; certs = []
    dist = {'calls': 0, 'none': 0, 'some': 0, 'range_unparseable': 0, 'ties_up_to_build': 0}
    satmap = {}
    for c, o, v in triples:
        pc = parse(c)
        if pc[0] == 'sat' and o not in ('panic', '(inconsistent)'):
            po = parse(o)
            if po != ['none']:
                ent = satmap.setdefault(dump(pc[1]), ({}, dec_some_range(po[0])))
                ent[0].update({dec_version(x): (b == 'true') for x, b in zip(pc[2], po[1])})
    results = {}
    for c, o, v in triples:
        pc = parse(c)
        if pc[0] not in ('maxsat', 'minsat'): continue
        dist['calls'] += 1
        key = dump(pc[1]); l = [dec_version(x) for x in pc[2]]
        text = str(pc[1][1])
        if o == 'panic':
            fails.append({'what': '%s panicked on `%s`' % (pc[0], text), 'case': c, 'input': [text] + [vtext(x) for x in l], 'kind': 'extreme-panic'}); continue
        po = parse(o)
        if po == ['none']: dist['range_unparseable'] += 1; continue
        if key not in satmap: continue
        sat, st = satmap[key]
        got = po[1]
        sign = 1 if pc[0] == 'maxsat' else -1
        name = 'max_satisfying' if sign > 0 else 'min_satisfying'
        good = [x for x in l if sat.get(x)]
        def bad(msg, kind): fails.append({'what': '%s(`%s`, [%s]): %s' % (name, text, ', '.join(vtext(x) for x in l), msg), 'case': c,
                                          'input': [text] + [vtext(x) for x in l], 'kind': kind})
        if got == 'none':
            dist['none'] += 1
            if good: bad('returned None although %s satisfies the range' % vtext(good[0]), 'extreme-none')
        else:
            dist['some'] += 1
            idx = int(got[1]); m = dec_version(got[2])
            if idx < 0 or idx >= len(l): bad('the returned reference does not point into the slice', 'extreme-ref')
            elif l[idx] != m: bad('the returned reference (index %d) does not hold the returned value %s' % (idx, vtext(m)), 'extreme-ref')
            elif not sat.get(m): bad('returned %s, which does not satisfy the range' % vtext(m), 'extreme-unsat')
            else:
                worse = [x for x in good if py_vcmp(x, m) * sign > 0]
                if worse: bad('returned %s although %s also satisfies and is %s' % (vtext(m), vtext(worse[0]), 'higher' if sign > 0 else 'lower'), 'extreme-order')
            if len(good) >= 2: nontrivial += 1
            if len([x for x in good if py_vcmp(x, m) == 0]) > 1: dist['ties_up_to_build'] += 1
            results.setdefault((pc[0], key, tuple(sorted(map(repr, l)))), []).append((m, c))
        if st and len(certs) < 3000 and rng.random() < 0.2 and len(l) <= 6:
            g = 'None' if got == 'none' else 'Some %s' % F.g_version(dec_version(got[2]))
            certs.append('%s %s [%s] = %s' % ('r_max_satisfying' if sign > 0 else 'r_min_satisfying', F.g_range(st), ';'.join(F.g_version(x) for x in l), g))
    for (which, key, _), ms in results.items():
        if len(ms) > 1 and any(py_vcmp(ms[0][0], m) != 0 for m, _ in ms[1:]):
            fails.append({'what': '%s depends on the order of the slice beyond precedence-equal elements: %s vs %s' % (which, vtext(ms[0][0]), vtext(ms[1][0])),
                          'case': ms[1][1], 'input': [key], 'kind': 'extreme-perm'})
    return {'failures': fails, 'nontrivial': nontrivial, 'distribution': dist, 'certs': certs}
