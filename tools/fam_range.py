"""Families and evaluators for the text-level range properties: C01 (npm semantics), C02 (space = and,
|| = or), C13 (print / parse round trip)."""
import itertools
from lib import *
import rangegen as RG
import fam_sets
from fam_sat import probes_for, read_membership

# ------------------------------------------------------------------ known departures, mirrored from Spec/NpmRange.v
def d12(alt, v):
    if alt[0] != 'set' or not v[3]: return False
    for c in alt[1]:
        if c[0] == '<':
            xs = RG.norm(c[1][0]) + ['x'] * (3 - len(c[1][0]))
            if xs[0] != 'x' and xs[1] == 'x' and v[:3] == (xs[0], 0, 0): return True
    return False
def d13(alt, v):
    if alt[0] != 'set' or not v[3] or v[:3] != (0, 0, 0): return False
    for c in alt[1]:
        if c[0] == '^':
            xs = RG.norm(c[1][0]) + ['x'] * (3 - len(c[1][0]))
            if xs[0] == 0 and xs[1] == 'x': return True
    return False
def npm_admits_doc(r, v):
    """npm's documented answer (an empty alternative is `*`: the repaired defect D14)"""
    return RG.npm_admits(r, v)

# ------------------------------------------------------------------ C01
def table_sweep(tier):
    nums = ([0, 1, 2, MAX] if tier == 'quick' else [0, 1, 2, 3, MAX - 1, MAX]) + HV.nums(3)
    tags = (RG.TAGS_R if tier != 'quick' else [(), ('0',), ('a',), ('a', '1')]) + [tuple(str(i) for i in t) for t in HV.tags()[:3]]
    parts = RG.all_partials(nums, tags)
    trees = [[('set', [(f, p)])] for f in RG.FORMS for p in parts]
    # the `+ 1`s and comparisons of the tables at every power of two and its neighbours
    for x in power_values():
        for xs in ([x], [x, x], [0, x], [x, x, x], [0, 0, x], [x, 0, 0]):
            trees += [[('set', [(f, (xs, (), ()))])] for f in RG.FORMS]
    return trees, parts

def gen_npm(tier, rng):
    trees, parts = table_sweep(tier)
    nsingle = len(trees)
    small = [p for p in parts if all(c == 'x' or c <= 2 for c in p[0])]
    # hyphen ranges
    nh = 1500 if tier == 'quick' else 20000
    for _ in range(nh):
        trees.append([('hyphen', rng.choice(small), rng.choice(small))])
    # conjunctions, with garbage tokens
    nc = 4000 if tier == 'quick' else 60000
    for _ in range(nc):
        k = rng.choice([2, 2, 2, 3])
        cs = [(rng.choice(RG.FORMS), rng.choice(small)) for _ in range(k)]
        if rng.random() < 0.12: cs.insert(rng.randrange(len(cs) + 1), ('garbage', rng.choice(RG.GARBAGE)))
        trees.append([('set', cs)])
    # alternatives, some unsatisfiable, garbage-only or empty
    na = 1500 if tier == 'quick' else 20000
    alts = [t[0] for t in trees]
    for _ in range(na):
        r = [rng.choice(alts) for _ in range(rng.choice([2, 2, 3]))]
        k = rng.random()
        if k < 0.06: r.insert(rng.randrange(len(r) + 1), ('set', [('garbage', rng.choice(RG.GARBAGE))]))
        elif k < 0.10: r.insert(rng.randrange(len(r) + 1), ('set', []))
        trees.append(r)
    # the witnesses of the recorded departures and of the repaired defects, always part of the sweep
    P = lambda xs, tag=(): (list(xs), tuple(tag), ())
    trees += [[('set', [('<', P([1])), ('>=', P([1, 0, 0], ['alpha']))])],          # D12
              [('set', [('^', P([0])), ('<', P([0, 0, 0], ['5']))])],               # D13
              [('set', [('^', P([0, 'x'])), ('>', P([0, 0, 0], ['a']))])],          # D13
              [('set', [('>=', P([1, 2, 3])), ('<', P([1, 0, 0]))])],               # D4
              [('set', [('>', P([1, 'x', 3]))])], [('set', [('>=', P(['x', 1, 2]))])],   # D5
              [('set', [('>', P(['x']))])], [('set', [('<=', P(['x']))])], [('hyphen', P([1]), P(['x']))]]   # D6
    for g in RG.GARBAGE: trees.append([('set', [('garbage', g)])])
    trees.append([('set', [])])
    cases = []; table = {}
    extra_v = [V(MAX, MAX, MAX), V(MAX, 0, 0, (0,)), V(0, MAX, MAX), V(1, MAX, MAX), V(1, 2, MAX), V(MAX, MAX, MAX, ('a',))]
    canon = RG.Spelling()
    for i, r in enumerate(trees):
        probes = probes_for([r], extra_v)
        pv = [enc_version(v) for v in probes]
        texts = [RG.render(r, canon)]
        # loose spellings of the same tree: the answer must not change
        nloose = 1 if tier == 'quick' else 3
        for _ in range(nloose):
            t = RG.render(r, RG.Spelling(rng, True))
            if t not in texts: texts.append(t)
        for t in texts:
            c = dump(['c01', S(t), RG.sx_range(r), pv])
            if c not in table:
                table[c] = (t, r, probes); cases.append(c)
    gen_npm.table = table
    return cases, {'exhaustive': True, 'single_comparators': nsingle, 'hyphen_ranges': nh, 'conjunctions': nc, 'multi_alternative': na,
                   'what': 'exhaustive table sweep: every operator/tilde/caret/bare form x every partial shape over {x,0,1,2,MAX} x tags (%d single comparators); %d hyphen ranges, %d conjunctions of 2-3 comparators '
                           '(12%% with a garbage token), %d multi-alternative ranges (some with garbage-only or empty alternatives); every tree rendered canonically and with random loose spellings '
                           '(leading zeros, v prefix, blanks after operators, ~>, x|X|*, hyphen-less letter-initial tags, 1-2 blanks/tabs between comparators, 0-1 around ||); '
                           'each evaluated on the versions induced by its own numbers and tags plus versions at MAX_SAFE_INTEGER' % (nsingle, nh, nc, na)}

def eval_npm(triples, tier, rng):
    return eval_c01(triples, tier, rng, gen_npm.table)

def eval_c01(triples, tier, rng, table):
    import families as F
    fails = []; nontrivial = 0; certs = []; excused = set()
    dist = {'texts': 0, 'parse_failed': 0, 'structure_mismatch': 0, 'admitted': 0, 'rejected': 0, 'known_class_pairs': 0, 'loose_spellings': 0, 'spec_vs_python_disagreements': 0}
    for c, o, ver in triples:
        if c not in table: continue
        text, r, probes = table[c]
        dist['texts'] += 1
        if text != RG.render(r): dist['loose_spellings'] += 1
        if o in ('panic', '(inconsistent)'):
            fails.append({'what': 'Range::parse / satisfies on `%s`: %s' % (text, o), 'case': c, 'input': [text], 'kind': 'npm-panic'}); continue
        if not ver.startswith('SPEC\t'):
            fails.append({'what': 'driver gave no specification answer for `%s`: %s' % (text, ver[:100]), 'case': c, 'kind': 'machinery', 'no_input': True}); continue
        sp = parse(ver[5:])
        spec_struct = None if sp[0] == 'none' else dec_range(sp[0][1])
        spec = [b == 'true' for b in sp[1]]; known = [b == 'true' for b in sp[2]]
        po = parse(o)
        if po == ['none']:
            dist['parse_failed'] += 1
            got = [False] * len(probes); impl_struct = None
        else:
            impl_struct = dec_some_range(po[0]); got = [b == 'true' for b in po[1]]
        # Layer B: the parser returns what the tables give for the tree
        if impl_struct != spec_struct:
            dist['structure_mismatch'] += 1
            fails.append({'what': 'Range::parse(`%s`) builds %s, the desugaring tables give %s for its syntax tree' % (text, show_struct(impl_struct), show_struct(spec_struct)),
                          'case': c, 'input': [text], 'kind': 'npm-structure', 'no_input': True})
        hit = False
        for i, v in enumerate(probes):
            if max(v[:3]) > MAX: continue          # the property's domain: components in [0, MAX_SAFE_INTEGER]
            py = npm_admits_doc(r, v)
            if py != spec[i]:
                dist['spec_vs_python_disagreements'] += 1
                fails.append({'what': 'the Coq specification and the independent Python reading of npm disagree on `%s` / %s' % (text, vtext(v)), 'case': c, 'kind': 'machinery', 'no_input': True}); break
            want = py
            if got[i]: dist['admitted'] += 1; hit = True
            else: dist['rejected'] += 1
            if got[i] != want:
                rule = None
                if any(d12(a, v) for a in r): rule = 'lt_major_only'
                elif any(d13(a, v) for a in r): rule = 'caret_zero_major'
                if rule: dist['known_class_pairs'] += 1
                if rule in ('lt_major_only', 'caret_zero_major') and not known[i]:
                    fails.append({'what': 'known-class bookkeeping differs between Coq and Python on `%s` / %s' % (text, vtext(v)), 'case': c, 'kind': 'machinery', 'no_input': True})
                what = ('`%s` %s %s, but npm\'s documented desugaring %s it' % (text, 'admits' if got[i] else 'rejects', vtext(v), 'admits' if want else 'rejects')) if impl_struct is not None else \
                       ('Range::parse(`%s`) fails although npm admits %s' % (text, vtext(v)))
                fails.append({'what': what, 'case': dump(['c01', S(text), RG.sx_range(r), [enc_version(v)]]), 'input': [text, vtext(v)], 'kind': 'range_sat', 'rule': rule})
                break
        if hit: nontrivial += 1
        if impl_struct and len(certs) < 3000 and rng.random() < 0.05 and len(text) < 40:
            certs.append('r_parse %s = ROk %s' % (F.g_str(text), F.g_range(impl_struct)))
    return {'failures': fails, 'nontrivial': nontrivial, 'distribution': dist, 'certs': certs, 'excused': excused}

# ------------------------------------------------------------------ C01 / C02 / C13: arbitrary short range texts
RT_ALPHABET = ['0', '1', 'x', '*', '.', '-', '+', '<', '>', '=', '~', '^', '|', ' ', 'v', 'a']
RT_TOKENS = ['1', '1.2', '1.2.3', '>=1.2.3', '~1.2', '^0.1.2', '1 - 2', '1.x', 'a', '<=2', '1.2.3-a', '||', '1.1.x', '>1.x.1', 'x.1.1', '1.1.1']
def gen_rtext(tier, rng):
    """every string of length <= n over the range alphabet, token-anchored strings, and rendered trees with `-` / junk tokens and
    blanks around them.  A text inside the documented language (tools/textgrammar.py) becomes a c01 case with the tree the
    independent reader gives it; any other text is a plain rparse case (model vs. implementation only)."""
    import textgrammar as TG
    n = 4 if tier == 'quick' else 5
    texts = []
    for k in range(n + 1):
        for w in itertools.product(RT_ALPHABET, repeat=k): texts.append(''.join(w))
    nshort = len(texts)
    m = 2 if tier == 'quick' else 3
    suffixes = [''.join(w) for k in range(m + 1) for w in itertools.product(RT_ALPHABET, repeat=k)]
    for tok in RT_TOKENS:
        for x in suffixes:
            texts.append(tok + x); texts.append(x + tok)
            if len(x) == 2: texts.append(x[0] + tok + x[1])
    # rendered trees with a `-` token or junk at every position, blanks at both ends
    nr = 3000 if tier == 'quick' else 60000
    for _ in range(nr):
        r = RG.random_range(rng, [0, 1, 2] + HV.nums(2), garbage=0.15)
        t = RG.render(r, RG.Spelling(rng, rng.random() < 0.5))
        toks = t.split(' ')
        k = rng.random()
        if k < 0.5: toks.insert(rng.randrange(len(toks) + 1), rng.choice(['-', '-', 'foo', 'a.b', '', '||']))
        t = ' '.join(toks)
        if rng.random() < 0.3: t = ' ' * rng.randint(1, 2) + t
        if rng.random() < 0.3: t = t + ' ' * rng.randint(1, 2)
        texts.append(t)
    # comparators whose version text is as long as MAX_LENGTH and a little longer (Range::parse has no length limit of its own), with the
    # hyphen of the tag written and left out, long build metadata, under every kind of operator and inside hyphen ranges
    for L in (200, 250, 254, 255, 256, 257, 258, 300):
        for body in ('1.2.3-' + 'a' * (L - 6), '1.2.3' + 'a' * (L - 5), '1.2.3-a+' + 'b' * (L - 8), '1.2.3-' + '.'.join(['a1'] * ((L - 6) // 3))):
            for shape in ('%s', '^%s', '~%s', '>=%s <2', '>%s', '<=%s || 5.x', '%s - 2', '1 - %s', '>=1.0.0 %s', 'v%s'):
                texts.append(shape % body)
    # many alternatives, many comparators
    for nn in SIZES:
        texts.append(' || '.join('1.0.%d' % i for i in range(nn)))
        texts.append(' '.join(['>=1.0.0'] * (nn - 1)) + ' <2.0.0 || 0.1.0')
        texts.append('||'.join(['1.x'] * nn) + ' || 3.0.0-a')
    texts = list(dict.fromkeys(texts))
    cases = []; table = {}; inl = 0
    extra_v = [V(MAX, MAX, MAX)]
    for t in texts:
        r = TG.parse_text(t)
        if r is None:
            cases.append(dump(['rparse', S(t)])); continue
        inl += 1
        probes = probes_for([r], extra_v)
        c = dump(['c01', S(t), RG.sx_range(r), [enc_version(v) for v in probes]])
        table[c] = (t, r, probes); cases.append(c)
    gen_rtext.table = table
    return cases, {'exhaustive': True, 'short_strings': nshort, 'texts': len(texts), 'in_documented_language': inl,
                   'what': 'every string of length <= %d over the 16-symbol range alphabet `0 1 x * . - + < > = ~ ^ | blank v a` (%d), token-anchored strings (tok.S^<=%d, S^<=%d.tok, c.tok.c for %d tokens), '
                           '%d rendered random trees with a `-`/junk/empty token inserted and blanks at the ends: %d distinct texts, %d of them inside the documented language '
                           '(independent text-level reader tools/textgrammar.py) and compared with npm semantics on their induced versions; the rest compared model vs. implementation only'
                           % (n, nshort, m, m, len(RT_TOKENS), nr, len(texts), inl)}

def eval_rtext(triples, tier, rng):
    import families as F
    ev = eval_c01(triples, tier, rng, gen_rtext.table)
    # plain rparse cases: certificates and distribution only (a disagreement is reported by the orchestrator)
    d = ev['distribution']; d['rparse_ok'] = 0; d['rparse_err'] = 0
    for c, o, v in triples:
        if not c.startswith('(rparse '): continue
        if o.startswith('(ok'):
            d['rparse_ok'] += 1
            if len(ev['certs']) < 4000 and rng.random() < 0.02:
                s = str(parse(c)[1]); ev['certs'].append('r_parse %s = ROk %s' % (F.g_str(s), F.g_range(dec_range(parse(o)[1]))))
        elif o.startswith('(err'): d['rparse_err'] += 1
        elif o == 'panic':
            ev['failures'].append({'what': 'Range::parse panicked on %r' % str(parse(c)[1]), 'case': c, 'input': [str(parse(c)[1])], 'kind': 'panic'})
    return ev

def show_struct(st):
    if st is None: return 'no range'
    def b(x):
        return {'inc': '[', 'exc': '(', 'unb': '-'}[x[1]] + (vtext(x[2]) if x[2] else 'inf')
    return ' || '.join('%s .. %s' % (b(lo), b(up)) for lo, up in st)

# ------------------------------------------------------------------ C02
def comparator_list_text(rng, pool_parts, k=None, garbage=0.0):
    cs = [(rng.choice(RG.FORMS), rng.choice(pool_parts)) for _ in range(k or rng.choice([1, 1, 2]))]
    if rng.random() < garbage: cs.insert(rng.randrange(len(cs) + 1), ('garbage', rng.choice(RG.GARBAGE)))
    return cs

def gen_andor(tier, rng):
    parts = [p for p in RG.all_partials([0, 1, 2] + HV.nums(1), RG.TAGS_R[:4])]
    n = 2500 if tier == 'quick' else 40000
    cases = []; pairs = []
    for i in range(n):
        ca = comparator_list_text(rng, parts, garbage=0.05); cb = comparator_list_text(rng, parts, garbage=0.05)
        if i % 6 == 1:          # longer lists: four to seven comparators in `a b`, a garbage token first or twice in a row now and then
            ca = comparator_list_text(rng, parts, rng.choice([3, 4]), 0.0); cb = comparator_list_text(rng, parts, rng.choice([1, 2, 3]), 0.0)
            if i % 12 == 1: ca = [('garbage', rng.choice(RG.GARBAGE))] * rng.choice([1, 2]) + ca
        if i % 10 == 3:         # the same comparators twice (`a a`), and a `*` at either end of a list
            cb = list(ca) if i % 20 == 3 else [(rng.choice(['bare', '>=']), (['x'], (), ()))] + cb + ([('bare', (['x'], (), ()))] if i % 40 == 13 else [])
        if i % 7 == 0:          # force an empty conjunction now and then: disjoint comparators on one tuple
            p = rng.choice([q for q in parts if len(q[0]) == 3 and 'x' not in q[0]])
            ca = [('>', p)]; cb = [('<', p)] if i % 14 == 0 else [('<=', (p[0], (), ()))]
        a = RG.render([('set', ca)]); b = RG.render([('set', cb)])
        probes = probes_for([[('set', ca)], [('set', cb)]])
        pv = [enc_version(v) for v in probes]
        texts = {'a': a, 'b': b, 'ab': a + ' ' + b, 'ba': b + ' ' + a, 'a|b': a + ' || ' + b, 'b|a': b + ' || ' + a}
        flags = {'ga': all(c[0] == 'garbage' for c in ca), 'gb': all(c[0] == 'garbage' for c in cb)}
        if i % 5 == 0:
            c3 = comparator_list_text(rng, parts, 1); t3 = RG.render([('set', c3)])
            texts['abc'] = a + ' ' + b + ' ' + t3; texts['cab'] = t3 + ' ' + a + ' ' + b; texts['a|b|c'] = a + ' || ' + b + ' || ' + t3; texts['c|b|a'] = t3 + ' || ' + b + ' || ' + a
            texts['c'] = t3
        if i % 9 == 0:
            # arbitrary range texts (hyphens, several alternatives) on both sides of `||`
            ra = RG.random_range(rng, [0, 1, 2] + HV.nums(2)); rb = RG.random_range(rng, [0, 1, 2] + HV.nums(2))
            texts['A'] = RG.render(ra); texts['B'] = RG.render(rb)
            if i % 27 == 0: texts['A'] = rng.choice(['', ' ', '\t '])          # an alternative in which nothing is written (`*`)
            # any blanks around `||` and in front of the whole text
            j1 = rng.choice([' || ', '||', ' ||', '|| ', '  ||\t']); j2 = rng.choice([' || ', '||', ' ||', '|| ', '  ||\t'])
            texts['A|B'] = rng.choice(['', ' ', '\t']) + texts['A'] + j1 + texts['B']; texts['B|A'] = rng.choice(['', ' ', ' \t']) + texts['B'] + j2 + texts['A']
            pv = [enc_version(v) for v in probes_for([[('set', ca)], [('set', cb)], ra, rb])]
        for t in texts.values():
            cases.append(dump(['sat', E_parse(t), pv])); cases.append(dump(['within', E_parse(t), pv]))
        pairs.append((texts, flags))
    # long comparator sets: SIZES comparators, the narrowing (or contradicting) one last, first, and followed by another alternative
    p1 = ([1, 0, 0], (), ()); p2 = ([2, 0, 0], (), ()); p05 = ([0, 5, 0], (), ())
    for nn in SIZES:
        for (ca, cb) in (([('>=', p1)] * (nn - 1), [('<', p2)]), ([('>=', p1)] * (nn - 1), [('<', p05)]), ([('<', p2)], [('>=', p1)] * (nn - 1))):
            a = RG.render([('set', ca)]); b = RG.render([('set', cb)])
            pv = [enc_version(v) for v in probes_for([[('set', ca[:1])], [('set', cb[:1])]])]
            texts = {'a': a, 'b': b, 'ab': a + ' ' + b, 'ba': b + ' ' + a, 'a|b': a + ' || ' + b, 'b|a': b + ' || ' + a,
                     'A': a + ' ' + b, 'B': '0.1.0', 'A|B': a + ' ' + b + ' || 0.1.0', 'B|A': '0.1.0 || ' + a + ' ' + b}
            for t in texts.values():
                cases.append(dump(['sat', E_parse(t), pv])); cases.append(dump(['within', E_parse(t), pv]))
            pairs.append((texts, {'ga': False, 'gb': False}))
    gen_andor.pairs = pairs
    cases = list(dict.fromkeys(cases))
    return cases, {'pairs': n, 'what': '%d pairs (a, b) of comparator lists (1-2 comparators each, 5%% with a garbage token, every 7th pair built to have an empty conjunction): a, b, `a b`, `b a`, `a || b`, `b || a` '
                                       '(every 5th with a third list: `a b c`, `c a b`, three alternatives in both orders; every 9th with arbitrary multi-alternative/hyphen ranges on both sides of `||`), '
                                       'satisfies and bounds membership on the induced version universe' % n}

def eval_andor(triples, tier, rng):
    import families as F
    sat, within, struct, case_of = read_membership(triples)
    fails = []; nontrivial = 0; certs = []
    dist = {'pairs': 0, 'conjunction_empty': 0, 'conjunction_unparseable': 0, 'one_side_unparseable': 0, 'three_way': 0, 'or_of_ranges': 0}
    def tbl(t, which):
        d = (sat if which == 's' else within).get(t)
        return d if isinstance(d, dict) else None
    for texts, flags in gen_andor.pairs:
        dist['pairs'] += 1
        a, b = texts['a'], texts['b']
        if any(not isinstance(sat.get(t), dict) for t in texts.values() if t in sat) or any(t not in sat for t in texts.values()):
            bad = [t for t in texts.values() if not isinstance(sat.get(t), dict)]
            fails.append({'what': 'satisfies/allows_any panicked or was inconsistent on `%s`' % (bad[0] if bad else '?'), 'case': case_of.get(('sat', bad[0] if bad else a), ''), 'input': bad[:1], 'kind': 'andor-panic'}); continue
        pa, pb = struct.get(a) is not None, struct.get(b) is not None
        common = None
        for t in texts.values():
            for d in (sat.get(t), within.get(t)):
                if isinstance(d, dict): common = set(d) if common is None else (common & set(d))
        common = sorted(common or [], key=repr)
        sa, sb, wa, wb = tbl(a, 's'), tbl(b, 's'), tbl(a, 'w'), tbl(b, 'w')
        def chk(cond, what, text, v, kind):
            if not cond:
                fails.append({'what': what, 'case': dump(['sat', E_parse(text), [enc_version(v)]]), 'input': [text, vtext(v)], 'kind': kind}); return False
            return True
        if not (pa and pb):
            dist['one_side_unparseable'] += 1
            # a garbage-only side is dropped from a conjunction; an unsatisfiable side makes the conjunction unsatisfiable
            for (x, px, y, py_, gy) in ((a, pa, b, pb, flags['gb']), (b, pb, a, pa, flags['ga'])):
                if px and not py_:
                    for key in ('ab', 'ba'):
                        for v in common:
                            if gy:
                                if not chk(sat[texts[key]].get(v) == sat[x][v], '`%s` (one side is only garbage) and `%s` disagree on %s' % (texts[key], x, vtext(v)), texts[key], v, 'andor-garbage'): break
                            else:
                                if not chk(not sat[texts[key]].get(v), '`%s` admits %s although `%s` alone admits nothing' % (texts[key], vtext(v), y), texts[key], v, 'andor-widen'): break
            continue
        # --- a || b
        okk = True
        for key in ('a|b', 'b|a'):
            t = texts[key]
            if struct.get(t) is None:
                fails.append({'what': '`%s` and `%s` parse but `%s` does not' % (a, b, t), 'case': case_of[('sat', t)], 'input': [t], 'kind': 'andor-or-parse'}); okk = False; break
            for v in common:
                if not chk(sat[t][v] == (sa[v] or sb[v]), '%s satisfies `%s`: %s, but `%s`: %s or `%s`: %s' % (vtext(v), t, sat[t][v], a, sa[v], b, sb[v]), t, v, 'andor-or'): okk = False; break
            if not okk: break
        # --- a b
        both = False
        for key in ('ab', 'ba'):
            t = texts[key]; st = tbl(t, 's')
            parsed = struct.get(t) is not None
            for v in common:
                inb = wa[v] and wb[v]
                if inb: both = True
                want = (sa[v] and sb[v]) if not v[3] else (inb and (sa[v] or sb[v]))
                if not chk(st[v] == want, '%s %s `%s`, but by the conjunction rule (a: sat %s within %s; b: sat %s within %s) it should %s'
                           % (vtext(v), 'satisfies' if st[v] else 'does not satisfy', t, sa[v], wa[v], sb[v], wb[v], 'satisfy' if want else 'not satisfy'), t, v, 'andor-and'): okk = False; break
            if not parsed: dist['conjunction_unparseable'] += 1
            if not okk: break
        if both: nontrivial += 1
        else: dist['conjunction_empty'] += 1
        if 'abc' in texts and struct.get(texts['c']) is not None and okk:
            dist['three_way'] += 1
            sc, wc = tbl(texts['c'], 's'), tbl(texts['c'], 'w')
            for key in ('abc', 'cab'):
                t = texts[key]; st = tbl(t, 's')
                for v in common:
                    inb = wa[v] and wb[v] and wc[v]
                    want = (sa[v] and sb[v] and sc[v]) if not v[3] else (inb and (sa[v] or sb[v] or sc[v]))
                    if not chk(st[v] == want, '%s vs `%s`: got %s, the three-way conjunction rule says %s' % (vtext(v), t, st[v], want), t, v, 'andor-and3'): break
            for key in ('a|b|c', 'c|b|a'):
                t = texts[key]
                for v in common:
                    if not chk(sat[t][v] == (sa[v] or sb[v] or sc[v]), '%s vs `%s`: got %s, the union of the three alternatives says %s' % (vtext(v), t, sat[t][v], sa[v] or sb[v] or sc[v]), t, v, 'andor-or3'): break
        if 'A' in texts and struct.get(texts['A']) is not None and struct.get(texts['B']) is not None:
            dist['or_of_ranges'] += 1
            sA, sB = sat[texts['A']], sat[texts['B']]
            for key in ('A|B', 'B|A'):
                t = texts[key]
                if struct.get(t) is None:
                    fails.append({'what': '`%s` and `%s` parse but `%s` does not' % (texts['A'], texts['B'], t), 'case': case_of[('sat', t)], 'input': [t], 'kind': 'andor-or-parse'}); break
                for v in common:
                    if v in sB and v in sA and not chk(sat[t][v] == (sA[v] or sB[v]), '%s vs `%s`: got %s, union says %s' % (vtext(v), t, sat[t][v], sA[v] or sB[v]), t, v, 'andor-or'): break
        st = struct.get(texts['ab'])
        if st and len(certs) < 3000 and rng.random() < 0.1 and len(texts['ab']) < 40:
            certs.append('r_parse %s = ROk %s' % (F.g_str(texts['ab']), F.g_range(st)))
    return {'failures': fails, 'nontrivial': nontrivial, 'distribution': dist, 'certs': certs}

# ------------------------------------------------------------------ C13
def strip_build_struct(st):
    if st is None: return None
    def sb(b): return (b[0], b[1], (b[2][:4] + ((),)) if b[2] else None)
    return [(sb(lo), sb(up)) for lo, up in st]
def comps_above_max(st):
    return any(b[2] and max(b[2][:3]) > MAX for bs in (st or []) for b in bs)

def gen_rprint(tier, rng):
    trees, parts = table_sweep(tier)
    exprs = []
    for r in trees: exprs.append(E_parse(RG.render(r)))
    small = [p for p in parts if all(c == 'x' or c <= 2 for c in p[0])]
    n = 1500 if tier == 'quick' else 30000
    for _ in range(n):
        exprs.append(E_parse(RG.render(RG.random_range(rng, [0, 1, 2, MAX] + HV.nums(2), garbage=0.03))))
    # comparators at and around MAX_LENGTH bytes, hyphen of the tag written and left out (the printed form re-inserts it)
    for L in (250, 254, 255, 256, 257, 258, 300):
        for body in ('1.2.3-' + 'a' * (L - 6), '1.2.3' + 'a' * (L - 5), '1.2.3-a+' + 'b' * (L - 8)):
            for shape in ('%s', '^%s', '>=%s <2', '>%s <3 || 5.x', '%s - 2', '1 - %s'):
                exprs.append(E_parse(shape % body))
    # results of set operations (shapes parse never produces: exclusive lower with inclusive upper, flipped bounds, several pieces)
    ivs = [e for (_, e) in fam_sets.interval_texts(U6)]
    for u in magic_universes(): ivs += [e for (_, e) in fam_sets.interval_texts(u)]
    leaves = ivs + exprs[len(trees):len(trees) + 300]
    nt = 2500 if tier == 'quick' else 40000
    for _ in range(nt):
        exprs.append(fam_sets.random_tree(rng, leaves, rng.randint(1, 3)))
    exprs.append(E_any)
    exprs = [parse(x) for x in dict.fromkeys(dump(e) for e in exprs)]
    cases = []
    for e in exprs:
        cases.append(dump(['rprint', e])); cases.append(dump(['serde_r', e]))
    gen_rprint.exprs = exprs
    return cases, {'exhaustive': True, 'parsed_table_sweep': len(trees), 'random_parsed': n, 'set_operation_results': nt,
                   'what': 'Display of every range of the C01 table sweep (%d), of %d random parsed ranges and of %d results of random intersect/difference trees (depth 1-3) over the exhaustive interval universe; '
                           'each printed form is parsed back, compared structurally and pointwise (satisfies and bounds membership on the induced versions), printed again, and round-tripped through serde_json' % (len(trees), n, nt)}

def eval_rprint(triples, tier, rng):
    import families as F
    fails = []; nontrivial = 0; certs = []
    dist = {'printed': 0, 'evaluated_to_none': 0, 'from_parse': 0, 'from_set_operations': 0, 'reparsed_equal_structure': 0, 'above_max_component': 0, 'any_star': 0}
    printed = {}; structs = {}; serde = {}
    for c, o, v in triples:
        pc = parse(c)
        if pc[0] == 'rprint':
            key = dump(pc[1])
            if o == 'panic':
                fails.append({'what': 'to_string() panicked for %s' % fam_sets.rtext(pc[1]), 'case': c, 'input': [fam_sets.rtext(pc[1])], 'kind': 'rprint-panic'}); continue
            po = parse(o)
            if po == ['none']: dist['evaluated_to_none'] += 1; continue
            printed[key] = str(po[1]); structs[key] = dec_some_range(po[0])
        elif pc[0] == 'serde_r':
            serde[dump(pc[1])] = o
    # second phase: parse the printed text back, probe both
    second = []; probes_of = {}
    for key, text in printed.items():
        st = structs[key]
        vs = sorted({b[2][:4] + ((),) for bs in st for b in bs if b[2]}, key=repr)
        probes = probe_versions(vs)[:60] if vs else probe_versions(U6)[:20]
        probes_of[key] = probes
        pv = [enc_version(x) for x in probes]
        e = parse(key)
        second += [dump(['rparse', S(text)]), dump(['rprint', E_parse(text)]), dump(['sat', e, pv]), dump(['within', e, pv]),
                   dump(['sat', E_parse(text), pv]), dump(['within', E_parse(text), pv])]
    res = {}
    for c2, o2, v2 in fam_sets.RUNNER(list(dict.fromkeys(second))):
        res[c2] = o2
    for key, text in printed.items():
        e = parse(key); st = structs[key]; name = fam_sets.rtext(e)
        dist['printed'] += 1
        from_parse = e[0] == 'parse'
        dist['from_parse' if from_parse else 'from_set_operations'] += 1
        is_any = any(lo[1] == 'unb' and up[1] == 'unb' for lo, up in st)
        if is_any: dist['any_star'] += 1
        above = comps_above_max(st)
        if above: dist['above_max_component'] += 1
        pv = [enc_version(x) for x in probes_of[key]]
        def bad(msg, kind, case=None):
            fails.append({'what': '%s prints as `%s`: %s' % (name, text, msg), 'case': case or dump(['rparse', S(text)]), 'input': [name, text],
                          'kind': 'range_roundtrip' if above else kind, 'rule': 'component_above_max' if above else None})
        o2 = res.get(dump(['rparse', S(text)]), 'missing')
        if not o2.startswith('(ok'):
            bad('which does not parse back (%s)' % o2[:80], 'rprint-reparse'); continue
        st2 = dec_range(parse(o2)[1])
        if is_any: continue     # Range::any() prints `*`, which is `>=0.0.0`: not reachable by parse and set operations, outside the property
        if strip_build_struct(st2) == strip_build_struct(st): dist['reparsed_equal_structure'] += 1
        elif from_parse:
            bad('which parses to a different range: %s instead of %s' % (show_struct(st2), show_struct(st)), 'rprint-struct'); continue
        s1 = parse(res[dump(['sat', e, pv])]); s2 = parse(res[dump(['sat', E_parse(text), pv])])
        w1 = parse(res[dump(['within', e, pv])]); w2 = parse(res[dump(['within', E_parse(text), pv])])
        if not is_any:      # Range::any() prints `*`, which is `>=0.0.0`: outside the property (not reachable by parse and set operations)
            if s1[1] != s2[1]:
                i = next(i for i in range(len(pv)) if s1[1][i] != s2[1][i])
                bad('the re-parsed range and the original disagree on satisfies(%s)' % vtext(probes_of[key][i]), 'rprint-sat', dump(['sat', E_parse(text), [pv[i]]])); continue
            if w1[1] != w2[1]:
                i = next(i for i in range(len(pv)) if w1[1][i] != w2[1][i])
                bad('the re-parsed range and the original disagree on bounds membership of %s' % vtext(probes_of[key][i]), 'rprint-within', dump(['within', E_parse(text), [pv[i]]])); continue
        p2 = parse(res[dump(['rprint', E_parse(text)])])
        if p2 == ['none'] or str(p2[1]) != text:
            bad('printing is not stable: the re-parsed range prints as `%s`' % (p2 if p2 == ['none'] else str(p2[1])), 'rprint-stable'); continue
        so = serde.get(key, '')
        if so == 'panic' or so.startswith('(bad') or so.endswith(' none)'):
            bad('serde round trip fails: %s' % so[:100], 'rprint-serde', dump(['serde_r', e])); continue
        if not from_parse or len(st) > 1: nontrivial += 1
        if len(certs) < 3000 and rng.random() < 0.06 and len(text) < 60:
            certs.append('(r_print %s, r_parse %s) = (Ok %s, ROk %s)' % (F.g_range(st), F.g_str(text), F.g_str(text), F.g_range(st2)))
    return {'failures': fails, 'nontrivial': nontrivial, 'distribution': dist, 'certs': certs}
