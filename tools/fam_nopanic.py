"""C06: every public operation on every input returns normally (debug build: overflow checks,
debug assertions, winnow's internal assertions), and parse time grows linearly."""
import itertools, subprocess
from lib import *
import fam_sets, rangegen as RG
import build as B

RANGE_ALPHABET = ['0', '1', 'x', '*', '.', '-', '+', '<', '>', '=', '~', '^', '|', ' ', 'v', 'a']
SCALARS = ['\x00', '\x01', '\t', '\n', '\r', ' ', '0', '1', '9', '.', '-', '+', '<', '>', '=', '~', '^', '|', '*', 'x', 'X', 'v', 'V', 'a', 'Z',
           '\x7f', '\x80', 'é', 'Ł', '߿', 'ࠀ', ' ', '￿', '\U00010000', '\U0001F600', '\U0010FFFF']

def gen_nopanic(tier, rng):
    cases = []
    def both(s):
        cases.append(dump(['vparse', S(s)])); cases.append(dump(['rparse', S(s)]))
        cases.append(dump(['errdiag', 'v', S(s)])); cases.append(dump(['errdiag', 'r', S(s)]))
    # (a) exhaustive short strings over the range alphabet (every token class), through both parsers
    n = 3 if tier == 'quick' else 4
    nshort = 0
    for k in range(n + 1):
        for w in itertools.product(RANGE_ALPHABET, repeat=k):
            s = ''.join(w); nshort += 1
            cases.append(dump(['rparse', S(s)])); cases.append(dump(['vparse', S(s)]))
    # (b) arbitrary UTF-8: every scalar class, every length class
    nrand = 3000 if tier == 'quick' else 200000
    for _ in range(nrand):
        L = rng.choice([0, 1, 2, 3, 5, 8, 13, 40, 255, 256, 257, 300])
        both(''.join(rng.choice(SCALARS) for _ in range(rng.randint(0, L))))
    for L in ([10 ** 3, 10 ** 4] if tier == 'quick' else [10 ** 3, 10 ** 4, 10 ** 5, 10 ** 6]):
        for unit in [' ', '||', '1 - 1x ', 'a', '1.2.3||', '>=1.2.3 ', '9', '~>1.2.x ', '\U0001F600', '1.', '^1.2.3-a.b+c || ', '\n']:
            # the *model* recomputes its fuel (a unary `length`) at every alternative, so on a million bytes of `||` it is quadratic although the
            # crate is not: the three many-alternative shapes stop at 10^5 here (the crate alone is timed on them at 10^6 below)
            if L > 10 ** 5 and '||' in unit: continue
            # ... and it converts a digit run to a binary number digit by digit (quadratic in the run's length; the crate's `str::parse` is not)
            if L > 10 ** 4 and unit == '9': continue
            both(unit * (L // len(unit)))
    # near-limit numbers in ranges: every + 1 of the desugaring tables at MAX_SAFE_INTEGER
    M = str(MAX)
    for f in RG.FORMS:
        op = '' if f == 'bare' else f
        for t in [M, M + '.' + M, M + '.' + M + '.' + M, '0.' + M, '0.0.' + M, '0.' + M + '.0', M + '.x', M + '.' + M + '.x', str(MAX + 1), str(U64 - 1), str(U64)]:
            s = op + t; cases.append(dump(['rparse', S(s)])); cases.append(dump(['minv', E_parse(s)])); cases.append(dump(['rprint', E_parse(s)]))
    for a in [M, '1', 'x']:
        for b in [M, M + '.' + M, 'x', '1']:
            s = a + ' - ' + b; cases.append(dump(['rparse', S(s)])); cases.append(dump(['minv', E_parse(s)]))
    # (c) every binary operation on all pairs (and self) of a pool of parsed ranges, results fed back
    pool_texts = ['*', '1.2.3', '<1.2.3', '<=1.2.3', '>1.2.3', '>=1.2.3', '>1.2.3 <1.2.4', '>1.2.3 <=1.2.3', '1.2.3 - 1.2.3', '^0.0.0', '~0', '<0.0.0-0', '>x', '<=x',
                  '2.1 - 3.0 || <2.3.2 <1.0 =3.2.1-0', '=3.1.0-0', '>=1.0.0-a <1.0.0-b', '>1.0.0-a.0', '<%s' % M, '>%s' % M, '<=%s' % M, '>=%s.%s.%s' % (M, M, M),
                  '1.x || 2.x || >=3.0.0-rc.1', 'foo', '', '1.2.3 || foo', '>=1.2.3 <1.0.0']
    for _ in range(20 if tier == 'quick' else 150):
        pool_texts.append(RG.render(RG.random_range(rng, [0, 1, 2, MAX])))
    pool = [E_any] + [E_parse(t) for t in pool_texts]
    vs = probe_versions(U6) + [V(MAX, MAX, MAX), V(MAX + 1, 0, 0), V(0, 0, 0, (U64 - 1,))]
    pv = [enc_version(v) for v in vs]
    for a in pool:
        cases.append(dump(['minv', a])); cases.append(dump(['rprint', a])); cases.append(dump(['serde_r', a]))
        cases.append(dump(['sat', a, pv])); cases.append(dump(['maxsat', a, pv[:9]])); cases.append(dump(['minsat', a, pv[:9]]))
        for b in pool:
            for op in ('isect', 'diff', 'allows_all', 'allows_any'):
                cases.append(dump([op, a, b]))
            for t in (['isect', a, b], ['diff', a, b]):
                cases.append(dump(['minv', t])); cases.append(dump(['rprint', t])); cases.append(dump(['diff', t, a])); cases.append(dump(['isect', t, b]))
                cases.append(dump(['diff', a, t])); cases.append(dump(['allows_all', t, t])); cases.append(dump(['sat', t, pv[:12]]))
    # (d) versions: diff / cmp / sort at the extremes
    ext = [V(0, 0, 0), V(MAX, MAX, MAX), V(U64 - 1, U64 - 1, U64 - 1), V(0, 0, 0, (U64 - 1, 'a' * 300)), V(1, 0, 0, ('-',) * 40), V(1, 0, 0, (), (0,) * 40)]
    for a in ext:
        cases.append(dump(['vprint', enc_version(a)]))
        for b in ext:
            cases.append(dump(['vcmp', enc_version(a), enc_version(b)])); cases.append(dump(['vdiff', enc_version(a), enc_version(b)]))
    cases.append(dump(['vsort', [enc_version(a) for a in ext * 3]]))
    cases = list(dict.fromkeys(cases))
    return cases, {'exhaustive': True, 'short_strings': nshort, 'random_utf8': nrand, 'pool_ranges': len(pool),
                   'what': 'debug build under catch_unwind: every string of length <= %d over the 16-symbol range alphabet through both parsers (%d), %d random UTF-8 strings over %d scalar classes '
                           '(controls, 1-4 byte scalars) with lengths 0-300 and long repetitive inputs, both parsers plus every accessor and the miette diagnostic of each error; every + 1 of the tables at MAX_SAFE_INTEGER; '
                           'all binary operations on all ordered pairs (and self) of %d pooled ranges with results fed back as operands; version operations at the numeric extremes'
                           % (n, nshort, nrand, len(SCALARS), len(pool))}

def timing(tier):
    """parse time at growing sizes on adversarial shapes (release build); supporting evidence, alarms only on clearly super-linear growth"""
    sizes = [10 ** 4, 10 ** 5] if tier == 'quick' else [10 ** 4, 10 ** 5, 10 ** 6]
    probes = [('vtime', k) for k in ('digits', 'blanks', 'ident', 'dots')] + \
             [('rtime', k) for k in ('blanks', 'ors', 'hyphens', 'token', 'alts', 'comps', 'digits', 'tildes', 'garbage', 'dots', 'mixed')]
    ok, out = B.build_harness(True)
    if not ok: return None, 'release harness does not build'
    best = {}
    for n in sizes:
        # one harness run per size and probe, smallest size first: a parser that is not linear shows up (or runs out of its budget) at the
        # first size it cannot take, and the probe it was given is the replay
        for (p_, k) in probes:
            case = dump([p_, str(n), k]); budget = 60
            try:
                p = subprocess.run([B.harness_bin(True)], input='\n'.join([case] * 3) + '\n', stdout=subprocess.PIPE, stderr=subprocess.PIPE, text=True, timeout=budget)
            except subprocess.TimeoutExpired:
                return None, ('SLOW', case, 'the release build needs more than %d s for three runs of the probe %s (the %d-byte input of shape `%s`)' % (budget, case, n, k))
            for line in p.stdout.split('\n'):
                if '\t' not in line: continue
                c, o = line.split('\t'); pc = parse(c); po = parse(o) if o.startswith('(ns') else None
                if po is None: return None, 'timing probe failed: %s -> %s' % (c, o)
                key = (pc[0], pc[2], int(pc[1])); best[key] = min(best.get(key, 1 << 62), int(po[1]))
    table = {}; worst = 0
    for (p_, k) in probes:
        row = [best[(p_, k, n)] for n in sizes]
        # a step counts only when the larger run takes at least 20 ms: below that the numbers are cache and page-fault effects (a
        # 1 MB input rejected by the length check in 0.4 ms is not "184 times slower" than the 100 KB one); a genuinely quadratic parser
        # needs seconds to minutes at these sizes, so the floor hides nothing
        ratios = [(row[i + 1] / max(row[i], 2000)) if row[i + 1] >= 20_000_000 else 1.0 for i in range(len(row) - 1)]
        table['%s/%s' % (p_, k)] = {'ns': row, 'ratio_per_decade': [round(r, 1) for r in ratios]}
        worst = max([worst] + ratios)
    return {'sizes': sizes, 'probes': table, 'worst_ratio_per_decade': round(worst, 1)}, None

def eval_nopanic(triples, tier, rng):
    import families as F
    fails = []; dist = {'panics': 0, 'parse_ok': 0, 'parse_err': 0, 'ops': 0, 'diag': 0, 'value_only_disagreements': 0}
    nontrivial = 0; certs = []; excused = set()
    for c, o, v in triples:
        if v.startswith('DIFF') and 'panic' not in o and 'panic' not in v and 'outoffuel' not in v:
            # C06 is about returning normally: a disagreement between two normal results of the same class
            # (both Ok / both Err / both a plain value) is another property's business
            mo = v.split('\t', 1)[1] if '\t' in v else ''
            if o[:4] == mo[:4] or not (o.startswith('(ok') or o.startswith('(err') or mo.startswith('(ok') or mo.startswith('(err')):
                excused.add(c); dist['value_only_disagreements'] += 1
        head = c[1:c.index(' ')] if ' ' in c else c
        if head == 'rparse' and len(c) < 60 and len(certs) < 3000 and rng.random() < 0.2:
            pc = parse(c); s = str(pc[1])
            if o.startswith('(ok'): certs.append('r_parse %s = ROk %s' % (F.g_str(s), F.g_range(dec_range(parse(o)[1]))))
            elif o.startswith('(err'): certs.append('match r_parse %s with RErr e => e_offset e | _ => 1 end = 0' % F.g_str(s))
        if head in ('vparse', 'rparse'):
            if o.startswith('(ok'): dist['parse_ok'] += 1; nontrivial += 1
            elif o.startswith('(err'): dist['parse_err'] += 1
        elif head == 'errdiag': dist['diag'] += 1
        else:
            dist['ops'] += 1
            if o != '(none)': nontrivial += 1
        if o == 'panic' or o.endswith(' panic)') or ' panic ' in o:
            dist['panics'] += 1
            fails.append({'what': 'panic in a debug build (overflow checks and debug assertions on): %s' % c[:300], 'case': c, 'input': [c[:300]], 'kind': 'panic'})
        elif o == '(inconsistent)':
            fails.append({'what': 'Version::satisfies and Range::satisfies (or cmp / partial_cmp) disagree: %s' % c[:300], 'case': c, 'input': [c[:300]], 'kind': 'inconsistent'})
        elif head == 'errdiag' and o.startswith('(bad'):
            fails.append({'what': 'diagnostic cannot be rendered: %s -> %s' % (c[:200], o[:200]), 'case': c, 'input': [c[:200]], 'kind': 'diag'})
    t, err = timing(tier)
    if t is None and isinstance(err, tuple) and err[0] == 'SLOW':
        fails.append({'what': 'parse time is far from linear: %s' % err[2], 'case': err[1], 'input': [err[1]], 'kind': 'timing'})
    elif t is None:
        fails.append({'what': 'timing sweep could not run: %s' % err, 'case': '', 'kind': 'timing', 'no_input': True})
    else:
        dist['timing'] = t
        # linear growth is 10x per decade; 40x leaves room for cache effects and a noisy machine, quadratic growth is 100x
        if t['worst_ratio_per_decade'] > 40:
            bad = [k for k, r in t['probes'].items() if max(r['ratio_per_decade']) > 40]
            fails.append({'what': 'parse time grows super-linearly on %s: %s' % (bad, {k: t['probes'][k] for k in bad}), 'case': dump(['rtime', str(t['sizes'][-1]), bad[0].split('/')[1]]), 'input': bad, 'kind': 'timing'})
    return {'failures': fails, 'nontrivial': nontrivial, 'distribution': dist, 'certs': certs, 'excused': excused}
