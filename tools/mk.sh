#!/bin/bash
# build the Coq development with a time limit, show only errors
cd /verif/coq && timeout ${1:-900} make -j16 2>&1 | grep -A12 -E "^File|Error|rror:" | head -${2:-40}
