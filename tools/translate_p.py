#!/usr/bin/env python3
"""Parser-function translator: the winnow range grammar of src/range.rs -> terms over the combinators of Model/Comb.v.

For every grammar function (operation, component [with x_or_asterisk inlined], partial_version, primitive, partial, tilde [with tilde_gt
inlined], caret, hyphen, garbage, simple, logical_or, range, bound_sets) the body is read from the current source and re-expressed with
`p_alt`, `p_opt`, `p_peek`, `p_pair`, `p_preceded`, `p_terminated`, `p_delimited`, `p_separated0`, `p_repeat_till0`, `p_literal`, `p_map`,
`p_bind` (for the `let x = p.parse_next(input)?;` style).  A call to another grammar function is replaced by that function's MODEL
(Model/RParse.v) - each generated file then proves `forall s, <f>_src s = <model of f> s`; by induction over the call graph all of them
together say that the hand-written character-level model is the composition of combinators the source text spells out.  The `match`
closures (the desugaring tables) are referred to by their model names: they are tied separately by tools/translate.py.

What is trusted here: Model/Comb.v's reading of the winnow combinators (a dozen three-line definitions) and this translator."""
import os, re, sys, json
sys.path.insert(0, os.path.dirname(os.path.abspath(__file__)))
import translate as T
import translate_fn as TF
from translate import Unsupported, function_body

ROOT = T.ROOT; GEN = T.GEN; RNG = os.path.join(os.environ.get('VERIF_REPO', '/repo'), 'src', 'range.rs')

# ------------------------------------------------------------------ parser for combinator expressions and the imperative style
class PP(TF.PF):
    def atom(self):
        t = self.peek()
        if t and t.startswith('__str'):
            self.next(); return ('str', int(t[5:]))
        if t == '|':
            return self.closure()
        if t and t.isdigit() and self.peek(1) == '..':
            n = int(self.next()); self.next(); return ('from', n)
        return super().atom()
    def closure(self):
        self.expect('|'); params = []
        while self.peek() != '|':
            p = self.pattern1_nobar()
            if self.accept(':'):
                depth = 0
                while True:
                    x = self.peek()
                    if x in ('<', '('): depth += 1
                    elif x in ('>', ')'): depth -= 1
                    elif x in (',', '|') and depth == 0: break
                    self.next()
            params.append(p); self.accept(',')
        self.expect('|')
        if self.peek() == '{':
            body = ('blockraw', self.raw_block())
        else:
            start = self.i; body = self.expr(); body = ('withraw', body, self.t[start:self.i])
        return ('closure', params, body)
    def pattern1_nobar(self):
        # a closure parameter: no top-level or-patterns (the bar ends the parameter list)
        return self.pattern1()
    def raw_block(self):
        self.expect('{'); depth = 1; toks = []
        while depth:
            x = self.next()
            if x == '{': depth += 1
            elif x == '}': depth -= 1
            if depth: toks.append(x)
        return toks
    def postfix(self):
        e = super().postfix()
        while self.peek() == '?':
            self.next(); e = ('try', e)
        return e

def parse_fn(src, name):
    body = function_body(src, r'fn\s+%s\s*<' % name)
    toks, strings = TF.tokenize_keep_strings(body)
    p = PP(toks)
    return p.block(), strings

# ------------------------------------------------------------------ emission
PRIMS = {'space0': 'p_space0', 'space1': 'p_space1', 'eof': 'p_eof', 'any': 'p_any'}
MODEL = {'operation': 'operation_p', 'component': 'component', 'partial_version': 'partial_version', 'primitive': 'primitive_p', 'partial': 'partial_p',
         'tilde': 'tilde_p', 'caret': 'caret_p', 'hyphen': 'hyphen_p', 'simple': 'simple_pm', 'garbage': 'garbage_pm', 'range': 'range_p',
         'logical_or': 'logical_or_pm', 'bound_sets': 'bound_sets', 'number': 'number_o', 'extras': 'extras_p'}
INLINE = ('tilde_gt', 'x_or_asterisk')
TABLE_CLOSURE = {'primitive': "(fun '(op, p) => primitive_tbl op p)", 'partial': '(fun p => partial_tbl p)',
                 'tilde': "(fun '(gt, p) => tilde_tbl (match gt with Some _ => true | None => false end) p)", 'caret': '(fun p => caret_tbl p)'}
FOLD_TOKENS = "let mut comparators = bs . into_iter ( ) . flatten ( ) ; let Some ( first ) = comparators . next ( ) else { return Vec :: new ( ) ; } ; comparators . try_fold ( first , | acc , bs | acc . intersect ( & bs ) ) . into_iter ( ) . collect ( )".split()

# the value of an empty alternative: what the partial version `*` gives (`>=0.0.0`), as a list
STAR_TOKENS = "BoundSet :: at_least ( Predicate :: Including ( ( 0 , 0 , 0 ) . into ( ) ) ) . into_iter ( ) . collect ( )".split()

class EP:
    def __init__(self, src, fname, strings):
        self.src = src; self.fname = fname; self.strings = strings
        self.pure = TF.EF({}, False, strings)
    def lit(self, e):
        if e[0] != 'str': raise Unsupported('literal(..) of a non-literal')
        s = self.strings[e[1]]
        return '[' + '; '.join(str(ord(c)) for c in s) + ']'
    def comb(self, e):
        """a parser-valued expression"""
        k = e[0]
        if k == 'method' and e[2] in ('parse_next',): return self.comb(e[1])
        if k == 'method' and e[2] == 'context': return self.comb(e[1])
        if k == 'method' and e[2] == 'map': return '(p_map %s %s)' % (self.comb(e[1]), self.closure(e[3][0]))
        if k == 'var':
            n = e[1]
            if n in PRIMS: return PRIMS[n]
            if n in MODEL and n != self.fname: return MODEL[n]
            if n in INLINE:
                (st, tail), strings = parse_fn(self.src, n)
                if st or tail is None: raise Unsupported('inlined %s is not a single expression' % n)
                return EP(self.src, n, strings).comb(tail)
            if n == 'parser': raise Unsupported('reference to an inner fn')
            raise Unsupported('unknown parser %s' % n)
        if k == 'tuple':
            ps = [self.comb(x) for x in e[1]]
            s = ps[-1]
            for p in reversed(ps[:-1]): s = '(p_pair %s %s)' % (p, s)
            return s
        if k == 'call':
            f, a = e[1], e[2]
            if f == 'alt':
                items = a[0][1] if a[0][0] == 'tuple' else [a[0]]
                return '(p_alt [%s])' % '; '.join(self.comb(x) for x in items)
            if f == 'opt': return '(p_opt %s)' % self.comb(a[0])
            if f == 'peek': return '(p_peek %s)' % self.comb(a[0])
            if f == 'preceded': return '(p_preceded %s %s)' % (self.comb(a[0]), self.comb(a[1]))
            if f == 'terminated': return '(p_terminated %s %s)' % (self.comb(a[0]), self.comb(a[1]))
            if f == 'delimited': return '(p_delimited %s %s %s)' % (self.comb(a[0]), self.comb(a[1]), self.comb(a[2]))
            if f == 'literal': return '(p_literal %s)' % self.lit(a[0])
            if f == 'separated':
                if a[0] != ('from', 0): raise Unsupported('separated with a range other than 0..')
                return '(p_separated0 %s %s)' % (self.comb(a[1]), self.comb(a[2]))
            if f == 'repeat_till':
                if a[0] != ('from', 0): raise Unsupported('repeat_till with a range other than 0..')
                return '(p_repeat_till0 %s %s)' % (self.comb(a[1]), self.comb(a[2]))
            if f == 'Parser::map': return '(p_map %s %s)' % (self.comb(a[0]), self.closure(a[1]))
            if f in PRIMS and a == [('var', 'input')]: return PRIMS[f]
            if f in MODEL and a == [('var', 'input')] and f != self.fname: return MODEL[f]
            raise Unsupported('combinator %s' % f)
        raise Unsupported('parser expression %s' % k)
    def tuple_pat(self, params):
        ps = []
        for p in params:
            if p[0] == 'wild': ps.append('_')
            elif p[0] in ('var', 'name'): ps.append(T.ident(p[1]))
            elif p[0] == 'tuple': ps.append(self.tuple_pat(p[1]))
            else: raise Unsupported('closure parameter pattern')
        s = ps[-1]
        for p in reversed(ps[:-1]): s = '(%s, %s)' % (p, s)
        return s
    def closure(self, c):
        if c == ('var', 'Some'): return 'Some'
        if c[0] != 'closure': raise Unsupported('a mapped function that is not a closure')
        params, body = c[1], c[2]
        if len(params) != 1: raise Unsupported('closure with %d parameters' % len(params))
        p = params[0]
        if body[0] == 'blockraw':
            if body[1] == FOLD_TOKENS and p == ('name', 'bs'): return '(fun bs => and_fold (flatten_opts bs))'
            if body[1] == STAR_TOKENS and p[0] == 'wild': return '(fun _ => opt_to_list (at_least (Including (v3 0 0 0))))'
            raise Unsupported('closure with a block body that is not the comparator fold of range()')
        raw = body[2]; b = body[1]
        if b[0] == 'match':
            if self.fname not in TABLE_CLOSURE: raise Unsupported('a match closure in %s' % self.fname)
            if b[1] != ('var', p[1] if p[0] in ('var', 'name') else None): raise Unsupported('the table closure does not match on its parameter')
            return TABLE_CLOSURE[self.fname]
        pat = '_' if p[0] == 'wild' else ("'" + self.tuple_pat(p[1]) if p[0] == 'tuple' else T.ident(p[1]))
        if raw == STAR_TOKENS and p[0] == 'wild': return '(fun _ => opt_to_list (at_least (Including (v3 0 0 0))))'
        if raw == ['(', ')']: return '(fun %s => tt)' % pat
        if raw == ['None']: return '(fun %s => None)' % pat
        if len(raw) == 1 and raw[0] in T.CTOR: return '(fun %s => %s)' % (pat, T.CTOR[raw[0]])
        if len(raw) == 1 and re.match(r'[a-z_]\w*$', raw[0]): return '(fun %s => %s)' % (pat, T.ident(raw[0]))
        if raw == [p[1] if p[0] in ('var', 'name') else '', '.', 'into_iter', '(', ')', '.', 'collect', '(', ')']: return '(fun %s => opt_to_list %s)' % (pat, pat)
        if raw == [p[1] if p[0] in ('var', 'name') else '', '.', 'into_iter', '(', ')', '.', 'flatten', '(', ')', '.', 'collect', '(', ')']: return '(fun %s => concat %s)' % (pat, pat)
        raise Unsupported('closure body %s' % ' '.join(raw)[:60])
    # ---- imperative style
    def pure_expr(self, e):
        k = e[0]
        if k == 'method':
            r, n, a = e[1], e[2], e[3]
            if n == 'and': return '(opt_and %s %s)' % (self.pure_expr(r), self.pure_expr(a[0]))
            if n == 'flatten': return '(opt_flatten %s)' % self.pure_expr(r)
            if n == 'is_some': return '(match %s with Some _ => true | None => false end)' % self.pure_expr(r)
            if n == 'into': return '(partial_into %s)' % self.pure_expr(r)
        if k == 'tuple': return '(%s)' % ', '.join(self.pure_expr(x) for x in e[1])
        if k == 'vec' and not e[1]: return '[]'
        if k == 'var': return T.ident(e[1]) if e[1] not in T.CTOR else T.CTOR[e[1]]
        if k == 'struct' and e[1] == 'Partial':
            f = e[2]
            if sorted(f) != sorted(T.PARTIAL_FIELDS): raise Unsupported('Partial literal fields')
            return '(mkP %s)' % ' '.join(self.pure_expr(f[x]) for x in T.PARTIAL_FIELDS)
        if k == 'call' and e[1] in T.CTOR: return '(%s %s)' % (T.CTOR[e[1]], ' '.join(self.pure_expr(x) for x in e[2]))
        if k == 'call' and e[1] == 'BoundSet::new': return '(bs_new %s %s)' % (self.pure_expr(e[2][0]), self.pure_expr(e[2][1]))
        raise Unsupported('pure expression %s' % k)
    def let_pat(self, p):
        if p[0] == 'wild': return '_'
        if p[0] in ('var', 'name'): return T.ident(p[1])
        if p[0] == 'tuple': return "'(" + ', '.join(self.let_pat(x).lstrip("'") for x in p[1]) + ')'
        raise Unsupported('let pattern')
    def stmts(self, stmts, tail):
        if not stmts:
            if tail is None: raise Unsupported('no result')
            if tail[0] == 'call' and tail[1] == 'Ok': return '(p_ret %s)' % self.pure_expr(tail[2][0])
            return self.comb(tail)
        s = stmts[0]; rest = stmts[1:]
        if s[0] != 'let': raise Unsupported('statement %s in a parser function' % s[0])
        pat, e = s[1], s[2]
        if e[0] == 'try':
            return '(p_bind %s (fun %s =>\n  %s))' % (self.comb(e[1]), self.let_pat(pat), self.stmts(rest, tail))
        if e[0] == 'ifexpr':
            c, (st1, t1), (st2, t2) = e[1][1], e[1][2], e[1][3]
            if st1 or st2: raise Unsupported('statements in an if expression')
            if t1[0] == 'try' or t2[0] == 'try':
                a = self.comb(t1[1]) if t1[0] == 'try' else '(p_ret %s)' % self.pure_expr(t1)
                b = self.comb(t2[1]) if t2[0] == 'try' else '(p_ret %s)' % self.pure_expr(t2)
                return '(p_bind (if %s then %s else %s) (fun %s =>\n  %s))' % (self.pure_expr(c), a, b, self.let_pat(pat), self.stmts(rest, tail))
            return '(let %s := (if %s then %s else %s) in\n  %s)' % (self.let_pat(pat), self.pure_expr(c), self.pure_expr(t1), self.pure_expr(t2), self.stmts(rest, tail))
        if e[0] == 'match' and self.fname == 'hyphen' and e[1] == ('var', 'upper'):
            return '(let %s := hyphen_upper %s in\n  %s)' % (self.let_pat(pat), T.ident('upper'), self.stmts(rest, tail))
        return '(let %s := %s in\n  %s)' % (self.let_pat(pat), self.pure_expr(e), self.stmts(rest, tail))

HEADER = '(* GENERATED by tools/translate_p.py from /repo/src/range.rs on every run -- do not edit *)\nFrom Semver Require Import Version VParse Range RParse Comb ParseLen CombLemmas.\nFrom Coq Require Import Lia.\n'
SPEC = {
  'operation': ('operation', 'parser operation', 'operation_p', 'comb_unfold. comb_split'),
  'component': ('component', 'parser (option N)', 'component', 'comb_unfold. destruct s as [|c r]; [reflexivity|]. unfold lit1, is_wild. comb_split'),
  'partial_version': ('partial_version', 'parser partial_t', 'partial_version', 'unfold opt_dot_component. comb_unfold. cbv zeta. comb_split'),
  'primitive': ('primitive', 'parser (option boundset)', 'primitive_p', 'comb_unfold. comb_split'),
  'partial': ('partial', 'parser (option boundset)', 'partial_p', 'comb_unfold. comb_split'),
  'tilde': ('tilde', 'parser (option boundset)', 'tilde_p', 'comb_unfold. comb_split'),
  'caret': ('caret', 'parser (option boundset)', 'caret_p', 'comb_unfold. comb_split'),
  'hyphen': ('hyphen', 'parser (option boundset)', 'hyphen_p', 'unfold hyphen_tbl. comb_unfold. cbv zeta. comb_split'),
  'garbage': ('garbage', 'parser (option boundset)', 'garbage_pm', 'unfold garbage_pm, p_map, p_repeat_till0. fold stop_p. rewrite repeat_till_garbage by lia. reflexivity'),
  'simple': ('simple', 'parser (option boundset)', 'simple_pm',
             'unfold simple_pm, simple. fold term_p. cbn [p_alt]. rewrite !terminated_ok. unfold garbage_pm. '
             'destruct (terminated_p primitive_p s); [reflexivity|]. destruct (terminated_p partial_p s); [reflexivity|]. '
             'destruct (terminated_p tilde_p s); [reflexivity|]. destruct (terminated_p caret_p s); reflexivity'),
  'logical_or': ('logical_or', 'parser unit', 'logical_or_pm', 'unfold logical_or. comb_unfold. comb_split'),
  'range': ('range', 'parser (list boundset)', 'range_p',
            'unfold range_p, p_bind, p_space0. cbn [p_alt]. rewrite separated0_simples. unfold p_map, p_terminated, p_map, p_pair. set (t := space0 s). rewrite empty_alt_ok. unfold star_bs. destruct (at_empty_alt t); [reflexivity|]. '
            'destruct (hyphen_p t) as [[b r]|] eqn:E; [|destruct (simples_p t); reflexivity]. rewrite alt_end_ok. destruct (at_alt_end r); [reflexivity|]. destruct (simples_p t); reflexivity'),
  'bound_sets': ('bound_sets', 'parser (list boundset)', 'bound_sets', 'apply separated0_ranges'),
}
USED_BY = {k: ['C01', 'C02'] for k in SPEC}
for k in ('garbage', 'simple', 'logical_or', 'range', 'bound_sets', 'partial_version', 'component'): USED_BY[k] = ['C01', 'C02', 'C06', 'C13']

def translate_one(src, name):
    fn_name, ty, model, script = SPEC[name]
    if name == 'hyphen':
        outer = function_body(src, r'fn\s+hyphen\s*<')
        inner = function_body(outer, r'fn\s+parser\s*<')
        toks, strings = TF.tokenize_keep_strings(inner); (stmts, tail) = PP(toks).block()
        if not re.search(r'parser\s*\.context\(".*?"\)\s*\.parse_next\(input\)', outer): raise Unsupported('hyphen(): the outer function is not `parser.context(..).parse_next(input)`')
    else:
        (stmts, tail), strings = parse_fn(src, fn_name)
    term = EP(src, name, strings).stmts(stmts, tail)
    d = 'Definition %s_src : %s :=\n  %s.\n' % (name, ty, term)
    thm = 'Theorem %s_src_ok : forall s, %s_src s = %s s.\nProof. intro s. unfold %s_src; try unfold %s. %s. Qed.\n' % (name, name, model, name, model, script)
    return d, thm, '%s_src_ok' % name

def run(only=None):
    os.makedirs(GEN, exist_ok=True)
    status = {}
    try: src = open(RNG).read()
    except OSError as ex:
        return {n: {'status': 'unparsed', 'reason': 'cannot read %s: %s' % (RNG, ex)} for n in SPEC if only is None or n in only}
    for name in SPEC:
        if only is not None and name not in only: continue
        out = os.path.join(GEN, 'P_%s.v' % name)
        try:
            d, thm, thname = translate_one(src, name)
            text = HEADER + d + thm + 'Print Assumptions %s.\n' % thname
            status[name] = {'status': 'ok', 'file': out, 'theorem': thname}
        except Unsupported as ex:
            text = '(* GENERATED: tools/translate_p.py could not translate this function: %s *)\n' % str(ex).replace('*)', '* )')
            status[name] = {'status': 'unparsed', 'reason': str(ex)}
        except Exception as ex:
            text = '(* GENERATED: tools/translate_p.py failed: %r *)\n' % (ex,)
            status[name] = {'status': 'unparsed', 'reason': 'translator error: %r' % (ex,)}
        if not os.path.exists(out) or open(out).read() != text: open(out, 'w').write(text)
    from concurrent.futures import ThreadPoolExecutor
    todo = [n for n in status if status[n]['status'] == 'ok']
    with ThreadPoolExecutor(max_workers=8) as ex:
        list(ex.map(lambda n: T.drop_redundant(status[n]['file'], status[n]), todo))
    return status

if __name__ == '__main__':
    print(json.dumps(run(sys.argv[1:] or None), indent=1))
