#!/usr/bin/env python3
"""Version-grammar translator: the winnow grammar functions of src/lib.rs (`version`, `version_core`, `number`, `extras`, `pre_release`,
`build`, `identifier`) -> terms over the error-carrying combinators of Model/CombE.v.

Same scheme as tools/translate_p.py: callees are replaced by their models; each generated file coq/Gen/V_<f>.v proves that the
re-expressed function is the hand-written model of Model/VParse.v - exactly (including which slice, context and kind an error carries)
for `number`, `version_core`, `version`; up to the content of errors for `identifier`, `pre_release`, `build` (their errors are always
swallowed by the `opt(alt(..))` of `extras`, and the model keeps only success/failure); `extras` never fails.
Three closures are idiom-heavy library code (`str::parse::<u64>(s).map(..).unwrap_or_else(..)`, the `map_err` / range check of `number`,
`Extras::values`): they are recognised token by token and mapped to the model's `classify`, `number_check`, `extras_values`; any edit to
them makes the fragment `unparsed` (reported, not an alarm; the exhaustive `vparse` correspondence remains)."""
import os, re, sys, json
sys.path.insert(0, os.path.dirname(os.path.abspath(__file__)))
import translate as T
import translate_fn as TF
import translate_p as TP
from translate import Unsupported, function_body

ROOT = T.ROOT; GEN = T.GEN
LIB = os.path.join(os.environ.get('VERIF_REPO', '/repo'), 'src', 'lib.rs')

CTX = {'version': 'CVersion', 'version core': 'CVersionCore', 'number component': 'CNumber', 'identifier': 'CIdentifier',
       'build version': 'CBuild', 'pre_release version': 'CPreRelease'}
MODEL = {'version_core': 'version_core', 'number': 'number_pm', 'extras': 'extras_pm', 'identifier': 'identifier_m',
         'pre_release': 'pre_release_m', 'build': 'build_m', 'space0': 'e_space0', 'eof': 'e_eof', 'digit1': '(e_take_while1 is_digit)'}
IDENT_MAP = "str :: parse :: < u64 > ( s ) . map ( Identifier :: Numeric ) . unwrap_or_else ( | _err | Identifier :: AlphaNumeric ( s . to_string ( ) ) )".split()
NUMBER_CLOSURE = ("let value = str :: parse ( raw ) . map_err ( | e | SemverParseError { input : copied , context : None , kind : Some ( SemverErrorKind :: ParseIntError ( e ) ) , } ) ? ; "
                  "if value > MAX_SAFE_INTEGER { return Err ( SemverParseError { input : copied , context : None , kind : Some ( SemverErrorKind :: MaxIntError ( value ) ) , } ) ; } Ok ( value )").split()
EXTRAS_VALUES = ("use Extras :: * ; match self { Release ( ident ) => ( ident , Vec :: new ( ) ) , Build ( ident ) => ( Vec :: new ( ) , ident ) , ReleaseAndBuild ( ident ) => ident , }").split()
EXTRAS_CLOSURE = "match extras { Some ( extras ) => extras . values ( ) , _ => Default :: default ( ) , }".split()

def tokenize_v(text):
    chars = []
    def crepl(m):
        chars.append(m.group(1)); return ' __chr%d ' % (len(chars) - 1)
    text = re.sub(r'#\[[^\]]*\]', ' ', text)          # attributes
    text = re.sub(r"'(\\.|[^'\\])'", crepl, text)
    toks, strings = TF.tokenize_keep_strings(text)
    return toks, strings, chars

class PV(TP.PP):
    def atom(self):
        t = self.peek()
        if t and t.startswith('__chr'):
            self.next(); return ('chr', int(t[5:]))
        return super().atom()

class EV:
    def __init__(self, src, fname, strings, chars):
        self.src = src; self.fname = fname; self.strings = strings; self.chars = chars
    def lit(self, e):
        if e[0] != 'str': raise Unsupported('literal(..) of a non-literal')
        return '[' + '; '.join(str(ord(c)) for c in self.strings[e[1]]) + ']'
    def comb(self, e):
        k = e[0]
        if k == 'method':
            r, n, a = e[1], e[2], e[3]
            if n == 'parse_next': return self.comb(r)
            if n == 'context':
                if a[0][0] != 'str' or self.strings[a[0][1]] not in CTX: raise Unsupported('unknown context label')
                return '(e_context %s %s)' % (CTX[self.strings[a[0][1]]], self.comb(r))
            if n == 'map': return '(e_map %s %s)' % (self.comb(r), self.closure(a[0], r))
            raise Unsupported('parser method %s' % n)
        if k == 'var':
            n = e[1]
            if n in MODEL and n != self.fname: return MODEL[n]
            raise Unsupported('unknown parser %s' % n)
        if k == 'tuple':
            ps = [self.comb(x) for x in e[1]]; s = ps[-1]
            for p in reversed(ps[:-1]): s = '(e_pair %s %s)' % (p, s)
            return s
        if k == 'call':
            f, a = e[1], e[2]
            if f == 'alt':
                items = a[0][1] if a[0][0] == 'tuple' else [a[0]]
                return '(e_alt [%s])' % '; '.join(self.comb(x) for x in items)
            if f == 'opt': return '(e_opt %s)' % self.comb(a[0])
            if f == 'preceded': return '(e_preceded %s %s)' % (self.comb(a[0]), self.comb(a[1]))
            if f == 'terminated': return '(e_terminated %s %s)' % (self.comb(a[0]), self.comb(a[1]))
            if f == 'literal': return '(e_literal %s)' % self.lit(a[0])
            if f == 'separated':
                if a[0] != ('from', 1): raise Unsupported('separated with a range other than 1..')
                return '(e_separated1 %s %s)' % (self.comb(a[1]), self.comb(a[2]))
            if f == 'take_while':
                if a[0] != ('from', 1): raise Unsupported('take_while with a range other than 1..')
                return '(e_take_while1 %s)' % self.char_pred(a[1])
            if f == 'Parser::map': return '(e_map %s %s)' % (self.comb(a[0]), self.closure(a[1], a[0]))
            if f == 'Parser::take': return self.comb(a[0])
            if f == 'Parser::try_map':
                c = a[1]
                if c[0] != 'closure' or c[2][0] != 'blockraw' or c[2][1] != NUMBER_CLOSURE or c[1] != [('name', 'raw')]:
                    raise Unsupported('try_map closure is not the parse-and-range-check closure of number()')
                return '(e_try_map %s (number_check copied_))' % self.comb(a[0])
            raise Unsupported('combinator %s' % f)
        raise Unsupported('parser expression %s' % k)
    def char_pred(self, c):
        if c[0] != 'closure' or len(c[1]) != 1 or c[1][0][0] not in ('var', 'name'): raise Unsupported('character predicate')
        x = c[1][0][1]; body = c[2][1] if c[2][0] == 'withraw' else None
        if body is None: raise Unsupported('character predicate with a block body')
        def tr(e):
            if e[0] == 'or': return '(%s || %s)' % (tr(e[1]), tr(e[2]))
            if e[0] == 'and': return '(%s && %s)' % (tr(e[1]), tr(e[2]))
            if e[0] == 'method' and e[1] == ('var', x) and e[2] == 'is_ascii_alphanumeric' and not e[3]: return '(is_digit %s || is_alpha %s)' % (x, x)
            if e[0] == 'method' and e[1] == ('var', x) and e[2] == 'is_ascii_digit' and not e[3]: return '(is_digit %s)' % x
            if e[0] == 'method' and e[1] == ('var', x) and e[2] == 'is_ascii_alphabetic' and not e[3]: return '(is_alpha %s)' % x
            if e[0] == 'cmp' and e[1] == '==' and e[2] == ('var', x) and e[3][0] == 'chr': return '(%s =? %d)' % (x, ord(self.chars[e[3][1]].encode().decode('unicode_escape')))
            raise Unsupported('character test %s' % (e[0],))
        return '(fun %s => %s)' % (x, tr(body))
    def pat_seq(self, ps):
        # the value of a tuple PARSER is a right-nested pair; tuples inside are ordinary values
        out = [self.pat_val(p) for p in ps]; s = out[-1]
        for p in reversed(out[:-1]): s = '(%s, %s)' % (p, s)
        return s
    def pat_val(self, p):
        if p[0] == 'wild': return '_'
        if p[0] in ('var', 'name'): return T.ident(p[1])
        if p[0] == 'tuple': return '(' + ', '.join(self.pat_val(x) for x in p[1]) + ')'
        raise Unsupported('closure parameter pattern')
    def closure(self, c, mapped):
        if c[0] == 'var' and c[1].startswith('Extras::'): return {'Extras::ReleaseAndBuild': 'EBoth', 'Extras::Release': 'ERelease', 'Extras::Build': 'EBuild'}[c[1]]
        if c[0] != 'closure' or len(c[1]) != 1: raise Unsupported('mapped function')
        p, body = c[1][0], c[2]
        if body[0] == 'blockraw':
            if body[1] == IDENT_MAP and p == ('name', 's'): return 'classify'
            raise Unsupported('closure with a block body that is not the identifier classification')
        raw = body[2]; b = body[1]
        if raw == EXTRAS_CLOSURE:
            vb = function_body(self.src, r'impl\s+Extras\s*\{\s*fn\s+values\s*\(self\)\s*->\s*\(Vec<Identifier>,\s*Vec<Identifier>\)\s*\{')
            vt, _, _ = tokenize_v(vb)
            if vt[1:-1] != EXTRAS_VALUES: raise Unsupported('Extras::values is not the known three-arm match')
            return '(fun x => match x with Some e => extras_values e | None => ([], []) end)'
        pat = ("'" + self.pat_seq(p[1])) if (p[0] == 'tuple' and mapped[0] == 'tuple') else self.pat_val(p)
        return '(fun %s => %s)' % (pat, self.value(b))
    def value(self, e):
        if e[0] == 'tuple': return '(' + ', '.join(self.value(x) for x in e[1]) + ')'
        if e[0] == 'var': return T.ident(e[1])
        if e[0] == 'struct' and e[1] == 'Version':
            f = e[2]; need = ['major', 'minor', 'patch', 'build', 'pre_release']
            if sorted(f) != sorted(need): raise Unsupported('Version literal fields')
            return '(mkV %s)' % ' '.join(self.value(f[x]) for x in need)
        raise Unsupported('closure result %s' % e[0])
    def stmts(self, stmts, tail):
        pre = ''
        for s in stmts:
            if s[0] == 'let' and s[1] == ('name', 'copied') and s[2] == ('method', ('var', 'input'), 'clone', []):
                continue        # `copied` is the input at entry: the generated function's own argument
            raise Unsupported('statement in a version-grammar function')
        if tail is None: raise Unsupported('no result')
        return self.comb(tail)

HEADER = '(* GENERATED by tools/translate_v.py from /repo/src/lib.rs on every run -- do not edit *)\nFrom Semver Require Import Version VParse CombE CombELemmas.\n'
SPEC = {
  'identifier': ('eparser ident', 'forall s, erase (identifier_src s) = identifier s',
                 'intro s. unfold identifier_src. apply erase_identifier_gen. intro c. unfold is_ident_char. reflexivity'),
  'pre_release': ('eparser (list ident)', 'forall s, erase (pre_release_src s) = pre_release s',
                  'intro s. unfold pre_release_src. apply (erase_pre_release_gen identifier_m erase_identifier_m)'),
  'build': ('eparser (list ident)', 'forall s, erase (build_src s) = build_meta s',
            'intro s. unfold build_src. apply (erase_build_gen identifier_m erase_identifier_m)'),
  'extras': ('eparser (list ident * list ident)', 'forall s, extras_src s = extras_pm s',
             'intro s. unfold extras_src. apply (extras_gen pre_release_m build_m); intro t; apply erase_of_opt'),
  'number': ('eparser N', 'forall s, number_src s = number s', 'intro s. unfold number_src. apply number_gen'),
  'version_core': ('eparser (N * N * N)', 'forall s, version_core_src s = version_core s', 'intro s. unfold version_core_src. apply version_core_gen'),
  'version': ('eparser version', 'forall s, version_src s = version_p s', 'intro s. unfold version_src. apply version_gen'),
}
USED_BY = {'identifier': ['C05', 'C12'], 'pre_release': ['C05', 'C12'], 'build': ['C05', 'C12'], 'extras': ['C05', 'C12', 'C01'],
           'number': ['C05', 'C17', 'C01'], 'version_core': ['C05', 'C17'], 'version': ['C05', 'C12', 'C17', 'C18']}

def translate_one(src, name):
    ty, stmt, script = SPEC[name]
    body = function_body(src, r'fn\s+%s\s*<' % name)
    toks, strings, chars = tokenize_v(body)
    (stmts, tail) = PV(toks).block()
    term = EV(src, name, strings, chars).stmts(stmts, tail)
    if name == 'number':
        d = 'Definition number_src : %s := fun copied_ =>\n  %s copied_.\n' % (ty, term)
    else:
        d = 'Definition %s_src : %s :=\n  %s.\n' % (name, ty, term)
    thm = 'Theorem %s_src_ok : %s.\nProof. %s. Qed.\n' % (name, stmt, script)
    return d, thm, '%s_src_ok' % name

def run(only=None):
    os.makedirs(GEN, exist_ok=True)
    status = {}
    try: src = open(LIB).read()
    except OSError as ex:
        return {n: {'status': 'unparsed', 'reason': 'cannot read %s: %s' % (LIB, ex)} for n in SPEC if only is None or n in only}
    for name in SPEC:
        if only is not None and name not in only: continue
        out = os.path.join(GEN, 'V_%s.v' % name)
        try:
            d, thm, thname = translate_one(src, name)
            text = HEADER + d + thm + 'Print Assumptions %s.\n' % thname
            status[name] = {'status': 'ok', 'file': out, 'theorem': thname}
        except Unsupported as ex:
            text = '(* GENERATED: tools/translate_v.py could not translate this function: %s *)\n' % str(ex).replace('*)', '* )')
            status[name] = {'status': 'unparsed', 'reason': str(ex)}
        except Exception as ex:
            text = '(* GENERATED: tools/translate_v.py failed: %r *)\n' % (ex,)
            status[name] = {'status': 'unparsed', 'reason': 'translator error: %r' % (ex,)}
        if not os.path.exists(out) or open(out).read() != text: open(out, 'w').write(text)
    from concurrent.futures import ThreadPoolExecutor
    todo = [n for n in status if status[n]['status'] == 'ok']
    with ThreadPoolExecutor(max_workers=8) as ex:
        list(ex.map(lambda n: T.drop_redundant(status[n]['file'], status[n]), todo))
    return status

if __name__ == '__main__':
    print(json.dumps(run(sys.argv[1:] or None), indent=1))
