"""Literal harvesting: the constants the *current* source mentions steer the generators.

The exhaustive universes of the correspondence families are built from a few numbers (0, 1, 2, 3, 10, MAX-1, MAX) and a few
identifiers.  A change that misbehaves only at a value of its own choosing (a fast path valid below 1 << 16, a cast to u32, a
comparison with "beta") is invisible to them.  Such a value has to be written down in the source, so on every run the non-test
part of /repo/src/*.rs is scanned for
  * integer literals and constant shifts  `a << b`,
  * the widths of integer types other than u64 / usize (as casts, annotations or paths: `as u32`, `u16::MAX`, `: i32`),
  * string and char literals that could be (part of) an identifier,
and everything that is not in tools/literal_baseline.json (the literals of the tree the development was written against) is
returned by `magic()`; the generators add those values (and their neighbours) to their universes.  On the unchanged tree
`magic()` is empty and the families are exactly what they were; a stale baseline only adds cases and can never raise an alarm by
itself (the verdict is still model = crate on each case)."""
import json, os, re

HERE = os.path.dirname(os.path.abspath(__file__))
BASELINE = os.path.join(HERE, 'literal_baseline.json')
U64 = 1 << 64

def _src_dir():
    return os.path.join(os.environ.get('VERIF_REPO', '/repo'), 'src')

def strip_tests(text):
    """the source up to the unit tests (both files end with `#[cfg(test)] mod …`; lib.rs also has a test-table macro)"""
    cut = len(text)
    for m in re.finditer(r'#\[cfg\(test\)\]|macro_rules!\s*create_tests_for', text):
        cut = min(cut, m.start())
    return text[:cut]

_STR = re.compile(r'b?"((?:[^"\\]|\\.)*)"')
_CHR = re.compile(r"b?'((?:[^'\\]|\\.)[^']{0,6}?)'(?!\w)")

def scan(text):
    text = strip_tests(text)
    text = re.sub(r'//[^\n]*', '', text)
    text = re.sub(r'/\*.*?\*/', '', text, flags=re.S)
    strs = set()
    for m in _STR.finditer(text):
        strs.add(m.group(1))
    nostr = _STR.sub('""', text)
    for m in _CHR.finditer(nostr):
        strs.add(m.group(1))
    nostr = _CHR.sub("' '", nostr)
    nums = set()
    for m in re.finditer(r'(?<![\w.])(0x[0-9a-fA-F_]+|0b[01_]+|0o[0-7_]+|[0-9][0-9_]*)(?:_?(?:[ui](?:8|16|32|64|128|size)))?(?![\w])', nostr):
        t = m.group(1).replace('_', '')
        try:
            nums.add(int(t, 0) if t[:2] in ('0x', '0b', '0o') else int(t))
        except ValueError:
            pass
    shifts = set()
    for m in re.finditer(r'(?<![\w.])([0-9][0-9_]*)\w*\s*<<\s*([0-9]+)', nostr):
        shifts.add(int(m.group(1).replace('_', '')) << int(m.group(2)))
    widths = {}
    for m in re.finditer(r'\b(?:[ui](?:8|16|32|64|128)|f32|f64)\b', nostr):
        if m.group(0) != 'u64':
            widths[m.group(0)] = widths.get(m.group(0), 0) + 1
    return {'nums': sorted(nums), 'shifts': sorted(shifts), 'widths': widths, 'strs': sorted(strs)}

def harvest():
    out = {'nums': set(), 'shifts': set(), 'strs': set()}
    widths = {}
    d = _src_dir()
    for f in sorted(os.listdir(d)):
        if f.endswith('.rs'):
            r = scan(open(os.path.join(d, f), encoding='utf-8').read())
            for k in out:
                out[k] |= set(r[k])
            for w, c in r['widths'].items():
                widths[w] = widths.get(w, 0) + c
    res = {k: sorted(v) for k, v in out.items()}
    res['widths'] = widths
    return res

_cache = None
def magic():
    """{'nums': [...], 'tags': [...]}: values to add to the generators; empty on the baseline tree.
    Order of `nums` = priority: shift results, then literals, then type widths (a type counts as new when it is mentioned more
    often than in the baseline), each followed by its two neighbours."""
    global _cache
    if _cache is not None:
        return _cache
    empty = {'nums': [], 'shifts': [], 'widths': {}, 'strs': []}
    try:
        base = json.load(open(BASELINE))
    except OSError:
        base = empty
    try:
        now = harvest()
    except OSError:
        now = base
    new = {k: sorted(set(now[k]) - set(base.get(k, []))) for k in ('shifts', 'nums', 'strs')}
    new['widths'] = sorted(w for w, c in now['widths'].items() if c > base.get('widths', {}).get(w, 0))
    order = []
    def add(n):
        for x in (n, n + 1, n - 1):
            if 3 < x < U64 and x not in order:
                order.append(x)
    for n in new['shifts']: add(n)
    small = [n for n in new['nums'] if n < 64 and any(n != s and s >> n << n == s for s in new['shifts'])]   # shift amounts
    for n in new['nums']:
        if n not in small: add(n)
    for w in new['widths']:
        if w[0] == 'f':
            add(1 << (24 if w == 'f32' else 53)); continue
        b = int(w[1:])
        add(1 << b)
        if w[0] == 'i': add(1 << (b - 1))
    for n in small: add(n)
    tags = [s for s in new['strs'] if 0 < len(s) <= 12 and re.fullmatch(r'[0-9A-Za-z-]+', s)]
    _cache = {'nums': order[:12], 'tags': tags[:8], 'new': new}
    return _cache

def nums(limit=None):
    """magic component values that are legal version components (<= MAX_SAFE_INTEGER as the crate defines it)"""
    out = [n for n in magic()['nums'] if n <= 900719925474099]
    return out[:limit] if limit else out

def all_nums():
    return list(magic()['nums'])

def tags():
    """magic prerelease tags: each magic number and each magic string as a one-identifier tag"""
    m = magic()
    return [(n,) for n in m['nums'][:6]] + [(t,) for t in m['tags']]

if __name__ == '__main__':
    import sys
    if len(sys.argv) > 1 and sys.argv[1] == '--write-baseline':
        json.dump(harvest(), open(BASELINE, 'w'), indent=1)
        print('wrote', BASELINE)
    else:
        print(json.dumps({'harvest': harvest(), 'magic': magic()}, indent=1))
