#!/bin/bash
# usage: coqgoal.sh FILE LINE  -- show the goals after line LINE of FILE (relative to /verif/coq)
f=$1; n=$2
cd /verif/coq
tmp=$(mktemp /tmp/goalXXXX.v)
head -n $n "$f" > $tmp
echo "Show. Show Existentials." >> $tmp
timeout 120 coqc -Q . Semver $tmp 2>&1 | tail -${3:-40}
rm -f $tmp ${tmp%.v}.vo ${tmp%.v}.glob ${tmp%.v}.vok ${tmp%.v}.vos
