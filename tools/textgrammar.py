"""An independent, text-level reading of the range language of property C01.

`parse_text(s)` returns the syntax tree (rangegen's format) of a range text that lies in the language L below, or None
when the text is outside L (no verdict).  L is the npm range grammar as documented in the README (and repeated in the
comment above the crate's parser), plus exactly the loose spellings the property lists:

  range-set  ::= alt ( ws* '||' ws* alt )*
  alt        ::= ws* hyphen ws*  |  ws* token ( ws+ token )* ws*  |  ws*
  hyphen     ::= partial ws+ '-' ws+ partial                     -- a whole alternative, both partials present
  token      ::= comparator | junk
  comparator ::= ( '<' | '<=' | '>' | '>=' | '=' ) ws* partial | '~' ws* ( '>' ws* )? partial | '^' ws* partial | partial
  partial    ::= ( 'v' ws* )? xr ( '.' xr ( '.' xr qualifier? )? )?
  xr         ::= 'x' | 'X' | '*' | digits                        -- leading zeros allowed, value <= MAX_SAFE_INTEGER
  qualifier  ::= ( '-' ids | ids' )? ( '+' ids )?                -- ids' : hyphen omitted; after a numeric patch it starts with a letter
  junk       ::= '-'  |  letter-other-than-v-x-X followed by [0-9A-Za-z.+-]*      -- "unparseable tokens dropped"

Junk is deliberately a small class on which the documentation is unambiguous (node-semver's regular expressions treat
other unparseable shapes in ways its documentation does not describe); everything else is outside L.
A token is recognised as a comparator only if it is followed by a blank, `||` or the end of the text."""
import re
from lib import MAX, U64

WS = ' \t'
XR = r'(?:[xX*]|[0-9]+)'
ID = r'[0-9A-Za-z-]+'
IDS = ID + r'(?:\.' + ID + r')*'
PARTIAL = (r'(?:v[ \t]*)?(?P<c1%s>' + XR + r')(?:\.(?P<c2%s>' + XR + r')(?:\.(?P<c3%s>' + XR + r')(?:(?P<dash%s>-?)(?P<pre%s>' + IDS + r'))?(?:\+(?P<bld%s>' + IDS + r'))?)?)?')
def partial_re(k): return PARTIAL % ((k,) * 6)
END = r'(?=[ \t]|\|\||$)'
COMP_RE = re.compile(r'(?P<op><=|>=|<|>|=|~[ \t]*>|~|\^)?[ \t]*' + partial_re('') + END)
COMP_BARE_RE = re.compile(partial_re('') + END)
HYPHEN_RE = re.compile(r'^' + partial_re('a') + r'[ \t]+-[ \t]+' + partial_re('b') + r'$')
JUNK_RE = re.compile(r'(?:-|[A-UWYZa-uwyz][0-9A-Za-z.+-]*)' + END)

def mk_partial(m, k):
    xs = []
    for i in (1, 2, 3):
        c = m.group('c%d%s' % (i, k))
        if c is None: break
        if c in 'xX*': xs.append('x')
        else:
            n = int(c)
            if n > MAX: return None
            xs.append(n)
    pre = m.group('pre' + k); dash = m.group('dash' + k); bld = m.group('bld' + k)
    third = m.group('c3' + k)
    if pre is not None and dash == '':
        # hyphen-less tag: after a numeric patch it must start with a letter (a digit would belong to the number)
        if pre[0] == '-': return None      # `1.2.x-`: the hyphen was the separator and nothing follows it
        if third is not None and third not in 'xX*' and not pre[0].isalpha(): return None
    full = len(xs) == 3 and all(c != 'x' for c in xs)
    # once a component is a wildcard the later ones, the tag and the build are ignored (normal form)
    tag = tuple(pre.split('.')) if (pre and full) else ()
    build = tuple(bld.split('.')) if (bld and full) else ()
    return (xs, tag, build)

LIBERAL = True
FORM = {None: 'bare', '<': '<', '<=': '<=', '>': '>', '>=': '>=', '=': '=', '~': '~', '^': '^'}
def parse_alt(a):
    a = a.strip(WS)
    if a == '': return ('set', [])
    m = HYPHEN_RE.match(a)
    if m:
        lo = mk_partial(m, 'a'); hi = mk_partial(m, 'b')
        if lo is None or hi is None: return None
        return ('hyphen', lo, hi)
    comps = []; i = 0
    while i < len(a):
        if a[i] in WS: i += 1; continue
        m = COMP_RE.match(a, i)
        if m and m.end() > i:
            op = m.group('op')
            form = '~>' if (op and op.startswith('~') and op.endswith('>') and len(op) > 1) else FORM.get(op)
            p = mk_partial(m, '')
            if p is None or form is None: return None
            comps.append((form, p)); i = m.end(); continue
        m = JUNK_RE.match(a, i)
        if m:
            comps.append(('garbage', m.group(0))); i = m.end(); continue
        # any other run of non-blank scalars that is not a comparator is an unparseable token too ("unparseable tokens dropped"): `1.2.3.4`, `>=`,
        # `a|b` (a lone `|` does not separate alternatives), `1.2beta4`, ...  LIBERAL is switched off to get the narrow language of Spec/RangeText.v
        if not LIBERAL: return None
        j = i
        while j < len(a) and a[j] not in WS: j += 1
        comps.append(('garbage', a[i:j])); i = j
    return ('set', comps)

def parse_text(s):
    if len(s.encode()) > 4000: return None
    # a junk token may not contain '|' and comparators never do, so `||` always separates alternatives here
    out = []
    for a in s.split('||'):
        t = parse_alt(a)
        if t is None: return None
        out.append(t)
    return out
