"""Shared helpers for the check orchestrator: S-expressions (PROTOCOL.md), data encoders,
version universes, an independent Python reading of SemVer section 11, process runners."""
import os, subprocess, sys, time, json, random, itertools, re
sys.path.insert(0, os.path.dirname(os.path.abspath(__file__)))
import harvest as HV       # constants newly mentioned by the source under test (empty on the baseline tree)

ROOT = os.path.dirname(os.path.dirname(os.path.abspath(__file__)))
BUILD = os.path.join(ROOT, 'build')
COQ = os.path.join(ROOT, 'coq')
REPO = os.environ.get('VERIF_REPO', '/repo')      # the registered commands leave VERIF_REPO unset; a private copy is used only for experiments run beside a long check
MAX = 900719925474099
U64 = 1 << 64

# ----------------------------------------------------------------- S-expressions
class S(str):
    """a protocol string (as opposed to an atom)"""
    __slots__ = ()
    def __repr__(self): return 'S(%s)' % str.__repr__(self)

def enc_str(s):
    return '#' + '.'.join('%x' % ord(c) for c in s)

def dump(x):
    if isinstance(x, S): return enc_str(x)
    if isinstance(x, str): return x
    if isinstance(x, bool): return 'true' if x else 'false'
    if isinstance(x, int): return str(x)
    return '(' + ' '.join(dump(y) for y in x) + ')'

_tok = re.compile(r'\(|\)|#[0-9a-f.]*|[A-Za-z0-9_-]+')
def parse(s):
    toks = _tok.findall(s)
    pos = 0
    def item():
        nonlocal pos
        t = toks[pos]; pos += 1
        if t == '(':
            out = []
            while toks[pos] != ')':
                out.append(item())
            pos += 1
            return out
        if t[0] == '#':
            body = t[1:]
            return S(''.join(chr(int(h, 16)) for h in body.split('.')) if body else '')
        return t
    r = item()
    return r

# ----------------------------------------------------------------- data
# version: (major, minor, patch, pre, build); identifiers: int = Numeric, str = AlphaNumeric
def V(ma, mi, pa, pre=(), build=()):
    return (ma, mi, pa, tuple(pre), tuple(build))

def enc_ident(i):
    return ['n', str(i)] if isinstance(i, int) else ['a', S(i)]
def enc_version(v):
    return ['v', str(v[0]), str(v[1]), str(v[2]), [enc_ident(i) for i in v[3]], [enc_ident(i) for i in v[4]]]
def dec_ident(x):
    return int(x[1]) if x[0] == 'n' else str(x[1])
def dec_version(x):
    return (int(x[1]), int(x[2]), int(x[3]), tuple(dec_ident(i) for i in x[4]), tuple(dec_ident(i) for i in x[5]))

def vtext(v):
    s = '%d.%d.%d' % v[:3]
    if v[3]: s += '-' + '.'.join(str(i) for i in v[3])
    if v[4]: s += '+' + '.'.join(str(i) for i in v[4])
    return s

# range expressions
def E_parse(text): return ['parse', S(text)]
E_any = ['any']
def E_isect(a, b): return ['isect', a, b]
def E_diff(a, b): return ['diff', a, b]

def dec_pred(x):
    if x == 'unb': return ('unb', None)
    return (x[0], dec_version(x[1]))
def dec_bound(x): return (x[0],) + dec_pred(x[1])     # ('lo'|'up', 'inc'|'exc'|'unb', version|None)
def dec_bs(x): return (dec_bound(x[1]), dec_bound(x[2]))   # (lower slot, upper slot)
def dec_range(x): return [dec_bs(b) for b in x[1:]]
def dec_some_range(x):
    if x == 'none': return None
    return dec_range(x[1])

# ----------------------------------------------------------------- SemVer section 11, independently in Python
def py_icmp(a, b):
    if isinstance(a, int) and isinstance(b, int): return (a > b) - (a < b)
    if isinstance(a, int): return -1
    if isinstance(b, int): return 1
    ka, kb = [ord(c) for c in a], [ord(c) for c in b]
    return (ka > kb) - (ka < kb)
def py_vcmp(a, b):
    if a[:3] != b[:3]: return (a[:3] > b[:3]) - (a[:3] < b[:3])
    pa, pb = a[3], b[3]
    if not pa and not pb: return 0
    if not pa: return 1
    if not pb: return -1
    for x, y in zip(pa, pb):
        c = py_icmp(x, y)
        if c: return c
    return (len(pa) > len(pb)) - (len(pa) < len(pb))
CMPNAME = {-1: 'lt', 0: 'eq', 1: 'gt'}

def py_within(bs, v):
    (lk, lp, lv), (uk, up, uv) = bs
    if lp == 'inc' and py_vcmp(lv, v) > 0: return False
    if lp == 'exc' and py_vcmp(lv, v) >= 0: return False
    if up == 'inc' and py_vcmp(v, uv) > 0: return False
    if up == 'exc' and py_vcmp(v, uv) >= 0: return False
    return True
def py_gate(bs, v):
    if not v[3]: return True
    for (_, p, w) in bs:
        if p != 'unb' and w[3] and w[:3] == v[:3]: return True
    return False
def py_r_within(r, v): return any(py_within(bs, v) for bs in r)
def py_r_sat(r, v): return any(py_within(bs, v) and py_gate(bs, v) for bs in r)

# ----------------------------------------------------------------- universes
TAGS = [(), (0,), (1,), ('a',), ('A',), ('a-',), ('a', 0), ('a', 'a'), (0, 'a'), ('-',), (U64 - 1,), ('00',),
        ('a', 0, 0), (10,), ('10a',), (2,), ('b',),
        # numeric identifiers that collide when compared through f64 / i64
        (9007199254740992,), (9007199254740993,), (U64 - 2,), ((1 << 63) - 1,), (1 << 63,)]
BUILDS = [(), ('b',), (5, 'x')]

def version_universe(tier, rng):
    nums = [0, 1, 2, MAX] if tier == 'quick' else [0, 1, 2, 3, 10, MAX - 1, MAX]
    magic = HV.nums(3); nums = nums + magic
    tuples = set()
    for a in nums:
        for b in nums:
            for c in nums:
                if tier == 'quick' and len({a, b, c} - {0, 1}) > 1: continue
                tuples.add((a, b, c))
    tuples = sorted(tuples)
    if tier == 'quick':
        tuples = [t for t in tuples if rng.random() < 0.5 or t in ((0, 0, 0), (1, 0, 0), (1, 0, 1), (1, 1, 0), (0, 0, 1)) or any(x in magic for x in t)]
    out = []
    for t in tuples:
        tags = TAGS + HV.tags() if t in ((1, 0, 0), (0, 0, 0)) else rng.sample(TAGS, 4) + [()]
        for tag in tags:
            out.append(V(t[0], t[1], t[2], tag, rng.choice(BUILDS)))
    return out

# the small exhaustive universe for interval algebra and its probe set (neighbours of every member)
U6 = [V(1, 0, 0, ('a',)), V(1, 0, 0, ('a', 0)), V(1, 0, 0), V(1, 0, 1, (0,)), V(1, 0, 1), V(2, 0, 0)]
U8 = U6 + [V(1, 0, 0, (0,)), V(2, 0, 0, ('rc', 1))]
# every power of two a component can be (and its two neighbours): thresholds of packed / shifted / masked fast paths sit there, whether or not the
# source spells them as a literal (`1 << (u64::BITS / 3)`)
POWERS = [1 << k for k in range(2, 50) if (1 << k) + 1 <= MAX]
# sizes of collections (list lengths, numbers of comparators / alternatives / identifiers) around the powers of two: thresholds of
# "small input" fast paths and of bounded repetitions sit there
SIZES = [15, 16, 17, 31, 32, 33, 63, 64, 65, 127, 128, 129, 255, 256, 257]
def power_values():
    return sorted({m + d for m in POWERS for d in (-1, 0, 1)})
def magic_universes():
    """small universes around each newly mentioned constant m: versions that differ by m in one component, and the pairs a
    positional packing with radix m would confuse ((0,m,0) / (1,0,0); (1,0,m) / (1,1,0))"""
    return [[V(0, m, 0), V(1, 0, 0, ('a',)), V(1, 0, 0), V(1, 0, m), V(1, 1, 0), V(m, 0, 0)] for m in HV.nums(3)]
_univ_override = None
def small_universe(tier):
    if _univ_override is not None: return list(_univ_override)
    return U6 if tier == 'quick' else U8
def with_magic(gen):
    """run a universe-driven generator once more (quick size) over each magic universe; identity on the baseline tree"""
    def g(tier, rng):
        global _univ_override
        cases, info = gen(tier, rng)
        extra = 0
        for u in magic_universes():
            _univ_override = u
            try:
                c2 = gen('quick', rng)[0]
            finally:
                _univ_override = None
            extra += len(c2); cases = cases + c2
        if extra: info = dict(info, magic_universe_cases=extra, magic=HV.magic()['new'])
        return cases, info
    return g
def probe_versions(univ):
    out = set(univ)
    for v in univ:
        ma, mi, pa, pre, _ = v
        out.add(V(ma, mi, pa)); out.add(V(ma, mi, pa, (0,))); out.add(V(ma, mi, pa + 1)); out.add(V(ma, mi, pa + 1, (0,)))
        if pa > 0: out.add(V(ma, mi, pa - 1)); out.add(V(ma, mi, pa - 1, ('z',)))
        elif mi > 0: out.add(V(ma, mi - 1, 9))
        elif ma > 0: out.add(V(ma - 1, 9, 9)); out.add(V(ma - 1, 9, 9, ('z',)))
        if pre:
            out.add(V(ma, mi, pa, pre + (0,))); out.add(V(ma, mi, pa, pre + (0, 0)))
            out.add(V(ma, mi, pa, pre[:-1])) if len(pre) > 1 else None
            out.add(V(ma, mi, pa, ('zz',)))
            last = pre[-1]
            if isinstance(last, int) and last > 0: out.add(V(ma, mi, pa, pre[:-1] + (last - 1,)))
            if isinstance(last, int): out.add(V(ma, mi, pa, pre[:-1] + (last + 1,)))
            if isinstance(last, str): out.add(V(ma, mi, pa, pre[:-1] + (last + '-',)))
        else:
            out.add(V(ma, mi, pa, ('a',))); out.add(V(ma, mi, pa, ('zz',)))
    out.add(V(0, 0, 0)); out.add(V(0, 0, 0, (0,))); out.add(V(0, 0, 1)); out.add(V(3, 0, 0)); out.add(V(MAX, MAX, MAX))
    out.discard(None)
    return sorted(out, key=lambda v: (v[:3], 0 if v[3] else 1, [(0, i, '') if isinstance(i, int) else (1, 0, i) for i in v[3]]))

# ----------------------------------------------------------------- processes
def run(cmd, timeout=3600, cwd=None, env=None, stdin=None):
    e = dict(os.environ)
    e.update({'CARGO_NET_OFFLINE': 'true'})
    if env: e.update(env)
    return subprocess.run(cmd, cwd=cwd, env=e, timeout=timeout, stdout=subprocess.PIPE, stderr=subprocess.STDOUT,
                          text=True, input=stdin)

def log(*a):
    print(*a, file=sys.stderr, flush=True)
