#!/usr/bin/env python3
"""Orchestrator: `check.py <ID> [--tier quick|thorough]` decides one property.

1. proof obligations: full build of the Coq development, recompilation of Props/<ID>.v, source
   audit (no Admitted/Axiom/...), `Print Assumptions` of every pinned theorem against an allow-list;
2. correspondence: the families of cases the property's theorems mention are run on the real crate
   (harness, debug build of /repo's working tree) and on the extracted model (driver); a sample is
   re-checked inside Coq's kernel by vm_compute;
3. replay search: the property's executable statement is evaluated on the implementation's own
   observations; known findings are matched by input class;
4. verdict + evidence/<ID>.json.
`check.py --replay <file>` re-runs the cases recorded in a replay file on the current tree."""
import os, sys, json, time, random, hashlib
sys.path.insert(0, os.path.dirname(os.path.abspath(__file__)))
from lib import *
import build as B
import families as F
import translate as T
import translate_fn as TF
import translate_p as TP
import translate_v as TV

AXIOM_ALLOW = set()   # names of standard-library axioms accepted under property theorems (none needed so far)

KNOWN = json.load(open(os.path.join(ROOT, 'known_findings.json')))['findings']

def props_file(pid): return os.path.join(COQ, 'Props', pid + '.v')

# ------------------------------------------------------------------ step 1: proofs
def check_proofs(pid, tier):
    res = {'obligations': 0, 'discharged': 0, 'axioms': {}, 'problems': [], 'checker_cmd': '', 'theorems': []}
    ok, out = B.build_coq()
    res['checker_cmd'] = 'make -C coq -j16 (coq_makefile, full .vo build); coqc -Q coq Semver coq/Props/%s.v' % pid
    if not ok:
        m = re.findall(r'File "\./([^"]+)", line (\d+)[^\n]*\n((?:.*\n){0,6})', out)
        res['problems'].append('Coq build failed: ' + (('%s line %s: %s' % (m[0][0], m[0][1], m[0][2].strip()[:300])) if m else out[-400:]))
    src = open(props_file(pid)).read()
    plain = B.strip_comments(src)
    theorems = re.findall(r'^\s*(?:Theorem|Lemma)\s+(\w+)', plain, re.M)
    printed = re.findall(r'^\s*Print Assumptions\s+(\w+)\s*\.', plain, re.M)
    checked = set(re.findall(r'^\s*Check\s+(\w+)\s*:', plain, re.M))
    res['theorems'] = theorems
    res['obligations'] = len(theorems)
    for t in theorems:
        if t not in printed: res['problems'].append('theorem %s has no Print Assumptions' % t)
        if t not in checked: res['problems'].append('theorem %s has no pinned statement (Check)' % t)
    # property theorems must be closed by `exact`/trivial glue only: keep Props files free of long proofs
    if ok:
        r = run(['coqc', '-Q', '.', 'Semver', os.path.relpath(props_file(pid), COQ)], cwd=COQ, timeout=1200)
        open(os.path.join(BUILD, 'logs', pid + '.props.log'), 'w').write(r.stdout)
        if r.returncode:
            res['problems'].append('Props/%s.v does not compile: %s' % (pid, r.stdout[-400:]))
        else:
            # split the output into one block per Print Assumptions, in order
            blocks = re.findall(r'(Closed under the global context|Axioms:\n(?:(?!Closed under|Axioms:).*\n?)*)', r.stdout)
            if len(blocks) != len(printed):
                res['problems'].append('expected %d Print Assumptions results, saw %d' % (len(printed), len(blocks)))
            for name, blk in zip(printed, blocks):
                if blk.startswith('Closed'):
                    res['axioms'][name] = []
                else:
                    names = re.findall(r'^\s*([\w.]+)\s*:', blk[len('Axioms:'):], re.M)
                    res['axioms'][name] = names
                    bad = [n for n in names if n not in AXIOM_ALLOW]
                    if bad: res['problems'].append('theorem %s depends on axioms outside the allow-list: %s' % (name, bad))
            res['discharged'] = sum(1 for t in theorems if t in res['axioms'] and
                                    all(n in AXIOM_ALLOW for n in res['axioms'][t]))
    # tables regenerated from the Rust source: generated definition = hand-written model function, for all arguments
    res['source_tables'] = {}
    mine = [t for t, ps in T.USED_BY.items() if pid in ps]
    mine_fn = [t for t, ps in TF.USED_BY.items() if pid in ps]
    mine_p = [t for t, ps in TP.USED_BY.items() if pid in ps]
    mine_v = [t for t, ps in TV.USED_BY.items() if pid in ps]
    if ok and (mine or mine_fn or mine_p or mine_v):
        st = T.run(only=mine) if mine else {}
        if mine_fn: st.update({'fn:' + k: v for k, v in TF.run(only=mine_fn).items()})
        if mine_p: st.update({'parser:' + k: v for k, v in TP.run(only=mine_p).items()})
        if mine_v: st.update({'vparser:' + k: v for k, v in TV.run(only=mine_v).items()})
        mine = mine + ['fn:' + k for k in mine_fn] + ['parser:' + k for k in mine_p] + ['vparser:' + k for k in mine_v]
        for t in mine:
            x = st.get(t, {'status': 'unparsed', 'reason': 'not run'})
            res['source_tables'][t] = {k: v for k, v in x.items() if k != 'file'}
            if x['status'] != 'ok':
                # the fragment left the translator's Rust subset: no tie by translation, the correspondence remains (not an alarm) -- but the
                # correspondence then works harder: the families of this property are generated at the thorough tier's size (see main)
                res.setdefault('ties_lost', []).append(t)
                continue
            res['obligations'] += 1; res['theorems'].append(x['theorem'])
            if x.get('compiles') and x.get('closed'):
                res['discharged'] += 1; res['axioms'][x['theorem']] = []
            else:
                res['problems'].append('the fragment `%s` translated from the Rust source is no longer the model function the theorems are about (%s fails): %s'
                                       % (t, x['theorem'], (x.get('coq_error') or 'not closed under the global context')[-500:]))
        res['checker_cmd'] += '; tools/translate.py / translate_fn.py / translate_p.py / translate_v.py + coqc coq/Gen/{Src,Fn,P,V}_*.v for %s' % ','.join(mine)
    bad = B.audit_sources()
    if bad: res['problems'].append('source audit: ' + '; '.join(bad[:5]))
    if tier == 'thorough' and ok and not res['problems']:
        r = run(['coqchk', '-silent', '-o', '-Q', '.', 'Semver', 'Semver.Props.' + pid], cwd=COQ, timeout=3000)
        open(os.path.join(BUILD, 'logs', pid + '.coqchk.log'), 'w').write(r.stdout)
        res['checker_cmd'] += '; coqchk -silent -o -Q coq Semver Semver.Props.%s' % pid
        if r.returncode: res['problems'].append('coqchk failed: ' + r.stdout[-300:])
        else:
            m = re.search(r'\* Axioms:\s*(.*?)(?:\n\s*\n|\* |\Z)', r.stdout, re.S)
            res['coqchk_axioms'] = (m.group(1).strip() if m else '?')
            if m and '<none>' not in m.group(1): res['problems'].append('coqchk reports axioms: ' + m.group(1).strip()[:300])
    return res

# ------------------------------------------------------------------ step 2: run cases on implementation and model
IMPL_TIMEOUT = 3600; MODEL_TIMEOUT = 3600
INCOMPLETE = []          # what a timeout kept a run from exploring (goes into the evidence)
STALLED = []             # ... when that is more than a tenth of a family: the correspondence was not established
RELEASE_TOO = [False]    # the release build of the crate runs every case as well (set by main when that harness builds)
PROFILE_DIFFS = []       # (family, case, debug observation, release observation): the two build profiles of the crate disagree
def run_cases(workdir, tag, cases, release=False):
    os.makedirs(workdir, exist_ok=True)
    cf = os.path.join(workdir, tag + '.cases'); of = os.path.join(workdir, tag + '.obs'); vf = os.path.join(workdir, tag + '.verdict')
    with open(cf, 'w') as f:
        for c in cases: f.write(c); f.write('\n')
    hung = None
    with open(of, 'w') as out:
        try:
            p = subprocess.run([B.harness_bin(release), cf], stdout=out, stderr=subprocess.PIPE, timeout=IMPL_TIMEOUT)
            if p.returncode: raise RuntimeError('harness failed: ' + p.stderr.decode()[-500:])
        except subprocess.TimeoutExpired:
            hung = 'impl'
    if hung:
        # the crate did not come back: the case after the last complete observation is reported as a hang (an observation like a panic),
        # the cases after it were not explored
        done = [l for l in open(of).read().split('\n')[:-1] if '\t' in l]
        k = len(done)
        with open(of, 'w') as out:
            for l in done: out.write(l + '\n')
            if k < len(cases): out.write(cases[k] + '\tpanic\n')
        cases = cases[:k + 1]
        INCOMPLETE.append('%s: the implementation did not finish within %d s; case %d is reported as a hang, %d cases after it were not run' % (tag, IMPL_TIMEOUT, k, 0))
    if RELEASE_TOO[0] and not release and not hung:
        # the same cases through the release build (no overflow checks, no debug assertions, optimised): both profiles must observe the same
        rf = os.path.join(workdir, tag + '.obs_release')
        try:
            with open(rf, 'w') as out:
                p = subprocess.run([B.harness_bin(True), cf], stdout=out, stderr=subprocess.PIPE, timeout=IMPL_TIMEOUT)
            if p.returncode == 0:
                with open(of) as fd, open(rf) as fr:
                    for c, ld, lr in zip(cases, fd, fr):
                        if ld != lr and len(PROFILE_DIFFS) < 50:
                            PROFILE_DIFFS.append((tag, c, ld.rstrip('\n').split('\t', 1)[-1][:400], lr.rstrip('\n').split('\t', 1)[-1][:400]))
        except subprocess.TimeoutExpired:
            INCOMPLETE.append('%s: the release build did not finish within %d s' % (tag, IMPL_TIMEOUT))
        finally:
            if os.path.exists(rf): os.remove(rf)
    with open(vf, 'w') as out:
        try:
            p = subprocess.run('ulimit -s unlimited 2>/dev/null; exec %s %s' % (os.path.join(BUILD, 'driver'), of), shell=True,
                               stdout=out, stderr=subprocess.PIPE, timeout=MODEL_TIMEOUT)
            if p.returncode: raise RuntimeError('driver failed: ' + p.stderr.decode()[-500:])
        except subprocess.TimeoutExpired:
            hung = 'model'
    obs = open(of).read().split('\n'); ver = open(vf).read().split('\n')
    if obs and obs[-1] == '': obs.pop()
    if ver and ver[-1] == '': ver.pop()
    if hung == 'model':
        # the *model* is slow on some input (it is not written for speed): what it did not reach was not explored -- said in the evidence, not an alarm
        k = max(len(ver) - 1, 0)
        INCOMPLETE.append('%s: the extracted model did not finish within %d s; %d of %d cases were compared' % (tag, MODEL_TIMEOUT, k, len(cases)))
        if k < 0.9 * len(cases): STALLED.append(INCOMPLETE[-1])
        cases = cases[:k]; obs = obs[:k]; ver = ver[:k]
    if len(obs) != len(cases) or len(ver) != len(cases):
        raise RuntimeError('line count mismatch: %d cases, %d observations, %d verdicts' % (len(cases), len(obs), len(ver)))
    out = []
    for c, o, v in zip(cases, obs, ver):
        i = o.index('\t')
        out.append((c, o[i + 1:], v))
    return out

def kernel_certificates(workdir, pid, certs):
    """certs: list of Gallina propositions (strings) that state model = implementation on sampled cases.
    They are proved by vm_compute inside coqc, sharded over 16 processes."""
    if not certs: return 0, []
    shards = [certs[i::16] for i in range(16)]
    procs = []
    for k, sh in enumerate(shards):
        if not sh: continue
        f = os.path.join(workdir, 'cert_%s_%d.v' % (pid, k))
        with open(f, 'w') as fh:
            fh.write('From Semver Require Import RParse RangeLaws.\nFrom Coq Require Import ZArith.\nOpen Scope N_scope.\n')
            for i, c in enumerate(sh):
                fh.write('Example c%d : %s.\nProof. vm_compute. reflexivity. Qed.\n' % (i, c))
        procs.append((f, sh, subprocess.Popen(['coqc', '-noglob', '-Q', COQ, 'Semver', f], cwd=workdir,
                                              stdout=subprocess.PIPE, stderr=subprocess.STDOUT, text=True)))
    good = 0; bad = []
    for f, sh, p in procs:
        out, _ = p.communicate(timeout=1800)
        if p.returncode == 0: good += len(sh)
        else:
            m = re.search(r'line (\d+)', out)
            idx = (int(m.group(1)) - 4) // 2 if m else 0
            bad.append((sh[min(max(idx, 0), len(sh) - 1)], out[-300:]))
            good += max(idx, 0)
    return good, bad

# ------------------------------------------------------------------ known findings
def match_known(pid, failure):
    for k in KNOWN:
        if k['property'] != pid or k.get('status') != 'known': continue
        if F.classify(k['class'], failure): return k
    return None

# ------------------------------------------------------------------ main
def main():
    args = sys.argv[1:]
    if args and args[0] == '--replay':
        return replay(args[1])
    pid = args[0]
    tier = os.environ.get('VERIF_TIER', 'quick')
    if '--tier' in args: tier = args[args.index('--tier') + 1]
    seed = int(os.environ.get('VERIF_SEED', '20260926'))
    global IMPL_TIMEOUT, MODEL_TIMEOUT
    if tier == 'quick': IMPL_TIMEOUT = 600; MODEL_TIMEOUT = 900        # the quick families take seconds; a hang should not cost an hour
    t0 = time.time()
    rng = random.Random(seed * 1000003 + int(pid[1:]))
    workdir = os.path.join(BUILD, 'run', pid)
    os.makedirs(workdir, exist_ok=True)
    os.makedirs(os.path.join(ROOT, 'evidence', 'replay'), exist_ok=True)
    for old in os.listdir(os.path.join(ROOT, 'evidence', 'replay')):
        if old.startswith(pid + '-'): os.remove(os.path.join(ROOT, 'evidence', 'replay', old))
    spec = F.PROPERTIES[pid]

    violations = []      # dicts: what, replay (dict), no_input (bool)
    known_hits = {}

    # --- builds
    okd, outd = B.build_driver()
    okh, outh = B.build_harness(False)
    if not okh:
        violations.append({'what': 'the harness no longer builds against /repo (public API changed?): ' + outh[-600:],
                           'replay': {'correspondence': 'harness build', 'log': outh[-2000:]}, 'no_input': True})
    okr, outr = B.build_harness(True) if okh else (False, '')
    RELEASE_TOO[0] = bool(okr)
    proofs = check_proofs(pid, tier)
    if not okd and not any('Coq build failed' in p for p in proofs['problems']):
        proofs['problems'].append('extraction/driver build failed: ' + outd[-400:])
    for p in proofs['problems']:
        violations.append({'what': 'proof obligation: ' + p, 'replay': {'theorem_or_audit': p}, 'no_input': True})

    # --- correspondence + replay search
    cov = {'evaluations': 0, 'distinct_nontrivial': 0, 'samples': [], 'families': {}, 'exhaustive': False,
           'traces_validated_against_impl': 0, 'disagreements': 0, 'impl_panics': 0}
    certs = []
    if okh and okd:
        import fam_sets
        extra_runs = [0]
        def runner(cases):
            extra_runs[0] += 1
            return run_cases(workdir, 'extra%d' % extra_runs[0], cases)
        fam_sets.RUNNER = runner
        for fam in spec['families']:
            fam_name = fam['name']
            # a source fragment this property's theorems were tied to by proof is no longer tied (rewritten out of the translators' subset, or
            # its proof fails): the search for a failing input is widened to the thorough tier's generators for this run
            gen_tier = 'thorough' if (proofs.get('ties_lost') or any('translated from the Rust source' in p for p in proofs['problems'])) else tier
            cases, meta = fam['gen'](gen_tier, rng)
            if gen_tier != tier:
                cap = 150000
                if len(cases) > cap:
                    # the widened family would not fit the quick tier's budget; cases depend on their neighbours (a `sat` next to its `minsat`), so it is
                    # not sampled: this family stays at its quick size
                    cases, meta = fam['gen'](tier, rng)
                else:
                    meta = dict(meta, escalated='generated at the thorough size because a source tie of this property was lost: %s' % ', '.join(proofs.get('ties_lost', []) or ['a failing _src_ok']))
            cases = list(dict.fromkeys(F.corpus_cases(pid, fam_name) + cases))
            t1 = time.time()
            triples = run_cases(workdir, fam_name, cases)
            diffs = [(c, o, v) for (c, o, v) in triples if v.startswith('DIFF') or v.startswith('BAD')]
            panics = [(c, o, v) for (c, o, v) in triples if o == 'panic' or o.endswith(' panic)')]
            # two entry points of the crate that must agree did not (FromStr vs parse, == / Hash vs structure, satisfies both ways, cmp vs partial_cmp)
            incons = [(c, o, v) for (c, o, v) in triples if o == '(inconsistent)']
            ev = fam['eval'](triples, tier, rng)     # {'failures': [...], 'nontrivial': int, 'distribution': {...}, 'certs': [...]}
            cov['evaluations'] += len(triples) + ev.get('extra_evaluations', 0)
            cov['distinct_nontrivial'] += ev['nontrivial']
            cov['disagreements'] += len(diffs)
            cov['impl_panics'] += len(panics)
            cov['families'][fam_name] = dict(meta, cases=len(triples), disagreements=len(diffs), impl_panics=len(panics),
                                             nontrivial=ev['nontrivial'], distribution=ev.get('distribution', {}),
                                             seconds=round(time.time() - t1, 1))
            if meta.get('exhaustive'): cov['exhaustive'] = True
            cov['samples'] += [{'family': fam_name, 'case': c, 'impl': o[:400], 'model': v[:80]} for (c, o, v) in
                               rng.sample(triples, min(3, len(triples)))]
            certs += ev.get('certs', [])
            # keep a few failures of every kind (so that a flood of one class, e.g. a known finding, cannot hide another)
            per_kind = {}; fails = []
            for fl in ev['failures']:
                k = (fl.get('kind'), fl.get('rule'))
                per_kind[k] = per_kind.get(k, 0) + 1
                if per_kind[k] <= 5: fails.append(fl)
            for fl in fails:
                k = match_known(pid, fl)
                if k: known_hits.setdefault(k['id'], (k, fl))
                else: violations.append({'what': fl['what'], 'replay': fl, 'no_input': False})
            # a disagreement with the proved model that no property-level failure explains
            excused = ev.get('excused', set())
            failcases = {fl.get('case') for fl in fails}
            unexplained = [d for d in diffs if d[0] not in failcases and d[0] not in excused]
            if unexplained and not [f for f in fails if not match_known(pid, f)]:
                c, o, v = unexplained[0]
                violations.append({'what': 'correspondence family %s: model and implementation disagree on %d case(s) and no property-level failure was found'
                                   % (fam_name, len(unexplained)),
                                   'replay': {'correspondence': fam_name, 'case': c, 'impl': o, 'model': v, 'count': len(unexplained),
                                              'more': [x[0] for x in unexplained[1:6]]}, 'no_input': True})
            if incons and not any(fl.get('case') == incons[0][0] for fl in fails):
                c, o, v = incons[0]
                violations.append({'what': 'two entry points of the crate that must agree do not (FromStr vs parse, Range == / Hash vs its structure, Version::satisfies vs Range::satisfies, cmp vs partial_cmp) on a case of family %s: %s' % (fam_name, c[:300]),
                                   'replay': {'correspondence': fam_name, 'case': c, 'impl': o, 'model': v, 'input': [c[:300]]}, 'no_input': False})
            if panics and not spec.get('panics_expected'):
                unexplained_p = [d for d in panics if not any(fl.get('case') == d[0] for fl in fails)]
                if unexplained_p and not any(not v_['no_input'] for v_ in violations):
                    c, o, v = unexplained_p[0]
                    violations.append({'what': 'implementation panicked on a case of family %s (the model proves Ok/Err there)' % fam_name,
                                       'replay': {'correspondence': fam_name, 'case': c, 'impl': o, 'model': v}, 'no_input': not spec.get('panic_is_failure')})
        for (fam_name_, c, od, orl) in PROFILE_DIFFS[:3]:
            violations.append({'what': 'the debug and the release build of the crate observe different results on a case of family %s: %s -> debug %s, release %s' % (fam_name_, c[:300], od[:200], orl[:200]),
                               'replay': {'correspondence': fam_name_, 'case': c, 'impl_debug': od, 'impl_release': orl, 'input': [c[:300]]}, 'no_input': False})
        if STALLED and not violations:
            violations.append({'what': 'the correspondence could not be run to completion: ' + '; '.join(STALLED),
                               'replay': {'correspondence': 'model driver timeout', 'detail': list(STALLED)}, 'no_input': True})
        ncert = 200 if tier == 'quick' else 2000
        sample = rng.sample(certs, min(ncert, len(certs)))
        good, bad = kernel_certificates(workdir, pid, sample)
        cov['traces_validated_against_impl'] = good
        for c, out in bad[:1]:
            if not violations:
                violations.append({'what': 'in-kernel certificate failed: the model evaluated by vm_compute differs from the implementation (or from the extraction)',
                                   'replay': {'correspondence': 'kernel certificate', 'statement': c, 'coq': out}, 'no_input': True})

    # --- verdict
    # failures with a concrete input take precedence over no-input reports
    concrete = [v for v in violations if not v['no_input']]
    report = concrete[:3] if concrete else violations[:3]
    lines = []
    for kid, (k, fl) in sorted(known_hits.items()):
        lines.append('KNOWN-FINDING: property=%s %s: %s [witness %s]' % (pid, kid, k['what'], json.dumps(fl.get('input', fl.get('case', '')))[:200]))
    n = 0
    for v in report:
        n += 1
        path = os.path.join(ROOT, 'evidence', 'replay', '%s-%d.json' % (pid, n))
        rec = dict(v['replay']); rec.update({'property': pid, 'what': v['what'], 'seed': seed, 'tier': tier,
                                             'replay_cmd': 'python3 tools/check.py --replay evidence/replay/%s-%d.json' % (pid, n)})
        json.dump(rec, open(path, 'w'), indent=1, default=str)
        lines.append('VIOLATION property=%s replay=%s%s' % (pid, path, ' no-failing-input-found' if v['no_input'] else ''))
    tb = F.TRUSTED_BASE + ['axioms reported by Print Assumptions on this run: ' +
                           (', '.join(sorted({a for l in proofs['axioms'].values() for a in l})) or 'none (every property theorem is closed under the global context)')]
    evidence = {
        'property_id': pid, 'tier': tier, 'seed': seed, 'level': 'proof',
        'coverage': {
            'obligations': max(proofs['obligations'], 1), 'discharged': proofs['discharged'],
            'checker_cmd': proofs['checker_cmd'], 'trusted_base': tb,
            'theorems': proofs['theorems'], 'proof_problems': proofs['problems'], 'source_tables': proofs.get('source_tables', {}),
            'evaluations': max(cov['evaluations'], 1), 'distinct_nontrivial': cov['distinct_nontrivial'],
            'rule': spec['rule'], 'samples': cov['samples'][:12], 'exhaustive': cov['exhaustive'],
            'traces_validated_against_impl': cov['traces_validated_against_impl'],
            'families': cov['families'], 'disagreements': cov['disagreements'], 'impl_panics': cov['impl_panics'],
            'known_findings_seen': sorted(known_hits.keys()),
            'not_explored_because_of_timeouts': list(INCOMPLETE),
            'build_profiles': ['debug (overflow checks, debug assertions)'] + (['release (every case again; observations must be identical)'] if RELEASE_TOO[0] else []),
            'profile_disagreements': len(PROFILE_DIFFS),
            'explanation': spec.get('explanation', ''),
        },
        'assumptions': spec.get('assumptions', []) + ['the correspondence is differential testing; it is exhaustive only over the finite universes named in coverage.families'],
        'wall_s': round(time.time() - t0, 1), 'violations': len(report),
    }
    json.dump(evidence, open(os.path.join(ROOT, 'evidence', pid + '.json'), 'w'), indent=1, default=str)
    for l in lines: print(l)
    print('%s %s: %d/%d theorems, %d cases, %d disagreements, %d certificates, %.0fs -> %s' %
          (pid, tier, proofs['discharged'], proofs['obligations'], cov['evaluations'], cov['disagreements'],
           cov['traces_validated_against_impl'], time.time() - t0, 'VIOLATION' if report else 'ok'))
    return 1 if report else 0

def replay(path):
    rec = json.load(open(path))
    cases = []
    for k in ('case',):
        if k in rec and isinstance(rec[k], str): cases.append(rec[k])
    cases += [c for c in rec.get('cases', []) if isinstance(c, str)]
    cases += [c for c in rec.get('more', []) if isinstance(c, str)]
    if not cases:
        print('replay file names no executable case (%s)' % rec.get('what', '')); return 1
    ok, out = B.build_harness(False)
    if not ok: print(out[-1000:]); return 1
    B.build_driver()
    triples = run_cases(os.path.join(BUILD, 'run', 'replay'), 'replay', cases)
    bad = 0
    for c, o, v in triples:
        print('case  ', c); print('impl  ', o); print('model ', v)
        if not v.startswith('ok') and not v.startswith('SKIP'): bad += 1
    print('what  ', rec.get('what'))
    return 1 if bad else 0

if __name__ == '__main__':
    sys.exit(main())
