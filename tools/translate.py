#!/usr/bin/env python3
"""A small translator from the table-shaped fragments of /repo/src/range.rs to Gallina.

What is translated (on every run, from the current working tree):
  * `impl Ord for Bound { fn cmp }`           -> bcmp_src          (the 36-entry comparison table)
  * `BoundSet::new`                            -> bs_new_src        (match with guards)
  * the `match` of `primitive()`, `partial()`, `tilde()`, `caret()` (with its nested match) and the upper-bound `match` of
    `hyphen()`                                 -> primitive_src, partial_src, tilde_src, caret_src, hyphen_upper_src
Each becomes one file coq/Gen/Src_<name>.v containing the generated definition and the theorem
`<name>_src_ok : forall args, <name>_src args = <hand-written model function> args`, whose proof is a case split over the
constructors followed by `reflexivity` - so the kernel checks, for ALL versions and numbers, that the hand-written model the
property theorems are about is the function the source text denotes.  The files are not part of the main build: check.py
compiles the ones a property depends on.

The Rust subset: `match` on a tuple / struct / variable; patterns: `_`, variables, integer literals, `Some(p)`, `None`, enum
variants, tuple patterns, or-patterns, `Partial { field: p, field, .. }`, match guards; expressions: paths, calls of the
`BoundSet` / `Bound` / `Predicate` constructors, `Version { .. }` literals, tuples with `.into()` / `Version::from`, `vec![..]`,
`x.unwrap_or(n)`, `+`, `if c { a } else { b }` with a comparison as condition, `a.cmp(b)`, `Self { lower: Box::new(..), .. }`, nested
`match`.  Anything else makes the translation of that table fail with a reason; that is reported in the evidence (the check then
rests on the correspondence alone for that table) and is not by itself an alarm."""
import os, re, sys, json
ROOT = os.path.dirname(os.path.dirname(os.path.abspath(__file__)))
SRC = os.path.join(os.environ.get('VERIF_REPO', '/repo'), 'src', 'range.rs')
GEN = os.path.join(ROOT, 'coq', 'Gen')

class Unsupported(Exception): pass

# ------------------------------------------------------------------ tokenizer
TOK = re.compile(r'\s+|//[^\n]*|/\*.*?\*/|(?P<t>vec!|=>|::|\.\.|\+=|<=|>=|==|!=|&&|\|\||[A-Za-z_][A-Za-z0-9_]*|[0-9]+|[{}()\[\],;:|.+\-*<>=&!?_])', re.S)
def tokenize(text):
    out = []; pos = 0
    while pos < len(text):
        m = TOK.match(text, pos)
        if not m: raise Unsupported('cannot tokenize at %r' % text[pos:pos + 30])
        if m.group('t'): out.append(m.group('t'))
        pos = m.end()
    return out

def balanced(text, start):
    """text[start] == '{': return index just past the matching '}' (comments and strings are simple here)"""
    depth = 0; i = start
    while i < len(text):
        c = text[i]
        if text.startswith('//', i):
            i = text.index('\n', i); continue
        if c == '"':
            i = text.index('"', i + 1) + 1; continue
        if c == '{': depth += 1
        elif c == '}':
            depth -= 1
            if depth == 0: return i + 1
        i += 1
    raise Unsupported('unbalanced braces')

def function_body(src, header_re):
    m = re.search(header_re, src)
    if not m: raise Unsupported('no match for %s' % header_re)
    b = m.start() + m.group(0).rindex('{') if '{' in m.group(0) else src.index('{', m.end())
    return src[b:balanced(src, b)]

def first_match(body, scrut_re, nth=0):
    ms = list(re.finditer(r'\bmatch\s+' + scrut_re + r'\s*\{', body))
    if len(ms) <= nth: raise Unsupported('no `match %s {` number %d' % (scrut_re, nth))
    m = ms[nth]
    b = m.end() - 1
    return body[m.start():balanced(body, b)]

# ------------------------------------------------------------------ parser
class P:
    def __init__(self, toks): self.t = toks; self.i = 0
    def peek(self, k=0): return self.t[self.i + k] if self.i + k < len(self.t) else None
    def next(self):
        x = self.peek(); self.i += 1; return x
    def expect(self, x):
        if self.peek() != x: raise Unsupported('expected %r, found %r (near %s)' % (x, self.peek(), ' '.join(self.t[max(0, self.i - 6):self.i + 4])))
        self.i += 1
    def accept(self, x):
        if self.peek() == x: self.i += 1; return True
        return False

    # ---- patterns
    def pattern(self):
        alts = [self.pattern1()]
        while self.peek() == '|':
            self.next(); alts.append(self.pattern1())
        return alts[0] if len(alts) == 1 else ('or', alts)
    def pattern1(self):
        t = self.peek()
        if t == '&': self.next(); return self.pattern1()
        if t == '_': self.next(); return ('wild',)
        if t == '(':
            self.next(); ps = []
            while self.peek() != ')':
                ps.append(self.pattern()); self.accept(',')
            self.expect(')')
            return ps[0] if len(ps) == 1 else ('tuple', ps)
        if t and t.isdigit(): self.next(); return ('lit', int(t))
        if t and re.match(r'[A-Za-z_]', t):
            name = self.path()
            if self.peek() == '(':
                self.next(); args = []
                while self.peek() != ')':
                    args.append(self.pattern()); self.accept(',')
                self.expect(')')
                return ('ctor', name, args)
            if self.peek() == '{':
                self.next(); fields = {}; rest = False
                while self.peek() != '}':
                    if self.accept('..'): rest = True; continue
                    f = self.next()
                    if self.accept(':'): fields[f] = self.pattern()
                    else: fields[f] = ('var', f)
                    self.accept(',')
                self.expect('}')
                return ('struct', name, fields, rest)
            return ('name', name)
        raise Unsupported('pattern starting with %r' % t)
    def path(self):
        name = self.next()
        while self.peek() == '::':
            self.next(); name += '::' + self.next()
        return name

    # ---- expressions
    def expr(self):
        e = self.cmp_expr()
        return e
    def cmp_expr(self):
        a = self.add_expr()
        if self.peek() in ('<', '<=', '>', '>=', '==', '!='):
            op = self.next(); b = self.add_expr(); return ('cmp', op, a, b)
        return a
    def add_expr(self):
        a = self.postfix()
        while self.peek() == '+':
            self.next(); b = self.postfix(); a = ('add', a, b)
        return a
    def postfix(self):
        e = self.atom()
        while True:
            if self.peek() == '.':
                self.next(); name = self.next()
                args = []
                if self.peek() == '(':
                    self.next()
                    while self.peek() != ')':
                        args.append(self.expr()); self.accept(',')
                    self.expect(')')
                    e = ('method', e, name, args)
                else:
                    e = ('field', e, name)
            else: return e
    def atom(self):
        t = self.peek()
        if t in ('*', '&'): self.next(); return self.postfix()
        if t == '(':
            self.next(); es = []
            while self.peek() != ')':
                es.append(self.expr()); self.accept(',')
            self.expect(')')
            return es[0] if len(es) == 1 else ('tuple', es)
        if t == '{':
            old = getattr(self, 'no_struct', False); self.no_struct = False
            self.next(); e = self.expr(); self.accept(';'); self.expect('}'); self.no_struct = old; return e
        if t == 'vec!':
            self.next(); self.expect('['); es = []
            while self.peek() != ']':
                es.append(self.expr()); self.accept(',')
            self.expect(']'); return ('vec', es)
        if t == 'if':
            self.next(); c = self.expr(); self.expect('{'); a = self.expr(); self.expect('}'); self.expect('else'); self.expect('{'); b = self.expr(); self.expect('}')
            return ('if', c, a, b)
        if t == 'match':
            return self.match()
        if t and t.isdigit(): self.next(); return ('int', int(t))
        if t and re.match(r'[A-Za-z_]', t):
            name = self.path()
            if self.peek() == '(':
                self.next(); args = []
                while self.peek() != ')':
                    args.append(self.expr()); self.accept(',')
                self.expect(')')
                return ('call', name, args)
            if self.peek() == '{' and name in ('Version', 'Self', 'BoundSet', 'Partial') and not getattr(self, 'no_struct', False):
                self.next(); fields = {}
                while self.peek() != '}':
                    f = self.next()
                    if self.accept(':'): fields[f] = self.expr()
                    else: fields[f] = ('var', f)
                    self.accept(',')
                self.expect('}')
                return ('struct', name, fields)
            return ('var', name)
        raise Unsupported('expression starting with %r' % t)
    def match(self):
        self.expect('match'); scrut = self.expr_no_struct(); self.expect('{'); arms = []
        while self.peek() != '}':
            pat = self.pattern(); guard = None
            if self.accept('if'): guard = self.expr_no_struct()
            self.expect('=>'); e = self.expr(); self.accept(',')
            arms.append((pat, guard, e))
        self.expect('}')
        return ('match', scrut, arms)
    def expr_no_struct(self):
        # scrutinees / guards: a path followed by `{` is not a struct literal there
        old = getattr(self, 'no_struct', False); self.no_struct = True
        try: return self.expr()
        finally: self.no_struct = old

# ------------------------------------------------------------------ emitter
CTOR = {'Lower': 'Lower', 'Upper': 'Upper', 'Bound::Lower': 'Lower', 'Bound::Upper': 'Upper',
        'Including': 'Including', 'Excluding': 'Excluding', 'Unbounded': 'Unbounded',
        'Predicate::Including': 'Including', 'Predicate::Excluding': 'Excluding', 'Predicate::Unbounded': 'Unbounded',
        'Some': 'Some', 'None': 'None',
        'GreaterThan': 'OpGT', 'GreaterThanEquals': 'OpGTE', 'LessThan': 'OpLT', 'LessThanEquals': 'OpLTE', 'Exact': 'OpExact',
        'Ordering::Less': 'Lt', 'Ordering::Equal': 'Eq', 'Ordering::Greater': 'Gt', 'Identifier::Numeric': 'Num', 'Identifier::AlphaNumeric': 'Alpha'}
PARTIAL_FIELDS = ['major', 'minor', 'patch', 'pre_release', 'build']
def ident(n):
    return {'build': 'build_', 'patch': 'patch_', 'major': 'major_', 'minor': 'minor_', 'pre_release': 'pre_release_', 'partial': 'partial_', 'lower': 'lower_', 'upper': 'upper_'}.get(n, n)

class Emit:
    def __init__(self, bound_vars=(), partial_vars=()):
        self.bound_vars = set(bound_vars); self.partial_vars = set(partial_vars)
    def pat(self, p, top=False):
        k = p[0]
        if k == 'wild': return '_'
        if k == 'var': return ident(p[1])
        if k == 'lit': return str(p[1])
        if k == 'name':
            return CTOR[p[1]] if p[1] in CTOR else ident(p[1])
        if k == 'ctor':
            if p[1] not in CTOR: raise Unsupported('constructor pattern %s' % p[1])
            return '(%s %s)' % (CTOR[p[1]], ' '.join(self.pat(a) for a in p[2]))
        if k == 'tuple':
            s = ', '.join(self.pat(a) for a in p[1])
            return s if top else '(%s)' % s
        if k == 'or':
            s = ' | '.join(self.pat(a, top) for a in p[1])
            return s if top else '(%s)' % s
        if k == 'struct':
            if p[1] != 'Partial': raise Unsupported('struct pattern %s' % p[1])
            for f in p[2]:
                if f not in PARTIAL_FIELDS: raise Unsupported('field %s' % f)
            if not p[3] and len(p[2]) != 5: raise Unsupported('struct pattern without `..` must name all fields')
            return '(mkP %s)' % ' '.join(self.pat(p[2][f]) if f in p[2] else '_' for f in PARTIAL_FIELDS)
        raise Unsupported('pattern %s' % k)
    def expr(self, e):
        k = e[0]
        if k == 'int': return str(e[1])
        if k == 'var':
            n = e[1]
            if n in CTOR: return CTOR[n]
            if n == 'MAX_SAFE_INTEGER': return 'MAX_SAFE_INTEGER'
            return ident(n)
        if k == 'add': return '(%s + %s)' % (self.expr(e[1]), self.expr(e[2]))
        if k == 'vec': return '[' + '; '.join(self.expr(x) for x in e[1]) + ']'
        if k == 'tuple': raise Unsupported('bare tuple expression')
        if k == 'call':
            f, args = e[1], e[2]
            if f in CTOR: return '(%s %s)' % (CTOR[f], ' '.join(self.expr(a) for a in args))
            if f in ('BoundSet::at_least', 'BoundSet::at_most', 'BoundSet::exact'):
                return '(%s %s)' % (f.split('::')[1], self.expr(args[0]))
            if f == 'BoundSet::new': return '(bs_new %s %s)' % (self.expr(args[0]), self.expr(args[1]))
            if f == 'Version::from' and args[0][0] == 'tuple': return self.tuple_version(args[0][1])
            if f == 'Box::new': return self.expr(args[0])
            raise Unsupported('call of %s' % f)
        if k == 'method':
            recv, name, args = e[1], e[2], e[3]
            if name == 'into' and recv[0] == 'tuple': return self.tuple_version(recv[1])
            if name == 'into' and recv[0] == 'var': return '(partial_into %s)' % ident(recv[1])
            if name == 'unwrap_or' and args[0] == ('int', 0): return '(unwrap0 %s)' % self.expr(recv)
            if name == 'unwrap_or': return '(match %s with Some x__ => x__ | None => %s end)' % (self.expr(recv), self.expr(args[0]))
            if name == 'cmp': return '(vcmp %s %s)' % (self.expr(recv), self.expr(args[0]))
            if name == 'clone': return self.expr(recv)
            raise Unsupported('method %s' % name)
        if k == 'struct':
            f = e[2]
            if e[1] == 'Version':
                need = ['major', 'minor', 'patch', 'build', 'pre_release']
                if sorted(f) != sorted(need): raise Unsupported('Version literal with fields %s' % sorted(f))
                return '(mkV %s)' % ' '.join(self.expr(f[x]) for x in need)
            if e[1] in ('Self', 'BoundSet'):
                if sorted(f) != ['lower', 'upper']: raise Unsupported('BoundSet literal with fields %s' % sorted(f))
                return '(mkBS %s %s)' % (self.expr(f['upper']), self.expr(f['lower']))
            raise Unsupported('struct literal %s' % e[1])
        if k == 'cmp':
            op, a, b = e[1], e[2], e[3]
            def numeric(x):
                return x[0] in ('int', 'add') or (x[0] == 'var' and x[1] in ('major', 'minor', 'patch', 'n', 'm', 'value', 'MAX_SAFE_INTEGER')) or \
                       (x[0] == 'method' and x[2] == 'unwrap_or')
            if numeric(a) or numeric(b):
                x, y = self.expr(a), self.expr(b)
                return {'<': '(%s <? %s)' % (x, y), '<=': '(%s <=? %s)' % (x, y), '>': '(%s <? %s)' % (y, x), '>=': '(%s <=? %s)' % (y, x),
                        '==': '(%s =? %s)' % (x, y), '!=': '(negb (%s =? %s))' % (x, y)}[op]
            isb = (a[0] == 'var' and a[1] in self.bound_vars)
            x, y = self.expr(a), self.expr(b)
            if isb:
                return {'<': '(blt %s %s)' % (x, y), '<=': '(ble %s %s)' % (x, y), '>': '(blt %s %s)' % (y, x), '>=': '(ble %s %s)' % (y, x),
                        '==': '(bound_eqb %s %s)' % (x, y)}[op]
            return {'<': '(vlt %s %s)' % (x, y), '<=': '(vle %s %s)' % (x, y), '>': '(vlt %s %s)' % (y, x), '>=': '(vle %s %s)' % (y, x),
                    '==': '(veqb %s %s)' % (x, y), '!=': '(negb (veqb %s %s))' % (x, y)}[op]
        if k == 'if': return '(if %s then %s else %s)' % (self.expr(e[1]), self.expr(e[2]), self.expr(e[3]))
        if k == 'match': return self.match(e)
        raise Unsupported('expression %s' % k)
    def tuple_version(self, es):
        if len(es) == 3: return '(v3 %s)' % ' '.join(self.expr(x) for x in es)
        if len(es) == 4: return '(v4 %s)' % ' '.join(self.expr(x) for x in es)
        raise Unsupported('%d-tuple into Version' % len(es))
    def scrut(self, s):
        if s[0] == 'tuple': return ', '.join(self.expr(x) for x in s[1])
        return self.expr(s)
    def match(self, e):
        return self.arms(self.scrut(e[1]), e[2])
    def toppat(self, p, arity):
        if arity > 1 and p[0] == 'wild': return ', '.join(['_'] * arity)
        if arity > 1 and p[0] == 'or': return ' | '.join(self.toppat(a, arity) for a in p[1])
        if arity > 1 and p[0] != 'tuple': raise Unsupported('a %s pattern for a %d-tuple scrutinee' % (p[0], arity))
        return self.pat(p, True)
    def arms(self, scrut, arms, val=None):
        """first-match semantics with guards: a guarded arm falls through to the remaining arms when its guard is false"""
        arity = len(self.split_top(scrut))
        wild = ', '.join(['_'] * arity)
        val = val or self.expr
        if not arms: raise Unsupported('match falls off its last arm (a final guarded arm)')
        i = 0; block = []
        while i < len(arms) and arms[i][1] is None:
            block.append(arms[i]); i += 1
        if block:
            rest = arms[i:]
            s = 'match %s with\n' % scrut + ''.join('  | %s => %s\n' % (self.toppat(p, arity), val(x)) for (p, _, x) in block)
            if rest: s += '  | %s => %s\n' % (wild, self.arms(scrut, rest, val))
            return '(' + s + '  end)'
        (p, g, x) = arms[0]; rest = arms[1:]
        r = self.arms(scrut, rest, val)
        if self.irrefutable(p):
            return '(let rest__ := %s in\n  match %s with\n  | %s => if %s then %s else rest__\n  end)' % (r, scrut, self.toppat(p, arity), self.expr(g), val(x))
        return '(let rest__ := %s in\n  match %s with\n  | %s => if %s then %s else rest__\n  | %s => rest__\n  end)' % (r, scrut, self.toppat(p, arity), self.expr(g), val(x), wild)
    def irrefutable(self, p):
        if p[0] in ('wild', 'var'): return True
        if p[0] == 'name': return p[1] not in CTOR
        if p[0] == 'tuple': return all(self.irrefutable(a) for a in p[1])
        return False
    @staticmethod
    def split_top(s):
        out = []; depth = 0; cur = ''
        for ch in s:
            if ch in '([': depth += 1
            elif ch in ')]': depth -= 1
            if ch == ',' and depth == 0: out.append(cur); cur = ''
            else: cur += ch
        out.append(cur)
        return out

# ------------------------------------------------------------------ tables
HEADER = '(* GENERATED by tools/translate.py from /repo/src/range.rs on every run -- do not edit *)\nFrom Semver Require Import Version Range RParse.\n'
def parse_match(text):
    p = P(tokenize(text)); m = p.match()
    return m

def t_bcmp(src):
    body = function_body(src, r'impl\s+Ord\s+for\s+Bound\s*\{')
    m = parse_match(first_match(body, r'\(\s*self\s*,\s*other\s*\)'))
    e = Emit()
    d = 'Definition bcmp_src (self other : bound) : comparison :=\n  %s.\n' % e.arms('self, other', m[2])
    thm = ('Theorem bcmp_src_ok : forall a b, bcmp_src a b = bcmp a b.\n'
           'Proof. intros [[x|x|]|[x|x|]] [[y|y|]|[y|y|]]; reflexivity. Qed.\n')
    return d, thm, 'bcmp_src_ok'

def t_bs_new(src):
    body = function_body(src, r'fn\s+new\s*\(\s*lower\s*:\s*Bound\s*,\s*upper\s*:\s*Bound\s*\)\s*->\s*Option<Self>\s*\{')
    m = parse_match(first_match(body, r'\(\s*lower\s*,\s*upper\s*\)'))
    e = Emit(bound_vars=['lower', 'upper'])
    d = 'Definition bs_new_src (lower_ upper_ : bound) : option boundset :=\n  %s.\n' % e.arms('lower_, upper_', m[2])
    thm = ('Theorem bs_new_src_ok : forall l u, bs_new_src l u = bs_new l u.\n'
           'Proof. intros [[x|x|]|[x|x|]] [[y|y|]|[y|y|]]; cbv [bs_new_src bs_new]; repeat match goal with |- context [veqb ?a ?b] => destruct (veqb a b) end; reflexivity. Qed.\n')
    return d, thm, 'bs_new_src_ok'

def t_primitive(src):
    body = function_body(src, r'fn\s+primitive<')
    m = parse_match(first_match(body, r'parsed'))
    e = Emit()
    d = 'Definition primitive_src (op : operation) (p : partial_t) : option boundset :=\n  %s.\n' % e.arms('op, p', m[2])
    thm = ('Theorem primitive_src_ok : forall op p, primitive_src op p = primitive_tbl op p.\n'
           'Proof. intros op [[ma|] [mi|] [pa|] pr bl]; destruct op; reflexivity. Qed.\n')
    return d, thm, 'primitive_src_ok'

def t_partial(src):
    body = function_body(src, r'fn\s+partial<')
    m = parse_match(first_match(body, r'partial'))
    e = Emit()
    d = 'Definition partial_src (p : partial_t) : option boundset :=\n  %s.\n' % e.arms('p', m[2])
    thm = ('Theorem partial_src_ok : forall p, partial_src p = partial_tbl p.\n'
           'Proof. intros [[ma|] [mi|] [pa|] pr bl]; reflexivity. Qed.\n')
    return d, thm, 'partial_src_ok'

def t_tilde(src):
    body = function_body(src, r'fn\s+tilde<')
    m = parse_match(first_match(body, r'parsed'))
    e = Emit()
    d = 'Definition tilde_src (gt : option unit) (p : partial_t) : option boundset :=\n  %s.\n' % e.arms('gt, p', m[2])
    thm = ('Theorem tilde_src_ok : forall (gt : bool) p, tilde_src (if gt then Some tt else @None unit) p = tilde_tbl gt p.\n'
           'Proof. intros gt [[ma|] [mi|] [pa|] pr bl]; destruct gt; reflexivity. Qed.\n')
    return d, thm, 'tilde_src_ok'

def t_caret(src):
    body = function_body(src, r'fn\s+caret<')
    m = parse_match(first_match(body, r'parsed'))
    e = Emit()
    d = 'Definition caret_src (p : partial_t) : option boundset :=\n  %s.\n' % e.arms('p', m[2])
    thm = ('Theorem caret_src_ok : forall p, caret_src p = caret_tbl p.\n'
           'Proof. intros [[[|ma]|] [[|mi]|] [[|pa]|] pr bl]; reflexivity. Qed.\n')
    return d, thm, 'caret_src_ok'

def t_hyphen_upper(src):
    body = function_body(src, r'fn\s+hyphen<')
    m = parse_match(first_match(body, r'upper'))
    e = Emit()
    d = 'Definition hyphen_upper_src (p : partial_t) : pred :=\n  %s.\n' % e.arms('p', m[2])
    thm = ('Theorem hyphen_upper_src_ok : forall p, hyphen_upper_src p = hyphen_upper p.\n'
           'Proof. intros [[ma|] [mi|] [pa|] pr bl]; reflexivity. Qed.\n')
    # the construction around it
    if not re.search(r'Ok\(\s*BoundSet::new\(\s*Bound::Lower\(Predicate::Including\(lower\.into\(\)\)\),\s*Bound::Upper\(upper\),?\s*\)\s*\)', body):
        raise Unsupported('hyphen(): the final construction is not BoundSet::new(Lower(Including(lower.into())), Upper(upper))')
    return d, thm, 'hyphen_upper_src_ok'

TABLES = {'bcmp': t_bcmp, 'bs_new': t_bs_new, 'primitive': t_primitive, 'partial': t_partial, 'tilde': t_tilde, 'caret': t_caret, 'hyphen_upper': t_hyphen_upper}
# which property checks compile which generated files
USED_BY = {'bcmp': ['C07', 'C08', 'C09', 'C10', 'C15'], 'bs_new': ['C07', 'C08', 'C15'],
           'primitive': ['C01', 'C13'], 'partial': ['C01', 'C13'], 'tilde': ['C01'], 'caret': ['C01'], 'hyphen_upper': ['C01']}

def run(only=None):
    os.makedirs(GEN, exist_ok=True)
    status = {}
    try:
        src = open(SRC).read()
    except OSError as ex:
        src = None
        for name in TABLES: status[name] = {'status': 'unparsed', 'reason': 'cannot read %s: %s' % (SRC, ex)}
    for name, f in TABLES.items():
        if only is not None and name not in only: continue
        path = os.path.join(GEN, 'Src_%s.v' % name)
        if src is None: continue
        try:
            d, thm, thname = f(src)
            text = HEADER + d + thm + 'Print Assumptions %s.\n' % thname
            status[name] = {'status': 'ok', 'file': path, 'theorem': thname}
        except Unsupported as ex:
            text = '(* GENERATED: tools/translate.py could not translate this fragment: %s *)\n' % str(ex).replace('*)', '* )')
            status[name] = {'status': 'unparsed', 'reason': str(ex)}
        except Exception as ex:     # a translator bug must never look like a property violation
            text = '(* GENERATED: tools/translate.py failed: %r *)\n' % (ex,)
            status[name] = {'status': 'unparsed', 'reason': 'translator error: %r' % (ex,)}
        if not os.path.exists(path) or open(path).read() != text:
            open(path, 'w').write(text)
    from concurrent.futures import ThreadPoolExecutor
    todo = [n for n in status if status[n]['status'] == 'ok']
    with ThreadPoolExecutor(max_workers=8) as ex:
        list(ex.map(lambda n: drop_redundant(status[n]['file'], status[n]), todo))
    return status

def drop_redundant(path, st):
    """Rust accepts (and warns about) unreachable arms; Coq rejects them.  Remove the clauses Coq calls redundant and say so."""
    import subprocess
    removed = []
    for _ in range(6):
        r = subprocess.run(['coqc', '-Q', os.path.join(ROOT, 'coq'), 'Semver', path], cwd=os.path.join(ROOT, 'coq'), stdout=subprocess.PIPE, stderr=subprocess.STDOUT, text=True)
        m = re.search(r'line (\d+), characters[^\n]*\nError: Pattern "[^"]*" is redundant in this clause', r.stdout)
        if not m: break
        lines = open(path).read().split('\n'); ln = int(m.group(1)) - 1
        removed.append(lines[ln].strip()); del lines[ln]
        open(path, 'w').write('\n'.join(lines))
    if removed: st['unreachable_arms_dropped'] = removed
    if r.returncode:
        m = re.search(r'line (\d+), characters', r.stdout)
        lines = open(path).read().split('\n')
        thm = next((i for i, l in enumerate(lines) if l.startswith('Theorem ')), None)
        if m and thm is not None and int(m.group(1)) - 1 < thm:
            # the generated DEFINITION is not well-typed Gallina: a limitation of the translator, not a verdict about the source
            st['status'] = 'unparsed'; st['reason'] = 'the generated definition does not type-check (translator limitation): ' + r.stdout[-300:].replace('\n', ' ')
            return
    st['compiles'] = (r.returncode == 0)
    st['closed'] = 'Closed under the global context' in r.stdout
    if r.returncode: st['coq_error'] = r.stdout[-600:]

if __name__ == '__main__':
    st = run()
    print(json.dumps(st, indent=1))
