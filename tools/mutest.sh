#!/bin/bash
# usage: mutest.sh <patch.diff> <ID> [<ID> ...]   -- apply a seeded change to /repo, run the quick checks, undo it
set -u
patch=$1; shift
cd /repo && git status --porcelain | grep -v '^??' | grep . && { echo "repo not clean"; exit 2; }
rm -rf /verif/build/evidence.keep; cp -r /verif/evidence /verif/build/evidence.keep
git -C /repo apply "$patch" || { echo "patch does not apply"; exit 2; }
for id in "$@"; do
  ( cd /verif && timeout 1800 python3 tools/check.py "$id" 2>&1 | grep -E "VIOLATION|KNOWN-FINDING|^C[0-9]+ " | cut -c1-260 )
done
git -C /repo checkout -- .
# evidence written while a seeded change was applied is not evidence about the tree: put the clean files back
rm -rf /verif/evidence; mv /verif/build/evidence.keep /verif/evidence
