"""Families and evaluators for the version parser: C05 (accepted language), C12 (print/parse round
trip), C17 (error reports), C18 (tuple conversions)."""
import re, itertools
from lib import *
import fam_sets

ALPHABET = ['0', '1', '9', '.', '-', '+', 'v', 'V', 'a', 'Z', 'x', ' ', '\t', 'é']
ID = r'[0-9A-Za-z-]+'
IDS = ID + r'(?:\.' + ID + r')*'
LOOSE_RE = re.compile(r'\A[vV]?[ \t]*([0-9]+)\.([0-9]+)\.([0-9]+)(?![0-9])(?:(-?)(' + IDS + r'))?(?:\+(' + IDS + r'))?[ \t]*\Z')

def classify_id(t):
    return int(t) if t.isascii() and t.isdigit() and int(t) < U64 else t
def oracle(s):
    """independent reading of the property's grammar.  Returns (strict_ok, loose_ok, version or None)"""
    if len(s.encode('utf-8')) > 256: return False, False, None
    m = LOOSE_RE.match(s)
    if not m: return False, False, None
    ma, mi, pa = int(m.group(1)), int(m.group(2)), int(m.group(3))
    if max(ma, mi, pa) > MAX: return False, False, None
    pre = tuple(classify_id(t) for t in m.group(5).split('.')) if m.group(5) is not None else ()
    build = tuple(classify_id(t) for t in m.group(6).split('.')) if m.group(6) is not None else ()
    v = V(ma, mi, pa, pre, build)
    hyphenless = m.group(5) is not None and m.group(4) == ''
    return (not hyphenless), True, v

def words(alpha, n):
    for k in range(n + 1):
        for w in itertools.product(alpha, repeat=k): yield ''.join(w)

def version_pool(rng):
    out = ['1.2.3', '0.0.0', '10.20.30', '1.2.3-alpha', '1.2.3-alpha.1', '1.2.3-0', '1.2.3+build', '1.2.3-rc.1+b.7', '1.2.3--', '1.2.3-a-b.--.0a',
           '%d.%d.%d' % (MAX, MAX, MAX), '1.2.3-%d' % (U64 - 1), '1.2.3-%d' % U64, '1.2.3-007', '1.2.3+007', 'v1.2.3', 'V 1.2.3', ' 1.2.3 ', '1.2.3beta', '1.2.3beta.2+x']
    return out

def gen_vparse(tier, rng):
    cases = []; seen = set()
    def add(s):
        if s not in seen:
            seen.add(s); cases.append(dump(['vparse', S(s)]))
    n_short = 4
    for w in words(ALPHABET, n_short): add(w)
    n_exh = len(seen)
    cores = ['1.2.3', '01.20.3', '1.2']
    suf = 3 if tier == 'quick' else 4
    for c in cores:
        for w in words(ALPHABET, suf): add(c + w)
        for a in words(ALPHABET, 1 if tier == 'quick' else 2):
            for b in words(ALPHABET, 2): add(a + c + b)
        for a in words(ALPHABET, 2):
            for b in words(ALPHABET, 1 if tier == 'quick' else 2): add(a + c + b)
    n_anchor = len(seen) - n_exh
    # single edits of canonical versions
    pool = version_pool(rng)
    edit_chars = ALPHABET + ['5', 'b', '\n', '_', 'Ł', '~']
    for v in pool:
        add(v)
        for i in range(len(v) + 1):
            for ch in edit_chars: add(v[:i] + ch + v[i:])
            if i < len(v):
                add(v[:i] + v[i + 1:])
                for ch in edit_chars: add(v[:i] + ch + v[i + 1:])
    n_edit = len(seen) - n_exh - n_anchor
    # lengths around MAX_LENGTH, including a multi-byte last scalar and hyphen-less tags
    for L in range(250, 262):
        add('1.2.3-' + 'a' * (L - 6)); add('1.2.3' + 'a' * (L - 5)); add('1.2.3+' + 'b' * (L - 6))
        add('1.2.3-' + 'a' * (L - 8) + 'é'); add('1.2.3-' + 'a' * (L - 9) + '\U0001F600'); add(' ' * (L - 5) + '1.2.3'); add('1.2.3' + ' ' * (L - 5))
        add('1.2.3-' + '.'.join(['ab'] * ((L - 6) // 3)))
    # combinations: prerelease and build lists of 0-2 identifiers of every awkward shape, in every spelling
    ids = ['0', '00', '-0', '0-', '0a', 'a0', 'a', 'A', '-', '1', '10', 'rc', 'x', '1a-', '--', '01', 'rc1', '9007199254740993', '18446744073709551615', '18446744073709551616']
    lists_ = [[]] + [[i] for i in ids] + [[rng.choice(ids), rng.choice(ids)] for _ in range(40)] + [[rng.choice(ids), rng.choice(ids), rng.choice(ids)] for _ in range(10)]
    for pre in lists_:
        for bld in lists_:
            if rng.random() < 0.5 and pre and bld: continue
            core = rng.choice(['1.2.3', '0.0.0', '10.20.30'])
            t = core + ('-' + '.'.join(pre) if pre else '') + ('+' + '.'.join(bld) if bld else '')
            add(t)
            if pre and pre[0][0].isalpha(): add(core + '.'.join(pre) + ('+' + '.'.join(bld) if bld else ''))          # hyphen-less spelling
            k = rng.random()
            if k < 0.15: add('v' + t)
            elif k < 0.3: add(' V ' + t + '\t ')
            elif k < 0.4: add(t + '+' + rng.choice(ids))
            elif k < 0.5: add(t + '-' + rng.choice(ids))
    # over-long, several lines, multi-byte scalars on the LAST line before its last scalar (bytes vs characters in the column of location())
    for pre in ('1.2.3-\u00e9\n', '1.2.3\n', 'v1.2.3\r\n\r\n  ', '\n\n', 'a\nb\n', '\u00e9\n\u00e9\n'):
        for mid in ('\u00e9', '\u20ac.\U0001F600', '1.2.3-\u00e9', '\u00e9\u00e9\u00e9', 'x\u00e9y'):
            for tail in ('a' * 260, '0' * 250 + '+b', 'a' * 300 + '\u00e9', 'b' * 257):
                add(pre + mid + tail)
    # longer than MAX_LENGTH in bytes but not in characters (and the other way round is impossible): the limit counts UTF-8 bytes
    for body in ('\u00e9' * 126, '\u00e9' * 128, 'a' * 200 + '\u20ac' * 19, '\U0001F600' * 63, 'a' * 3 + '\U0001F600' * 62, '\u00e9' * 125, 'a' * 248 + '\u00e9', 'a' * 249 + '\u00e9', 'a' * 246 + '\u20ac\u20ac'):
        add('1.2.3-' + body); add('1.2.3+' + body); add(' 1.2.3-' + body + ' '); add('900719925474100.0.0-' + body[:len(body) * 2 // 3]); add(body)
    # over-long inputs whose error position lies after newlines (line/column arithmetic of location())
    for L in (257, 263, 300):
        body = 'a' * (L - 6)
        for tail in ['\nz', '\n\nab', '\r\n\u00e9\u00e9x', '\n', 'x\n', '\n\U0001F600', '\nab\ncd\n\u00e9']:
            add('1.2.3-' + body + tail)
        for k in (1, 5, L // 2, L - 8):
            add('1.2.3-' + body[:k] + '\n' + body[k:]); add('1.2.3-' + body[:k] + '\n\u00e9\n' + body[k:]); add('\n' * k + body)
    # numbers around MAX_SAFE_INTEGER and 2^64, at each position
    for n in [MAX - 1, MAX, MAX + 1, U64 - 1, U64, U64 + 1, 10 ** 20, 10 ** 30, int('9' * 40)]:
        for pat in ['%d.2.3', '1.%d.3', '1.2.%d', '1.2.3-%d', '1.2.3+%d', '1.2.3-a.%d', 'v %d.2.3', '1.2.%d-rc', '\n1.%d.3', '1.2.3\n.%d']:
            add(pat % n); add(pat % n + ' ')
    # zero-padded components of every length up to 45 digits (the value, not the digit count, decides), at each position
    for z in list(range(0, 8)) + [13, 14, 15, 16, 17, 18, 19, 20, 21, 25, 30, 40]:
        for n in [0, 7, 1234, MAX - 1, MAX, MAX + 1, U64 - 1, U64]:
            d = '0' * z + str(n)
            if len(d) > 45: continue
            for pat in ['%s.2.3', '1.%s.3', '1.2.%s', '1.2.3-%s', '1.2.3-a.%s', '1.2.3+%s']:
                add(pat % d)
    # digit strings by shape: every count of significant digits from 1 to 45 (leading digit 1 and 9), with 0, 1, 2 and 7 zeros in front, at each position:
    # padding and magnitude vary independently (a padded number beyond 2^64, an unpadded one of 20 digits, ...)
    for z in (0, 1, 2, 7):
        for k in range(1, 46):
            for lead in ('1', '9'):
                d = '0' * z + lead + '0' * (k - 1) if lead == '1' else '0' * z + '9' * k
                if len(d) > 50: continue
                for pat in ['1.2.3-%s', '1.2.3-rc.%s', '1.2.3+%s', '1.2.3-a+exp.%s', '1.2.%s', '%s.2.3']:
                    add(pat % d)
    # multi-line / multi-byte rejected inputs for the error reports
    for s in ['1.2\n.3', '\n\n1.2.x', 'a\nb\nc', '1.2.3\n', 'é\n1.2', '1.2.é', '1.\U0001F600.3', '\t\n 1.2.3', '1.2.3-é', 'x\r\ny', '1.2.3\n\n\n-']:
        add(s)
    nrand = 3000 if tier == 'quick' else 300000
    for _ in range(nrand):
        k = rng.random()
        if k < 0.5:
            s = ''.join(rng.choice(ALPHABET + ['2', '7', 'b', 'q', '\n']) for _ in range(rng.randint(0, 14)))
        else:
            v = rng.choice(pool)
            s = v
            for _ in range(rng.randint(1, 3)):
                i = rng.randint(0, len(s))
                s = s[:i] + rng.choice(edit_chars) + s[i + rng.randint(0, 1):]
        add(s)
    return cases, {'exhaustive': True, 'alphabet': ALPHABET, 'all_strings_up_to': n_short, 'exhaustive_short': n_exh, 'core_anchored': n_anchor,
                   'single_edits': n_edit, 'random': nrand,
                   'what': 'every string of length <= %d over the 14-symbol version alphabet (%d), core-anchored sets core.S^<=%d, S^<=1.core.S^<=2, S^<=2.core.S^<=1 for cores 1.2.3 / 01.20.3 / 1.2 (%d), '
                           'every single-scalar insert/delete/replace of %d canonical versions (%d), lengths 250-261 incl. multi-byte last scalars, numbers around MAX_SAFE_INTEGER and 2^64 at every position, %d random strings'
                           % (n_short, n_exh, suf, n_anchor, len(pool), n_edit, nrand)}

def dec_vparse(o):
    """('ok', version) | ('err', kind, input, offset, loc) | ('panic',)"""
    if o == 'panic': return ('panic',)
    po = parse(o)
    if po[0] == 'ok': return ('ok', dec_version(po[1]))
    kind = po[1] if isinstance(po[1], str) else (po[1][0], str(po[1][1]))
    loc = po[4] if po[4] == 'panic' else (int(po[4][1]), int(po[4][2]))
    return ('err', kind, str(po[2]), int(po[3]), loc)

def cls_hyphenless(cls, f): return f.get('kind') == 'vparse-loose-accept'
def cls_d16(cls, f): return f.get('kind') == 'vparse-rt-hyphenless-maxlen'

# ------------------------------------------------------------------ C05
def eval_accept(triples, tier, rng):
    import families as F
    fails = []; nontrivial = 0; certs = []; excused = set()
    dist = {'accepted': 0, 'rejected': 0, 'accepted_hyphenless': 0, 'rejected_after_core': 0, 'too_long': 0}
    for c, o, v in triples:
        pc = parse(c)
        if pc[0] != 'vparse': continue
        s = str(pc[1]); r = dec_vparse(o)
        strict, loose, want = oracle(s)
        if r[0] == 'panic':
            fails.append({'what': 'Version::parse panicked on %r' % s, 'case': c, 'input': [s], 'kind': 'vparse-panic'}); continue
        if r[0] == 'ok':
            dist['accepted'] += 1; nontrivial += 1
            if not loose:
                fails.append({'what': 'Version::parse accepted %r (as %s), which is not a whole well-formed version string' % (s, vtext(r[1])), 'case': c, 'input': [s], 'kind': 'vparse-junk'})
            elif r[1] != want:
                fails.append({'what': 'Version::parse(%r) returned %s, the string denotes %s' % (s, vtext(r[1]), vtext(want)), 'case': c, 'input': [s], 'kind': 'vparse-fields'})
            elif not strict:
                dist['accepted_hyphenless'] += 1
                fails.append({'what': 'Version::parse accepted %r: prerelease written without its hyphen' % s, 'case': c, 'input': [s], 'kind': 'vparse-loose-accept'})
            elif len(certs) < 3000 and rng.random() < 0.05:
                certs.append('vparse %s = inl %s' % (F.g_str(s), F.g_version(r[1])))
        else:
            dist['rejected'] += 1
            if len(s.encode()) > 256: dist['too_long'] += 1
            if re.match(r'\A[vV]?[ \t]*[0-9]+\.[0-9]+\.[0-9]+', s): dist['rejected_after_core'] += 1; nontrivial += 1
            if strict:
                fails.append({'what': 'Version::parse rejected the canonical version string %r (%s)' % (s, r[1]), 'case': c, 'input': [s], 'kind': 'vparse-reject'})
            elif loose:
                excused.add(c)        # the crate became stricter than its loose mode: the property holds, only the model differs
    return {'failures': fails, 'nontrivial': nontrivial, 'distribution': dist, 'certs': certs, 'excused': excused}

# ------------------------------------------------------------------ C12
def eval_roundtrip(triples, tier, rng):
    import families as F
    fails = []; nontrivial = 0; certs = []
    dist = {'accepted': 0, 'printed': 0, 'reparsed_equal': 0, 'printed_longer_than_input': 0, 'serde_checked': 0}
    acc = []
    for c, o, v in triples:
        pc = parse(c)
        if pc[0] != 'vparse': continue
        r = dec_vparse(o)
        if r[0] == 'ok': acc.append((str(pc[1]), r[1], c))
    dist['accepted'] = len(acc)
    # second phase: print, re-parse, serde
    extra = []
    for s, ver, c in acc:
        extra.append(dump(['vprint', enc_version(ver)])); extra.append(dump(['serde_v', S(s)]))
    res = {}
    for c2, o2, v2 in fam_sets.RUNNER(extra):
        res[c2] = (o2, v2)
    printed = {}
    third = []
    for s, ver, c in acc:
        o2, v2 = res[dump(['vprint', enc_version(ver)])]
        if o2 == 'panic':
            fails.append({'what': 'to_string() panicked for the version parsed from %r' % s, 'case': c, 'input': [s], 'kind': 'vprint-panic'}); continue
        if v2.startswith('DIFF'):
            fails.append({'what': 'Display for the version parsed from %r differs from the model: %s' % (s, str(parse(o2))), 'case': dump(['vprint', enc_version(ver)]), 'input': [s], 'kind': 'vprint-model', 'no_input': True})
        p = str(parse(o2)); printed[s] = p; dist['printed'] += 1
        if len(p) > len(s): dist['printed_longer_than_input'] += 1
        third.append(dump(['vparse', S(p)]))
    res3 = {c3: o3 for c3, o3, _ in fam_sets.RUNNER(list(dict.fromkeys(third)))} if third else {}
    for s, ver, c in acc:
        if s not in printed: continue
        p = printed[s]
        r = dec_vparse(res3[dump(['vparse', S(p)])])
        if r[0] == 'ok' and r[1] == ver:
            dist['reparsed_equal'] += 1
            if p != s: nontrivial += 1
            if len(certs) < 3000 and rng.random() < 0.05:
                certs.append('vparse (vprint %s) = inl %s' % (F.g_version(ver), F.g_version(ver)))
        else:
            _, _, want = oracle(s)
            hyphenless = not oracle(s)[0]
            kind = 'vparse-rt'
            if r[0] == 'err' and r[1] == 'maxlen' and hyphenless and len(s.encode()) == 256: kind = 'vparse-rt-hyphenless-maxlen'
            got = vtext(r[1]) if r[0] == 'ok' else str(r[1:3])
            fails.append({'what': 'Version::parse(%r) = %s prints as %r, which parses back to %s' % (s, vtext(ver), p, got), 'case': dump(['vparse', S(p)]),
                          'input': [s, p], 'kind': kind})
        so, _ = res[dump(['serde_v', S(s)])]
        dist['serde_checked'] += 1
        if so != 'ok' and not (so.startswith('(bad') and len(p.encode()) > 256):
            fails.append({'what': 'serde round trip of Version::parse(%r): %s' % (s, so[:200]), 'case': dump(['serde_v', S(s)]), 'input': [s], 'kind': 'vserde'})
    return {'failures': fails, 'nontrivial': nontrivial, 'distribution': dist, 'certs': certs}

# ------------------------------------------------------------------ C18
INT_TYPES = {'u8': (0, 2 ** 8 - 1), 'u16': (0, 2 ** 16 - 1), 'u32': (0, 2 ** 32 - 1), 'u64': (0, 2 ** 64 - 1), 'usize': (0, 2 ** 64 - 1),
             'i8': (-2 ** 7, 2 ** 7 - 1), 'i16': (-2 ** 15, 2 ** 15 - 1), 'i32': (-2 ** 31, 2 ** 31 - 1), 'i64': (-2 ** 63, 2 ** 63 - 1), 'isize': (-2 ** 63, 2 ** 63 - 1)}
def gen_tuple(tier, rng):
    cases = []
    # exhaustive non-negative i8 and u8 triples on a grid that includes every boundary, plus a stride through the full cube
    for ty, top in (('i8', 127), ('u8', 255)):
        vals = sorted(set([0, 1, 2, 9, 10, 99, 100, top - 1, top] + list(range(0, top + 1, 7 if tier == 'quick' else 1))))
        step = 1
        for a in vals:
            for b in (vals if tier != 'quick' else vals[::3] + [top]):
                for c in (0, 1, top, (a * 31 + b * 17) % (top + 1)):
                    cases.append(dump(['tuple3', ty, str(a), str(b), str(c)]))
        for a in vals[::2]:
            cases.append(dump(['tuple4', ty, str(a), str(top - a if top - a >= 0 else 0), '0', str(a)]))
    for ty, (lo, hi) in INT_TYPES.items():
        top = min(hi, MAX)
        bnd = [0, 1, 9, 10, top - 1, top, top // 2, min(hi, 2 ** 31 - 1), min(hi, 2 ** 32)]
        for a in bnd:
            for b in bnd:
                cases.append(dump(['tuple3', ty, str(a), str(b), str(bnd[(a + b) % len(bnd)])]))
                cases.append(dump(['tuple4', ty, str(a), str(b), '3', str(min(hi, a))]))
        cases.append(dump(['tuple4', ty, '1', '2', '3', str(hi)]))        # the prerelease number may use the full range of the type
        for _ in range(300 if tier == 'quick' else 100000):
            a, b, c, d = (rng.randint(0, top) if rng.random() < 0.5 else rng.randint(0, min(top, 1000)) for _ in range(4))
            cases.append(dump(['tuple3', ty, str(a), str(b), str(c)])); cases.append(dump(['tuple4', ty, str(a), str(b), str(c), str(d)]))
    cases = list(dict.fromkeys(cases))
    return cases, {'types': list(INT_TYPES), 'what': 'From<(T,T,T)> and From<(T,T,T,T)> for the ten integer types: a boundary-dense grid of non-negative i8/u8 triples (thorough: every value), '
                                                    'boundary and random values up to min(T::MAX, MAX_SAFE_INTEGER) for every type; each compared with Version::parse of the dotted string and its printed form'}

def eval_tuple(triples, tier, rng):
    import families as F
    fails = []; certs = []; dist = {}; nontrivial = 0
    todo = []
    for c, o, v in triples:
        pc = parse(c)
        if pc[0] not in ('tuple3', 'tuple4'): continue
        ty = pc[1]; nums = [int(x) for x in pc[2:]]
        dist[ty] = dist.get(ty, 0) + 1
        if o in ('panic', '(badcase)'):
            fails.append({'what': 'Version::from((%s) as %s) %s' % (', '.join(map(str, nums)), ty, o), 'case': c, 'input': [ty] + nums, 'kind': 'tuple-panic'}); continue
        got = dec_version(parse(o))
        text = '%d.%d.%d' % tuple(nums[:3]) + ('-%d' % nums[3] if len(nums) == 4 else '')
        want = V(nums[0], nums[1], nums[2], (nums[3],) if len(nums) == 4 else ())
        if got != want:
            fails.append({'what': 'Version::from((%s) as %s) = %s, expected the fields of `%s`' % (', '.join(map(str, nums)), ty, vtext(got), text), 'case': c, 'input': [ty] + nums, 'kind': 'tuple-fields'}); continue
        if max(nums[:3]) > 255: nontrivial += 1
        todo.append((c, ty, nums, got, text))
        if len(certs) < 2000 and rng.random() < 0.05:
            certs.append('%s %s = %s' % ('from3' if len(nums) == 3 else 'from4', ' '.join('(%d)%%Z' % n for n in nums), F.g_version(got)))
    extra = []
    for c, ty, nums, got, text in todo:
        extra.append(dump(['vparse', S(text)])); extra.append(dump(['vprint', enc_version(got)]))
    res = {c2: o2 for c2, o2, _ in fam_sets.RUNNER(list(dict.fromkeys(extra)))} if extra else {}
    for c, ty, nums, got, text in todo:
        r = dec_vparse(res[dump(['vparse', S(text)])])
        if r[0] != 'ok' or r[1] != got:
            fails.append({'what': 'Version::from((%s) as %s) differs from Version::parse(`%s`) = %s' % (', '.join(map(str, nums)), ty, text, r[1:2]), 'case': c, 'input': [ty] + nums, 'kind': 'tuple-parse'})
        p = str(parse(res[dump(['vprint', enc_version(got)])]))
        if p != text:
            fails.append({'what': 'Version::from((%s) as %s) prints as `%s`, not `%s`' % (', '.join(map(str, nums)), ty, p, text), 'case': c, 'input': [ty] + nums, 'kind': 'tuple-print'})
    return {'failures': fails, 'nontrivial': nontrivial, 'distribution': dist, 'certs': certs}

# ------------------------------------------------------------------ C17
def py_line_col(s, off):
    b = s.encode('utf-8')
    prefix = b[:off]
    line = prefix.count(b'\n')
    last = prefix.rfind(b'\n')
    return (line, off - (last + 1))
def is_boundary(s, off):
    b = s.encode('utf-8')
    if off < 0 or off > len(b): return False
    if off == len(b): return True
    return (b[off] & 0xC0) != 0x80
NUMERIC_RE = re.compile(r'\A([vV]?[ \t]*)((?:[0-9]+\.){0,2})([0-9]+)')
def numeric_expectation(s):
    """(offset, kind) when the first failing thing is a numeric component above MAX / above u64"""
    if len(s.encode()) > 256: return None
    m = NUMERIC_RE.match(s)
    if not m: return None
    # find the first component that is too large
    pos = len(m.group(1)); comps = [c for c in m.group(2).split('.') if c] + [m.group(3)]
    # the regex is greedy on components: re-walk from the start
    rest = s[pos:]
    for k in range(3):
        mm = re.match(r'[0-9]+', rest)
        if not mm: return None
        n = int(mm.group(0))
        if n > MAX:
            return (len(s[:pos].encode()), 'parseint' if n >= U64 else ('maxint', str(n)))
        pos += mm.end(); rest = s[pos:]
        if k < 2:
            if not rest.startswith('.'): return None
            pos += 1; rest = s[pos:]
    return None

RANGE_BAD = ['', ' ', 'foo', '||', ' || ', 'foo || bar', '>=1.2.3 <1.0.0', '1.2.3.4', '>1.y', '~', '^', '>=', '1 - ', ' - ', '\n', 'é', '1.2.3\n', 'a\nb || c',
             '>2 <1', '<0.0.0-0', '>x', '<*', '=1.2 =1.3', '900719925474100', '1.2.3 - 0.0.1', 'x' * 300, '\U0001F600', '||||', '>= <=', 'v', '1.2.', '.1', '-', '+', '1..2']
def gen_errors(tier, rng):
    cases, meta = gen_vparse(tier, rng)
    extra = []
    for s in RANGE_BAD:
        extra.append(dump(['rparse', S(s)])); extra.append(dump(['errdiag', 'r', S(s)]))
    for _ in range(300 if tier == 'quick' else 20000):
        s = ''.join(rng.choice(['a', 'y', '.', '-', '+', '>', '<', '=', '~', '^', '|', ' ', '\n', 'é', '1', 'q']) for _ in range(rng.randint(0, 8)))
        extra.append(dump(['rparse', S(s)])); extra.append(dump(['errdiag', 'r', S(s)]))
    meta = dict(meta, range_error_inputs=len(extra) // 2)
    meta['what'] += '; %d range texts that fail to parse (garbage-only, empty, unsatisfiable, multi-line, multi-byte)' % (len(extra) // 2)
    return cases + extra, meta

def eval_errors(triples, tier, rng):
    import families as F
    fails = []; nontrivial = 0; certs = []
    dist = {'version_errors': 0, 'range_errors': 0, 'maxlen': 0, 'maxint': 0, 'parseint': 0, 'context': 0, 'other': 0, 'offset_nonzero': 0, 'multiline': 0, 'diagnostics_rendered': 0}
    rejected = []
    for c, o, v in triples:
        pc = parse(c)
        if pc[0] == 'errdiag':
            if o == 'noerr': continue
            dist['diagnostics_rendered'] += 1
            if o == 'panic' or o.startswith('(bad'):
                fails.append({'what': 'the miette diagnostic of the error for %r cannot be rendered: %s' % (str(pc[2]), o[:200]), 'case': c, 'input': [str(pc[2])], 'kind': 'err-diag'})
            continue
        if pc[0] not in ('vparse', 'rparse'): continue
        s = str(pc[1]); r = dec_vparse(o) if pc[0] == 'vparse' else dec_rparse_err(o)
        if r[0] == 'panic':
            fails.append({'what': '%s::parse panicked on %r' % ('Version' if pc[0] == 'vparse' else 'Range', s), 'case': c, 'input': [s], 'kind': 'err-panic'}); continue
        if r[0] != 'err': continue
        _, kind, inp, off, loc = r
        which = 'Version' if pc[0] == 'vparse' else 'Range'
        dist['version_errors' if pc[0] == 'vparse' else 'range_errors'] += 1
        kname = kind if isinstance(kind, str) else kind[0]
        dist[kname if kname in dist else ('context' if kname == 'ctx' else 'other')] += 1
        if off: dist['offset_nonzero'] += 1; nontrivial += 1
        if '\n' in s: dist['multiline'] += 1
        def bad(msg, k): fails.append({'what': '%s::parse(%r): %s' % (which, s, msg), 'case': c, 'input': [s], 'kind': k})
        if inp != s: bad('error.input() is %r, not the string that was passed in' % inp, 'err-input'); continue
        if not is_boundary(s, off): bad('error.offset() = %d is not a character boundary inside the input (%d bytes)' % (off, len(s.encode())), 'err-offset'); continue
        if loc == 'panic': bad('error.location() panicked (offset %d)' % off, 'err-location'); continue
        if loc != py_line_col(s, off): bad('error.location() = %s, but offset %d is line/column %s' % (loc, off, py_line_col(s, off)), 'err-location'); continue
        if pc[0] == 'rparse':
            if kind != 'novalid': bad('kind is %s, expected NoValidRanges' % (kind,), 'err-kind')
            continue
        if len(s.encode()) > 256:
            if kind != 'maxlen': bad('kind is %s for an over-long input, expected MaxLengthError' % (kind,), 'err-kind')
            continue
        exp = numeric_expectation(s)
        if exp is not None:
            eoff, ekind = exp
            if kind != ekind or off != eoff:
                bad('kind %s at offset %d, expected %s at offset %d (the too-large component)' % (kind, off, ekind, eoff), 'err-kind')
        elif kind in ('maxlen', 'novalid', 'parseint') or (not isinstance(kind, str) and kind[0] == 'maxint'):
            bad('kind %s reported although no component is too large and the input is not over-long' % (kind,), 'err-kind')
        if len(certs) < 2000 and rng.random() < 0.02 and len(s) < 40:
            certs.append('match vparse %s with inr e => (e_offset e, location e) | inl _ => (0, Panic) end = (%d, Ok (%d, %d))' % (F.g_str(s), off, loc[0], loc[1]))
    # every rejected version string also goes through the diagnostics (second phase, a sample in quick)
    rej = [str(parse(c)[1]) for c, o, v in triples if parse(c)[0] == 'vparse' and o.startswith('(err')]
    sample = rej if tier != 'quick' else rng.sample(rej, min(len(rej), 6000))
    more = fam_sets.RUNNER([dump(['errdiag', 'v', S(s)]) for s in sample])
    for c2, o2, _ in more:
        dist['diagnostics_rendered'] += 1
        if o2 == 'panic' or o2.startswith('(bad') or o2 == 'noerr':
            fails.append({'what': 'the miette diagnostic of the error for %r cannot be rendered: %s' % (str(parse(c2)[2]), o2[:200]), 'case': c2, 'input': [str(parse(c2)[2])], 'kind': 'err-diag'})
    return {'failures': fails, 'nontrivial': nontrivial, 'distribution': dist, 'certs': certs}

def dec_rparse_err(o):
    if o == 'panic': return ('panic',)
    po = parse(o)
    if po[0] == 'ok': return ('ok', None)
    kind = po[1] if isinstance(po[1], str) else (po[1][0], str(po[1][1]))
    loc = po[4] if po[4] == 'panic' else (int(po[4][1]), int(po[4][2]))
    return ('err', kind, str(po[2]), int(po[3]), loc)
