"""Range syntax trees, their renderings (canonical and loose spellings) and generators.

partial = (xs, tag, build): xs a list of 1..3 components, each 'x' or an int; tag/build tuples of
          identifier strings (only meaningful when all three components are numbers)
comp    = (form, partial) with form in FORMS, or ('garbage', token)
alt     = ('hyphen', partial, partial) | ('set', [comp, ...])
range   = [alt, ...]"""
import itertools
from lib import *

FORMS = ['bare', '=', '>', '>=', '<', '<=', '~', '~>', '^']
TAGS_R = [(), ('0',), ('a',), ('a', '1'), ('rc', '2'), ('beta',), ('a-',), ('-',)]

def all_partials(nums, tags=TAGS_R, builds=((),)):
    parts = []
    for k in (1, 2, 3):
        for xs in itertools.product(['x'] + list(nums), repeat=k):
            if k == 3 and all(c != 'x' for c in xs):
                for t in tags:
                    for b in builds: parts.append((list(xs), t, b))
            else:
                parts.append((list(xs), (), ()))
    return parts

# ------------------------------------------------------------------ rendering
class Spelling:
    """loose-spelling choices; canonical when every field is falsy"""
    def __init__(self, rng=None, loose=False):
        self.rng = rng; self.loose = loose and rng is not None
    def pick(self, p): return self.loose and self.rng.random() < p
    def num(self, n):
        s = str(n)
        if self.pick(0.15): s = '0' * self.rng.randint(1, 2) + s
        return s
    def wild(self):
        return self.rng.choice(['x', 'X', '*']) if self.loose else 'x'
    def blanks(self, lo=0, hi=2):
        if not self.loose: return ' ' * lo
        return ''.join(self.rng.choice([' ', ' ', '\t']) for _ in range(self.rng.randint(lo, hi)))

def r_partial(part, sp):
    xs, tag, build = part
    s = ''
    if sp.pick(0.1): s += 'v' + sp.blanks(0, 1)
    s += '.'.join(sp.wild() if c == 'x' else sp.num(c) for c in xs)
    full = len(xs) == 3 and all(c != 'x' for c in xs)
    if len(xs) == 3 and not full and not tag and not build and sp.pick(0.25):
        # a qualifier after a wildcard patch (or after an earlier wildcard) is accepted and ignored: 1.2.x-alpha, 1.x.3+b, 1.2.*rc
        tag = sp.rng.choice([('alpha',), ('0',), ('rc', '1'), ()]); build = sp.rng.choice([(), (), ('b7',)])
        if xs[2] == 'x' and tag and sp.pick(0.3): s += '.'.join(tag); tag = ()
    if tag and (full or sp.pick(0.5)):
        # the hyphen may be omitted when the tag starts with a letter (1.2.3alpha)
        if sp.pick(0.15) and tag[0][0].isalpha(): s += '.'.join(tag)
        else: s += '-' + '.'.join(tag)
    if build and (full or sp.pick(0.5)): s += '+' + '.'.join(build)
    return s

def r_comp(c, sp):
    if c[0] == 'garbage': return c[1]
    form, part = c
    if form == 'bare': return r_partial(part, sp)
    if form in ('~', '~>'):
        op = '~' + (sp.blanks(0, 1) + '>' if form == '~>' else '')
        return op + sp.blanks(0, 1) + r_partial(part, sp)
    return form + sp.blanks(0, 1) + r_partial(part, sp)

def r_alt(a, sp):
    if a[0] == 'hyphen':
        return r_partial(a[1], sp) + (sp.blanks(1, 2) or ' ') + '-' + (sp.blanks(1, 2) or ' ') + r_partial(a[2], sp)
    return (sp.blanks(1, 2) or ' ').join(r_comp(c, sp) for c in a[1])

def render(r, sp=None):
    sp = sp or Spelling()
    if sp.loose:
        return (sp.blanks(0, 1) + '||' + sp.blanks(0, 1)).join(r_alt(a, sp) for a in r) if sp.rng.random() < 0.5 else ' || '.join(r_alt(a, sp) for a in r)
    return ' || '.join(r_alt(a, sp) for a in r)

# ------------------------------------------------------------------ S-expression of a tree (for the Coq spec in the driver)
def sx_partial(part):
    xs, tag, build = part
    return ['p', [('x' if c == 'x' else str(c)) for c in xs], [sx_id(t) for t in tag], [sx_id(t) for t in build]]
def sx_id(t):
    return ['n', t] if t.isdigit() and int(t) < U64 else ['a', S(t)]
FORM_ATOM = {'bare': 'bare', '=': 'eq', '>': 'gt', '>=': 'gte', '<': 'lt', '<=': 'lte', '~': 'tilde', '~>': 'tildegt', '^': 'caret'}
def sx_comp(c):
    if c[0] == 'garbage': return ['garbage', S(c[1])]
    return ['c', FORM_ATOM[c[0]], sx_partial(c[1])]
def sx_alt(a):
    if a[0] == 'hyphen': return ['hyphen', sx_partial(a[1]), sx_partial(a[2])]
    return ['set', [sx_comp(c) for c in a[1]]]
def sx_range(r): return ['ast'] + [sx_alt(a) for a in r]

# ------------------------------------------------------------------ versions mentioned by a tree
def tagv(t): return tuple(int(i) if i.isdigit() and int(i) < U64 else i for i in t)
def part_versions(part):
    xs, tag, build = part
    ns = [0 if c == 'x' else c for c in xs] + [0] * (3 - len(xs))
    full = len(xs) == 3 and all(c != 'x' for c in xs)
    out = [V(ns[0], ns[1], ns[2], tagv(tag) if full else ())]
    out.append(V(ns[0] + 1, 0, 0)); out.append(V(ns[0], ns[1] + 1, 0)); out.append(V(ns[0], ns[1], ns[2] + 1))
    return out
def tree_versions(r):
    out = []
    for a in r:
        ps = [a[1], a[2]] if a[0] == 'hyphen' else [c[1] for c in a[1] if c[0] != 'garbage']
        for p in ps: out += part_versions(p)
    return out

# ------------------------------------------------------------------ random trees
# tokens no sub-parser accepts and that cannot glue to a neighbour (a bare operator would: `>= 1.2.3` is `>=1.2.3`)
GARBAGE = ['foo', '1.2.3.4', '~1.y', 'latest', '1.2beta4', 'a', '=>1.0', '1.2.3.x', '^^1']
def random_partial(rng, nums, tags=TAGS_R, builds=((), ('b7',), ('5', 'x'))):
    k = rng.choice([1, 2, 3, 3, 3])
    xs = [rng.choice(nums + ['x']) if rng.random() < 0.25 else rng.choice(nums) for _ in range(k)]
    full = k == 3 and all(c != 'x' for c in xs)
    tag = rng.choice(tags) if full and rng.random() < 0.45 else ()
    build = rng.choice(builds) if full and rng.random() < 0.15 else ()
    return (xs, tag, build)
def random_comp(rng, nums, garbage=0.08):
    if rng.random() < garbage: return ('garbage', rng.choice(GARBAGE))
    return (rng.choice(FORMS), random_partial(rng, nums))
def random_alt(rng, nums, garbage=0.08, hyphen=0.15):
    if rng.random() < hyphen: return ('hyphen', random_partial(rng, nums), random_partial(rng, nums))
    return ('set', [random_comp(rng, nums, garbage) for _ in range(rng.choice([1, 1, 2, 2, 3]))])
def random_range(rng, nums, garbage=0.08):
    return [random_alt(rng, nums, garbage) for _ in range(rng.choice([1, 1, 1, 2, 3]))]

# ------------------------------------------------------------------ npm's documented desugaring (independent Python reading, DESIGN Appendix A)
def norm(xs):
    out = []; seen = False
    for c in xs:
        if c == 'x': seen = True
        out.append('x' if seen else c)
    return out
Z = (0,)
def desugar(form, part):
    xs, tag, _ = part; xs = norm(xs) + ['x'] * (3 - len(xs)); M, m, p = xs
    tag = tagv(tag)
    if p == 'x': tag = ()
    ANY = [('>=', V(0, 0, 0))]; NONE = [('<', V(0, 0, 0, Z))]
    if form in ('bare', '='):
        if M == 'x': return ANY
        if m == 'x': return [('>=', V(M, 0, 0)), ('<', V(M + 1, 0, 0, Z))]
        if p == 'x': return [('>=', V(M, m, 0)), ('<', V(M, m + 1, 0, Z))]
        return [('=', V(M, m, p, tag))]
    if form == '>':
        if M == 'x': return NONE
        if m == 'x': return [('>=', V(M + 1, 0, 0))]
        if p == 'x': return [('>=', V(M, m + 1, 0))]
        return [('>', V(M, m, p, tag))]
    if form == '>=':
        if M == 'x': return ANY
        if m == 'x': return [('>=', V(M, 0, 0))]
        if p == 'x': return [('>=', V(M, m, 0))]
        return [('>=', V(M, m, p, tag))]
    if form == '<':
        if M == 'x': return NONE
        if m == 'x': return [('<', V(M, 0, 0, Z))]
        if p == 'x': return [('<', V(M, m, 0, Z))]
        return [('<', V(M, m, p, tag))]
    if form == '<=':
        if M == 'x': return ANY
        if m == 'x': return [('<', V(M + 1, 0, 0, Z))]
        if p == 'x': return [('<', V(M, m + 1, 0, Z))]
        return [('<=', V(M, m, p, tag))]
    if form in ('~', '~>'):
        if M == 'x': return ANY
        if m == 'x': return [('>=', V(M, 0, 0)), ('<', V(M + 1, 0, 0, Z))]
        if p == 'x': return [('>=', V(M, m, 0)), ('<', V(M, m + 1, 0, Z))]
        return [('>=', V(M, m, p, tag)), ('<', V(M, m + 1, 0, Z))]
    if form == '^':
        if M == 'x': return ANY
        if m == 'x': return [('>=', V(M, 0, 0)), ('<', V(M + 1, 0, 0, Z))]
        if p == 'x': return [('>=', V(M, m, 0)), ('<', V(M, m + 1, 0, Z) if M == 0 else V(M + 1, 0, 0, Z))]
        if M > 0: up = V(M + 1, 0, 0, Z)
        elif m > 0: up = V(0, m + 1, 0, Z)
        else: up = V(0, 0, p + 1, Z)
        return [('>=', V(M, m, p, tag)), ('<', up)]
    raise ValueError(form)
def desugar_hyphen(a, b):
    xs, tag, _ = a; xs = norm(xs) + ['x'] * (3 - len(xs)); M, m, p = xs
    if M == 'x': lo = [('>=', V(0, 0, 0))]
    elif m == 'x': lo = [('>=', V(M, 0, 0))]
    elif p == 'x': lo = [('>=', V(M, m, 0))]
    else: lo = [('>=', V(M, m, p, tagv(tag)))]
    xs, tag, _ = b; xs = norm(xs) + ['x'] * (3 - len(xs)); M, m, p = xs
    if M == 'x': hi = []
    elif m == 'x': hi = [('<', V(M + 1, 0, 0, Z))]
    elif p == 'x': hi = [('<', V(M, m + 1, 0, Z))]
    else: hi = [('<=', V(M, m, p, tagv(tag)))]
    return lo + hi
def holds(c, v):
    op, w = c; k = py_vcmp(v, w)
    return {'=': k == 0, '>': k > 0, '>=': k >= 0, '<': k < 0, '<=': k <= 0}[op]
def admits_set(cs, v):
    if not all(holds(c, v) for c in cs): return False
    if v[3]: return any(c[1][3] and c[1][:3] == v[:3] for c in cs)
    return True
def alt_comparators(a):
    """None when every token of the alternative is dropped; an alternative in which nothing is written is `*` (README: "" := * := >=0.0.0)"""
    if a[0] == 'hyphen': return desugar_hyphen(a[1], a[2])
    if not a[1]: return [('>=', V(0, 0, 0))]
    cs = [c for c in a[1] if c[0] != 'garbage']
    if not cs: return None
    return [d for c in cs for d in desugar(*c)]
def npm_admits(r, v):
    for a in r:
        cs = alt_comparators(a)
        if cs is not None and admits_set(cs, v): return True
    return False
