#!/usr/bin/env python3
"""Regenerates MANIFEST.json from the table below (claimed properties) and properties.jsonl."""
import json, os, sys
ROOT = os.path.dirname(os.path.dirname(os.path.abspath(__file__)))
props = [json.loads(l) for l in open(os.path.join(ROOT, 'properties.jsonl'))]
CLAIMS = json.load(open(os.path.join(ROOT, 'tools', 'claims.json')))
checks = []; na = []
for p in props:
    pid = p['id']
    if pid in CLAIMS:
        c = CLAIMS[pid]
        checks.append({
            'property_id': pid,
            'quick_cmd': 'python3 tools/check.py %s --tier quick' % pid,
            'thorough_cmd': 'python3 tools/check.py %s --tier thorough' % pid,
            'evidence_file': 'evidence/%s.json' % pid,
            'replay_cmd_template': 'python3 tools/check.py --replay {path}',
            'engine': 'coq-model+correspondence',
            'level_claimed': {'category': 'proof', 'text': c['text'], 'design_ref': c.get('design_ref', 'DESIGN.md section 6, ' + pid)},
            'level_note': c['note'],
            'technique': c.get('technique', 'Coq 8.16 theorems over a hand-written Gallina model; tie to the code checked on every run in two ways: the table-shaped fragments and the straight-line function bodies of src/ (impl Ord for Bound, BoundSet::new, the desugaring matches; Version eq/cmp/diff, BoundSet satisfies/allows_*/intersect/difference, Display for BoundSet) the 13 winnow grammar functions of src/range.rs and the 7 of src/lib.rs are regenerated as Gallina by tools/translate.py, translate_fn.py, translate_p.py and translate_v.py and proved equal to the model functions for all arguments, and the whole model is compared with the crate built from /repo by a correspondence check (extracted OCaml model vs. the real crate on the same cases, kernel vm_compute certificates)'),
        })
    else:
        na.append({'property_id': pid, 'reason': 'check not built yet (framework under construction; see DESIGN.md section 10)'})
m = {
    'version': 1,
    'setup_cmd': 'python3 tools/build.py',
    'hooks': {'guard': 'nodejs_semver_verif',
              'enable': 'RUSTFLAGS="--cfg nodejs_semver_verif" (set by tools/build.py for the harness build); no source hook exists: the derived Debug output exposes all private structure the checks need',
              'baseline_off_cmd': 'cd /repo && cargo test --workspace --no-fail-fast --offline',
              'source_commits': [], 'add_only': True},
    'engines': [{'name': 'coq-model+correspondence', 'path': 'coq/ driver/ harness/ tools/',
                 'serves_properties': sorted(CLAIMS.keys()),
                 'kind_free_text': 'Coq 8.16.1 development (model, specs, proofs, property theorems), OCaml extraction driver, Rust harness against /repo, Python orchestrator'}],
    'checks': checks,
    'not_applicable': na,
    'notes': 'Repairs of genuine defects are recorded in known_findings.json (status fixed, with the /repo commit) and DESIGN.md section 5; findings that are recorded rather than repaired have status known and are reported as KNOWN-FINDING lines.',
}
if not na: del m['not_applicable']
json.dump(m, open(os.path.join(ROOT, 'MANIFEST.json'), 'w'), indent=1)
print('claimed:', sorted(CLAIMS.keys()), 'not yet:', [x['property_id'] for x in na])
