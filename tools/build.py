"""Build steps shared by setup.py and check.py: the Coq development (full .vo build),
the OCaml extraction + driver, and the Rust harness against /repo's working tree."""
import os, sys, glob, shutil, time
sys.path.insert(0, os.path.dirname(os.path.abspath(__file__)))
from lib import *

FORBIDDEN = re.compile(r'\b(Admitted|admit|Axiom|Axioms|Parameter|Parameters|Conjecture|Conjectures|Hypothesis|Hypotheses|Variable|Variables|'
                       r'Unset\s+Guard|Unset\s+Positivity|Unset\s+Universe|bypass_check|type-in-type|impredicative-set|'
                       r'Admit\s+Obligations|native_compute)\b')

def coq_sources():
    out = []
    for d in ('Model', 'Spec', 'Proofs', 'Props', 'Extract'):
        out += sorted(glob.glob(os.path.join(COQ, d, '*.v')))
    return out

def strip_comments(text):
    out = []; depth = 0; i = 0
    while i < len(text):
        if text.startswith('(*', i): depth += 1; i += 2; continue
        if text.startswith('*)', i) and depth: depth -= 1; i += 2; continue
        if depth == 0: out.append(text[i])
        elif text[i] == '\n': out.append('\n')
        i += 1
    return ''.join(out)

def audit_sources():
    """grep for declared axioms / switched-off checks. `Hypothesis`/`Variable`/`Context` are allowed
    only inside a Section (they are then ordinary lambda-abstractions after the section closes)."""
    problems = []
    for f in coq_sources():
        text = strip_comments(open(f).read())
        depth = 0
        for n, line in enumerate(text.split('\n'), 1):
            if re.match(r'\s*Section\b', line): depth += 1
            if re.match(r'\s*End\b', line) and depth: depth -= 1
            for m in FORBIDDEN.finditer(line):
                w = m.group(1)
                if w in ('Hypothesis', 'Hypotheses', 'Variable', 'Variables') and depth > 0:
                    continue
                problems.append('%s:%d: %s' % (os.path.relpath(f, ROOT), n, line.strip()))
    return problems

def build_coq(timeout=3000):
    run([sys.executable, os.path.join(ROOT, 'tools', 'genprops.py')])
    if not os.path.exists(os.path.join(COQ, 'Makefile')) or \
       os.path.getmtime(os.path.join(COQ, 'Makefile')) < os.path.getmtime(os.path.join(COQ, '_CoqProject')):
        r = run(['coq_makefile', '-f', '_CoqProject', '-o', 'Makefile'], cwd=COQ)
        if r.returncode: return False, r.stdout
    r = run(['make', '-j16'], cwd=COQ, timeout=timeout)
    os.makedirs(os.path.join(BUILD, 'logs'), exist_ok=True)
    open(os.path.join(BUILD, 'logs', 'coq-make.log'), 'w').write(r.stdout)
    return r.returncode == 0, r.stdout

def newest(paths):
    return max([os.path.getmtime(p) for p in paths if os.path.exists(p)] or [0])

def build_driver():
    ex = os.path.join(BUILD, 'extract')
    os.makedirs(ex, exist_ok=True)
    drv = os.path.join(BUILD, 'driver')
    deps = glob.glob(os.path.join(COQ, 'Model', '*.v')) + glob.glob(os.path.join(COQ, 'Spec', '*.v')) + \
        [os.path.join(COQ, 'Extract', 'Extract.v'), os.path.join(ROOT, 'driver', 'main.ml')]
    if os.path.exists(drv) and os.path.getmtime(drv) > newest(deps):
        return True, 'up to date'
    r = run(['coqc', '-Q', COQ, 'Semver', os.path.join(COQ, 'Extract', 'Extract.v')], cwd=ex, timeout=600)
    if r.returncode: return False, r.stdout
    shutil.copy(os.path.join(ROOT, 'driver', 'main.ml'), os.path.join(ex, 'main.ml'))
    r2 = run(['ocamlfind', 'ocamlopt', '-O3', '-w', '-a', 'model.mli', 'model.ml', 'main.ml', '-o', drv], cwd=ex, timeout=600)
    return r2.returncode == 0, r.stdout + r2.stdout

def build_harness(release=False):
    h = os.path.join(ROOT, 'harness')
    if REPO != '/repo':
        # experiments against a private copy of the crate (VERIF_REPO): same harness, path dependency rewritten
        alt = os.path.join(BUILD, 'harness-alt')
        shutil.copytree(h, alt, dirs_exist_ok=True)
        t = open(os.path.join(h, 'Cargo.toml')).read().replace('path = "/repo"', 'path = "%s"' % REPO)
        open(os.path.join(alt, 'Cargo.toml'), 'w').write(t)
        h = alt
    lock = os.path.join(h, 'Cargo.lock')
    if not os.path.exists(lock):
        shutil.copy(os.path.join(REPO, 'Cargo.lock'), lock)
    cmd = ['cargo', 'build', '--offline', '--manifest-path', os.path.join(h, 'Cargo.toml'),
           '--target-dir', os.path.join(BUILD, 'cargo')]
    if release: cmd.append('--release')
    r = run(cmd, timeout=1800, env={'RUSTFLAGS': '--cfg nodejs_semver_verif -Awarnings'})
    return r.returncode == 0, r.stdout

def harness_bin(release=False):
    return os.path.join(BUILD, 'cargo', 'release' if release else 'debug', 'semver-harness')

if __name__ == '__main__':
    t = time.time()
    ok, out = build_coq()
    print('coq build:', 'ok' if ok else 'FAILED', '%.0fs' % (time.time() - t)); sys.stdout.flush()
    if not ok: print(out[-3000:]); sys.exit(1)
    ok, out = build_driver()
    print('driver build:', 'ok' if ok else 'FAILED'); sys.stdout.flush()
    if not ok: print(out[-3000:]); sys.exit(1)
    for rel in (False, True):
        ok, out = build_harness(rel)
        print('harness build (%s):' % ('release' if rel else 'debug'), 'ok' if ok else 'FAILED'); sys.stdout.flush()
        if not ok: print(out[-3000:]); sys.exit(1)
    bad = audit_sources()
    if bad:
        print('source audit problems:'); print('\n'.join(bad)); sys.exit(1)
    print('setup done in %.0fs' % (time.time() - t))
