#!/usr/bin/env python3
"""Function-body translator: the straight-line / early-return function bodies of src/lib.rs and src/range.rs -> Gallina.

Complements tools/translate.py (match tables).  Translated on every run:
  lib.rs    Version::is_prerelease, PartialEq::eq, Ord::cmp, Version::diff
  range.rs  Predicate::flip, Bound::predicate, BoundSet::{at_least, at_most, exact, satisfies, allows_all, allows_any, intersect,
            difference}, Display for BoundSet
Each becomes coq/Gen/Fn_<name>.v: the generated definition and `<name>_src_ok : forall args, <name>_src args = <model function> args`.

Rust subset (statements): `use ..;`, `let [mut] x [: T] = e;`, `return e;`, `if c { .. } [else { .. }]`, `if let P = e { .. }`, `match e { P => {} | return e | e }`
as a statement, a tail expression.  Early returns are compiled by continuation passing: the code after an `if` without `else` is the
continuation of both branches.  `unreachable!(..)` and `.unwrap()` on `None` become the model's `Panic` (the function's Gallina type is
then `res T` and every normal result is wrapped in `Ok`).  Expressions: everything translate.py knows, plus field access, `!`, `&&`, `||`,
`==`/`!=`/`<`/`<=` resolved by a small type inference (u64 fields, Ordering, Version, Bound, BoundSet, identifier lists), `.is_prerelease()`,
`.is_empty()`, `.len()`, `.cmp()`, `.predicate()`, `.flip()`, `.clone()`, `.as_ref()`, `*`/`&` (erased), `std::cmp::max/min`, `.map(|f| vec![f])`,
`write!(f, "literal with {}", versions..)`."""
import os, re, sys, json, subprocess
sys.path.insert(0, os.path.dirname(os.path.abspath(__file__)))
import translate as T
from translate import Unsupported, tokenize, balanced, function_body

ROOT = T.ROOT; GEN = T.GEN

# ------------------------------------------------------------------ parser: blocks and statements on top of translate.P
class PF(T.P):
    def block(self):
        """'{' stmt* [tail] '}' -> (stmts, tail)"""
        self.expect('{'); stmts = []; tail = None
        old = getattr(self, 'no_struct', False); self.no_struct = False
        while self.peek() != '}':
            t = self.peek()
            if t == 'use':
                while self.next() != ';': pass
                continue
            if t == 'let':
                self.next(); self.accept('mut'); pat = self.pattern()
                if self.accept(':'):
                    while self.peek() != '=': self.next()
                self.expect('='); e = self.expr(); self.expect(';')
                stmts.append(('let', pat, e)); continue
            if t == 'return':
                self.next(); e = self.expr(); self.accept(';'); stmts.append(('return', e)); continue
            if t == 'for':
                self.next(); pat = self.pattern1(); self.expect('in'); e = self.expr_no_struct(); b = self.block()
                stmts.append(('for', pat, e, b)); continue
            if t == 'if':
                s = self.if_stmt()
                if self.peek() == '}' and s[0] == 'if' and s[3] is not None: tail = ('ifexpr', s); break
                stmts.append(s); continue
            if t == 'match':
                m = self.match()
                if self.peek() == '}': tail = m; break
                self.accept(';'); stmts.append(('matchstmt', m)); continue
            e = self.expr()
            if e[0] == 'macro' and e[1] == 'write': self.accept('?')
            if self.accept('+='):
                r = self.expr(); self.expect(';'); stmts.append(('addassign', e, r)); continue
            if self.peek() == '=' and e[0] == 'var':
                self.next(); r = self.expr(); self.expect(';'); stmts.append(('assign', e[1], r)); continue
            if self.accept(';'): stmts.append(('expr', e)); continue
            tail = e; break
        self.expect('}'); self.no_struct = old
        return (stmts, tail)
    def if_stmt(self):
        self.expect('if')
        if self.accept('let'):
            pat = self.pattern(); self.expect('='); e = self.expr_no_struct(); b = self.block()
            els = None
            if self.accept('else'): els = self.block()
            return ('iflet', pat, e, b, els)
        c = self.expr_no_struct(); b = self.block(); els = None
        if self.accept('else'):
            if self.peek() == 'if': els = ([self.if_stmt()], None)
            else: els = self.block()
        return ('if', c, b, els)
    # expressions: extend atom / unary / logical operators
    def expr(self):
        return self.or_expr()
    def or_expr(self):
        a = self.and_expr()
        while self.peek() == '||':
            self.next(); b = self.and_expr(); a = ('or', a, b)
        return a
    def and_expr(self):
        a = self.cmp_expr()
        while self.peek() == '&&':
            self.next(); b = self.cmp_expr(); a = ('and', a, b)
        return a
    def atom(self):
        t = self.peek()
        if t == '!':
            self.next(); return ('not', self.postfix())
        if t == '&' and self.peek(1) == 'mut':
            self.next(); self.next(); return self.postfix()
        if t == '{':
            return ('block', self.block())
        if t == 'if':
            s = self.if_stmt(); return ('ifexpr', s)
        if t in ('unreachable', 'write', 'debug_assert') and self.peek(1) == '!':
            name = self.next(); self.next(); self.expect('(')
            depth = 1; toks = []
            while depth:
                x = self.next()
                if x == '(': depth += 1
                elif x == ')': depth -= 1
                if depth: toks.append(x)
            return ('macro', name, toks)
        if t == '|':                       # closure |x| body
            self.next(); v = self.next(); self.expect('|')
            if self.peek() == '{': return ('closure', v, ('block', self.block()))
            body = self.expr(); return ('closure', v, body)
        return super().atom()
    def postfix(self):
        e = super().postfix()
        while self.peek() == 'as':
            self.next(); ty = self.next(); e = ('cast', e, ty)
        return e
    def match(self):
        self.expect('match'); scrut = self.expr_no_struct(); self.expect('{'); arms = []
        old = getattr(self, 'no_struct', False); self.no_struct = False
        while self.peek() != '}':
            pat = self.pattern(); guard = None
            if self.accept('if'): guard = self.expr_no_struct()
            self.expect('=>')
            if self.peek() == 'return':
                self.next(); e = ('ret', self.expr())
            elif self.peek() == '{' and self.peek(1) == '}':
                self.next(); self.next(); e = ('unit',)
            else: e = self.expr()
            self.accept(','); arms.append((pat, guard, e))
        self.expect('}'); self.no_struct = old
        return ('match', scrut, arms)

# strings inside write!(..) are lost by the tokenizer: extract them from the raw text instead
def tokenize_keep_strings(text):
    strings = []
    def repl(m):
        strings.append(m.group(1)); return ' __str%d ' % (len(strings) - 1)
    text2 = re.sub(r'"((?:[^"\\]|\\.)*)"', repl, text)
    return tokenize(text2), strings

# ------------------------------------------------------------------ emitter with a little type inference
class EF(T.Emit):
    def __init__(self, env, panics=False, strings=()):
        super().__init__()
        self.env = dict(env); self.panics = panics; self.strings = list(strings); self.fresh = 0
    # ---- types
    def ty(self, e):
        k = e[0]
        if k == 'int': return 'N'
        if k == 'var':
            n = e[1]
            if n in self.env: return self.env[n]
            if n.startswith('Ordering::'): return 'cmp'
            return None
        if k == 'field':
            f = e[2]
            if f == '0': return 'range'
            if f in ('major', 'minor', 'patch'): return 'N'
            if f in ('pre_release', 'build'): return 'idents'
            if f in ('lower', 'upper'): return 'bound'
            return None
        if k == 'method':
            n = e[2]
            if n in ('is_prerelease', 'is_empty'): return 'bool'
            if n == 'cmp': return 'cmp'
            if n in ('clone', 'as_ref', 'iter', 'into_iter'): return self.ty(e[1])
            if n == 'predicate': return 'pred'
            if n == 'flip': return 'pred'
            if n == 'len': return 'nat'
            if n == 'intersect': return 'optbs'
            return None
        if k in ('cmp', 'and', 'or', 'not'): return 'bool'
        if k == 'ifexpr':
            s = e[1]; b = s[2]
            return self.ty(b[1]) if b[1] is not None else None
        if k == 'call':
            if e[1] in ('std::cmp::max', 'std::cmp::min'): return self.ty(e[2][0])
            if e[1] in ('Lower', 'Upper', 'Bound::Lower', 'Bound::Upper'): return 'bound'
            if e[1] == 'Some': return 'opt'
        return None
    def field(self, recv, f):
        r = self.expr(recv); t = self.ty(recv)
        if t == 'partial':
            m = {'major': 'p_major', 'minor': 'p_minor', 'patch': 'p_patch', 'pre_release': 'p_pre', 'build': 'p_build'}
            if f in m: return '(%s %s)' % (m[f], r)
        if t == 'boundset' or f in ('lower', 'upper'):
            return '(bs_%s %s)' % (f, r)
        if f == '0': return r
        m = {'major': 'major', 'minor': 'minor', 'patch': 'patch', 'pre_release': 'pre', 'build': 'build'}
        if f in m: return '(%s %s)' % (m[f], r)
        raise Unsupported('field .%s' % f)
    def expr(self, e):
        k = e[0]
        if k == 'field': return self.field(e[1], e[2])
        if k == 'not': return '(negb %s)' % self.expr(e[1])
        if k == 'and': return '(%s && %s)' % (self.expr(e[1]), self.expr(e[2]))
        if k == 'or': return '(%s || %s)' % (self.expr(e[1]), self.expr(e[2]))
        if k == 'var' and e[1] in ('self', 'other', 'version'): return e[1] + '_'
        if k == 'var' and e[1].startswith('VersionDiff::'): return e[1].split('::')[1]
        if k == 'var' and e[1] == 'true': return 'true'
        if k == 'var' and e[1] == 'false': return 'false'
        if k == 'cmp': return self.compare(e[1], e[2], e[3])
        if k == 'method':
            recv, name, args = e[1], e[2], e[3]
            if name in ('clone', 'as_ref', 'iter', 'into_iter'): return self.expr(recv)
            if name == 'is_prerelease': return '(is_pre %s)' % self.expr(recv)
            if name == 'is_empty': return '(match %s with [] => true | _ => false end)' % self.expr(recv)
            if name == 'len': return '(length %s)' % self.expr(recv)
            if name == 'predicate': return '(predicate %s)' % self.expr(recv)
            if name == 'flip': return '(flip %s)' % self.expr(recv)
            if name == 'intersect': return '(bs_intersect %s %s)' % (self.expr(recv), self.expr(args[0]))
            if name in ('allows_all', 'allows_any') and self.ty(recv) == 'boundset':
                return '(bs_%s %s %s)' % (name, self.expr(recv), self.expr(args[0]))
            if name == 'satisfies':
                t = self.ty(recv)
                if t == 'boundset': return '(bs_satisfies %s %s)' % (self.expr(recv), self.expr(args[0]))
                if t == 'range': return '(r_satisfies %s %s)' % (self.expr(recv), self.expr(args[0]))
                raise Unsupported('.satisfies() on a receiver of unknown type')
            if name in ('filter', 'filter_map', 'find') and args and args[0][0] == 'closure':
                v, body = args[0][1], args[0][2]
                saved = dict(self.env); self.env[v] = self.elem_ty(recv)
                if body[0] == 'block': b = self.block_value(body[1])
                else: b = self.expr(body)
                self.env = saved
                l = self.expr(recv)
                if name == 'filter': return '(filter (fun %s => %s) %s)' % (T.ident(v), b, l)
                if name == 'find': return '(find (fun %s => %s) %s)' % (T.ident(v), b, l)
                return '(flat_map (fun %s => opt_to_list %s) %s)' % (T.ident(v), b, l)
            if name == 'min' and not args: return '(iter_min %s)' % self.expr(recv)
            if name == 'max' and not args: return '(iter_max %s)' % self.expr(recv)
            if name in ('max', 'min') and self.ty(recv) == 'bound': return '(b%s %s %s)' % (name, self.expr(recv), self.expr(args[0]))
            if name == 'cmp':
                t = self.ty(recv)
                f = {'N': 'N.compare', 'idents': 'lex icmp', 'version': 'vcmp', 'bound': 'bcmp'}.get(t)
                if not f: raise Unsupported('.cmp() on a receiver of unknown type')
                return '(%s %s %s)' % (f, self.expr(recv), self.expr(args[0]))
            if name == 'map' and args and args[0][0] == 'closure':
                v, body = args[0][1], args[0][2]
                return '(option_map (fun %s => %s) %s)' % (T.ident(v), self.expr(body), self.expr(recv))
            if name == 'unwrap': raise Unsupported('.unwrap() outside a returned expression')
        if k == 'cast':
            if e[2] != 'u64' or self.ty(e[1]) != 'Z': raise Unsupported('cast %s' % e[2])
            return '(cast_u64 %s)' % self.expr(e[1])
        if k == 'call' and e[1] == 'Vec::new' and not e[2]: return '[]'
        if k == 'call':
            f, args = e[1], e[2]
            if f == 'std::cmp::max': return '(bmax %s %s)' % (self.expr(args[0]), self.expr(args[1]))
            if f == 'std::cmp::min': return '(bmin %s %s)' % (self.expr(args[0]), self.expr(args[1]))
            if f == 'Bound::upper': return '(Upper Unbounded)'
            if f == 'Bound::lower': return '(Lower Unbounded)'
        if k == 'ifexpr':
            s = e[1]
            if s[0] != 'if' or s[3] is None: raise Unsupported('if without else in expression position')
            (st1, t1), (st2, t2) = s[2], s[3]
            if t1 is None or t2 is None: raise Unsupported('an if expression without a value')
            if self.panics and (st1 or st2): raise Unsupported('statements inside an if expression of a function that can panic')
            return '(if %s then %s else %s)' % (self.expr(s[1]), self.block_value(s[2]) if st1 else self.expr(t1), self.block_value(s[3]) if st2 else self.expr(t2))
        if k == 'block':
            st, t = e[1]
            if st:
                if self.panics: raise Unsupported('statements inside a block expression of a function that can panic')
                return self.block_value(e[1])
            return self.expr(t)
        if k == 'macro' and e[1] == 'write': return self.write(e[2])
        return super().expr(e)
    def compare(self, op, a, b):
        ta, tb = self.ty(a), self.ty(b); t = ta or tb
        x, y = self.expr(a), self.expr(b)
        if t == 'Z':
            return {'==': '(%s =? %s)%%Z', '<': '(%s <? %s)%%Z', '<=': '(%s <=? %s)%%Z', '>=': '(%s >=? %s)%%Z', '>': '(%s >? %s)%%Z'}[op] % (x, y)
        if t == 'N':
            return {'==': '(%s =? %s)', '!=': '(negb (%s =? %s))', '<': '(%s <? %s)', '<=': '(%s <=? %s)'}[op] % (x, y)
        if t == 'cmp':
            c = y if b[0] == 'var' and b[1].startswith('Ordering::') else None
            if c is None or op not in ('==', '!='): raise Unsupported('comparison of orderings')
            r = '(match %s with %s => true | _ => false end)' % (x, c)
            return r if op == '==' else '(negb %s)' % r
        if t == 'idents':
            if op != '==': raise Unsupported('ordering comparison of identifier lists')
            return '(idents_eqb %s %s)' % (x, y)
        if t == 'bound':
            if op in ('>', '>='): x, y, op = y, x, {'>': '<', '>=': '<='}[op]
            if op not in ('<', '<=', '=='): raise Unsupported('operator %s on bounds' % op)
            return {'<': '(blt %s %s)', '<=': '(ble %s %s)', '==': '(bound_eqb %s %s)'}[op] % (x, y)
        if t == 'boundset':
            if op != '==': raise Unsupported('ordering comparison of bound sets')
            return '(bs_eqb %s %s)' % (x, y)
        if t == 'version':
            return {'<': '(vlt %s %s)', '<=': '(vle %s %s)', '>': '(vlt %s %s)', '>=': '(vle %s %s)', '==': '(veqb %s %s)', '!=': '(negb (veqb %s %s))'}[op] % ((x, y) if op not in ('>', '>=') else (y, x))
        raise Unsupported('cannot type the operands of `%s`' % op)
    def elem_ty(self, e):
        t = self.ty(e)
        if t == 'range': return 'boundset'
        if t == 'idents': return 'ident'
        if t in ('versions', 'candidates'): return 'version'
        return 'version'
    def block_value(self, blk):
        sub = EF(self.env, False, self.strings); sub.fresh = self.fresh + 100
        r = sub.stmts(blk[0], blk[1], None); self.fresh = sub.fresh
        return r
    def write(self, toks):
        # write!(f, "fmt", args..)
        if len(toks) < 3 or toks[0] != 'f' or not toks[2].startswith('__str'): raise Unsupported('write! form')
        fmt = self.strings[int(toks[2][5:])]
        args = [t for t in toks[3:] if t != ',']
        parts = fmt.split('{}')
        if len(parts) - 1 != len(args): raise Unsupported('write! argument count')
        out = []
        for i, lit in enumerate(parts):
            if lit: out.append('[' + '; '.join(str(ord(c)) for c in lit) + ']')
            if i < len(args): out.append('vprint %s' % T.ident(args[i]))
        return '(' + ' ++ '.join(out or ['[]']) + ')'

    # ---- statements, continuation passing.  `k` is the Gallina text of "the rest", or None when the block's value is its tail
    def ok(self, s): return '(Ok %s)' % s if self.panics else s
    def ret(self, e):
        """a returned / final expression; `.unwrap()` on None and unreachable!() become Panic"""
        if e[0] == 'macro' and e[1] == 'unreachable':
            if not self.panics: raise Unsupported('unreachable!() in a function translated without Panic')
            return 'Panic'
        unwraps = []
        def strip(x):
            if isinstance(x, tuple):
                if x[0] == 'method' and x[2] == 'unwrap':
                    self.fresh += 1; v = 'u%d__' % self.fresh; unwraps.append((v, x[1])); return ('var', v)
                return tuple(strip(y) for y in x)
            if isinstance(x, list): return [strip(y) for y in x]
            return x
        e2 = strip(e)
        if unwraps and not self.panics: raise Unsupported('.unwrap() in a function translated without Panic')
        s = self.ok(self.expr(e2))
        for v, u in reversed(unwraps):
            s = '(match %s with Some %s => %s | None => Panic end)' % (self.expr(u), v, s)
        return s
    def bind(self, pat, ty):
        if pat[0] in ('var', 'name'):
            n = pat[1]
            if ty: self.env[n] = ty
    def stmts(self, stmts, tail, k):
        if not stmts:
            if tail is None:
                if k is None: raise Unsupported('a block without value where one is needed')
                return k
            if tail[0] == 'ifexpr' and (tail[1][2][0] or tail[1][3][0] or tail[1][0] == 'iflet'):
                return self.stmt_if(tail[1], [], None, k)
            if tail[0] == 'match' and any(g is not None for (_, g, _) in tail[2]):
                for (pp, g, x) in tail[2]:
                    for v in self.pat_vars(pp): self.env.setdefault(v, 'version' if re.match(r'^v\d*$', v) else None)
                return self.arms(self.scrut(tail[1]), tail[2], self.ret)
            if tail[0] == 'match': return self.stmt_match(tail, [], None, k, value=True)
            return self.ret(tail)
        s = stmts[0]; rest = stmts[1:]
        if s[0] == 'let':
            pat, e = s[1], s[2]
            if e[0] == 'match' and any(x[2][0] == 'macro' for x in e[2]):
                # let x = match .. { .., _ => unreachable!() }; rest   -- push the rest into the arms
                self.bind(pat, 'bool' if all(x[2][0] in ('cmp', 'macro') or x[2] == ('var', 'true') for x in e[2]) else None)
                body = self.stmts(rest, tail, k)
                arms = ''.join('  | %s => %s\n' % (self.toppat(p, 1), 'Panic' if x[0] == 'macro' else '(kont__ %s)' % self.expr(x)) for (p, g, x) in e[2])
                return '(let kont__ := (fun %s => %s) in\n  match %s with\n%s  end)' % (self.pat(pat), body, self.scrut(e[1]), arms)
            v = self.expr(e); self.bind(pat, self.ty(e))
            if e[0] == 'match':
                # option-valued helper matches: remember that the bound variable is an option of a version
                self.bind(pat, 'optv')
            return '(let %s := %s in\n  %s)' % (self.pat(pat), v, self.stmts(rest, tail, k))
        if s[0] == 'return': return self.ret(s[1])
        if s[0] == 'addassign':
            lhs, rhs = s[1], s[2]
            if lhs[0] != 'field' or lhs[1][0] != 'var' or lhs[2] not in ('major', 'minor', 'patch'): raise Unsupported('+= on something that is not a numeric field of a variable')
            x = T.ident(lhs[1][1]); f = lhs[2]
            flds = {k: '(%s %s)' % (k, x) for k in ('major', 'minor', 'patch', 'build', 'pre')}
            flds[f] = '(%s %s + %s)' % (f, x, self.expr(rhs))
            return '(let %s := (mkV %s %s %s %s %s) in\n  %s)' % (x, flds['major'], flds['minor'], flds['patch'], flds['build'], flds['pre'], self.stmts(rest, tail, k))
        if s[0] == 'expr':
            e = s[1]
            if e[0] == 'method' and e[2] == 'push' and e[1][0] == 'field' and e[1][1][0] == 'var' and e[1][2] in ('pre_release', 'build'):
                x = T.ident(e[1][1][1]); f = {'pre_release': 'pre', 'build': 'build'}[e[1][2]]
                flds = {kk: '(%s %s)' % (kk, x) for kk in ('major', 'minor', 'patch', 'build', 'pre')}
                flds[f] = '(%s %s ++ [%s])' % (f, x, self.expr(e[3][0]))
                return '(let %s := (mkV %s %s %s %s %s) in\n  %s)' % (x, flds['major'], flds['minor'], flds['patch'], flds['build'], flds['pre'], self.stmts(rest, tail, k))
            if e[0] == 'macro' and e[1] == 'debug_assert':
                # debug_assert!(cond, "..", args): checked in the debug profile the harness is built with
                if not self.panics: raise Unsupported('debug_assert! in a function translated without Panic')
                toks = e[2]; depth = 0; cut = len(toks)
                for i, t in enumerate(toks):
                    if t in '([{': depth += 1
                    elif t in ')]}': depth -= 1
                    elif t == ',' and depth == 0: cut = i; break
                cond = PF(toks[:cut]).expr()
                return '(if %s then %s else Panic)' % (self.expr(cond), self.stmts(rest, tail, k))
            raise Unsupported('expression statement')
        if s[0] in ('if', 'iflet'): return self.stmt_if(s, rest, tail, k)
        if s[0] == 'for':
            # a loop whose body only tests and returns: fold from the right, the continuation of an iteration is the rest of the loop
            pat, coll, (bst, btail) = s[1], s[2], s[3]
            if btail is not None: raise Unsupported('a for loop whose body has a value')
            if pat[0] not in ('var', 'name'): raise Unsupported('for pattern')
            after = self.stmts(rest, tail, k)
            self.fresh += 1; kn = 'k%d__' % self.fresh
            saved = dict(self.env); self.env[pat[1]] = self.elem_ty(coll)
            body = self.stmts(bst, None, kn)
            self.env = saved
            return '(fold_right (fun %s %s => %s) %s %s)' % (T.ident(pat[1]), kn, body, after, self.expr(coll))
        if s[0] == 'matchstmt': return self.stmt_match(s[1], rest, tail, k)
        raise Unsupported('statement %s' % s[0])
    def stmt_if(self, s, rest, tail, k):
        after = self.stmts(rest, tail, k) if (rest or tail is not None or k is not None) else None
        self.fresh += 1; kn = 'k%d__' % self.fresh
        def branch(b):
            if b is None:
                if after is None: raise Unsupported('if without else as the last statement')
                return kn
            return self.stmts(b[0], b[1], kn if after is not None else None)
        if s[0] == 'iflet':
            pat, e, b, els = s[1], s[2], s[3], s[4]
            saved = dict(self.env)
            for v in self.pat_vars(pat): self.env[v] = 'version' if self.ty(e) == 'optv' else ('boundset' if self.ty(e) == 'optbs' else None)
            tb = branch(b); self.env = saved
            body = '(match %s with\n  | %s => %s\n  | _ => %s\n  end)' % (self.expr(e), self.pat(pat), tb, branch(els))
        else:
            c = self.expr(s[1]); body = '(if %s then %s else %s)' % (c, branch(s[2]), branch(s[3]))
        if after is None: return body
        return '(let %s := %s in\n  %s)' % (kn, after, body)
    def stmt_match(self, m, rest, tail, k, value=False):
        after = None if value else self.stmts(rest, tail, k)
        self.fresh += 1; kn = 'k%d__' % self.fresh
        scrut = self.scrut(m[1]); arity = len(self.split_top(scrut)); arms = ''
        self.nat_lits = 'length' in scrut
        for (p, g, x) in m[2]:
            if g is not None: raise Unsupported('guard in a statement-level match')
            saved = dict(self.env)
            for v in self.pat_vars(p): self.env.setdefault(v, 'version' if re.match(r'^(v\d*|lower|upper)$', v) else None)
            if x[0] == 'unit': body = kn
            elif x[0] == 'ret': body = self.ret(x[1])
            elif x[0] == 'block': body = self.stmts(x[1][0], x[1][1], kn if after is not None else None)
            else:
                if after is not None: raise Unsupported('a value arm in a statement-level match')
                body = self.ret(x)
            self.env = saved
            arms += '  | %s => %s\n' % (self.toppat(p, arity), body)
        body = '(match %s with\n%s  end)' % (scrut, arms)
        self.nat_lits = False
        if after is None: return body
        return '(let %s := %s in\n  %s)' % (kn, after, body)
    def pat_vars(self, p):
        if p[0] == 'var': return [p[1]]
        if p[0] == 'name' and p[1] not in T.CTOR: return [p[1]]
        if p[0] == 'ctor': return [v for a in p[2] for v in self.pat_vars(a)]
        if p[0] in ('tuple', 'or'): return [v for a in p[1] for v in self.pat_vars(a)]
        return []
    def pat(self, p, top=False):
        if p[0] == 'lit' and getattr(self, 'nat_lits', False): return 'O' if p[1] == 0 else '%d%%nat' % p[1]
        if p[0] == 'name' and p[1].startswith('Ordering::'): return T.CTOR[p[1]]
        if p[0] in ('var', 'name') and p[1] in ('self', 'other', 'version'): return p[1] + '_'
        return super().pat(p, top)

# ------------------------------------------------------------------ accumulating loops: state passing
class EL(EF):
    """Functions that build their result in mutable locals (`let mut acc = Vec::new(); for x in xs { .. acc.push(y) .. }`), without
    early returns.  Every statement becomes a `let` that re-binds the variables it mutates; a `for` loop becomes
    `fold_left (fun state x => body) xs state` with the mutated outer variables as state; an `if` / `if let` statement becomes a
    `match` whose value is the state.  When the function can panic (`res` mode) compound statements and `res`-valued right-hand
    sides are bound with `match .. with Ok x => .. | Panic => Panic end`, and a loop threads `res state`."""
    def __init__(self, env, res=False, strings=()):
        super().__init__(env, False, strings); self.res = res
    # ---- which outer variables does a block mutate?
    def mutated(self, blk, local=()):
        out = []; local = set(local)
        def add(v):
            if v not in local and v not in out: out.append(v)
        def walk(stmts, tail):
            if tail is not None and ((tail[0] == 'method' and tail[2] in ('push', 'append', 'extend')) or (tail[0] == 'macro' and tail[1] == 'write')): stmts = list(stmts) + [('expr', tail)]
            for s in stmts:
                if s[0] == 'let':
                    for v in self.pat_vars(s[1]): local.add(v)
                elif s[0] == 'assign': add(s[1])
                elif s[0] == 'expr':
                    e = s[1]
                    if e[0] == 'method' and e[2] in ('push', 'append', 'extend') and e[1][0] == 'var':
                        add(e[1][1])
                        if e[2] == 'append' and e[3] and e[3][0][0] == 'var': add(e[3][0][1])
                    elif e[0] == 'macro' and e[1] == 'write': add('f')
                    else: raise Unsupported('expression statement in an accumulating function')
                elif s[0] == 'for':
                    inner = self.mutated(s[3], local | set(self.pat_vars(s[1])))
                    for v in inner: add(v)
                elif s[0] == 'if':
                    for b in (s[2], s[3]):
                        if b is not None:
                            for v in self.mutated(b, local): add(v)
                elif s[0] == 'iflet':
                    for b, extra in ((s[3], set(self.pat_vars(s[1]))), (s[4], set())):
                        if b is not None:
                            for v in self.mutated(b, local | extra): add(v)
                else: raise Unsupported('statement %s in an accumulating function' % s[0])
        walk(blk[0], blk[1])
        return out
    def is_res(self, e):
        if not self.res: return False
        if e[0] == 'method':
            if e[2] == 'difference': return True
            if e[2] in ('collect', 'flatten', 'iter', 'into_iter', 'clone'): return self.is_res(e[1])
            if e[2] == 'filter_map' and e[3] and e[3][0][0] == 'closure': return self.is_res(e[3][0][2])
        if e[0] == 'macro' and e[1] == 'write': return True
        return False
    def expr(self, e):
        k = e[0]
        if k == 'call' and e[1] in ('Vec::new',) and not e[2]: return '[]'
        if k == 'call' and e[1] in ('Self', 'Range') and len(e[2]) == 1: return self.expr(e[2][0])
        if k == 'method':
            recv, name, args = e[1], e[2], e[3]
            if name == 'difference' and len(args) == 1: return '(bs_difference %s %s)' % (self.expr(recv), self.expr(args[0]))
            if name == 'collect' and not args: return self.expr(recv)
            if name == 'flatten' and not args:
                return ('(rmap (@concat _) %s)' if self.is_res(recv) else '(concat %s)') % self.expr(recv)
            if name == 'filter_map' and args and args[0][0] == 'closure' and self.is_res(args[0][2]):
                v, body = args[0][1], args[0][2]
                return '(mfilter_map (fun %s => %s) %s)' % (T.ident(v), self.expr(body), self.expr(recv))
        return super().expr(e)
    # ---- state tuples
    def tup(self, vs): return T.ident(vs[0]) if len(vs) == 1 else '(' + ', '.join(T.ident(v) for v in vs) + ')'
    def tpat(self, vs): return T.ident(vs[0]) if len(vs) == 1 else "'(" + ', '.join(T.ident(v) for v in vs) + ')'
    def okv(self, s): return '(Ok %s)' % s if self.res else s
    def bind_state(self, vs, value, rest):
        if not vs: raise Unsupported('a compound statement that changes nothing')
        if self.res: return '(match %s with\n  | Ok %s => %s\n  | Panic => Panic\n  end)' % (value, self.tup(vs), rest)
        return '(let %s := %s in\n  %s)' % (self.tpat(vs), value, rest)
    def bind_value(self, pat, e, rest):
        v = self.expr(e)
        if self.is_res(e): return '(match %s with\n  | Ok %s => %s\n  | Panic => Panic\n  end)' % (v, pat, rest)
        return '(let %s := %s in\n  %s)' % (pat, v, rest)
    def stmts(self, stmts, tail, k):
        """k: the Gallina text of the block's final value when it has no tail (the state of the enclosing loop / branch)"""
        if tail is not None and k is not None and ((tail[0] == 'method' and tail[2] in ('push', 'append', 'extend')) or (tail[0] == 'macro' and tail[1] == 'write')):
            stmts = list(stmts) + [('expr', tail)]; tail = None          # `{ acc.push(x) }`: a unit-valued last expression
        if not stmts:
            if tail is None:
                if k is None: raise Unsupported('a block without value where one is needed')
                return k
            if tail[0] == 'ifexpr':
                s = tail[1]
                if s[0] != 'if' or s[3] is None: raise Unsupported('tail if form')
                return '(if %s then %s else %s)' % (self.expr(s[1]), self.stmts(s[2][0], s[2][1], None), self.stmts(s[3][0], s[3][1], None))
            if tail[0] == 'call' and tail[1] == 'Ok' and tail[2] == [('tuple', [])]:           # fmt: Ok(())
                return self.okv('f')
            return self.okv(self.expr(tail))
        s = stmts[0]; rest = stmts[1:]
        if s[0] == 'let':
            pat, e = s[1], s[2]
            if pat[0] not in ('var', 'name'): raise Unsupported('let pattern in an accumulating function')
            self.bind(pat, self.ty(e))
            return self.bind_value(T.ident(pat[1]), e, self.stmts(rest, tail, k))
        if s[0] == 'assign':
            return self.bind_value(T.ident(s[1]), s[2], self.stmts(rest, tail, k))
        if s[0] == 'expr':
            e = s[1]
            if e[0] == 'macro' and e[1] == 'write':
                w, isres = self.write_piece(e[2])
                if isres and not self.res: raise Unsupported('write! of something that can panic in a function translated without Panic')
                if isres:
                    return '(match %s with\n  | Ok w__ => (let f := f ++ w__ in\n  %s)\n  | Panic => Panic\n  end)' % (w, self.stmts(rest, tail, k))
                return '(let f := f ++ %s in\n  %s)' % (w, self.stmts(rest, tail, k))
            x = T.ident(e[1][1]); name = e[2]; a = e[3][0]
            if name == 'push': return '(let %s := %s ++ [%s] in\n  %s)' % (x, x, self.expr(a), self.stmts(rest, tail, k))
            if name == 'extend': return '(let %s := %s ++ %s in\n  %s)' % (x, x, self.expr(a), self.stmts(rest, tail, k))
            if name == 'append':
                if a[0] != 'var': raise Unsupported('.append() of something that is not a variable')
                y = T.ident(a[1])
                return '(let %s := %s ++ %s in\n  (let %s := drained %s in\n  %s))' % (x, x, y, y, y, self.stmts(rest, tail, k))
        if s[0] == 'for':
            pat, coll, blk = s[1], s[2], s[3]
            if blk[1] is not None: raise Unsupported('a for loop whose body has a value')
            vs = self.mutated(blk, set(self.pat_vars(pat)))
            saved = dict(self.env)
            if pat[0] in ('var', 'name'):
                self.env[pat[1]] = self.elem_ty(coll); xp = T.ident(pat[1]); c = self.expr(coll)
            elif pat[0] == 'tuple' and coll[0] == 'method' and coll[2] == 'enumerate' and len(pat[1]) == 2:
                i, x = pat[1]
                self.env[i[1]] = 'nat'; self.env[x[1]] = self.elem_ty(coll[1]); xp = "'(%s, %s)" % (T.ident(i[1]), T.ident(x[1]))
                c = '(enumerate %s)' % self.expr(coll[1])
            else: raise Unsupported('for pattern')
            body = self.stmts(blk[0], None, self.okv(self.tup(vs)))
            self.env = saved
            if self.res:
                if xp.startswith("'"):
                    loop = '(fold_left (fun acc__ ix__ => match acc__ with Ok %s => (let %s := ix__ in %s) | Panic => Panic end) %s (Ok %s))' % (self.tup(vs), xp, body, c, self.tup(vs))
                else:
                    loop = '(fold_left (fun acc__ %s => match acc__ with Ok %s => %s | Panic => Panic end) %s (Ok %s))' % (xp, self.tup(vs), body, c, self.tup(vs))
            else:
                loop = '(fold_left (fun %s %s => %s) %s %s)' % (self.tpat(vs), xp, body, c, self.tup(vs))
            return self.bind_state(vs, loop, self.stmts(rest, tail, k))
        if s[0] in ('if', 'iflet'):
            vs = self.mutated(([s], None))
            st = self.okv(self.tup(vs)) if vs else None
            def branch(b, extra=()):
                if b is None: return st
                saved = dict(self.env)
                r = self.stmts(b[0], b[1], st); self.env = saved
                return r
            if s[0] == 'iflet':
                pat, e, b, els = s[1], s[2], s[3], s[4]
                saved = dict(self.env)
                for v in self.pat_vars(pat): self.env[v] = 'boundset' if self.ty(e) == 'optbs' else None
                tb = branch(b); self.env = saved
                val = '(match %s with\n  | %s => %s\n  | _ => %s\n  end)' % (self.expr(e), self.pat(pat), tb, branch(els))
            else:
                val = '(if %s then %s else %s)' % (self.expr(s[1]), branch(s[2]), branch(s[3]))
            return self.bind_state(vs, val, self.stmts(rest, tail, k))
        raise Unsupported('statement %s in an accumulating function' % s[0])
    def compare(self, op, a, b):
        if self.ty(a) == 'nat' or self.ty(b) == 'nat':
            x, y = self.expr(a), self.expr(b)
            return {'>': '(Nat.ltb %s %s)' % (y, x), '<': '(Nat.ltb %s %s)' % (x, y), '==': '(Nat.eqb %s %s)' % (x, y), '!=': '(negb (Nat.eqb %s %s))' % (x, y)}[op]
        return super().compare(op, a, b)
    def write(self, toks):
        w, isres = self.write_piece(toks)
        if isres and not self.res: raise Unsupported('write! of something that can panic in a function translated without Panic')
        return '(rmap (fun w__ => f ++ w__) %s)' % w if isres else '(f ++ %s)' % w
    def match(self, e):
        # the payload types of the identifier constructors
        for (pp, g, x) in e[2]:
            if pp[0] == 'ctor' and pp[1] in ('Identifier::Numeric', 'Numeric') and pp[2] and pp[2][0][0] in ('var', 'name'): self.env[pp[2][0][1]] = 'N'
            if pp[0] == 'ctor' and pp[1] in ('Identifier::AlphaNumeric', 'AlphaNumeric') and pp[2] and pp[2][0][0] in ('var', 'name'): self.env[pp[2][0][1]] = 'str'
        return super().match(e)
    def write_piece(self, toks):
        """write!(f, "fmt", args..) -> (Gallina text of the appended string, can it panic?); every `{}` argument is printed by its type"""
        if len(toks) < 3 or toks[0] != 'f' or not toks[2].startswith('__str'): raise Unsupported('write! form')
        fmt = self.strings[int(toks[2][5:])]
        groups = []; cur = []; depth = 0
        for t in toks[3:]:
            if t in '([{': depth += 1
            if t in ')]}': depth -= 1
            if t == ',' and depth == 0:
                if cur: groups.append(cur)
                cur = []
            else: cur.append(t)
        if cur: groups.append(cur)
        parts = fmt.split('{}')
        if len(parts) - 1 != len(groups): raise Unsupported('write! argument count')
        pieces = []; anyres = False
        for i, lit in enumerate(parts):
            if lit: pieces.append(('pure', '[' + '; '.join(str(ord(c)) for c in lit) + ']'))
            if i < len(groups):
                e = PF(groups[i]).expr(); t = self.ty(e); x = self.expr(e)
                if t == 'N': pieces.append(('pure', '(print_N %s)' % x))
                elif t == 'ident': pieces.append(('pure', '(print_ident %s)' % x))
                elif t == 'str': pieces.append(('pure', x))
                elif t == 'version': pieces.append(('pure', '(vprint %s)' % x))
                elif t == 'boundset': pieces.append(('res', '(bs_print %s)' % x)); anyres = True
                else: raise Unsupported('write! of an argument of unknown type')
        if not anyres:
            return '(' + ' ++ '.join(p for _, p in pieces) + ')' if pieces else '[]', False
        out = 'Ok []'
        for kind, ptxt in reversed(pieces):
            if kind == 'pure': out = 'rmap (fun r__ => %s ++ r__) (%s)' % (ptxt, out)
            else: out = 'rbind %s (fun a__ => rmap (fun r__ => a__ ++ r__) (%s))' % (ptxt, out)
        return '(' + out + ')', True

# ------------------------------------------------------------------ the functions
HEADER = """(* GENERATED by tools/translate_fn.py from /repo/src on every run -- do not edit *)
From Semver Require Import Base Version Range RParse Loops LoopLemmas.
From Coq Require Import Lia List ZArith.
Import ListNotations.
(* fallback when the source was rewritten into another, equivalent shape: split on every atomic test *)
Ltac src_atoms := repeat (cbn [andb orb negb bs_lower bs_upper predicate]; match goal with
  | |- context [bs_intersect ?a ?b] => destruct (bs_intersect a b) eqn:?
  | |- context [bs_new ?a ?b] => destruct (bs_new a b) eqn:?
  | |- context [bs_eqb ?a ?b] => destruct (bs_eqb a b) eqn:?
  | |- context [blt ?a ?b] => destruct (blt a b) eqn:?
  | |- context [ble ?a ?b] => destruct (ble a b) eqn:?
  | |- context [vlt ?a ?b] => destruct (vlt a b) eqn:?
  | |- context [vle ?a ?b] => destruct (vle a b) eqn:?
  | |- context [veqb ?a ?b] => destruct (veqb a b) eqn:?
  | |- context [vcmp ?a ?b] => destruct (vcmp a b) eqn:?
  | |- context [is_pre ?a] => destruct (is_pre a) eqn:?
  | |- context [idents_eqb ?a ?b] => destruct (idents_eqb a b) eqn:?
  | |- context [N.compare ?a ?b] => destruct (N.compare a b) eqn:?
  | |- context [?a =? ?b] => destruct (a =? b) eqn:?
  | |- context [if ?c then _ else _] => destruct c eqn:?
  end); cbn [andb orb negb]; try reflexivity; try congruence.
"""
def parse_block(text):
    toks, strings = tokenize_keep_strings(text)
    p = PF(toks); b = p.block()
    return b, strings

def fn(src, header_re, env, panics=False):
    body = function_body(src, header_re)
    (stmts, tail), strings = parse_block(body)
    if panics == 'hash':
        # impl Hash: the sequence of `self.<field>.hash(state);` statements, as the tuple of what is fed to the hasher
        e = EF(env, False, strings); fed = []
        if tail is not None: raise Unsupported('hash() with a value')
        for st in stmts:
            x = st[1] if st[0] == 'expr' else None
            if not (x and x[0] == 'method' and x[2] == 'hash' and x[3] == [('var', 'state')] and x[1][0] == 'field' and x[1][1] == ('var', 'self')):
                raise Unsupported('a statement of hash() that is not `self.<field>.hash(state);`')
            fed.append(e.expr(x[1]))
        return '(' + ', '.join(fed) + ')'
    if panics in ('loops', 'loops_res'):
        e = EL(env, panics == 'loops_res', strings)
    else:
        e = EF(env, panics, strings)
    return e.stmts(stmts, tail, None)

LIB = os.path.join(os.environ.get('VERIF_REPO', '/repo'), 'src', 'lib.rs'); RNG = os.path.join(os.environ.get('VERIF_REPO', '/repo'), 'src', 'range.rs')
SPLIT = 'repeat match goal with |- context [if ?c then _ else _] => destruct c eqn:? end'
UNSIGNED = ('u8', 'u16', 'u32', 'u64', 'usize'); SIGNED = ('i8', 'i16', 'i32', 'i64', 'isize')
def int_types(macro, allowed):
    """the macro must be instantiated only at integer types of at most 64 bits of the expected signedness: for those `x as u64` is
    the value modulo 2^64 (`cast_u64`), whatever the type"""
    def check(src):
        calls = re.findall(r'(?m)^' + macro + r'!\s*\(([^)]*)\)\s*;', src)
        if not calls: raise Unsupported('no instantiation of %s!' % macro)
        for c in calls:
            for t in [x.strip() for x in c.split(',') if x.strip()]:
                if t not in allowed: raise Unsupported('%s! instantiated at %s' % (macro, t))
    return check
def defs():
    V = {'self': 'version', 'other': 'version'}
    B = {'self': 'boundset', 'other': 'boundset', 'version': 'version'}
    R = {'self': 'range', 'other': 'range'}
    Zs = {'major': 'Z', 'minor': 'Z', 'patch': 'Z', 'pre_release': 'Z'}
    return {
      'is_prerelease': (LIB, r'pub\s+fn\s+is_prerelease\s*\(&self\)\s*->\s*bool\s*\{', V, False,
          'Definition is_prerelease_src (self_ : version) : bool :=\n  %s.\n',
          'Theorem is_prerelease_src_ok : forall v, is_prerelease_src v = is_pre v.\nProof. intros [a b c bl [|i p]]; reflexivity. Qed.\n'),
      'version_eq': (LIB, r'impl\s+PartialEq\s+for\s+Version\s*\{\s*fn\s+eq\s*\(&self,\s*other:\s*&Self\)\s*->\s*bool\s*\{', V, False,
          'Definition version_eq_src (self_ other_ : version) : bool :=\n  %s.\n',
          'Theorem version_eq_src_ok : forall a b, version_eq_src a b = veqb a b.\nProof. reflexivity. Qed.\n'),
      'version_cmp': (LIB, r'impl\s+cmp::Ord\s+for\s+Version\s*\{\s*fn\s+cmp\s*\(&self,\s*other:\s*&Version\)\s*->\s*cmp::Ordering\s*\{', V, False,
          'Definition version_cmp_src (self_ other_ : version) : comparison :=\n  %s.\n',
          'Theorem version_cmp_src_ok : forall a b, version_cmp_src a b = vcmp a b.\n'
          'Proof. intros [a1 a2 a3 ab ap] [b1 b2 b3 bb bp]. unfold version_cmp_src, vcmp; cbn [major minor patch pre].\n'
          '  destruct (N.compare a1 b1); try reflexivity. destruct (N.compare a2 b2); try reflexivity. destruct (N.compare a3 b3); try reflexivity.\n'
          '  destruct ap, bp; reflexivity. Qed.\n'),
      'version_diff': (LIB, r'pub\s+fn\s+diff\s*\(&self,\s*other:\s*&Self\)\s*->\s*Option<VersionDiff>\s*\{', V, False,
          'Definition version_diff_src (self_ other_ : version) : option vdiff_t :=\n  %s.\n',
          'Theorem version_diff_src_ok : forall a b, version_diff_src a b = vdiff a b.\n'
          'Proof. intros a b. unfold version_diff_src, vdiff. destruct (vcmp a b); cbv zeta; cbn [negb andb];\n'
          '  ' + SPLIT + '; try reflexivity; try discriminate. Qed.\n'),
      'flip': (RNG, r'fn\s+flip\s*\(self\)\s*->\s*Self\s*\{', {'self': 'pred'}, False,
          'Definition flip_src (self_ : pred) : pred :=\n  %s.\n',
          'Theorem flip_src_ok : forall p, flip_src p = flip p.\nProof. intros [v|v|]; reflexivity. Qed.\n'),
      'predicate': (RNG, r'fn\s+predicate\s*\(self\)\s*->\s*Predicate\s*\{', {'self': 'bound'}, False,
          'Definition predicate_src (self_ : bound) : pred :=\n  %s.\n',
          'Theorem predicate_src_ok : forall b, predicate_src b = predicate b.\nProof. intros [p|p]; reflexivity. Qed.\n'),
      'at_least': (RNG, r'fn\s+at_least\s*\(p:\s*Predicate\)\s*->\s*Option<Self>\s*\{', {'p': 'pred'}, False,
          'Definition at_least_src (p : pred) : option boundset :=\n  %s.\n',
          'Theorem at_least_src_ok : forall p, at_least_src p = at_least p.\nProof. reflexivity. Qed.\n'),
      'at_most': (RNG, r'fn\s+at_most\s*\(p:\s*Predicate\)\s*->\s*Option<Self>\s*\{', {'p': 'pred'}, False,
          'Definition at_most_src (p : pred) : option boundset :=\n  %s.\n',
          'Theorem at_most_src_ok : forall p, at_most_src p = at_most p.\nProof. reflexivity. Qed.\n'),
      'exact': (RNG, r'fn\s+exact\s*\(version:\s*Version\)\s*->\s*Option<Self>\s*\{', {'version': 'version'}, False,
          'Definition exact_src (version_ : version) : option boundset :=\n  %s.\n',
          'Theorem exact_src_ok : forall v, exact_src v = exact v.\nProof. reflexivity. Qed.\n'),
      'bs_satisfies': (RNG, r'fn\s+satisfies\s*\(&self,\s*version:\s*&Version\)\s*->\s*bool\s*\{\s*use\s+Bound', B, True,
          'Definition bs_satisfies_src (self_ : boundset) (version_ : version) : res bool :=\n  %s.\n',
          'Theorem bs_satisfies_src_ok : forall bs v, bs_satisfies_src bs v = bs_satisfies_p bs v.\n'
          'Proof. intros [[[u|u|]|[u|u|]] [[l|l|]|[l|l|]]] v; try reflexivity;\n'
          '  unfold bs_satisfies_src, bs_satisfies_p, bs_satisfies, within, gate, tagged_same_tuple, same_tuple, shape_ok; cbn [bs_lower bs_upper lower_ok upper_ok predicate];\n'
          '  repeat match goal with |- context [vle ?a ?b] => destruct (vle a b) | |- context [vlt ?a ?b] => destruct (vlt a b) end; cbn [negb orb andb]; try reflexivity;\n'
          '  destruct (is_pre v); cbn [negb orb andb]; try reflexivity;\n'
          '  repeat match goal with |- context [is_pre ?a] => destruct (is_pre a) end; cbn [negb orb andb];\n'
          '  repeat match goal with |- context [?a =? ?b] => destruct (a =? b) end; reflexivity. Qed.\n'),
      'bs_allows_all': (RNG, r'fn\s+allows_all\s*\(&self,\s*other:\s*&BoundSet\)\s*->\s*bool\s*\{', B, False,
          'Definition bs_allows_all_src (self_ other_ : boundset) : bool :=\n  %s.\n',
          'Theorem bs_allows_all_src_ok : forall a b, bs_allows_all_src a b = bs_allows_all a b.\nProof. reflexivity. Qed.\n'),
      'bs_allows_any': (RNG, r'fn\s+allows_any\s*\(&self,\s*other:\s*&BoundSet\)\s*->\s*bool\s*\{', B, False,
          'Definition bs_allows_any_src (self_ other_ : boundset) : bool :=\n  %s.\n',
          'Theorem bs_allows_any_src_ok : forall a b, bs_allows_any_src a b = bs_allows_any a b.\nProof. reflexivity. Qed.\n'),
      'bs_intersect': (RNG, r'fn\s+intersect\s*\(&self,\s*other:\s*&Self\)\s*->\s*Option<Self>\s*\{\s*let\s+lower', B, False,
          'Definition bs_intersect_src (self_ other_ : boundset) : option boundset :=\n  %s.\n',
          'Theorem bs_intersect_src_ok : forall a b, bs_intersect_src a b = bs_intersect a b.\nProof. reflexivity. Qed.\n'),
      'bs_difference': (RNG, r'fn\s+difference\s*\(&self,\s*other:\s*&Self\)\s*->\s*Option<Vec<Self>>\s*\{', B, True,
          'Definition bs_difference_src (self_ other_ : boundset) : res (option (list boundset)) :=\n  %s.\n',
          'Theorem bs_difference_src_ok : forall a b, bs_difference_src a b = bs_difference a b.\n'
          'Proof. intros a b. unfold bs_difference_src, bs_difference. destruct (bs_intersect a b) as [o|]; [|reflexivity].\n'
          '  destruct (bs_eqb o a); [reflexivity|]. destruct (blt (bs_lower a) (bs_lower o)), (blt (bs_upper o) (bs_upper a)); cbn [andb];\n'
          '  repeat match goal with |- context [bs_new ?x ?y] => destruct (bs_new x y) end; reflexivity. Qed.\n'),
      'r_satisfies': (RNG, r'pub\s+fn\s+satisfies\s*\(&self,\s*version:\s*&Version\)\s*->\s*bool\s*\{\s*for', {'self': 'range', 'version': 'version'}, False,
          'Definition r_satisfies_src (self_ : range) (version_ : version) : bool :=\n  %s.\n',
          'Theorem r_satisfies_src_ok : forall r v, r_satisfies_src r v = r_satisfies r v.\n'
          'Proof. intros r v. unfold r_satisfies_src, r_satisfies. induction r as [|a r IH]; cbn [fold_right existsb]; [reflexivity|]. rewrite IH. destruct (bs_satisfies a v); reflexivity. Qed.\n'),
      'r_allows_all': (RNG, r'pub\s+fn\s+allows_all\s*\(&self,\s*other:\s*&Range\)\s*->\s*bool\s*\{', {'self': 'range', 'other': 'range'}, False,
          'Definition r_allows_all_src (self_ other_ : range) : bool :=\n  %s.\n',
          'Theorem r_allows_all_src_ok : forall a b, r_allows_all_src a b = r_allows_all a b.\n'
          'Proof. intros a b. unfold r_allows_all_src, r_allows_all. induction a as [|x a IH]; cbn [fold_right existsb]; [reflexivity|]. rewrite IH.\n'
          '  generalize (existsb (fun this => existsb (fun that => bs_allows_all this that) b) a). clear IH. intro k. induction b as [|y b IHb]; cbn [fold_right existsb]; [reflexivity|]. cbv zeta in *. rewrite IHb. destruct (bs_allows_all x y); reflexivity. Qed.\n'),
      'r_allows_any': (RNG, r'pub\s+fn\s+allows_any\s*\(&self,\s*other:\s*&Range\)\s*->\s*bool\s*\{', {'self': 'range', 'other': 'range'}, False,
          'Definition r_allows_any_src (self_ other_ : range) : bool :=\n  %s.\n',
          'Theorem r_allows_any_src_ok : forall a b, r_allows_any_src a b = r_allows_any a b.\n'
          'Proof. intros a b. unfold r_allows_any_src, r_allows_any. induction a as [|x a IH]; cbn [fold_right existsb]; [reflexivity|]. rewrite IH.\n'
          '  generalize (existsb (fun this => existsb (fun that => bs_allows_any this that) b) a). clear IH. intro k. induction b as [|y b IHb]; cbn [fold_right existsb]; [reflexivity|]. cbv zeta in *. rewrite IHb. destruct (bs_allows_any x y); reflexivity. Qed.\n'),
      'min_version': (RNG, r'pub\s+fn\s+min_version\s*\(&self\)\s*->\s*Option<Version>\s*\{', {'self': 'range', 'set': 'boundset'}, False,
          'Definition min_version_src (self_ : range) : option version :=\n  %s.\n',
          'Theorem min_version_src_ok : forall r, min_version_src r = r_min_version r.\n'
          'Proof. intro r. unfold min_version_src, r_min_version. first [reflexivity | f_equal; apply flat_map_ext; intro bs; unfold bs_min, min_candidates, push0, bump_patch, v3, v4; f_equal;\n'
          '  destruct (bs_lower bs) as [[v|v|]|p]; try reflexivity; destruct (is_pre v); reflexivity]. Qed.\n'),
      'max_satisfying': (RNG, r"pub\s+fn\s+max_satisfying<'v>\s*\(&self,\s*versions:\s*&'v\s*\[Version\]\)\s*->\s*Option<&'v\s+Version>\s*\{", {'self': 'range', 'versions': 'versions'}, False,
          'Definition max_satisfying_src (self_ : range) (versions : list version) : option version :=\n  %s.\n',
          'Theorem max_satisfying_src_ok : forall r l, max_satisfying_src r l = r_max_satisfying r l.\nProof. reflexivity. Qed.\n'),
      'min_satisfying': (RNG, r"pub\s+fn\s+min_satisfying<'v>\s*\(&self,\s*versions:\s*&'v\s*\[Version\]\)\s*->\s*Option<&'v\s+Version>\s*\{", {'self': 'range', 'versions': 'versions'}, False,
          'Definition min_satisfying_src (self_ : range) (versions : list version) : option version :=\n  %s.\n',
          'Theorem min_satisfying_src_ok : forall r l, min_satisfying_src r l = r_min_satisfying r l.\nProof. reflexivity. Qed.\n'),
      'bs_print': (RNG, r'impl\s+fmt::Display\s+for\s+BoundSet\s*\{\s*fn\s+fmt\s*\(&self,\s*f:\s*&mut\s+fmt::Formatter<\'_>\)\s*->\s*fmt::Result\s*\{', B, True,
          'Definition bs_print_src (self_ : boundset) : res str :=\n  %s.\n',
          'Theorem bs_print_src_ok : forall bs, bs_print_src bs = bs_print bs.\n'
          'Proof. intros [[[u|u|]|[u|u|]] [[l|l|]|[l|l|]]]; try reflexivity; unfold bs_print_src, bs_print, op_gte, op_lte; cbn [bs_lower bs_upper]; try destruct (veqb _ _); reflexivity. Qed.\n'),
      'r_intersect': (RNG, r'pub\s+fn\s+intersect\s*\(&self,\s*other:\s*&Self\)\s*->\s*Option<Self>\s*\{\s*let\s+mut\s+sets', R, 'loops',
          'Definition r_intersect_src (self_ other_ : range) : option range :=\n  %s.\n',
          'Theorem r_intersect_src_ok : forall a b, r_intersect_src a b = r_intersect a b.\n'
          'Proof. intros a b. unfold r_intersect_src, r_intersect, r_intersect_list, nonempty. cbv zeta.\n'
          '  rewrite (fold_left_flat _ (fun lefty => flat_map (fun righty => opt_to_list (bs_intersect lefty righty)) b)).\n'
          '  - cbn [app]. destruct (flat_map _ a); reflexivity.\n'
          '  - intros acc lefty. apply fold_left_flat. intros acc2 righty. destruct (bs_intersect lefty righty); cbn [opt_to_list]; [reflexivity | now rewrite app_nil_r]. Qed.\n'),
      'r_difference': (RNG, r'pub\s+fn\s+difference\s*\(&self,\s*other:\s*&Self\)\s*->\s*Option<Self>\s*\{\s*let\s+mut\s+predicates', R, 'loops_res',
          'Definition r_difference_src (self_ other_ : range) : res (option range) :=\n  %s.\n',
          'Theorem r_difference_src_ok : forall a b, r_difference_src a b = r_difference a b.\n'
          'Proof. intros a b. unfold r_difference_src, r_difference, nonempty. cbv zeta. rewrite r_difference_list_mconcat.\n'
          '  change (fold_left ?f a (Ok [])) with (fold_left (lift (fun predicates lefty => f (Ok predicates) lefty)) a (Ok [])) at 1.\n'
          '  rewrite (fold_left_res_flat _ (fun lefty => cut_all [lefty] b)).\n'
          '  - destruct (mconcat_map _ a) as [[|x l]|]; reflexivity.\n'
          '  - intros acc lefty. cbv beta.\n'
          '    match goal with |- context [fold_left ?f b (Ok [lefty])] => change (fold_left f b (Ok [lefty])) with (fold_left (lift (fun remaining righty => f (Ok remaining) righty)) b (Ok [lefty])) end.\n'
          '    rewrite (fold_left_res_chain _ cut_pieces cut_all); [destruct (cut_all [lefty] b); reflexivity | | reflexivity | reflexivity].\n'
          '    intros rem righty. cbv beta. rewrite mfilter_concat_cut. destruct (cut_pieces rem righty); reflexivity. Qed.\n'),
      'r_print': (RNG, r"impl\s+fmt::Display\s+for\s+Range\s*\{\s*fn\s+fmt\s*\(&self,\s*f:\s*&mut\s+fmt::Formatter<'_>\)\s*->\s*fmt::Result\s*\{", {'self': 'range'}, 'loops_res',
          'Definition r_print_src (self_ : range) : res str :=\n  let f : str := [] in\n  %s.\n',
          'Theorem r_print_src_ok : forall r, r_print_src r = r_print r.\n'
          'Proof. intro r. unfold r_print_src, enumerate. cbv zeta. rewrite r_print_joined.\n'
          '  match goal with |- context [fold_left ?f (enumerate_from 0 r) (Ok [])] => change (fold_left f (enumerate_from 0 r) (Ok [])) with (fold_left (lift (fun f0 ix => f (Ok f0) ix)) (enumerate_from 0 r) (Ok [])) end.\n'
          '  rewrite (fold_enum_res _ bs_print (fun i => if Nat.ltb 0 i then [124; 124] else [])).\n'
          '  - destruct (joined_res _ _ _ r); reflexivity.\n'
          '  - intros acc i x. cbv beta iota zeta. destruct (Nat.ltb 0 i); destruct (bs_print x); cbn [rbind rmap app]; rewrite ?app_nil_r, <- ?app_assoc; reflexivity. Qed.\n'),
      'vprint': (LIB, r"impl\s+fmt::Display\s+for\s+Version\s*\{\s*fn\s+fmt\s*\(&self,\s*f:\s*&mut\s+fmt::Formatter<'_>\)\s*->\s*fmt::Result\s*\{", {'self': 'version'}, 'loops',
          'Definition vprint_src (self_ : version) : str :=\n  let f : str := [] in\n  %s.\n',
          'Theorem vprint_src_ok : forall v, vprint_src v = vprint v.\n'
          'Proof. intro v. unfold vprint_src, vprint, enumerate. cbv zeta. rewrite !print_idents_joined.\n'
          '  rewrite (fold_enum _ print_ident (fun i => if Nat.eqb i 0 then [43] else [46])) by (intros acc i x; cbv beta iota; destruct (Nat.eqb i 0); rewrite <- ?app_assoc; reflexivity).\n'
          '  rewrite (fold_enum _ print_ident (fun i => if Nat.eqb i 0 then [45] else [46])) by (intros acc i x; cbv beta iota; destruct (Nat.eqb i 0); rewrite <- ?app_assoc; reflexivity).\n'
          '  repeat (progress (cbn [app]; rewrite <- ?app_assoc)). reflexivity. Qed.\n'),
      'partial_into': (RNG, r'impl\s+From<Partial>\s+for\s+Version\s*\{\s*fn\s+from\s*\(partial:\s*Partial\)\s*->\s*Self\s*\{', {'partial': 'partial'}, False,
          'Definition partial_into_src (partial_ : partial_t) : version :=\n  %s.\n',
          'Theorem partial_into_src_ok : forall p, partial_into_src p = partial_into p.\nProof. reflexivity. Qed.\n'),
      'print_ident': (LIB, r"impl\s+fmt::Display\s+for\s+Identifier\s*\{\s*fn\s+fmt\s*\(&self,\s*f:\s*&mut\s+fmt::Formatter<'_>\)\s*->\s*fmt::Result\s*\{", {'self': 'ident'}, 'loops',
          'Definition print_ident_src (self_ : ident) : str :=\n  let f : str := [] in\n  %s.\n',
          'Theorem print_ident_src_ok : forall i, print_ident_src i = print_ident i.\nProof. intros [n|s]; reflexivity. Qed.\n'),
      'from3_unsigned': (LIB, r'(?s)macro_rules!\s*impl_from_unsigned_for_version\s*\{.*?fn\s+from\s*\(\(major,\s*minor,\s*patch\):\s*\(\$t,\s*\$t,\s*\$t\)\)\s*->\s*Self\s*\{', Zs, True,
          'Definition from3_unsigned_src (major_ minor_ patch_ : Z) : res version :=\n  %s.\n',
          'Theorem from3_unsigned_src_ok : forall a b c, from3_unsigned_src a b c = Ok (from3 a b c).\nProof. reflexivity. Qed.\n', int_types('impl_from_unsigned_for_version', UNSIGNED)),
      'from4_unsigned': (LIB, r'(?s)macro_rules!\s*impl_from_unsigned_for_version\s*\{.*?fn\s+from\s*\(\(major,\s*minor,\s*patch,\s*pre_release\):\s*\(\$t,\s*\$t,\s*\$t,\s*\$t\)\)\s*->\s*Self\s*\{', Zs, True,
          'Definition from4_unsigned_src (major_ minor_ patch_ pre_release_ : Z) : res version :=\n  %s.\n',
          'Theorem from4_unsigned_src_ok : forall a b c d, from4_unsigned_src a b c d = Ok (from4 a b c d).\nProof. reflexivity. Qed.\n', int_types('impl_from_unsigned_for_version', UNSIGNED)),
      'from3_signed': (LIB, r'(?s)macro_rules!\s*impl_from_signed_for_version\s*\{.*?fn\s+from\s*\(\(major,\s*minor,\s*patch\):\s*\(\$t,\s*\$t,\s*\$t\)\)\s*->\s*Self\s*\{', Zs, True,
          'Definition from3_signed_src (major_ minor_ patch_ : Z) : res version :=\n  %s.\n',
          'Theorem from3_signed_src_ok : forall a b c, (0 <= a)%Z -> (0 <= b)%Z -> (0 <= c)%Z -> from3_signed_src a b c = Ok (from3 a b c).\n'
          'Proof. intros a b c Ha Hb Hc. unfold from3_signed_src. repeat match goal with |- context [(?x >=? 0)%Z] => replace (x >=? 0)%Z with true by (symmetry; apply Z.geb_le; lia) end. reflexivity. Qed.\n', int_types('impl_from_signed_for_version', SIGNED)),
      'from4_signed': (LIB, r'(?s)macro_rules!\s*impl_from_signed_for_version\s*\{.*?fn\s+from\s*\(\(major,\s*minor,\s*patch,\s*pre_release\):\s*\(\$t,\s*\$t,\s*\$t,\s*\$t\)\)\s*->\s*Self\s*\{', Zs, True,
          'Definition from4_signed_src (major_ minor_ patch_ pre_release_ : Z) : res version :=\n  %s.\n',
          'Theorem from4_signed_src_ok : forall a b c d, (0 <= a)%Z -> (0 <= b)%Z -> (0 <= c)%Z -> (0 <= d)%Z -> from4_signed_src a b c d = Ok (from4 a b c d).\n'
          'Proof. intros a b c d Ha Hb Hc Hd. unfold from4_signed_src. repeat match goal with |- context [(?x >=? 0)%Z] => replace (x >=? 0)%Z with true by (symmetry; apply Z.geb_le; lia) end. reflexivity. Qed.\n', int_types('impl_from_signed_for_version', SIGNED)),
      'hash_key': (LIB, r'impl\s+std::hash::Hash\s+for\s+Version\s*\{\s*fn\s+hash<H:\s*std::hash::Hasher>\s*\(&self,\s*state:\s*&mut\s+H\)\s*\{', V, 'hash',
          'Definition hash_key_src (self_ : version) :=\n  %s.\n',
          'Theorem hash_key_src_ok : forall v, hash_key_src v = hash_key v.\nProof. reflexivity. Qed.\n'),
    }
USED_BY = {'is_prerelease': ['C03', 'C04'], 'version_eq': ['C04'], 'version_cmp': ['C04'], 'version_diff': ['C16'],
           'flip': ['C08'], 'predicate': ['C08'], 'at_least': ['C01'], 'at_most': ['C01'], 'exact': ['C01'],
           'bs_satisfies': ['C03', 'C06'], 'bs_allows_all': ['C10'], 'bs_allows_any': ['C09'], 'bs_intersect': ['C07'],
           'bs_difference': ['C08', 'C06'], 'bs_print': ['C13'], 'min_version': ['C11', 'C06'], 'max_satisfying': ['C14'], 'min_satisfying': ['C14'], 'r_satisfies': ['C03', 'C01'], 'r_allows_all': ['C10'], 'r_allows_any': ['C09'],
           'r_intersect': ['C07', 'C15'], 'r_difference': ['C08', 'C15', 'C06'],
           'r_print': ['C13'], 'vprint': ['C12', 'C13'], 'partial_into': ['C01'], 'print_ident': ['C12'],
           'from3_unsigned': ['C18'], 'from4_unsigned': ['C18'], 'from3_signed': ['C18'], 'from4_signed': ['C18'], 'hash_key': ['C04']}

def run(only=None):
    os.makedirs(GEN, exist_ok=True)
    status = {}; cache = {}; jobs = []
    for name, spec in defs().items():
        (path, hdr, env, panics, dfmt, thm) = spec[:6]; pre = spec[6] if len(spec) > 6 else None
        if only is not None and name not in only: continue
        out = os.path.join(GEN, 'Fn_%s.v' % name)
        try:
            if path not in cache: cache[path] = open(path).read()
            if pre: pre(cache[path])
            body = fn(cache[path], hdr, env, panics)
            thname = re.search(r'Theorem (\w+)', thm).group(1)
            m_ = re.search(r'Proof\.(.*)Qed\.', thm, re.S)
            target = re.search(r'= (\w+) ', thm.split('\n')[0] + ' ').group(1)
            generic = 'intros; unfold %s_src, %s in *; repeat match goal with x : boundset |- _ => destruct x as [[[?|?|]|[?|?|]] [[?|?|]|[?|?|]]] | x : version |- _ => destruct x end; cbn [bs_lower bs_upper predicate]; src_atoms' % (name, target)
            thm2 = thm[:m_.start()] + 'Proof. %s. Qed.\n' % generic
            text = HEADER + dfmt % body + thm + 'Print Assumptions %s.\n' % thname
            status[name] = {'status': 'ok', 'file': out, 'theorem': thname}
        except Unsupported as ex:
            text = '(* GENERATED: tools/translate_fn.py could not translate this function: %s *)\n' % str(ex).replace('*)', '* )')
            status[name] = {'status': 'unparsed', 'reason': str(ex)}
        except Exception as ex:
            text = '(* GENERATED: tools/translate_fn.py failed: %r *)\n' % (ex,)
            status[name] = {'status': 'unparsed', 'reason': 'translator error: %r' % (ex,)}
        if not os.path.exists(out) or open(out).read() != text: open(out, 'w').write(text)
        if status[name]['status'] == 'ok': jobs.append((name, out, HEADER + dfmt % body + thm2 + 'Print Assumptions %s.\n' % thname, thname))
    def finish(job):
        name, out, text2, thname = job
        T.drop_redundant(out, status[name]); status[name]['proof'] = 'by the case split written for the current shape of the source'
        if not status[name].get('compiles'):
            # the source may have been rewritten into another, equivalent shape: try the generic split on every atomic test
            first_error = status[name].get('coq_error')
            open(out, 'w').write(text2)
            st2 = {'status': 'ok', 'file': out, 'theorem': thname}
            T.drop_redundant(out, st2)
            if st2.get('compiles'):
                st2['proof'] = 'by the generic split on atomic tests (the source no longer has the shape the specific script was written for)'
                status[name] = st2
            else:
                status[name]['coq_error'] = first_error
    from concurrent.futures import ThreadPoolExecutor
    with ThreadPoolExecutor(max_workers=8) as ex:
        list(ex.map(finish, jobs))
    return status

if __name__ == '__main__':
    only = sys.argv[1:] or None
    print(json.dumps(run(only), indent=1))
