#!/bin/bash
# usage: seedregress.sh [<seed-id> ...]   -- re-run every seeded change (default: all under seeded/) against the current machinery.
# Each patch is applied to a private copy of the crate (VERIF_REPO); a patch that no longer applies (the source has moved on since the seed was
# written: D14, D19-D21 repairs) is reported as such.  Prints one line per seed: DETECTED / MISSED / STALE.  Leaves evidence/ as it found it.
set -u
here=$(cd "$(dirname "$0")/.." && pwd); cd "$here"
repo=${VERIF_REPO:-/repo}
ids=${@:-$(ls seeded | grep -E '^C[0-9]+-' | sort)}
rm -rf build/evidence.keep; cp -r evidence build/evidence.keep
for id in $ids; do
  prop=$(python3 -c "import json;print(json.load(open('seeded/$id/meta.json'))['property'])" 2>/dev/null)
  [ -z "$prop" ] && { echo "$id ?: no meta.json"; continue; }
  priv=/tmp/seedregress-$$; rm -rf $priv; mkdir -p $priv
  rsync -a --exclude target --exclude .git "$repo"/ $priv/
  if ! ( cd $priv && patch -p1 -s --no-backup-if-mismatch < "$here/seeded/$id/patch.diff" ) >/dev/null 2>&1; then
    echo "$id $prop STALE (patch no longer applies to the current source)"; rm -rf $priv; continue
  fi
  out=$(VERIF_REPO=$priv timeout 3000 python3 tools/check.py "$prop" --tier quick 2>&1 | grep -E "VIOLATION|^C[0-9]+ quick" | tail -1)
  case "$out" in
    *"-> VIOLATION"*) echo "$id $prop DETECTED  ${out:0:110}";;
    *"-> ok"*)        echo "$id $prop MISSED    ${out:0:110}";;
    *)                echo "$id $prop ERROR     ${out:0:110}";;
  esac
  rm -rf $priv build/harness-alt
done
rm -rf evidence; mv build/evidence.keep evidence
