"""Correspondence families and implementation-side evaluators for the interval algebra:
C07 intersect, C08 difference, C09 allows_any, C10 allows_all, C15 expression trees.

Every property is evaluated on the implementation's own answers: bounds membership through
`(within E vs)` (Range::allows_any with an exact-version range), satisfaction through `(sat E vs)`,
the operation results through `(isect ..)`, `(diff ..)`, `(allows_any ..)`, `(allows_all ..)`."""
import itertools
from lib import *

# ------------------------------------------------------------------ interval universe
def interval_texts(univ):
    """all one-interval range expressions over a version universe: every lower kind x upper kind.
    Returns (valid-or-not unknown) protocol expressions with a printable label."""
    lows = [('unb', None)] + [(k, v) for v in univ for k in ('inc', 'exc')]
    ups = [('unb', None)] + [(k, v) for v in univ for k in ('inc', 'exc')]
    out = []
    for (lk, lv) in lows:
        for (uk, uv) in ups:
            if lk == 'unb' and uk == 'unb':
                out.append(('*any*', E_any)); continue
            parts = []
            if lk != 'unb': parts.append(('>=' if lk == 'inc' else '>') + vtext(lv))
            if uk != 'unb': parts.append(('<=' if uk == 'inc' else '<') + vtext(uv))
            if lk == 'inc' and uk == 'inc' and lv == uv:
                out.append((vtext(lv), E_parse(vtext(lv))))       # the exact form as well
            t = ' '.join(parts)
            out.append((t, E_parse(t)))
    return out

def interval_nonempty_text(e):
    """does BoundSet::new accept the (lower, upper) pair this text denotes?  (decided independently in Python)"""
    t = str(e[1]).split(' ')
    lo = [x for x in t if x[0] == '>']; up = [x for x in t if x[0] == '<']
    if not lo or not up: return True
    def pv(x):
        body = x.lstrip('<>=')
        core, _, pre = body.partition('-')
        a, b, c = core.split('.')
        return V(int(a), int(b), int(c), tuple(int(i) if i.isdigit() else i for i in pre.split('.')) if pre else ())
    lv, uv = pv(lo[0]), pv(up[0])
    return pyvalid('inc' if lo[0].startswith('>=') else 'exc', lv, 'inc' if up[0].startswith('<=') else 'exc', uv)

def pyvalid(lk, lv, uk, uv):
    if lk == 'unb' or uk == 'unb': return True
    c = py_vcmp(lv, uv)
    if c < 0: return True
    if c > 0: return False
    return lk == 'inc' and uk == 'inc'

GRAMMAR_FORMS = ['^%s', '~%s', '%s', '>=%s', '<%s', '<=%s', '>%s', '=%s']
def random_range_text(rng, pool, max_alts=3):
    """a grammar-random range over versions/partials drawn from `pool`"""
    alts = []
    for _ in range(rng.randint(1, max_alts)):
        k = rng.random()
        if k < 0.15:
            a, b = rng.choice(pool), rng.choice(pool)
            alts.append('%s - %s' % (partial_text(rng, a), partial_text(rng, b)))
        else:
            comps = []
            for _ in range(rng.randint(1, 3)):
                v = rng.choice(pool)
                comps.append(rng.choice(GRAMMAR_FORMS) % partial_text(rng, v))
            alts.append(' '.join(comps))
    return ' || '.join(alts)
def partial_text(rng, v):
    k = rng.random()
    if k < 0.55 or v[3]: return vtext(v[:4] + ((),))
    if k < 0.7: return '%d.%d' % v[:2]
    if k < 0.8: return '%d' % v[0]
    if k < 0.9: return '%d.%d.x' % v[:2]
    return '%d.x' % v[0]

# ------------------------------------------------------------------ case construction
def membership_cases(label_exprs, probes):
    pv = [enc_version(v) for v in probes]
    cases = []
    for e in label_exprs:
        cases.append(dump(['within', e, pv]))
        cases.append(dump(['sat', e, pv]))
    return cases

def gen_setops(ops, with_trees=False):
    def gen(tier, rng):
        univ = small_universe(tier)
        probes = probe_versions(univ)
        ivs = interval_texts(univ)
        exprs = [e for (_, e) in ivs]
        valid = [e for (_, e) in ivs if e[0] == 'any' or interval_nonempty_text(e)]
        cases = []
        single = membership_cases(exprs, probes)
        cases += single
        npairs = 0
        for a in valid:
            for b in valid:
                npairs += 1
                for op in ops:
                    if op in ('isect', 'diff'):
                        cases.append(dump([op, a, b]))
                        cases += membership_cases([[op, a, b]], probes)
                    else:
                        cases.append(dump([op, a, b]))
        # intervals whose endpoints a positional packing with radix m would confuse, for every power of two m: (0,m,0) / (1,0,0), (1,0,m) / (1,1,0)
        for m in POWERS:
            x, y, z, w = vtext(V(0, m, 0)), vtext(V(1, 0, 0)), vtext(V(1, 0, m)), vtext(V(1, 1, 0))
            pr = [enc_version(v) for v in (V(0, m, 0), V(1, 0, 0), V(1, 0, m), V(1, 1, 0), V(0, m - 1, 9), V(0, m, 1), V(1, 0, m + 1), V(1, 0, m - 1), V(0, 0, 0), V(2, 0, 0))]
            rs = [E_parse(t) for t in ('<=' + x, '>=' + y, '>=%s <=%s' % (x, y), '>%s <%s' % (x, y), '=' + x, '=' + y, '<=' + z, '>=' + w, '>%s <%s' % (z, w))]
            for a in rs:
                cases.append(dump(['within', a, pr])); cases.append(dump(['sat', a, pr]))
                for b in rs:
                    for op in ops:
                        cases.append(dump([op, a, b]))
                        if op in ('isect', 'diff'):
                            cases.append(dump(['within', [op, a, b], pr])); cases.append(dump(['sat', [op, a, b], pr]))
        # many alternatives on one side
        for nn in [n_ for n_ in SIZES if n_ <= 129]:
            a = E_parse(' || '.join('1.0.%d' % i for i in range(nn))); b = E_parse('>=1.0.5 <1.0.20 || 1.0.%d' % (nn - 1))
            prn = [V(1, 0, i) for i in (0, 4, 5, 6, 19, 20, 21, nn - 2, nn - 1, nn)]
            cases += membership_cases([a, b], prn)
            for (x, y) in ((a, b), (b, a)):
                for op in ops:
                    cases.append(dump([op, x, y]))
                    if op in ('isect', 'diff'): cases += membership_cases([[op, x, y]], prn)
        if 'diff' in ops:
            # many holes, then a cutter that meets a piece boundary with every combination of inclusivity: one interval cut into 4…33 pieces inside ONE call
            for nn in (3, 8, 9, 10, 16, 17, 32, 33):
                holes = ' || '.join('>=%d.0.0 <%d.1.0' % (i, i) for i in range(1, nn + 1))
                k = nn // 2
                prh = [V(k, 0, 9), V(k, 1, 0), V(k, 1, 1), V(k, 0, 0), V(k, 2, 0), V(k + 1, 0, 0), V(k, 9, 9), V(0, 5, 0), V(nn + 1, 0, 0), V(k - 1, 1, 0), V(k - 1, 5, 0)]
                for tie in ('%d.1.0' % k, '>%d.0.5 <=%d.1.0' % (k, k), '>=%d.1.0 <%d.2.0' % (k, k), '>%d.1.0 <%d.2.0' % (k, k), '<=%d.1.0 >=%d.1.0' % (k - 1, k - 1), '>=%d.5.0 <=%d.0.0' % (k, k + 1)):
                    b = E_parse(holes + ' || ' + tie); b2 = E_parse(tie + ' || ' + holes)
                    for at in ('>=0.0.0', '*', '>=0.5.0 <=%d.0.0' % (nn + 1)):
                        a = E_parse(at)
                        for bb in (b, b2):
                            cases.append(dump(['diff', a, bb])); cases += membership_cases([['diff', a, bb], bb, a], prh)
                            if 'isect' in ops: cases.append(dump(['isect', ['diff', a, bb], bb]))
        if any(o in ops for o in ('isect', 'allows_any', 'allows_all')):
            # BOTH operands with three alternatives, in every order (nested, overlapping, disjoint intervals): index arithmetic, early exits and
            # pruning in the Range-level loops are right for one alternative or for sorted ones, and wrong here
            L6 = ['1.x', '2.x', '3.x', '1.2.x', '2.2.x', '>=1.5.0 <2.5.0']
            tri = [' || '.join(t) for t in itertools.permutations(L6, 3)]
            pr33 = [V(0, 9, 0), V(1, 0, 0), V(1, 2, 5), V(1, 5, 0), V(1, 9, 0), V(2, 0, 0), V(2, 2, 5), V(2, 4, 0), V(2, 9, 0), V(3, 0, 0), V(3, 2, 5), V(4, 0, 0)]
            et = [E_parse(t) for t in tri]
            cases += membership_cases(et, pr33)
            for a in et:
                for b in et:
                    for op in ops:
                        if op == 'diff': continue
                        cases.append(dump([op, a, b]))
                        if op == 'isect': cases += membership_cases([['isect', a, b]], pr33)
        if 'diff' in ops:
            # one interval minus THREE alternatives in every order and nesting (points, closed and half-open intervals over four inner versions):
            # the pieces left by the first two alternatives meet the third -- state that exists only inside one call of Range::difference
            pts = ['1.%d.0' % i for i in range(6)]
            I3 = ['=' + pts[i] for i in range(1, 5)] + ['>=%s <=%s' % (pts[i], pts[j]) for i in range(1, 5) for j in range(i + 1, 5)] + \
                 ['>%s <%s' % (pts[1], pts[4]), '>=%s <%s' % (pts[1], pts[3])]
            pr3 = [V(1, i, j) for i in range(6) for j in (0, 1)] + [V(0, 9, 9), V(2, 0, 0)]
            for at in ('>=%s <=%s' % (pts[0], pts[5]), '*'):
                a = E_parse(at)
                cases += membership_cases([a], pr3)
                for t1 in I3:
                    for t2 in I3:
                        for t3 in I3:
                            if t1 == t2 or t2 == t3 or t1 == t3: continue
                            b = E_parse(t1 + ' || ' + t2 + ' || ' + t3)
                            cases.append(dump(['diff', a, b])); cases += membership_cases([['diff', a, b], b], pr3)
                            if 'isect' in ops: cases.append(dump(['isect', a, b])); cases += membership_cases([['isect', a, b]], pr3)
        if 'allows_all' in ops:
            # receivers made of two alternatives that meet at one version (with every combination of inclusivity: a hole, a junction,
            # an overlap at a point) against every single interval: what a coalescing "optimisation" of the receiver would get wrong
            srt0 = sorted(univ, key=lambda v: (v[:3], 0 if v[3] else 1, [(0, i, '') if isinstance(i, int) else (1, 0, i) for i in v[3]]))
            meet = []
            for i in range(len(srt0)):
                m = vtext(srt0[i])
                lo = vtext(srt0[i - 1]) if i > 0 else None; hi = vtext(srt0[i + 1]) if i + 1 < len(srt0) else None
                for l_op, r_op in (('<', '>'), ('<=', '>'), ('<', '>='), ('<=', '>=')):
                    meet.append('%s%s || %s%s' % (l_op, m, r_op, m)); meet.append('%s%s || %s%s' % (r_op, m, l_op, m))
                    if lo and hi: meet.append('>=%s %s%s || %s%s <=%s' % (lo, l_op, m, r_op, m, hi))
            for t in meet:
                a = E_parse(t)
                cases += membership_cases([a], probes)
                for b in valid:
                    cases.append(dump(['allows_all', a, b])); cases.append(dump(['allows_any', a, b]))
        # multi-alternative random pairs
        pool = univ + [V(0, 0, 0), V(1, 2, 3), V(2, 1, 0, ('beta', 2)), V(0, 1, 5), V(1, 0, 1, ('a',))]
        probes2 = probe_versions(pool)
        nr = 400 if tier == 'quick' else 6000
        rtexts = []
        for _ in range(nr):
            a = E_parse(random_range_text(rng, pool)); b = E_parse(random_range_text(rng, pool))
            rtexts.append((a, b))
            cases += membership_cases([a, b], probes2)
            for op in ops:
                cases.append(dump([op, a, b]))
                if op in ('isect', 'diff'):
                    cases += membership_cases([[op, a, b]], probes2)
        ntrees = 0
        if with_trees:
            leaves = exprs + [a for a, _ in rtexts[:200]]
            # chains of adjacent / touching alternatives (one ends exactly where the next starts): what one operation
            # hands to the next when results are composed
            srt = sorted(univ, key=lambda v: (v[:3], 0 if v[3] else 1, [(0, i, '') if isinstance(i, int) else (1, 0, i) for i in v[3]]))
            chains = []
            for i in range(len(srt) - 2):
                a, b, c = vtext(srt[i]), vtext(srt[i + 1]), vtext(srt[i + 2])
                chains += ['>=%s <%s || >=%s' % (a, b, b), '>=%s <%s || >=%s <%s' % (a, b, b, c), '<%s || >=%s <=%s || >%s' % (a, a, b, b),
                           '>%s <=%s || >%s' % (a, b, b), '<=%s || >%s <%s || >=%s' % (a, a, c, c), '>=%s || >=%s <%s' % (b, a, b)]
            chain_leaves = [E_parse(t) for t in chains]
            leaves = leaves + chain_leaves
            for _ in range(300 if tier == 'quick' else 5000):
                x = rng.choice(leaves); ch = rng.choice(chain_leaves)
                t = rng.choice([['diff', x, ch], ['diff', ['diff', x, ch], rng.choice(leaves)], ['isect', x, ['diff', rng.choice(leaves), ch]],
                                ['diff', x, ['diff', x, ['diff', x, ch]]], ['diff', x, ['isect', ch, rng.choice(leaves)]]])
                ntrees += 1
                cases += membership_cases([t], probes2)
                cases.append(dump(['rprint', t]))
            for _ in range(1500 if tier == 'quick' else 30000):
                t = random_tree(rng, leaves, rng.randint(2, 3 if tier == 'quick' else 4))
                ntrees += 1
                cases += membership_cases([t], probes2)
                cases.append(dump(['rprint', t]))
                cases.append(dump(['serde_r', t]))
        meta = {'exhaustive': True, 'universe': [vtext(v) for v in univ], 'intervals': len(ivs), 'valid_intervals': len(valid), 'pairs': npairs,
                'probe_versions': len(probes), 'random_pairs': nr, 'trees': ntrees,
                'what': 'all ordered pairs of the %d one-interval ranges over a %d-version universe (every Including/Excluding/Unbounded kind, '
                        'equal and adjacent bound versions, tagged bounds; invalid pairs go through the parser) x operations %s, bounds membership and satisfaction '
                        'probed on %d versions; %d random multi-alternative pairs%s' % (len(ivs), len(univ), '/'.join(ops), len(probes), nr,
                                                                                     ('; %d random expression trees' % ntrees) if with_trees else '')}
        return cases, meta
    return gen

def random_tree(rng, leaves, depth):
    if depth == 0 or rng.random() < 0.15:
        return rng.choice(leaves)
    op = rng.choice(['isect', 'diff'])
    return [op, random_tree(rng, leaves, depth - 1), random_tree(rng, leaves, depth - 1)]

# ------------------------------------------------------------------ observation tables
class Obs:
    def __init__(self, triples):
        self.within = {}; self.sat = {}; self.struct = {}; self.op = {}; self.case_of = {}
        self.panics = []; self.diffs = []; self.printed = {}; self.serde = {}
        for c, o, v in triples:
            pc = parse(c)
            kind = pc[0]
            if o == 'panic': self.panics.append(c)
            if kind in ('within', 'sat'):
                key = dump(pc[1])
                vs = [dec_version(x) for x in pc[2]]
                tbl = self.within if kind == 'within' else self.sat
                self.case_of[(kind, key)] = c
                if o == 'panic' or o == '(inconsistent)': tbl[key] = o; continue
                po = parse(o)
                if not isinstance(tbl.get(key), dict): tbl[key] = {}
                if po == ['none']:
                    tbl[key].update({vv: False for vv in vs}); self.struct[key] = None
                else:
                    tbl[key].update({vv: (b == 'true') for vv, b in zip(vs, po[1])})
                    self.struct[key] = dec_some_range(po[0])
            elif kind in ('isect', 'diff', 'allows_all', 'allows_any'):
                key = (kind, dump(pc[1]), dump(pc[2]))
                self.case_of[key] = c
                if o == 'panic': self.op[key] = 'panic'; continue
                po = parse(o)
                if po == ['none']: self.op[key] = 'operand-none'; continue
                self.struct[dump(pc[1])] = dec_some_range(po[0]); self.struct[dump(pc[2])] = dec_some_range(po[1])
                if kind in ('isect', 'diff'):
                    self.op[key] = dec_some_range(po[2])
                else:
                    self.op[key] = (po[2] == 'true')
            elif kind == 'rprint':
                key = dump(pc[1]); self.case_of[('rprint', key)] = c
                if o == 'panic': self.printed[key] = 'panic'
                else:
                    po = parse(o)
                    self.printed[key] = None if po == ['none'] else str(po[1])
            elif kind == 'serde_r':
                key = dump(pc[1]); self.case_of[('serde_r', key)] = c
                self.serde[key] = o

def rtext(e):
    """human-readable text of a protocol range expression"""
    if e[0] == 'parse': return '`%s`' % e[1]
    if e[0] == 'any': return 'Range::any()'
    return '%s.%s(%s)' % (rtext(e[1]), 'intersect' if e[0] == 'isect' else 'difference', rtext(e[2]))

def fail(what, case, **kw):
    d = {'what': what, 'case': case}; d.update(kw); return d

def pairs_of(obs, kind):
    return [(k[1], k[2]) for k in obs.op if k[0] == kind]

def cert_range(r): return F_g_range(r)
def F_g_range(r):
    import families as F
    return F.g_range(r)

# ------------------------------------------------------------------ C07
def eval_isect(triples, tier, rng):
    import families as F
    obs = Obs(triples); fails = []; nontrivial = 0; certs = []
    dist = {'pairs': 0, 'result_none': 0, 'touching_or_overlapping': 0, 'operand_unparseable': 0}
    for (ka, kb) in pairs_of(obs, 'isect'):
        a, b = parse(ka), parse(kb)
        res = obs.op[('isect', ka, kb)]
        dist['pairs'] += 1
        if res == 'operand-none': dist['operand_unparseable'] += 1; continue
        kc = dump(['isect', a, b])
        case = obs.case_of[('isect', ka, kb)]
        if res == 'panic':
            fails.append(fail('%s.intersect(%s) panicked' % (rtext(a), rtext(b)), case, input=[rtext(a), rtext(b)])); continue
        wa, wb, wc = obs.within.get(ka), obs.within.get(kb), obs.within.get(kc)
        sa, sb, sc = obs.sat.get(ka), obs.sat.get(kb), obs.sat.get(kc)
        if not all(isinstance(x, dict) for x in (wa, wb, wc, sa, sb, sc)):
            bad = [n for n, x in (('within a', wa), ('within b', wb), ('within result', wc), ('sat a', sa), ('sat b', sb), ('sat result', sc)) if not isinstance(x, dict)]
            fails.append(fail('membership probe failed (%s: panic or inconsistent) for %s / %s' % (bad, rtext(a), rtext(b)), case)); continue
        if res is None: dist['result_none'] += 1
        touching = False
        for v in wc:
            if not (v in wa and v in wb and v in sa and v in sb and v in sc): continue
            inboth = wa[v] and wb[v]
            if inboth: touching = True
            if wc[v] != inboth:
                fails.append(fail('%s lies within %s.intersect(%s): %s, but within both operands: %s' % (vtext(v), rtext(a), rtext(b), wc[v], inboth),
                                  obs.case_of[('within', kc)], input=[rtext(a), rtext(b), vtext(v)], kind='isect-within')); break
            if not v[3]:
                if sc[v] != (sa[v] and sb[v]):
                    fails.append(fail('release %s satisfies the intersection of %s and %s: %s, both: %s' % (vtext(v), rtext(a), rtext(b), sc[v], sa[v] and sb[v]),
                                      obs.case_of[('sat', kc)], input=[rtext(a), rtext(b), vtext(v)], kind='isect-release')); break
            else:
                if sa[v] and sb[v] and not sc[v]:
                    fails.append(fail('prerelease %s satisfies %s and %s but not their intersection' % (vtext(v), rtext(a), rtext(b)),
                                      obs.case_of[('sat', kc)], input=[rtext(a), rtext(b), vtext(v)], kind='isect-pre-fwd')); break
                if sc[v] and not (wa[v] and wb[v] and (sa[v] or sb[v])):
                    fails.append(fail('prerelease %s satisfies the intersection of %s and %s without lying within both and satisfying one' % (vtext(v), rtext(a), rtext(b)),
                                      obs.case_of[('sat', kc)], input=[rtext(a), rtext(b), vtext(v)], kind='isect-pre-bwd')); break
        if touching: nontrivial += 1; dist['touching_or_overlapping'] += 1
        # commutativity / idempotence up to the admitted versions
        kr = dump(['isect', b, a])
        wr, sr = obs.within.get(kr), obs.sat.get(kr)
        noncomm = [x for x in wc if isinstance(wr, dict) and isinstance(sr, dict) and x in wr and x in sr and x in sc and (wr[x] != wc[x] or sr[x] != sc[x])]
        if noncomm:
            v = noncomm[0]
            fails.append(fail('intersect is not commutative on %s / %s at %s' % (rtext(a), rtext(b), vtext(v)), obs.case_of[('within', kc)],
                              input=[rtext(a), rtext(b), vtext(v)], kind='isect-comm'))
        if ka == kb and any(wc[x] != wa[x] or sc[x] != sa[x] for x in wc if x in wa and x in sa and x in sc):
            fails.append(fail('intersect is not idempotent on %s' % rtext(a), obs.case_of[('within', kc)], input=[rtext(a)], kind='isect-idem'))
        sA, sB = obs.struct.get(ka), obs.struct.get(kb)
        if sA and sB and len(certs) < 3000 and rng.random() < 0.1:
            g = 'None' if res is None else 'Some %s' % F.g_range(res)
            certs.append('r_intersect %s %s = %s' % (F.g_range(sA), F.g_range(sB), g))
    return {'failures': fails, 'nontrivial': nontrivial, 'distribution': dist, 'certs': certs}

# ------------------------------------------------------------------ C08
def eval_diff(triples, tier, rng):
    import families as F
    obs = Obs(triples); fails = []; nontrivial = 0; certs = []
    dist = {'pairs': 0, 'result_none': 0, 'two_remainders': 0, 'b_multi_alternative': 0, 'operand_unparseable': 0}
    for (ka, kb) in pairs_of(obs, 'diff'):
        a, b = parse(ka), parse(kb)
        res = obs.op[('diff', ka, kb)]
        dist['pairs'] += 1
        if res == 'operand-none': dist['operand_unparseable'] += 1; continue
        kc = dump(['diff', a, b]); ki = dump(['isect', a, b])
        case = obs.case_of[('diff', ka, kb)]
        if res == 'panic':
            fails.append(fail('%s.difference(%s) panicked' % (rtext(a), rtext(b)), case, input=[rtext(a), rtext(b)], kind='diff-panic')); continue
        wa, wb, wc = obs.within.get(ka), obs.within.get(kb), obs.within.get(kc)
        sa, sb, sc = obs.sat.get(ka), obs.sat.get(kb), obs.sat.get(kc)
        wi = obs.within.get(ki)
        if not all(isinstance(x, dict) for x in (wa, wb, wc, sa, sb, sc)):
            fails.append(fail('membership probe failed (panic or inconsistent) for %s / %s' % (rtext(a), rtext(b)), case)); continue
        if res is None: dist['result_none'] += 1
        elif len(res) >= 2 and obs.struct.get(ka) and len(obs.struct[ka]) == 1: dist['two_remainders'] += 1
        if obs.struct.get(kb) and len(obs.struct[kb]) > 1: dist['b_multi_alternative'] += 1
        cut = False
        for v in wc:
            if not (v in wa and v in wb and v in sa and v in sb and v in sc): continue
            want = wa[v] and not wb[v]
            if wa[v] and wb[v]: cut = True
            if wc[v] != want:
                fails.append(fail('%s lies within %s.difference(%s): %s, but (within A and outside B): %s' % (vtext(v), rtext(a), rtext(b), wc[v], want),
                                  obs.case_of[('within', kc)], input=[rtext(a), rtext(b), vtext(v)], kind='diff-within')); break
            if not v[3] and sc[v] != (sa[v] and not sb[v]):
                fails.append(fail('release %s satisfies %s minus %s: %s, but (satisfies A and not B): %s' % (vtext(v), rtext(a), rtext(b), sc[v], sa[v] and not sb[v]),
                                  obs.case_of[('sat', kc)], input=[rtext(a), rtext(b), vtext(v)], kind='diff-release')); break
            if isinstance(wi, dict) and v in wi and wa[v] != (wi[v] or wc[v]):
                fails.append(fail('A is not the union of A intersect B and A minus B at %s for %s / %s' % (vtext(v), rtext(a), rtext(b)),
                                  obs.case_of[('within', kc)], input=[rtext(a), rtext(b), vtext(v)], kind='diff-partition')); break
        if cut: nontrivial += 1
        sA, sB = obs.struct.get(ka), obs.struct.get(kb)
        if sA and sB and len(certs) < 3000 and rng.random() < 0.1:
            g = 'Ok None' if res is None else 'Ok (Some %s)' % F.g_range(res)
            certs.append('r_difference %s %s = %s' % (F.g_range(sA), F.g_range(sB), g))
    return {'failures': fails, 'nontrivial': nontrivial, 'distribution': dist, 'certs': certs}

# ------------------------------------------------------------------ C09
def eval_allows_any(triples, tier, rng):
    import families as F
    obs = Obs(triples); fails = []; nontrivial = 0; certs = []
    dist = {'pairs': 0, 'true': 0, 'false': 0, 'operand_unparseable': 0}
    for (ka, kb) in pairs_of(obs, 'allows_any'):
        a, b = parse(ka), parse(kb)
        res = obs.op[('allows_any', ka, kb)]
        dist['pairs'] += 1
        if res == 'operand-none': dist['operand_unparseable'] += 1; continue
        case = obs.case_of[('allows_any', ka, kb)]
        if res == 'panic':
            fails.append(fail('%s.allows_any(%s) panicked' % (rtext(a), rtext(b)), case, input=[rtext(a), rtext(b)])); continue
        dist['true' if res else 'false'] += 1
        isect = obs.op.get(('isect', ka, kb))
        rev = obs.op.get(('allows_any', kb, ka))
        if isect not in (None, 'panic', 'operand-none') or isect is None:
            if isect != 'panic' and isect != 'operand-none' and res != (isect is not None):
                fails.append(fail('%s.allows_any(%s) = %s but intersect(..).is_some() = %s' % (rtext(a), rtext(b), res, isect is not None), case,
                                  input=[rtext(a), rtext(b)], kind='any-isect'))
        if isinstance(rev, bool) and rev != res:
            fails.append(fail('allows_any is not symmetric on %s / %s: %s vs %s' % (rtext(a), rtext(b), res, rev), case, input=[rtext(a), rtext(b)], kind='any-sym'))
        wa, wb = obs.within.get(ka), obs.within.get(kb)
        sa, sb = obs.sat.get(ka), obs.sat.get(kb)
        if isinstance(wa, dict) and isinstance(wb, dict):
            both = [v for v in wa if v in wb and wa[v] and wb[v]]
            if both: nontrivial += 1
            if not res and both:
                fails.append(fail('%s.allows_any(%s) is false but %s lies within both' % (rtext(a), rtext(b), vtext(both[0])), case,
                                  input=[rtext(a), rtext(b), vtext(both[0])], kind='any-false'))
            if isinstance(sa, dict) and isinstance(sb, dict):
                sboth = [v for v in sa if v in sb and sa[v] and sb[v]]
                if sboth and not res:
                    fails.append(fail('%s satisfies both %s and %s but allows_any is false' % (vtext(sboth[0]), rtext(a), rtext(b)), case,
                                      input=[rtext(a), rtext(b), vtext(sboth[0])], kind='any-true'))
        sA, sB = obs.struct.get(ka), obs.struct.get(kb)
        if sA and sB and len(certs) < 3000 and rng.random() < 0.1:
            certs.append('r_allows_any %s %s = %s' % (F.g_range(sA), F.g_range(sB), F.g_bool(res)))
    return {'failures': fails, 'nontrivial': nontrivial, 'distribution': dist, 'certs': certs}

# ------------------------------------------------------------------ C10
def eval_allows_all(triples, tier, rng):
    import families as F
    obs = Obs(triples); fails = []; nontrivial = 0; certs = []
    dist = {'pairs': 0, 'true': 0, 'false': 0, 'b_single': 0, 'both_single': 0, 'operand_unparseable': 0}
    for (ka, kb) in pairs_of(obs, 'allows_all'):
        a, b = parse(ka), parse(kb)
        res = obs.op[('allows_all', ka, kb)]
        dist['pairs'] += 1
        if res == 'operand-none': dist['operand_unparseable'] += 1; continue
        case = obs.case_of[('allows_all', ka, kb)]
        if res == 'panic':
            fails.append(fail('%s.allows_all(%s) panicked' % (rtext(a), rtext(b)), case, input=[rtext(a), rtext(b)])); continue
        dist['true' if res else 'false'] += 1
        sA, sB = obs.struct.get(ka), obs.struct.get(kb)
        if sA and sB and len(certs) < 3000 and rng.random() < 0.1:
            certs.append('r_allows_all %s %s = %s' % (F.g_range(sA), F.g_range(sB), F.g_bool(res)))
        if ka == kb and not res:
            fails.append(fail('%s does not allow all of itself' % rtext(a), case, input=[rtext(a)], kind='all-refl'))
        if not sB or len(sB) != 1: continue          # the property is stated for a single-alternative B
        dist['b_single'] += 1
        wa, wb = obs.within.get(ka), obs.within.get(kb)
        sa, sb = obs.sat.get(ka), obs.sat.get(kb)
        if res:
            nontrivial += 1
            if isinstance(wa, dict) and isinstance(wb, dict):
                out = [v for v in wb if v in wa and wb[v] and not wa[v]]
                if out:
                    fails.append(fail('%s.allows_all(%s) is true but %s lies within B and not within A' % (rtext(a), rtext(b), vtext(out[0])), case,
                                      input=[rtext(a), rtext(b), vtext(out[0])], kind='all-subset'))
                outs = [v for v in sb if v in sa and not v[3] and sb[v] and not sa[v]] if isinstance(sa, dict) and isinstance(sb, dict) else []
                if outs:
                    fails.append(fail('%s.allows_all(%s) is true but release %s satisfies B and not A' % (rtext(a), rtext(b), vtext(outs[0])), case,
                                      input=[rtext(a), rtext(b), vtext(outs[0])], kind='all-subset'))
            anyr = obs.op.get(('allows_any', ka, kb))
            if anyr is False:
                fails.append(fail('%s.allows_all(%s) is true but allows_any is false' % (rtext(a), rtext(b)), case, input=[rtext(a), rtext(b)], kind='all-any'))
        if sA and len(sA) == 1:
            dist['both_single'] += 1
            d = obs.op.get(('diff', kb, ka), 'missing')
            if d not in ('missing', 'panic', 'operand-none') and res != (d is None):
                fails.append(fail('%s.allows_all(%s) = %s but %s.difference(%s) is %s' % (rtext(a), rtext(b), res, rtext(b), rtext(a), 'None' if d is None else 'Some'),
                                  case, input=[rtext(a), rtext(b)], kind='all-diff'))
    return {'failures': fails, 'nontrivial': nontrivial, 'distribution': dist, 'certs': certs}

# ------------------------------------------------------------------ C15
def denote(e, obs, v):
    if e[0] in ('parse', 'any'):
        w = obs.within.get(dump(e))
        return w[v] if isinstance(w, dict) else None
    x = denote(e[1], obs, v); y = denote(e[2], obs, v)
    if x is None or y is None: return None
    return (x and y) if e[0] == 'isect' else (x and not y)

def leaves_ok(e, obs):
    if e[0] == 'parse': return obs.struct.get(dump(e)) is not None
    if e[0] == 'any': return True
    return leaves_ok(e[1], obs) and leaves_ok(e[2], obs)

def g_expr(e, obs):
    import families as F
    if e[0] in ('parse', 'any'):
        st = obs.struct.get(dump(e))
        if st is None:
            if e[0] == 'any': return '(Leaf [mkBS (Upper Unbounded) (Lower Unbounded)])'
            return None
        return '(Leaf %s)' % F.g_range(st)
    a = g_expr(e[1], obs); b = g_expr(e[2], obs)
    if a is None or b is None: return None
    return '(%s %s %s)' % ('Isect' if e[0] == 'isect' else 'Diff', a, b)

def eval_trees(triples, tier, rng):
    import families as F
    certs = []
    obs = Obs(triples); fails = []; nontrivial = 0
    dist = {'trees': 0, 'result_none': 0, 'depth>=2': 0, 'leaf_unparseable': 0, 'reparsed': 0}
    def depth(e): return 0 if e[0] in ('parse', 'any') else 1 + max(depth(e[1]), depth(e[2]))
    for ck, case in list(obs.case_of.items()):
        if len(ck) != 2 or ck[0] != 'within': continue
        kind, key = ck
        e = parse(key)
        if e[0] not in ('isect', 'diff'): continue
        if depth(e) < 2 and ('rprint', key) not in obs.case_of: continue
        dist['trees'] += 1
        if not leaves_ok(e, obs): dist['leaf_unparseable'] += 1
        w = obs.within[key]; s = obs.sat.get(key)
        if not isinstance(w, dict) or not isinstance(s, dict):
            # a None operand propagates as `(none)`, which Obs records as an all-false table; anything else is a panic
            fails.append(fail('evaluating %s panicked' % rtext(e), case, input=[rtext(e)], kind='tree-panic')); continue
        if depth(e) >= 2: dist['depth>=2'] += 1
        if obs.struct.get(key) is None: dist['result_none'] += 1
        else: nontrivial += 1
        if len(certs) < 2000 and rng.random() < 0.3 and key in obs.struct and len(key) < 400:
            ge = g_expr(e, obs)
            if ge: certs.append('eval %s = Ok %s' % (ge, F.g_range(obs.struct[key] or [])))
        if leaves_ok(e, obs) or True:
            for v in w:
                d = denote_opt(e, obs, v)
                if d is None: break
                if w[v] != d:
                    fails.append(fail('%s lies within %s: %s, but the Boolean algebra over its leaves says %s' % (vtext(v), rtext(e), w[v], d), case,
                                      input=[rtext(e), vtext(v)], kind='tree-sem')); break
                if not v[3]:
                    ds = denote_sat(e, obs, v)
                    if ds is not None and s[v] != ds:
                        fails.append(fail('release %s satisfies %s: %s, but the Boolean algebra over satisfaction of its leaves says %s' % (vtext(v), rtext(e), s[v], ds),
                                          obs.case_of[('sat', key)], input=[rtext(e), vtext(v)], kind='tree-sem-release')); break
        # results remain printable, re-parsable operands
        if ('rprint', key) in obs.case_of:
            pr = obs.printed.get(key)
            if pr == 'panic':
                fails.append(fail('printing %s panicked' % rtext(e), obs.case_of[('rprint', key)], input=[rtext(e)], kind='tree-print'))
            elif pr is not None:
                dist['reparsed'] += 1
                sd = obs.serde.get(key, '')
                if sd.startswith('(bad') or sd == 'panic' or sd.endswith(' none)'):
                    fails.append(fail('%s prints as `%s`, which does not round-trip through parse/serde: %s' % (rtext(e), pr, sd[:120]),
                                      obs.case_of[('serde_r', key)], input=[rtext(e), pr], kind='tree-reparse'))
    return {'failures': fails, 'nontrivial': nontrivial, 'distribution': dist, 'certs': certs}

def denote_opt(e, obs, v):
    """Boolean algebra over bounds membership of the leaves (an unparseable leaf is the empty set)"""
    return _den(e, obs, v, 'within')
def denote_sat(e, obs, v):
    return _den(e, obs, v, 'sat')
def _den(e, obs, v, which):
    if e[0] in ('parse', 'any'):
        t = (obs.within if which == 'within' else obs.sat).get(dump(e))
        return t[v] if isinstance(t, dict) and v in t else None
    x = _den(e[1], obs, v, which); y = _den(e[2], obs, v, which)
    if x is None or y is None: return None
    return (x and y) if e[0] == 'isect' else (x and not y)

# ------------------------------------------------------------------ C11
RUNNER = None      # set by check.py: cases -> [(case, impl, verdict)]

def gen_minv(tier, rng):
    univ = small_universe(tier)
    univ = univ + [V(0, 0, 0), V(0, 0, 0, (5,)), V(0, 0, 1, (5,))]
    probes = probe_versions(univ)
    pv = [enc_version(v) for v in probes]
    ivs = interval_texts(univ)
    exprs = [e for (_, e) in ivs]
    cases = []
    for e in exprs:
        cases.append(dump(['minv', e])); cases.append(dump(['sat', e, pv]))
    pool = univ + [V(1, 2, 3), V(2, 1, 0, ('beta', 2)), V(0, 1, 5)]
    probes2 = probe_versions(pool); pv2 = [enc_version(v) for v in probes2]
    n = 1500 if tier == 'quick' else 30000
    valid = [e for e in exprs if e[0] == 'any' or interval_nonempty_text(e)]
    for _ in range(n):
        k = rng.random()
        if k < 0.4:
            # several alternatives in any order, some of them empty or prerelease-only
            alts = [str(rng.choice(valid[1:])[1]) for _ in range(rng.randint(2, 3))]
            e = E_parse(' || '.join(alts))
        elif k < 0.7:
            e = E_parse(random_range_text(rng, pool))
        else:
            e = random_tree(rng, valid, rng.randint(1, 2))
        cases.append(dump(['minv', e])); cases.append(dump(['sat', e, pv2]))
    # every ordered pair of alternatives over a release, four prereleases of its next patch, that patch and the one after: the order of the
    # alternatives, and which of them holds the minimum, must not matter (pruning "optimisations" get this wrong for one arrangement)
    W = [V(0, 0, 0), V(0, 0, 1, (0,)), V(0, 0, 1, ('a',)), V(0, 0, 1, ('a', 0)), V(0, 0, 1, ('b',)), V(0, 0, 1), V(0, 0, 2)]
    pw_ = [enc_version(v) for v in probe_versions(W)]
    ivW = [e for (_, e) in interval_texts(W) if e[0] != 'any' and interval_nonempty_text(e)]
    npairs_w = 0
    for a in ivW:
        for b in ivW:
            e = E_parse(str(a[1]) + ' || ' + str(b[1])); npairs_w += 1
            cases.append(dump(['minv', e])); cases.append(dump(['sat', e, pw_]))
    # many alternatives, the lowest one last / first / in the middle
    for nn in SIZES:
        alts_ = ['%d.0.0' % (nn + 5 - i) for i in range(nn)]
        for order in (alts_, alts_[::-1], alts_[nn // 2:] + alts_[:nn // 2]):
            e = E_parse(' || '.join(order))
            cases.append(dump(['minv', e])); cases.append(dump(['sat', e, [enc_version(V(5, 0, 0)), enc_version(V(6, 0, 0)), enc_version(V(6, 0, 0, (0,))), enc_version(V(nn + 5, 0, 0)), enc_version(V(4, 9, 9))]]))
    # bounds whose text is as long as MAX_LENGTH allows and longer (Range::parse has no length limit; the successor of an
    # exclusive prerelease bound is one identifier longer than the bound)
    nlong = 0
    for L in (100, 249, 250, 251, 252, 253, 254, 255, 256, 257, 258, 300):
        t = 'a' * (L - 6)
        pl = [enc_version(v) for v in (V(1, 0, 0, (t,)), V(1, 0, 0, (t, 0)), V(1, 0, 0, (t, 1)), V(1, 0, 0, (t + 'a',)), V(1, 0, 0, ('b',)), V(1, 0, 0),
                                       V(1, 0, 0, ('a',)), V(1, 0, 1), V(5, 0, 0), V(0, 9, 9))]
        for txt in ('>1.0.0-%s', '>=1.0.0-%s', '>1.0.0-%s || >=5.0.0', '>=5.0.0 || >1.0.0-%s', '>1.0.0-%s <1.0.0-b', '<1.0.0-%s', '>1.0.0-%s.0', '>1.0.0-%s <=1.0.0-%s.0'):
            e = E_parse(txt.replace('%s', t)); nlong += 1
            cases.append(dump(['minv', e])); cases.append(dump(['sat', e, pl]))
    return cases, {'exhaustive': True, 'intervals': len(ivs), 'random': n, 'probe_versions': len(probes2), 'long_bounds': nlong, 'ordered_pairs_of_alternatives': npairs_w,
                   'what': 'min_version of every one-interval range over a %d-version universe (exclusive lower bounds directly under the upper bound, unbounded-below alternatives that are '
                           'empty or prerelease-only, prerelease bounds), of %d random multi-alternative ranges and set-operation results; compared against satisfies() on %d candidate versions'
                           % (len(univ), n, len(probes2))}

def eval_minv(triples, tier, rng):
    import families as F
    obs = Obs(triples); fails = []; nontrivial = 0; certs = []
    dist = {'ranges': 0, 'some': 0, 'none': 0, 'unparseable': 0, 'result_is_prerelease': 0, 'second_phase_probes': 0}
    results = {}
    for c, o, v in triples:
        pc = parse(c)
        if pc[0] != 'minv': continue
        key = dump(pc[1])
        if o == 'panic':
            fails.append(fail('min_version panicked on %s' % rtext(pc[1]), c, input=[rtext(pc[1])], kind='minv-panic')); continue
        po = parse(o)
        if po == ['none']: dist['unparseable'] += 1; continue
        results[key] = (c, dec_some_range(po[0]), None if po[1] == 'none' else dec_version(po[1][1]))
    # second phase: does the returned version satisfy the range?
    extra = []
    for key, (c, st, m) in results.items():
        if m is not None and not (isinstance(obs.sat.get(key), dict) and m in obs.sat[key]):
            extra.append(dump(['sat', parse(key), [enc_version(m)]]))
    if extra and RUNNER:
        dist['second_phase_probes'] = len(extra)
        more = RUNNER(extra)
        obs2 = Obs(more)
        for k, d in obs2.sat.items():
            if isinstance(d, dict) and isinstance(obs.sat.get(k), dict): obs.sat[k].update(d)
            elif k not in obs.sat: obs.sat[k] = d
    for key, (c, st, m) in results.items():
        e = parse(key); s = obs.sat.get(key)
        dist['ranges'] += 1
        if not isinstance(s, dict):
            fails.append(fail('satisfies panicked on %s' % rtext(e), c, input=[rtext(e)], kind='minv-panic')); continue
        good = [v for v in s if s[v]]
        if m is None:
            dist['none'] += 1
            if good:
                fails.append(fail('%s.min_version() is None but %s satisfies it' % (rtext(e), vtext(good[0])), c, input=[rtext(e), vtext(good[0])], kind='minv-none'))
        else:
            dist['some'] += 1
            if m[3]: dist['result_is_prerelease'] += 1
            if len(st or []) > 1 or m[3]: nontrivial += 1
            if m in s and not s[m]:
                fails.append(fail('%s.min_version() = %s, which does not satisfy the range' % (rtext(e), vtext(m)), c, input=[rtext(e), vtext(m)], kind='minv-unsat'))
            lower = [v for v in good if py_vcmp(v, m) < 0]
            if lower:
                fails.append(fail('%s.min_version() = %s but the lower version %s satisfies the range' % (rtext(e), vtext(m), vtext(lower[0])), c,
                                  input=[rtext(e), vtext(m), vtext(lower[0])], kind='minv-not-least'))
        if st and len(certs) < 3000 and rng.random() < 0.3:
            certs.append('r_min_version %s = %s' % (F.g_range(st), 'None' if m is None else 'Some %s' % F.g_version(m)))
    return {'failures': fails, 'nontrivial': nontrivial, 'distribution': dist, 'certs': certs}
