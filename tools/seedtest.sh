#!/bin/bash
# usage: seedtest.sh <seed-id> <worktree> <demo-test-name> <PROP> [<PROP>...]
# 1. confirms in the scratch worktree: suite passes with the change, demo fails with it and passes without it
# 2. stores the seed under /verif/seeded/<seed-id>/
# 3. applies the patch to /repo, runs the quick checks of the given properties, undoes it
set -u
id=$1; wt=$2; demo=$3; shift 3
export CARGO_NET_OFFLINE=true
cd "$wt" || exit 2
git diff -- src > /tmp/seed-$id.diff
[ -s /tmp/seed-$id.diff ] || { echo "no source change in $wt"; exit 2; }
echo "== suite with the change"; cargo test --offline --lib 2>&1 | grep -E "^test result|FAILED|failed" | head -5
echo "== demo with the change (must fail)"; cargo test --offline --test $demo 2>&1 | grep -E "^test result|panicked" | head -4
git apply -R /tmp/seed-$id.diff
echo "== demo without the change (must pass)"; cargo test --offline --test $demo 2>&1 | grep -E "^test result" | head -2
git apply /tmp/seed-$id.diff
mkdir -p /verif/seeded/$id
cp /tmp/seed-$id.diff /verif/seeded/$id/patch.diff
cp "$wt"/tests/$demo.rs /verif/seeded/$id/demo.rs 2>/dev/null
cp "$wt"/seed/meta.json /verif/seeded/$id/meta.agent.json 2>/dev/null
rm -rf /verif/build/evidence.keep; cp -r /verif/evidence /verif/build/evidence.keep
if [ -n "${SEED_PRIVATE:-}" ]; then
  # /repo is being read by a long background check: run against a private copy of /repo with the change applied instead
  priv=/tmp/seedrepo-$id; rm -rf $priv; mkdir -p $priv
  rsync -a --exclude target --exclude .git /repo/ $priv/
  ( cd $priv && patch -p1 -s < /verif/seeded/$id/patch.diff ) || { echo "patch does not apply to the copy of /repo"; exit 2; }
  export VERIF_REPO=$priv
else
  cd /repo && git status --porcelain | grep -v '^??' | grep . && { echo "repo not clean"; exit 2; }
  git -C /repo apply /verif/seeded/$id/patch.diff || { echo "patch does not apply to /repo"; exit 2; }
fi
for p in "$@"; do
  ( cd /verif && timeout 1800 python3 tools/check.py "$p" 2>&1 | grep -E "VIOLATION|^C[0-9]+ " | cut -c1-200 | tail -3 )
  [ -f /verif/evidence/replay/$p-1.json ] && python3 -c "
import json; r=json.load(open('/verif/evidence/replay/$p-1.json')); print('   first replay:', r.get('what','')[:300])"
done
if [ -n "${SEED_PRIVATE:-}" ]; then rm -rf /tmp/seedrepo-$id /verif/build/harness-alt; else git -C /repo checkout -- .; fi
# evidence written while a seeded change was applied is not evidence about the tree: put the clean files back
rm -rf /verif/evidence; mv /verif/build/evidence.keep /verif/evidence
