"""Correspondence families (case generators) and implementation-side property evaluators.

Every generator takes (tier, rng) and returns (cases, meta); every evaluator takes the list of
(case, implementation-result, driver-verdict) triples and returns
  {'failures': [...], 'nontrivial': n, 'distribution': {...}, 'certs': [Gallina statements]}.
A failure is a dict with at least 'what' and 'case' (the protocol case that exhibits it), plus
whatever the known-finding classifiers need ('input', 'kind', ...)."""
import os, sys, json, itertools
from lib import *

TRUSTED_BASE = [
    'Coq 8.16.1 kernel (coqc); vm_compute for finite-domain lemmas, witnesses and correspondence certificates; no native_compute',
    'no axioms declared by the development (grep audit on every run); property theorems must be closed under the global context',
    'extraction: Extraction "model.ml" with ExtrOcamlBasic only (Extract Inductive bool/option/unit/list/prod/sumbool/sumor, Extract Inlined Constant andb/orb); OCaml 4.13.1; driver/main.ml (S-expression glue)',
    'correspondence check = differential testing of the hand-written Gallina model against the crate built from /repo (harness/, Debug-output parser), exhaustive only over the stated finite universes',
    'modelled rather than verified: winnow 0.6.26 combinator semantics, std Ord::max/min, Iterator::max/min, Vec/String ordering, u64::from_str, slice::sort; serde/serde_json, miette, thiserror, DefaultHasher are observed only',
    'tools/translate.py: a translator for a small Rust subset (match tables with guards, or-patterns, struct patterns, constructor calls) that regenerates impl Ord for Bound, BoundSet::new and the five desugaring tables as Gallina on every run, and tools/translate_fn.py, which does the same for fifteen straight-line / early-return function bodies (Version eq/cmp/diff/is_prerelease, BoundSet satisfies/allows_all/allows_any/intersect/difference/constructors, Display for BoundSet, flip, predicate), and tools/translate_p.py, which re-expresses the 13 winnow grammar functions of src/range.rs over the combinator definitions of Model/Comb.v (the reading of the winnow combinators alt/opt/peek/separated/repeat_till/terminated/... used by this project; callees replaced by their models) and proves each equal to the character-level model, and tools/translate_v.py, which does the same for the seven version-grammar functions of src/lib.rs over the error-carrying combinators of Model/CombE.v; what it emits is proved equal to the model functions by the kernel, what it cannot parse is reported and then rests on the correspondence alone',
    'tools/*.py (generation, diffing, known-finding classification)',
]

# ------------------------------------------------------------------ Gallina rendering (kernel certificates)
def g_str(s): return '[' + ';'.join(str(ord(c)) for c in s) + ']'
def g_ident(i): return '(Num %d)' % i if isinstance(i, int) else '(Alpha %s)' % g_str(i)
def g_idents(l): return '[' + ';'.join(g_ident(i) for i in l) + ']'
def g_version(v): return '(mkV %d %d %d %s %s)' % (v[0], v[1], v[2], g_idents(v[4]), g_idents(v[3]))
def g_pred(p, v): return 'Unbounded' if p == 'unb' else '(%s %s)' % ('Including' if p == 'inc' else 'Excluding', g_version(v))
def g_bound(b): return '(%s %s)' % ('Lower' if b[0] == 'lo' else 'Upper', g_pred(b[1], b[2]))
def g_bs(bs): return '(mkBS %s %s)' % (g_bound(bs[1]), g_bound(bs[0]))
def g_range(r): return '[' + ';'.join(g_bs(b) for b in r) + ']'
def g_bool(b): return 'true' if b else 'false'
G_CMP = {'lt': 'Lt', 'eq': 'Eq', 'gt': 'Gt'}

# ------------------------------------------------------------------ corpus
def corpus_cases(pid, fam):
    p = os.path.join(ROOT, 'corpus', '%s.%s.cases' % (pid, fam))
    if not os.path.exists(p): return []
    return [l.strip() for l in open(p) if l.strip() and not l.startswith(';')]

# ------------------------------------------------------------------ known-finding classifiers
def classify(cls, failure):
    k = cls.get('kind')
    f = CLASSIFIERS.get(k)
    return bool(f and f(cls, failure))
CLASSIFIERS = {}

# ================================================================== C04: version order
def gen_vcmp(tier, rng):
    U = version_universe(tier, rng)
    # a few long / awkward identifier lists
    extra = []
    for _ in range(20 if tier == 'quick' else 200):
        n = rng.randint(1, 6)
        pre = tuple(rng.choice([0, 1, 9, 10, U64 - 1, 'a', 'b', 'a-', '-', 'A', 'aa', '0a', '1-'] + HV.all_nums() + HV.magic()['tags']) for _ in range(n))
        extra.append(V(1, 0, 0, pre, rng.choice(BUILDS)))
    U = U + extra
    cases = [dump(['vcmp', enc_version(a), enc_version(b)]) for a in U for b in U]
    # (1) components at every power of two (and its neighbours) against the versions a positional packing of major.minor.patch would confuse them with
    small = [V(0, 0, 0), V(0, 0, 1), V(0, 1, 0), V(1, 0, 0), V(1, 0, 1), V(1, 1, 0), V(2, 0, 0), V(3, 6, 0), V(3, 7, 0), V(3, 7, 1), V(3, 8, 0), V(4, 0, 0)]
    npow = 0
    for m in POWERS + [1 << 62, 1 << 63, U64 - 2]:
        grp = []
        for x in (m - 1, m, m + 1):
            grp += [V(0, 0, x), V(0, x, 0), V(x, 0, 0), V(1, 0, x), V(3, 6, x), V(3, 7, x), V(3, x, 7), V(x, x, x)]
        for a in grp:
            for b in small:
                cases.append(dump(['vcmp', enc_version(a), enc_version(b)])); cases.append(dump(['vcmp', enc_version(b), enc_version(a)])); npow += 2
        for a in grp[8:16]:
            for b in grp:
                cases.append(dump(['vcmp', enc_version(a), enc_version(b)])); npow += 1
    # (2) prerelease lists of 3 and 4 identifiers, exhaustively over a small identifier alphabet: the first differing position decides,
    # whatever stands before and after it
    L3 = [t for t in itertools.product([0, 1, 2, 'a', 'b'], repeat=3)]
    L4 = [t for t in itertools.product([0, 1, 'a'], repeat=4)]
    LL = [V(1, 0, 0, t) for t in L3 + L4] + [V(1, 0, 0, t) for t in [(), (0,), ('a',), (0, 1), ('a', 1), ('a', 'b'), (0, 1, 'a', 'b', 2), ('a', 'b', 'c', 'd', 'e', 9), ('a', 'b', 'c', 'd', 'f', 0)]]
    for a in LL:
        for b in LL:
            cases.append(dump(['vcmp', enc_version(a), enc_version(b)]))
    for _ in range(300 if tier == 'quick' else 5000):
        l = [rng.choice(U) for _ in range(rng.randint(0, 9))]
        cases.append(dump(['vsort', [enc_version(v) for v in l]]))
    return cases, {'universe': len(U), 'exhaustive': True, 'power_of_two_pairs': npow, 'identifier_list_versions': len(LL),
                   'what': 'all ordered pairs of a %d-version universe (cmp, ==, hash equality); every power of two up to MAX_SAFE_INTEGER and its neighbours in each component position against the '
                           'versions a positional packing would confuse it with (%d pairs); all ordered pairs of %d versions whose prerelease lists are all lists of 3 identifiers over {0,1,2,a,b} and of 4 over {0,1,a}; '
                           'random lists through slice::sort / Iterator::max / min' % (len(U), npow, len(LL))}

def eval_vcmp(triples, tier, rng):
    fails = []; dist = {'lt': 0, 'eq': 0, 'gt': 0, 'sort': 0}; nontrivial = set(); certs = []
    for c, o, v in triples:
        pc = parse(c)
        if pc[0] == 'vcmp':
            a, b = dec_version(pc[1]), dec_version(pc[2])
            want = py_vcmp(a, b)
            if o == 'panic' or o == '(inconsistent)':
                fails.append({'what': 'Version::cmp/partial_cmp on %s vs %s: %s' % (vtext(a), vtext(b), o), 'case': c, 'input': [vtext(a), vtext(b)]}); continue
            po = parse(o)
            dist[po[0]] = dist.get(po[0], 0) + 1
            if a[:3] == b[:3]: nontrivial.add((a[:4], b[:4]))
            if po[0] != CMPNAME[want]:
                fails.append({'what': 'cmp(%s, %s) = %s but SemVer section 11 precedence says %s' % (vtext(a), vtext(b), po[0], CMPNAME[want]),
                              'case': c, 'input': [vtext(a), vtext(b)], 'kind': 'vcmp'})
            elif (po[1] == 'true') != (want == 0):
                fails.append({'what': '== on %s, %s is %s but cmp is %s' % (vtext(a), vtext(b), po[1], po[0]), 'case': c, 'input': [vtext(a), vtext(b)], 'kind': 'veq'})
            elif po[1] == 'true' and po[2] != 'true':
                fails.append({'what': 'equal versions %s, %s hash differently' % (vtext(a), vtext(b)), 'case': c, 'input': [vtext(a), vtext(b)], 'kind': 'vhash'})
            elif len(certs) < 4000 and rng.random() < 0.3:
                certs.append('(vcmp %s %s, veqb %s %s) = (%s, %s)' % (g_version(a), g_version(b), g_version(a), g_version(b), G_CMP[po[0]], po[1]))
        elif pc[0] == 'vsort':
            l = [dec_version(x) for x in pc[1]]
            dist['sort'] += 1
            if o == 'panic':
                fails.append({'what': 'sort/max/min panicked', 'case': c, 'input': [vtext(x) for x in l]}); continue
            po = parse(o)
            s = [dec_version(x) for x in po[0]]
            if len(l) > 2: nontrivial.add(tuple(l))
            bad = None
            if sorted(map(repr, s)) != sorted(map(repr, l)): bad = 'sort() output is not a permutation of its input'
            elif any(py_vcmp(s[i], s[i + 1]) > 0 for i in range(len(s) - 1)): bad = 'sort() output is not in precedence order'
            else:
                for name, got, sign in (('max', po[1], 1), ('min', po[2], -1)):
                    if not l:
                        if got != 'none': bad = '%s of an empty list is not None' % name
                    else:
                        if got == 'none': bad = '%s of a non-empty list is None' % name; break
                        m = dec_version(got[1])
                        if repr(m) not in map(repr, l): bad = '%s is not an element of the list' % name
                        elif any(py_vcmp(x, m) * sign > 0 for x in l): bad = '%s is not extreme in precedence' % name
            if bad:
                fails.append({'what': bad + ' for [%s]' % ', '.join(vtext(x) for x in l), 'case': c, 'input': [vtext(x) for x in l], 'kind': 'vsort'})
    return {'failures': fails, 'nontrivial': len(nontrivial), 'distribution': dist, 'certs': certs}

# ================================================================== C16: Version::diff
def npm_diff(a, b):
    c = py_vcmp(a, b)
    if c == 0: return 'none'
    high, low = (a, b) if c > 0 else (b, a)
    hp, lp = bool(high[3]), bool(low[3])
    if lp and not hp:
        if low[2] == 0 and low[1] == 0: return 'major'
        if high[2] != 0: return 'patch'
        if high[1] != 0: return 'minor'
        return 'major'
    prefix = 'pre' if hp else ''
    if a[0] != b[0]: return prefix + 'major'
    if a[1] != b[1]: return prefix + 'minor'
    if a[2] != b[2]: return prefix + 'patch'
    return 'prerelease'

def gen_vdiff(tier, rng):
    nums = ([0, 1, 2] if tier == 'quick' else [0, 1, 2, 5, MAX]) + HV.nums(3)
    tags = ([(), (0,), ('a',), ('a', 1)] if tier == 'quick' else [(), (0,), (1,), ('a',), ('a', 1), ('b',)]) + HV.tags()[:2]
    U = [V(a, b, c, t, rng.choice(BUILDS)) for a in nums for b in nums for c in nums for t in tags]
    cases = [dump(['vdiff', enc_version(a), enc_version(b)]) for a in U for b in U]
    # field distances at every power of two (a narrowing cast, a packed comparison), and field values in the upper half of u64 (a `Version` built from a
    # tuple or through its public fields is not limited to MAX_SAFE_INTEGER; a signed cast goes negative there)
    for x in power_values() + [(1 << 62), (1 << 63) - 1, 1 << 63, (1 << 63) + 1, U64 - 2, U64 - 1]:
        for a, b in ((V(x, 2, 3), V(0, 2, 3)), (V(1, x, 3), V(1, 0, 3)), (V(1, 2, x), V(1, 2, 0)), (V(x + 1, 5, 0), V(1, 2, 3)), (V(1, 2, x, ('a',)), V(1, 2, 0)), (V(1, x, 0), V(1, 0, x)), (V(x, 0, 0), V(0, x, 0))):
            if max(a[:3] + b[:3]) >= U64: continue
            cases.append(dump(['vdiff', enc_version(a), enc_version(b)])); cases.append(dump(['vdiff', enc_version(b), enc_version(a)]))
    return cases, {'universe': len(U), 'exhaustive': True,
                   'what': 'all ordered pairs over {%s}^3 x %d tags x random build metadata' % (','.join(map(str, nums)), len(tags))}

def eval_vdiff(triples, tier, rng):
    fails = []; dist = {}; nontrivial = set(); certs = []
    table = {}
    for c, o, v in triples:
        pc = parse(c); a, b = dec_version(pc[1]), dec_version(pc[2])
        table[(a[:4], b[:4])] = o
        dist[o] = dist.get(o, 0) + 1
        want = npm_diff(a, b)
        if o != 'none': nontrivial.add((a[:4], b[:4]))
        if o != want:
            fails.append({'what': 'diff(%s, %s) = %s, node-semver reports %s' % (vtext(a), vtext(b), o, want), 'case': c,
                          'input': [vtext(a), vtext(b)], 'kind': 'vdiff'})
        elif len(certs) < 3000 and rng.random() < 0.2:
            G = {'none': 'None', 'major': 'Some Major', 'minor': 'Some Minor', 'patch': 'Some Patch', 'premajor': 'Some PreMajor',
                 'preminor': 'Some PreMinor', 'prepatch': 'Some PrePatch', 'prerelease': 'Some PreRelease'}
            certs.append('vdiff %s %s = %s' % (g_version(a), g_version(b), G[o]))
    for (a, b), o in table.items():
        if (b, a) in table and table[(b, a)] != o and not any(f['input'] == [a, b] for f in fails):
            fails.append({'what': 'diff is not symmetric on %s / %s: %s vs %s' % (a, b, o, table[(b, a)]),
                          'case': dump(['vdiff', enc_version(a + ((),)), enc_version(b + ((),))]), 'input': [str(a), str(b)], 'kind': 'vdiff-sym'})
    return {'failures': fails[:50], 'nontrivial': len(nontrivial), 'distribution': dist, 'certs': certs}

import fam_sets as FS
import fam_sat as FT
import fam_vparse as FV
import fam_nopanic as FN
import fam_range as FR
CLASSIFIERS['range_sat'] = lambda cls, f: f.get('kind') == 'range_sat' and f.get('rule') == cls.get('rule')
CLASSIFIERS['range_roundtrip'] = lambda cls, f: f.get('kind') == 'range_roundtrip' and f.get('rule') == cls.get('rule')
CLASSIFIERS['vparse_accept'] = lambda cls, f: f.get('kind') == 'vparse-loose-accept'
CLASSIFIERS['vparse_roundtrip'] = lambda cls, f: f.get('kind') == 'vparse-rt-hyphenless-maxlen'

# ================================================================== registry
PROPERTIES = {
    'C04': {
        'families': [{'name': 'vcmp', 'gen': gen_vcmp, 'eval': eval_vcmp}],
        'rule': 'vcmp family: every ordered pair of the version universe through cmp / == / DefaultHasher, random lists through sort/max/min; '
                'non-trivial = distinct pairs with equal major.minor.patch (the comparison is decided by the prerelease identifiers) and distinct lists of 3+ versions',
        'explanation': 'theorems: vcmp is a total preorder, == iff Equal iff the four compared fields coincide iff equal hash keys, build ignored, '
                       'vcmp = Lt iff the inductive SemVer-11 relation, stable sort / max / min consistent with it',
    },
    'C01': {
        'families': [{'name': 'npm', 'gen': FR.gen_npm, 'eval': FR.eval_npm}, {'name': 'rtext', 'gen': FR.gen_rtext, 'eval': FR.eval_rtext}],
        'rule': 'npm family: exhaustive desugaring-table sweep, hyphen ranges, conjunctions, multi-alternative ranges, each rendered canonically and with loose spellings, evaluated on the induced version universe; '
                'the crate answer is compared with npm_admits (Coq specification, extracted) and with an independent Python reading; the parsed structure is compared with what the tables give for the syntax tree; '
                'non-trivial = texts that admit at least one probed version',
        'explanation': 'theorems: compile(tree) is satisfied iff npm_admits(tree), outside D12/D13, for all versions in the domain; every table row is an interval with npm\'s bounds and tags; no range only if npm admits nothing; grammar output lies in the domain',
    },
    'C02': {
        'families': [{'name': 'andor', 'gen': FR.gen_andor, 'eval': FR.eval_andor}],
        'rule': 'andor family: pairs of comparator lists a, b and the texts `a b`, `b a`, `a || b`, `b || a` (and three-way variants, arbitrary ranges around `||`), satisfies and bounds membership on the induced versions; '
                'non-trivial = pairs for which some probed version lies within the bounds of both (non-empty conjunction)',
        'explanation': 'theorems: the AND-fold of comparator intervals is satisfied iff all bounds hold and (release or some comparator bound is tagged on the tuple); release/prerelease conjunction laws; never widens; '
                       '`||` is list concatenation = union; permutation invariance of comparators and alternatives',
    },
    'C13': {
        'families': [{'name': 'rprint', 'gen': FR.gen_rprint, 'eval': FR.eval_rprint}],
        'rule': 'rprint family: Display of parsed ranges (table sweep + random) and of set-operation results, parsed back and compared structurally and pointwise, printed again, serde round trip; '
                'non-trivial = multi-alternative ranges and results of set operations',
        'explanation': 'theorems: a well-formed printable range prints to a text that parses back to an ==-equal range which prints the same text; ==-equal ranges admit the same versions; printing never panics on well-formed ranges',
    },
    'C03': {
        'families': [{'name': 'sat-gate', 'gen': FT.gen_gate, 'eval': FT.eval_gate}],
        'rule': 'sat family: every single comparator over a small partial universe, random comparator sets / hyphen ranges / multi-alternative ranges, each on the version universe induced by its numbers and tags; '
                'non-trivial = distinct range texts for which some probed prerelease version lies within the bounds (so the gate decides the answer)',
        'explanation': 'theorems: for a prerelease v, satisfies = exists an alternative containing v whose lower or upper bound is a prerelease of the same tuple; releases are never gated; build metadata on either side is ignored; '
                       'a generated -0 upper bound never opens the gate; the opt-in survives intersection exactly for versions within both operands',
    },
    'C11': {
        'families': [{'name': 'minv', 'gen': with_magic(FS.gen_minv), 'eval': FS.eval_minv}],
        'rule': 'min_version on every one-interval range of the small universe, random multi-alternative ranges and set-operation results; the returned version is fed back to satisfies(), '
                'and every probed version that satisfies is compared with it; non-trivial = ranges with several alternatives or whose answer is a prerelease',
        'explanation': 'theorems: Some(m) implies m satisfies and is a lower bound of all satisfying versions; None implies nothing satisfies; per alternative, an empty alternative contributes no candidate',
    },
    'C14': {
        'families': [{'name': 'extreme', 'gen': FT.gen_extreme, 'eval': FT.eval_extreme}],
        'rule': 'random ranges with version lists drawn around their bounds; non-trivial = calls for which at least two list elements satisfy the range',
        'explanation': 'theorems: the result is an element of the list, satisfies the range and is extreme among satisfying elements; None iff no element satisfies; permutation-invariant up to precedence-equality',
    },
    'C05': {
        'families': [{'name': 'vparse', 'gen': FV.gen_vparse, 'eval': FV.eval_accept}],
        'rule': 'vparse family: exhaustive short strings over the version alphabet, core-anchored strings, single edits of canonical versions, near-limit lengths and numbers, random strings; '
                'each compared with an independent regular-expression reading of the grammar (acceptance and all five fields); non-trivial = accepted strings plus strings rejected after a complete major.minor.patch core',
        'explanation': 'theorems: Version::parse s = Ok v iff s is lead major.minor.patch extras trail with the denoted fields (loose: hyphen optional before a letter-initial tag); every strict version text is accepted; junk examples by computation',
    },
    'C12': {
        'families': [{'name': 'vparse', 'gen': FV.gen_vparse, 'eval': FV.eval_roundtrip}],
        'rule': 'every accepted string of the vparse family is printed, re-parsed (all five fields compared) and round-tripped through serde_json; non-trivial = accepted strings whose printed form differs from the input',
        'explanation': 'theorems: a parsed (or canonical) version whose printed form fits MAX_LENGTH parses back to itself; printing is a fixed point; the printed form is a strict version text over [0-9A-Za-z.+-]',
    },
    'C17': {
        'families': [{'name': 'errors', 'gen': FV.gen_errors, 'eval': FV.eval_errors}],
        'rule': 'every rejected string of the vparse family plus range texts that fail to parse: input(), offset(), location(), kind() compared with independent Python readings (byte-level line/column, '
                'character boundary, the first too-large component); the miette Diagnostic methods and a Report are rendered for each; non-trivial = rejections whose offset is not 0',
        'explanation': 'theorems: input = the string passed in; offset = byte length of a prefix (in range, on a character boundary); location = line/column of that prefix; MaxLength for over-long inputs; '
                       'MaxInt(n)/ParseInt at the position of the first, second or third component; NoValidRanges at offset 0 for ranges',
    },
    'C18': {
        'families': [{'name': 'tuple', 'gen': FV.gen_tuple, 'eval': FV.eval_tuple}],
        'rule': 'tuple family: the ten From impls on boundary-dense grids and random values; non-trivial = conversions with a component above 255 (beyond the narrowest type)',
        'explanation': 'theorems: for 0 <= a,b,c <= MAX_SAFE_INTEGER (d < 2^64) the cast is the identity, the value prints as the dotted string and the dotted string parses to it',
    },
    'C06': {
        'families': [{'name': 'nopanic', 'gen': FN.gen_nopanic, 'eval': FN.eval_nopanic}],
        'panic_is_failure': True,
        'rule': 'nopanic family, debug build under catch_unwind; non-trivial = parses that succeed and operations whose operands both parsed; a panic anywhere is a failure with the case as replay; '
                'parse time is measured at 10^4 and 10^5 bytes (thorough: 10^6) on fifteen adversarial shapes in a release build',
        'explanation': 'theorems: both parsers return Ok or Err and location() of every error is Ok; the parser loops never exhaust their fuel; reachable ranges are well formed with components <= MAX+1; '
                       'on well-formed ranges difference/satisfies/Display reach no panic arm and results are well formed again; min_version stays below 2^64',
    },
    'C07': {
        'families': [{'name': 'setops-isect', 'gen': with_magic(FS.gen_setops(['isect'])), 'eval': FS.eval_isect}],
        'rule': 'setops family restricted to intersect: every ordered pair of one-interval ranges over the small version universe, and random multi-alternative pairs; '
                'non-trivial = pairs for which some probed version lies within both operands (the intervals touch or overlap)',
        'explanation': 'theorems: bounds membership of A.intersect(B) is the conjunction; release/prerelease satisfaction laws; None only if disjoint; commutative, idempotent; wf preserved',
    },
    'C08': {
        'families': [{'name': 'setops-diff', 'gen': with_magic(FS.gen_setops(['diff', 'isect'])), 'eval': FS.eval_diff}],
        'rule': 'setops family restricted to difference (and intersect for the partition law); non-trivial = pairs where some probed version lies within both operands (something is cut out)',
        'explanation': 'theorems: no unwrap() is reached; membership of A.difference(B) = within A and outside every alternative of B; release satisfaction; None only if nothing remains; disjoint from B; partition with intersect; wf preserved',
    },
    'C09': {
        'families': [{'name': 'setops-any', 'gen': with_magic(FS.gen_setops(['allows_any', 'isect'])), 'eval': FS.eval_allows_any}],
        'rule': 'setops family restricted to allows_any (and intersect for the agreement law); non-trivial = pairs where some probed version lies within both operands',
        'explanation': 'theorems: allows_any = intersect.is_some, symmetric, false implies disjoint bounds, true whenever a version satisfies both; endpoint examples by computation on parsed text',
    },
    'C10': {
        'families': [{'name': 'setops-all', 'gen': with_magic(FS.gen_setops(['allows_all', 'allows_any', 'diff'])), 'eval': FS.eval_allows_all}],
        'rule': 'setops family restricted to allows_all (plus allows_any and difference for the two linked clauses); non-trivial = pairs with a single-alternative B for which allows_all answers true',
        'explanation': 'theorems: for single-alternative B, allows_all true implies bounds inclusion, release satisfaction inclusion and allows_any; reflexive; for single A, true iff B.difference(A) is None',
    },
    'C15': {
        'families': [{'name': 'setops-trees', 'gen': with_magic(FS.gen_setops(['isect', 'diff'], with_trees=True)), 'eval': FS.eval_trees}],
        'rule': 'random expression trees of depth 2-3 (thorough: 4) over intersect/difference with parsed leaves; non-trivial = trees whose value is a non-empty range',
        'explanation': 'theorems: evaluation never panics, stays well formed, and bounds membership of the value is the Boolean algebra over the leaves (hence every identity of the property); release satisfaction likewise',
    },
    'C16': {
        'families': [{'name': 'vdiff', 'gen': gen_vdiff, 'eval': eval_vdiff}],
        'rule': 'vdiff family: all ordered pairs over a field-pattern universe (each numeric field in a small set, tagged/untagged, random build metadata); '
                'non-trivial = distinct pairs (ignoring build) whose diff is not None',
        'explanation': 'theorems: vdiff = node-semver diff written over (high, low); symmetric; None iff precedence-equal; build ignored',
    },
}
