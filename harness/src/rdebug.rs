//! Recovers the private structure of a `Range` from its non-pretty `{:?}` output, e.g.
//!
//! `Range([BoundSet { upper: Upper(Excluding(Version { major: 2, minor: 0, patch: 0, build: [],
//! pre_release: [Numeric(0)] })), lower: Lower(Including(Version { .. })) }])`
//!
//! Struct fields are read by name (any order); whitespace between tokens is ignored, so the
//! pretty form would be accepted as well.

use nodejs_semver::{Identifier, Version};

#[derive(Debug)]
pub enum Pred {
    Inc(Version),
    Exc(Version),
    Unb,
}

#[derive(Debug)]
pub enum Bnd {
    Lo(Pred),
    Up(Pred),
}

/// The two slots of a `BoundSet`; either slot may hold either `Bound` variant.
#[derive(Debug)]
pub struct BSet {
    pub lower: Bnd,
    pub upper: Bnd,
}

pub fn parse_range_debug(s: &str) -> Result<Vec<BSet>, String> {
    let mut c = Cur { s, i: 0 };
    c.eat("Range")?;
    c.eat("(")?;
    let sets = c.list(Cur::bound_set)?;
    c.close()?;
    c.ws();
    if c.i != s.len() {
        return Err(format!("trailing input at byte {}", c.i));
    }
    Ok(sets)
}

struct Cur<'a> {
    s: &'a str,
    i: usize,
}

impl<'a> Cur<'a> {
    fn ws(&mut self) {
        let b = self.s.as_bytes();
        while self.i < b.len() && (b[self.i] == b' ' || b[self.i] == b'\n') {
            self.i += 1;
        }
    }

    fn try_eat(&mut self, t: &str) -> bool {
        self.ws();
        if self.s[self.i..].starts_with(t) {
            self.i += t.len();
            true
        } else {
            false
        }
    }

    fn eat(&mut self, t: &str) -> Result<(), String> {
        if self.try_eat(t) {
            Ok(())
        } else {
            Err(format!("expected `{}` at byte {}", t, self.i))
        }
    }

    /// `)`, tolerating the trailing comma of the pretty form.
    fn close(&mut self) -> Result<(), String> {
        self.try_eat(",");
        self.eat(")")
    }

    fn word(&mut self) -> Result<&'a str, String> {
        self.ws();
        let b = self.s.as_bytes();
        let start = self.i;
        while self.i < b.len() && (b[self.i].is_ascii_alphanumeric() || b[self.i] == b'_') {
            self.i += 1;
        }
        if start == self.i {
            return Err(format!("expected a name at byte {}", start));
        }
        Ok(&self.s[start..self.i])
    }

    fn number(&mut self) -> Result<u64, String> {
        self.ws();
        let b = self.s.as_bytes();
        let start = self.i;
        while self.i < b.len() && b[self.i].is_ascii_digit() {
            self.i += 1;
        }
        self.s[start..self.i]
            .parse::<u64>()
            .map_err(|e| format!("bad number at byte {}: {}", start, e))
    }

    /// `[` item `,` item .. `]` (a trailing comma is tolerated).
    fn list<T>(&mut self, item: fn(&mut Self) -> Result<T, String>) -> Result<Vec<T>, String> {
        self.eat("[")?;
        let mut v = Vec::new();
        loop {
            if self.try_eat("]") {
                return Ok(v);
            }
            v.push(item(self)?);
            if !self.try_eat(",") {
                self.eat("]")?;
                return Ok(v);
            }
        }
    }

    /// A Rust `Debug`-escaped string literal.
    fn string(&mut self) -> Result<String, String> {
        self.eat("\"")?;
        let mut out = String::new();
        let mut chars = self.s[self.i..].char_indices();
        loop {
            let (off, ch) = chars
                .next()
                .ok_or_else(|| "unterminated string".to_string())?;
            match ch {
                '"' => {
                    self.i += off + 1;
                    return Ok(out);
                }
                '\\' => {
                    let (_, e) = chars
                        .next()
                        .ok_or_else(|| "unterminated escape".to_string())?;
                    match e {
                        '"' => out.push('"'),
                        '\\' => out.push('\\'),
                        '\'' => out.push('\''),
                        'n' => out.push('\n'),
                        't' => out.push('\t'),
                        'r' => out.push('\r'),
                        '0' => out.push('\0'),
                        'u' => {
                            if chars.next().map(|x| x.1) != Some('{') {
                                return Err("bad \\u escape".to_string());
                            }
                            let mut n: u32 = 0;
                            let mut digits = 0;
                            loop {
                                let (_, h) = chars
                                    .next()
                                    .ok_or_else(|| "unterminated \\u escape".to_string())?;
                                if h == '}' {
                                    break;
                                }
                                let d = h
                                    .to_digit(16)
                                    .ok_or_else(|| "bad hex digit in \\u escape".to_string())?;
                                digits += 1;
                                if digits > 6 {
                                    return Err("\\u escape too long".to_string());
                                }
                                n = (n << 4) | d;
                            }
                            if digits == 0 {
                                return Err("empty \\u escape".to_string());
                            }
                            out.push(
                                char::from_u32(n)
                                    .ok_or_else(|| "\\u escape is not a scalar".to_string())?,
                            );
                        }
                        other => return Err(format!("unknown escape \\{}", other)),
                    }
                }
                other => out.push(other),
            }
        }
    }

    fn ident(&mut self) -> Result<Identifier, String> {
        let w = self.word()?;
        self.eat("(")?;
        let id = match w {
            "Numeric" => Identifier::Numeric(self.number()?),
            "AlphaNumeric" => Identifier::AlphaNumeric(self.string()?),
            _ => return Err(format!("unknown identifier variant `{}`", w)),
        };
        self.close()?;
        Ok(id)
    }

    fn version(&mut self) -> Result<Version, String> {
        self.eat("Version")?;
        self.eat("{")?;
        let mut major = None;
        let mut minor = None;
        let mut patch = None;
        let mut build = None;
        let mut pre = None;
        loop {
            if self.try_eat("}") {
                break;
            }
            let name = self.word()?;
            self.eat(":")?;
            match name {
                "major" => major = Some(self.number()?),
                "minor" => minor = Some(self.number()?),
                "patch" => patch = Some(self.number()?),
                "build" => build = Some(self.list(Cur::ident)?),
                "pre_release" => pre = Some(self.list(Cur::ident)?),
                _ => return Err(format!("unknown Version field `{}`", name)),
            }
            if !self.try_eat(",") {
                self.eat("}")?;
                break;
            }
        }
        match (major, minor, patch, build, pre) {
            (Some(major), Some(minor), Some(patch), Some(build), Some(pre_release)) => {
                Ok(Version {
                    major,
                    minor,
                    patch,
                    build,
                    pre_release,
                })
            }
            _ => Err("missing Version field".to_string()),
        }
    }

    fn pred(&mut self) -> Result<Pred, String> {
        let w = self.word()?;
        match w {
            "Unbounded" => Ok(Pred::Unb),
            "Including" | "Excluding" => {
                self.eat("(")?;
                let v = self.version()?;
                self.close()?;
                Ok(if w == "Including" {
                    Pred::Inc(v)
                } else {
                    Pred::Exc(v)
                })
            }
            _ => Err(format!("unknown predicate variant `{}`", w)),
        }
    }

    fn bound(&mut self) -> Result<Bnd, String> {
        let w = self.word()?;
        self.eat("(")?;
        let p = self.pred()?;
        self.close()?;
        match w {
            "Lower" => Ok(Bnd::Lo(p)),
            "Upper" => Ok(Bnd::Up(p)),
            _ => Err(format!("unknown bound variant `{}`", w)),
        }
    }

    fn bound_set(&mut self) -> Result<BSet, String> {
        self.eat("BoundSet")?;
        self.eat("{")?;
        let mut lower = None;
        let mut upper = None;
        loop {
            if self.try_eat("}") {
                break;
            }
            let name = self.word()?;
            self.eat(":")?;
            match name {
                "lower" => lower = Some(self.bound()?),
                "upper" => upper = Some(self.bound()?),
                _ => return Err(format!("unknown BoundSet field `{}`", name)),
            }
            if !self.try_eat(",") {
                self.eat("}")?;
                break;
            }
        }
        match (lower, upper) {
            (Some(lower), Some(upper)) => Ok(BSet { lower, upper }),
            _ => Err("missing BoundSet field".to_string()),
        }
    }
}

#[cfg(test)]
mod tests {
    use super::*;

    #[test]
    fn escapes_and_field_order() {
        let odd = "q\"b\\s\nn\tt\rr\0z'a\u{301}\u{7f}\u{e9}\u{10ffff} {},()[]: end";
        let v = Version {
            major: 1,
            minor: u64::MAX,
            patch: 3,
            build: vec![Identifier::AlphaNumeric(odd.to_string()), Identifier::Numeric(7)],
            pre_release: vec![Identifier::Numeric(0), Identifier::AlphaNumeric(String::new())],
        };
        let dbg = format!(
            "Range([BoundSet {{ upper: Upper(Excluding({:?})), lower: Lower(Unbounded) }}, BoundSet {{ upper: Lower(Including({:?})), lower: Upper(Unbounded) }}])",
            v, v
        );
        let sets = parse_range_debug(&dbg).unwrap();
        assert_eq!(sets.len(), 2);
        match (&sets[0].lower, &sets[0].upper) {
            (Bnd::Lo(Pred::Unb), Bnd::Up(Pred::Exc(w))) => {
                assert_eq!((w.major, w.minor, w.patch), (1, u64::MAX, 3));
                assert_eq!(w.build, v.build);
                assert_eq!(w.pre_release, v.pre_release);
            }
            other => panic!("unexpected {:?}", other),
        }
        match (&sets[1].lower, &sets[1].upper) {
            (Bnd::Up(Pred::Unb), Bnd::Lo(Pred::Inc(w))) => assert_eq!(w.build, v.build),
            other => panic!("unexpected {:?}", other),
        }
        // the pretty form is accepted too
        let pretty = format!("Range(\n    [\n        BoundSet {{\n            upper: Upper(\n                Including(\n{:#?},\n                ),\n            ),\n            lower: Lower(\n                Unbounded,\n            ),\n        }},\n    ],\n)", v);
        let sets = parse_range_debug(&pretty).unwrap();
        assert_eq!(sets.len(), 1);
        assert!(parse_range_debug("Range([])").unwrap().is_empty());
        assert!(parse_range_debug("Range([BoundSet { upper: Upper(Unbounded) }])").is_err());
        assert!(parse_range_debug("Range([]) x").is_err());
    }
}
