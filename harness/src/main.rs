//! Harness: runs the real `nodejs-semver` crate on the cases of /verif/PROTOCOL.md.
//!
//! usage: semver-harness [CASEFILE]      (stdin if no file is given)
//! output: one line `CASE<TAB>RESULT` per non-empty input line.

mod rdebug;
mod sexp;

use std::collections::hash_map::DefaultHasher;
use std::hash::{Hash, Hasher};
use std::io::{self, BufRead, BufReader, BufWriter, Write};
use std::panic::{catch_unwind, AssertUnwindSafe};
use std::time::Instant;

use nodejs_semver::{Identifier, Range, SemverError, SemverErrorKind, Version};

use rdebug::{BSet, Bnd, Pred};
use sexp::{put_bool, put_i64, put_str, put_u128, put_u64, Sx};

/// Largest N accepted by the timing probes (keeps a typo from eating all memory).
const MAX_TIME_N: usize = 100_000_000;

fn main() {
    std::panic::set_hook(Box::new(|_| {}));

    let path = std::env::args().nth(1);
    let stdin = io::stdin();
    let mut input: Box<dyn BufRead> = match path {
        Some(p) => match std::fs::File::open(&p) {
            Ok(f) => Box::new(BufReader::with_capacity(1 << 20, f)),
            Err(e) => {
                eprintln!("semver-harness: cannot open {}: {}", p, e);
                std::process::exit(2);
            }
        },
        None => Box::new(BufReader::with_capacity(1 << 20, stdin.lock())),
    };

    let stdout = io::stdout();
    let mut out = BufWriter::with_capacity(1 << 20, stdout.lock());

    let mut line: Vec<u8> = Vec::new();
    let mut res = String::new();
    loop {
        line.clear();
        match input.read_until(b'\n', &mut line) {
            Ok(0) => break,
            Ok(_) => {}
            Err(e) => {
                let _ = out.flush();
                eprintln!("semver-harness: read error: {}", e);
                std::process::exit(2);
            }
        }
        if line.last() == Some(&b'\n') {
            line.pop();
            if line.last() == Some(&b'\r') {
                line.pop();
            }
        }
        if line.is_empty() {
            continue;
        }
        res.clear();
        run_case(&line, &mut res);
        let ok = out.write_all(&line).is_ok()
            && out.write_all(b"\t").is_ok()
            && out.write_all(res.as_bytes()).is_ok()
            && out.write_all(b"\n").is_ok();
        if !ok {
            // stdout is gone (closed pipe): nothing sensible left to do
            std::process::exit(1);
        }
    }
    if out.flush().is_err() {
        std::process::exit(1);
    }
}

fn run_case(line: &[u8], res: &mut String) {
    let parsed = std::str::from_utf8(line).ok().and_then(sexp::parse);
    let sx = match parsed {
        Some(sx) => sx,
        None => {
            res.push_str("(badcase)");
            return;
        }
    };
    match catch_unwind(AssertUnwindSafe(|| eval(&sx, res))) {
        Ok(Some(())) => {}
        Ok(None) => {
            res.clear();
            res.push_str("(badcase)");
        }
        Err(_) => {
            res.clear();
            res.push_str("panic");
        }
    }
    // every operation of the crate is a function of its arguments: the same case evaluated again, in the same process, must
    // give the same observation (a memo keyed too coarsely, a static flag, interior mutability would show here)
    let timed = matches!(sx.tagged(), Some(("rtime", _)) | Some(("vtime", _)));
    if !timed && res != "panic" && res != "(badcase)" {
        let mut again = String::new();
        let same = match catch_unwind(AssertUnwindSafe(|| eval(&sx, &mut again))) {
            Ok(Some(())) => again == *res,
            _ => false,
        };
        if !same {
            res.clear();
            res.push_str("(inconsistent)");
        }
    }
}

// ---------------------------------------------------------------------------
// reading data
// ---------------------------------------------------------------------------

fn get_u64(sx: &Sx) -> Option<u64> {
    let a = sx.atom()?;
    if a.is_empty() || !a.bytes().all(|c| c.is_ascii_digit()) {
        return None;
    }
    a.parse().ok()
}

fn get_usize(sx: &Sx) -> Option<usize> {
    usize::try_from(get_u64(sx)?).ok()
}

fn get_ident(sx: &Sx) -> Option<Identifier> {
    match sx.tagged()? {
        ("n", [n]) => Some(Identifier::Numeric(get_u64(n)?)),
        ("a", [s]) => Some(Identifier::AlphaNumeric(s.string()?.to_owned())),
        _ => None,
    }
}

fn get_idents(sx: &Sx) -> Option<Vec<Identifier>> {
    sx.list()?.iter().map(get_ident).collect()
}

fn get_version(sx: &Sx) -> Option<Version> {
    match sx.tagged()? {
        ("v", [major, minor, patch, pre, build]) => Some(Version {
            major: get_u64(major)?,
            minor: get_u64(minor)?,
            patch: get_u64(patch)?,
            build: get_idents(build)?,
            pre_release: get_idents(pre)?,
        }),
        _ => None,
    }
}

fn get_versions(sx: &Sx) -> Option<Vec<Version>> {
    sx.list()?.iter().map(get_version).collect()
}

/// Range expression `E`; outer `None` = malformed, inner `None` = evaluated to no range.
/// Both operands are always evaluated so that a malformed operand is always a bad case.
fn eval_e(sx: &Sx) -> Option<Option<Range>> {
    match sx.tagged()? {
        ("parse", [s]) => Some(Range::parse(s.string()?).ok()),
        ("any", []) => Some(Some(Range::any())),
        ("isect", [a, b]) => {
            let a = eval_e(a)?;
            let b = eval_e(b)?;
            Some(match (a, b) {
                (Some(a), Some(b)) => a.intersect(&b),
                _ => None,
            })
        }
        ("diff", [a, b]) => {
            let a = eval_e(a)?;
            let b = eval_e(b)?;
            // `None` stands for the empty set: removing nothing leaves the left operand
            Some(match (a, b) {
                (Some(a), Some(b)) => a.difference(&b),
                (Some(a), None) => Some(a),
                _ => None,
            })
        }
        _ => None,
    }
}

// ---------------------------------------------------------------------------
// printing data
// ---------------------------------------------------------------------------

fn put_ident(out: &mut String, id: &Identifier) {
    match id {
        Identifier::Numeric(n) => {
            out.push_str("(n ");
            put_u64(out, *n);
            out.push(')');
        }
        Identifier::AlphaNumeric(s) => {
            out.push_str("(a ");
            put_str(out, s);
            out.push(')');
        }
    }
}

fn put_idents(out: &mut String, ids: &[Identifier]) {
    out.push('(');
    for (i, id) in ids.iter().enumerate() {
        if i > 0 {
            out.push(' ');
        }
        put_ident(out, id);
    }
    out.push(')');
}

/// `(v MAJOR MINOR PATCH (PRE*) (BUILD*))`
fn put_version(out: &mut String, v: &Version) {
    out.push_str("(v ");
    put_u64(out, v.major);
    out.push(' ');
    put_u64(out, v.minor);
    out.push(' ');
    put_u64(out, v.patch);
    out.push(' ');
    put_idents(out, &v.pre_release);
    out.push(' ');
    put_idents(out, &v.build);
    out.push(')');
}

fn put_versions(out: &mut String, vs: &[Version]) {
    out.push('(');
    for (i, v) in vs.iter().enumerate() {
        if i > 0 {
            out.push(' ');
        }
        put_version(out, v);
    }
    out.push(')');
}

fn put_opt_version(out: &mut String, v: Option<&Version>) {
    match v {
        None => out.push_str("none"),
        Some(v) => {
            out.push_str("(some ");
            put_version(out, v);
            out.push(')');
        }
    }
}

fn put_pred(out: &mut String, p: &Pred) {
    match p {
        Pred::Unb => out.push_str("unb"),
        Pred::Inc(v) => {
            out.push_str("(inc ");
            put_version(out, v);
            out.push(')');
        }
        Pred::Exc(v) => {
            out.push_str("(exc ");
            put_version(out, v);
            out.push(')');
        }
    }
}

fn put_bound(out: &mut String, b: &Bnd) {
    let (tag, p) = match b {
        Bnd::Lo(p) => ("(lo ", p),
        Bnd::Up(p) => ("(up ", p),
    };
    out.push_str(tag);
    put_pred(out, p);
    out.push(')');
}

/// RANGE `(r (bs LOWER-SLOT UPPER-SLOT)*)`, recovered from the `{:?}` output. If that output
/// cannot be understood (a harness defect, not a crate defect) the RANGE position holds
/// `(harness_error #reason #debug-output)` instead.
fn put_range(out: &mut String, r: &Range) {
    let dbg = format!("{:?}", r);
    match rdebug::parse_range_debug(&dbg) {
        Ok(sets) => {
            out.push_str("(r");
            for BSet { lower, upper } in &sets {
                out.push_str(" (bs ");
                put_bound(out, lower);
                out.push(' ');
                put_bound(out, upper);
                out.push(')');
            }
            out.push(')');
        }
        Err(msg) => {
            out.push_str("(harness_error ");
            put_str(out, &msg);
            out.push(' ');
            put_str(out, &dbg);
            out.push(')');
        }
    }
}

/// ESTRUCT of an operand that evaluated to a range.
fn put_estruct(out: &mut String, r: &Range) {
    out.push_str("(some ");
    put_range(out, r);
    out.push(')');
}

fn put_opt_range(out: &mut String, r: Option<&Range>) {
    match r {
        None => out.push_str("none"),
        Some(r) => put_estruct(out, r),
    }
}

/// ERR `(err KIND INPUT OFFSET LOC)`
fn put_err(out: &mut String, e: &SemverError) {
    out.push_str("(err ");
    match e.kind() {
        SemverErrorKind::MaxLengthError => out.push_str("maxlen"),
        SemverErrorKind::IncompleteInput => out.push_str("incomplete"),
        SemverErrorKind::ParseIntError(_) => out.push_str("parseint"),
        SemverErrorKind::MaxIntError(n) => {
            out.push_str("(maxint ");
            put_u64(out, *n);
            out.push(')');
        }
        SemverErrorKind::Context(name) => {
            out.push_str("(ctx ");
            put_str(out, name);
            out.push(')');
        }
        SemverErrorKind::NoValidRanges => out.push_str("novalid"),
        SemverErrorKind::Other => out.push_str("other"),
    }
    out.push(' ');
    put_str(out, e.input());
    out.push(' ');
    put_u64(out, e.offset() as u64);
    out.push(' ');
    match catch_unwind(AssertUnwindSafe(|| e.location())) {
        Ok((line, col)) => {
            out.push_str("(loc ");
            put_u64(out, line as u64);
            out.push(' ');
            put_u64(out, col as u64);
            out.push(')');
        }
        Err(_) => out.push_str("panic"),
    }
    out.push(')');
}

fn put_bad(out: &mut String, reason: &str) {
    out.push_str("(bad ");
    put_str(out, reason);
    out.push(')');
}

// ---------------------------------------------------------------------------
// cases
// ---------------------------------------------------------------------------

fn hash_of<T: Hash>(v: &T) -> u64 {
    let mut h = DefaultHasher::new();
    v.hash(&mut h);
    h.finish()
}

macro_rules! tuple_case {
    ($t:ty, $args:expr, $out:expr) => {{
        let mut xs: Vec<$t> = Vec::with_capacity(4);
        for a in $args {
            xs.push(a.atom()?.parse::<$t>().ok()?);
        }
        let v = match xs.len() {
            3 => Version::from((xs[0], xs[1], xs[2])),
            4 => Version::from((xs[0], xs[1], xs[2], xs[3])),
            _ => return None,
        };
        put_version($out, &v);
    }};
}

/// two parse results are the same outcome: the same value in every field (`Debug` shows all of them), or the same error
fn same_outcome<T: std::fmt::Debug>(a: &Result<T, SemverError>, b: &Result<T, SemverError>) -> bool {
    match (a, b) {
        (Ok(x), Ok(y)) => format!("{:?}", x) == format!("{:?}", y),
        (Err(x), Err(y)) => x.input() == y.input() && x.offset() == y.offset() && format!("{:?}", x.kind()) == format!("{:?}", y.kind()),
        _ => false,
    }
}

/// `==` and `Hash` of `Range` against its structure: a range equals (and hashes like) what its printed form parses to exactly
/// when the two have the same structure up to build metadata, and it always equals its own clone
fn eq_hash_consistent(r: &Range) -> bool {
    let same = r.clone();
    if !(*r == same && hash_of(r) == hash_of(&same)) {
        return false;
    }
    match Range::parse(r.to_string()) {
        Ok(back) => {
            let structurally = format!("{:?}", back) == format!("{:?}", r);
            // structural identity implies `==` and equal hashes; `==` implies equal hashes
            (!structurally || back == *r) && (back != *r || hash_of(&back) == hash_of(r))
        }
        Err(_) => true,
    }
}

/// Evaluates one case, appending RESULT to `out`. `None` means `(badcase)`.
fn eval(case: &Sx, out: &mut String) -> Option<()> {
    let (head, args) = case.tagged()?;
    match (head, args) {
        ("vparse", [s]) if !same_outcome(&Version::parse(s.string()?), &s.string()?.parse::<Version>()) => {
            // `FromStr` must be `Version::parse`
            out.push_str("(inconsistent)");
        }
        ("vparse", [s]) => match Version::parse(s.string()?) {
            Ok(v) => {
                out.push_str("(ok ");
                put_version(out, &v);
                out.push(')');
            }
            Err(e) => put_err(out, &e),
        },

        ("vprint", [v]) => {
            let v = get_version(v)?;
            put_str(out, &v.to_string());
        }

        ("vcmp", [a, b]) => {
            let a = get_version(a)?;
            let b = get_version(b)?;
            let ord = a.cmp(&b);
            if a.partial_cmp(&b) != Some(ord) {
                out.push_str("(inconsistent)");
            } else {
                out.push('(');
                out.push_str(match ord {
                    std::cmp::Ordering::Less => "lt",
                    std::cmp::Ordering::Equal => "eq",
                    std::cmp::Ordering::Greater => "gt",
                });
                out.push(' ');
                put_bool(out, a == b);
                out.push(' ');
                put_bool(out, hash_of(&a) == hash_of(&b));
                out.push(')');
            }
        }

        ("vdiff", [a, b]) => {
            let a = get_version(a)?;
            let b = get_version(b)?;
            match a.diff(&b) {
                None => out.push_str("none"),
                Some(d) => out.push_str(&d.to_string()),
            }
        }

        ("vsort", [vs]) => {
            let original = get_versions(vs)?;
            let mut sorted: Vec<Version> = original.clone();
            sorted.sort();
            out.push('(');
            put_versions(out, &sorted);
            out.push(' ');
            put_opt_version(out, original.iter().max());
            out.push(' ');
            put_opt_version(out, original.iter().min());
            out.push(')');
        }

        ("tuple3", [ty, nums @ ..]) | ("tuple4", [ty, nums @ ..]) => {
            let want = if head == "tuple3" { 3 } else { 4 };
            if nums.len() != want {
                return None;
            }
            match ty.atom()? {
                "u8" => tuple_case!(u8, nums, out),
                "u16" => tuple_case!(u16, nums, out),
                "u32" => tuple_case!(u32, nums, out),
                "u64" => tuple_case!(u64, nums, out),
                "usize" => tuple_case!(usize, nums, out),
                "i8" => tuple_case!(i8, nums, out),
                "i16" => tuple_case!(i16, nums, out),
                "i32" => tuple_case!(i32, nums, out),
                "i64" => tuple_case!(i64, nums, out),
                "isize" => tuple_case!(isize, nums, out),
                _ => return None,
            }
        }

        ("rparse", [s]) if !same_outcome(&Range::parse(s.string()?), &s.string()?.parse::<Range>()) => {
            // `FromStr` must be `Range::parse`
            out.push_str("(inconsistent)");
        }
        ("rparse", [s]) => match Range::parse(s.string()?) {
            Ok(r) => {
                out.push_str("(ok ");
                put_range(out, &r);
                out.push(')');
            }
            Err(e) => put_err(out, &e),
        },

        ("rprint", [e]) => match eval_e(e)? {
            None => out.push_str("(none)"),
            Some(r) if !eq_hash_consistent(&r) => out.push_str("(inconsistent)"),
            Some(r) => {
                out.push('(');
                put_estruct(out, &r);
                out.push(' ');
                put_str(out, &r.to_string());
                out.push(')');
            }
        },

        ("sat", [e, vs]) | ("c01", [e, _, vs]) => {
            // `c01` carries the syntax tree of the text for the model side; the crate only sees the text
            let r = if head == "c01" { Some(Range::parse(e.string()?).ok()) } else { eval_e(e) }?;
            let vs = get_versions(vs)?;
            match r {
                None => out.push_str("(none)"),
                Some(r) => {
                    let mut consistent = true;
                    out.push('(');
                    put_estruct(out, &r);
                    out.push_str(" (");
                    for (i, v) in vs.iter().enumerate() {
                        let b = r.satisfies(v);
                        if v.satisfies(&r) != b {
                            consistent = false;
                        }
                        if i > 0 {
                            out.push(' ');
                        }
                        put_bool(out, b);
                    }
                    out.push_str("))");
                    if !consistent {
                        out.clear();
                        out.push_str("(inconsistent)");
                    }
                }
            }
        }

        ("within", [e, vs]) => {
            let r = eval_e(e)?;
            let vs = get_versions(vs)?;
            match r {
                None => out.push_str("(none)"),
                Some(r) => {
                    out.push('(');
                    put_estruct(out, &r);
                    out.push_str(" (");
                    for (i, v) in vs.iter().enumerate() {
                        let point = Range::parse(v.to_string()).unwrap();
                        if i > 0 {
                            out.push(' ');
                        }
                        put_bool(out, r.allows_any(&point));
                    }
                    out.push_str("))");
                }
            }
        }

        ("isect", [a, b]) | ("diff", [a, b]) => {
            let a = eval_e(a)?;
            let b = eval_e(b)?;
            match (a, b) {
                (Some(a), Some(b)) => {
                    let r = if head == "isect" {
                        a.intersect(&b)
                    } else {
                        a.difference(&b)
                    };
                    out.push('(');
                    put_estruct(out, &a);
                    out.push(' ');
                    put_estruct(out, &b);
                    out.push(' ');
                    put_opt_range(out, r.as_ref());
                    out.push(')');
                }
                _ => out.push_str("(none)"),
            }
        }

        ("allows_all", [a, b]) | ("allows_any", [a, b]) => {
            let a = eval_e(a)?;
            let b = eval_e(b)?;
            match (a, b) {
                (Some(a), Some(b)) => {
                    let r = if head == "allows_all" {
                        a.allows_all(&b)
                    } else {
                        a.allows_any(&b)
                    };
                    out.push('(');
                    put_estruct(out, &a);
                    out.push(' ');
                    put_estruct(out, &b);
                    out.push(' ');
                    put_bool(out, r);
                    out.push(')');
                }
                _ => out.push_str("(none)"),
            }
        }

        ("minv", [e]) => match eval_e(e)? {
            None => out.push_str("(none)"),
            Some(r) => {
                let m = r.min_version();
                out.push('(');
                put_estruct(out, &r);
                out.push(' ');
                put_opt_version(out, m.as_ref());
                out.push(')');
            }
        },

        ("maxsat", [e, vs]) | ("minsat", [e, vs]) => {
            let r = eval_e(e)?;
            let vs = get_versions(vs)?;
            match r {
                None => out.push_str("(none)"),
                Some(r) => {
                    let found = if head == "maxsat" {
                        r.max_satisfying(&vs)
                    } else {
                        r.min_satisfying(&vs)
                    };
                    out.push('(');
                    put_estruct(out, &r);
                    out.push(' ');
                    match found {
                        None => out.push_str("none"),
                        Some(p) => {
                            let idx = vs
                                .iter()
                                .position(|v| std::ptr::eq(v, p))
                                .map_or(-1, |i| i as i64);
                            out.push_str("(some ");
                            put_i64(out, idx);
                            out.push(' ');
                            put_version(out, p);
                            out.push(')');
                        }
                    }
                    out.push(')');
                }
            }
        }

        ("errdiag", [which, s]) => {
            let s = s.string()?;
            let err = match which.atom()? {
                "v" => Version::parse(s).err(),
                "r" => Range::parse(s).err(),
                _ => return None,
            };
            match err {
                None => out.push_str("noerr"),
                Some(e) => errdiag(out, &e),
            }
        }

        ("serde_v", [s]) => serde_v(out, s.string()?),

        ("serde_r", [e]) => match eval_e(e)? {
            None => out.push_str("(none)"),
            Some(r) => serde_r(out, &r),
        },

        ("vtime", [n, kind]) => {
            let n = get_usize(n)?;
            if n > MAX_TIME_N {
                return None;
            }
            let input = vtime_input(kind.atom()?, n)?;
            let start = Instant::now();
            let r = std::hint::black_box(Version::parse(std::hint::black_box(&input)));
            let elapsed = start.elapsed();
            drop(r);
            put_ns(out, elapsed.as_nanos());
        }

        ("rtime", [n, kind]) => {
            let n = get_usize(n)?;
            if n > MAX_TIME_N {
                return None;
            }
            let input = rtime_input(kind.atom()?, n)?;
            let start = Instant::now();
            let r = std::hint::black_box(Range::parse(std::hint::black_box(&input)));
            let elapsed = start.elapsed();
            drop(r);
            put_ns(out, elapsed.as_nanos());
        }

        _ => return None,
    }
    Some(())
}

fn put_ns(out: &mut String, ns: u128) {
    out.push_str("(ns ");
    put_u128(out, ns);
    out.push(')');
}

/// `unit` repeated as often as fits in `n` bytes.
fn rep(unit: &str, n: usize) -> String {
    unit.repeat(n / unit.len())
}

fn vtime_input(kind: &str, n: usize) -> Option<String> {
    Some(match kind {
        "digits" => "9".repeat(n),
        "blanks" => " ".repeat(n),
        "ident" => {
            let mut s = String::from("1.2.3-");
            s.push_str(&"a".repeat(n));
            s
        }
        "dots" => {
            let mut s = String::from("1.2.3-a");
            s.push_str(&rep(".a", n));
            s
        }
        _ => return None,
    })
}

fn rtime_input(kind: &str, n: usize) -> Option<String> {
    Some(match kind {
        "blanks" => " ".repeat(n),
        "ors" => rep("||", n),
        "hyphens" => rep("1 - 1x ", n),
        "token" => "a".repeat(n),
        "alts" => {
            let mut s = rep("1.2.3||", n);
            s.push_str("1.2.3");
            s
        }
        "comps" => rep(">=1.2.3 ", n),
        "digits" => "9".repeat(n),
        "tildes" => rep("~>1.2.x ", n),
        "garbage" => rep("1.2.3.4.5 foo ", n),
        "dots" => rep("1.", n),
        "mixed" => {
            let mut s = rep("^1.2.3-a.b+c || ", n);
            s.push('*');
            s
        }
        _ => return None,
    })
}

/// `(errdiag ..)` on an error value: exercise the `Display`, `Error` and `Diagnostic` surface.
fn errdiag(out: &mut String, e: &SemverError) {
    use miette::Diagnostic;
    use std::error::Error;

    let display = e.to_string();
    let _source: Option<String> = e.source().map(|s| s.to_string());
    let code: Option<String> = e.code().map(|c| c.to_string());
    let _help: Option<String> = e.help().map(|h| h.to_string());
    let _url: Option<String> = e.url().map(|u| u.to_string());
    let _severity = e.severity();
    let labels: Vec<miette::LabeledSpan> = match e.labels() {
        Some(it) => it.collect(),
        None => return put_bad(out, "labels() returned None"),
    };
    if labels.len() != 1 {
        return put_bad(out, &format!("expected one label, got {}", labels.len()));
    }
    let label = &labels[0];
    if label.offset() != e.offset() {
        return put_bad(
            out,
            &format!(
                "label offset {} differs from offset() {}",
                label.offset(),
                e.offset()
            ),
        );
    }
    let source_code = match e.source_code() {
        Some(sc) => sc,
        None => return put_bad(out, "source_code() returned None"),
    };
    if let Err(err) = source_code.read_span(label.inner(), 0, 0) {
        return put_bad(out, &format!("read_span failed: {}", err));
    }
    let _rendered = format!("{:?}", miette::Report::new(e.clone()));

    out.push_str("(diag ");
    put_str(out, &display);
    out.push(' ');
    put_str(out, code.as_deref().unwrap_or(""));
    out.push(')');
}

fn serde_v(out: &mut String, s: &str) {
    let v = match Version::parse(s) {
        Ok(v) => v,
        Err(_) => return out.push_str("noparse"),
    };
    let json = match serde_json::to_string(&v) {
        Ok(j) => j,
        Err(e) => return put_bad(out, &format!("serialise failed: {}", e)),
    };
    let expected = format!("\"{}\"", v.to_string());
    if json != expected {
        return put_bad(out, &format!("json {} differs from {}", json, expected));
    }
    let back: Version = match serde_json::from_str(&json) {
        Ok(b) => b,
        Err(e) => return put_bad(out, &format!("deserialise failed: {}", e)),
    };
    if back.major != v.major {
        return put_bad(out, "major differs");
    }
    if back.minor != v.minor {
        return put_bad(out, "minor differs");
    }
    if back.patch != v.patch {
        return put_bad(out, "patch differs");
    }
    if back.pre_release != v.pre_release {
        return put_bad(out, "pre_release differs");
    }
    if back.build != v.build {
        return put_bad(out, "build differs");
    }
    // the same JSON through the other transports serde_json offers: a byte reader, a `Value` tree, an escaped spelling of the string
    let whole = format!("{:?}", v);
    match serde_json::from_reader::<_, Version>(json.as_bytes()) {
        Ok(b) if format!("{:?}", b) == whole => {}
        Ok(_) => return put_bad(out, "from_reader gives another version"),
        Err(e) => return put_bad(out, &format!("from_reader failed: {}", e)),
    }
    match serde_json::to_value(&v).and_then(serde_json::from_value::<Version>) {
        Ok(b) if format!("{:?}", b) == whole => {}
        Ok(_) => return put_bad(out, "to_value/from_value gives another version"),
        Err(e) => return put_bad(out, &format!("to_value/from_value failed: {}", e)),
    }
    let escaped: String = std::iter::once('"'.to_string())
        .chain(v.to_string().chars().map(|c| format!("\\u{:04x}", c as u32)))
        .chain(std::iter::once('"'.to_string()))
        .collect();
    match serde_json::from_str::<Version>(&escaped) {
        Ok(b) if format!("{:?}", b) == whole => {}
        Ok(_) => return put_bad(out, "the escaped spelling of the JSON string gives another version"),
        Err(e) => return put_bad(out, &format!("the escaped spelling of the JSON string is rejected: {}", e)),
    }
    out.push_str("ok");
}

fn serde_r(out: &mut String, r: &Range) {
    let json = match serde_json::to_string(r) {
        Ok(j) => j,
        Err(e) => return put_bad(out, &format!("serialise failed: {}", e)),
    };
    let expected = format!("\"{}\"", r.to_string());
    if json != expected {
        return put_bad(out, &format!("json {} differs from {}", json, expected));
    }
    let back: Option<Range> = serde_json::from_str(&json).ok();
    // the other transports must agree with `from_str`
    let want = back.as_ref().map(|b| format!("{:?}", b));
    let via_reader = serde_json::from_reader::<_, Range>(json.as_bytes()).ok().map(|b| format!("{:?}", b));
    let via_value = serde_json::to_value(r).and_then(serde_json::from_value::<Range>).ok().map(|b| format!("{:?}", b));
    if via_reader != want || via_value != want {
        return put_bad(out, "from_reader / from_value disagree with from_str");
    }
    out.push('(');
    put_estruct(out, r);
    out.push(' ');
    put_opt_range(out, back.as_ref());
    out.push(')');
}
