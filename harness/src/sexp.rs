//! S-expression reader and printing primitives for the syntax of PROTOCOL.md.
//!
//! - list:   `(` items separated by spaces `)`
//! - atom:   one or more of `[A-Za-z0-9_-]`
//! - string: `#` followed by dot-separated lower-case hex scalar values (`#` alone is "")

use std::fmt::Write;

#[derive(Debug)]
pub enum Sx<'a> {
    Atom(&'a str),
    Str(String),
    List(Vec<Sx<'a>>),
}

/// Nesting bound: keeps the recursive reader (and the recursive evaluation of range
/// expressions) away from the end of the stack whatever the input is.
const MAX_DEPTH: usize = 200;

impl<'a> Sx<'a> {
    pub fn atom(&self) -> Option<&'a str> {
        match self {
            Sx::Atom(a) => Some(a),
            _ => None,
        }
    }

    pub fn string(&self) -> Option<&str> {
        match self {
            Sx::Str(s) => Some(s),
            _ => None,
        }
    }

    pub fn list(&self) -> Option<&[Sx<'a>]> {
        match self {
            Sx::List(l) => Some(l),
            _ => None,
        }
    }

    /// `(head item*)` with `head` an atom.
    pub fn tagged(&self) -> Option<(&'a str, &[Sx<'a>])> {
        let l = self.list()?;
        let (h, rest) = l.split_first()?;
        Some((h.atom()?, rest))
    }
}

/// Parse a whole line as one S-expression; `None` if it is malformed in any way
/// (including leading/trailing junk).
pub fn parse(src: &str) -> Option<Sx<'_>> {
    let mut r = Reader {
        src,
        b: src.as_bytes(),
        i: 0,
    };
    let sx = r.item(0)?;
    if r.i != r.b.len() {
        return None;
    }
    Some(sx)
}

struct Reader<'a> {
    src: &'a str,
    b: &'a [u8],
    i: usize,
}

fn is_atom_byte(c: u8) -> bool {
    c.is_ascii_alphanumeric() || c == b'_' || c == b'-'
}

fn hex_val(c: u8) -> Option<u32> {
    match c {
        b'0'..=b'9' => Some((c - b'0') as u32),
        b'a'..=b'f' => Some((c - b'a') as u32 + 10),
        _ => None,
    }
}

impl<'a> Reader<'a> {
    fn peek(&self) -> Option<u8> {
        self.b.get(self.i).copied()
    }

    fn item(&mut self, depth: usize) -> Option<Sx<'a>> {
        match self.peek()? {
            b'(' => {
                if depth >= MAX_DEPTH {
                    return None;
                }
                self.i += 1;
                let mut items = Vec::new();
                if self.peek()? == b')' {
                    self.i += 1;
                    return Some(Sx::List(items));
                }
                loop {
                    items.push(self.item(depth + 1)?);
                    match self.peek()? {
                        b')' => {
                            self.i += 1;
                            return Some(Sx::List(items));
                        }
                        b' ' => {
                            while self.peek() == Some(b' ') {
                                self.i += 1;
                            }
                        }
                        _ => return None,
                    }
                }
            }
            b'#' => {
                self.i += 1;
                let mut s = String::new();
                if self.peek().and_then(hex_val).is_none() {
                    return Some(Sx::Str(s));
                }
                loop {
                    let mut n: u32 = 0;
                    let mut digits = 0;
                    while let Some(d) = self.peek().and_then(hex_val) {
                        digits += 1;
                        if digits > 8 {
                            return None;
                        }
                        n = (n << 4) | d;
                        self.i += 1;
                    }
                    if digits == 0 {
                        return None;
                    }
                    s.push(char::from_u32(n)?);
                    if self.peek() == Some(b'.') {
                        self.i += 1;
                    } else {
                        return Some(Sx::Str(s));
                    }
                }
            }
            c if is_atom_byte(c) => {
                let start = self.i;
                while self.peek().map_or(false, is_atom_byte) {
                    self.i += 1;
                }
                Some(Sx::Atom(&self.src[start..self.i]))
            }
            _ => None,
        }
    }
}

// ---- printing primitives (results are written straight into a String) ----

fn put_hex(out: &mut String, mut n: u32) {
    const DIGITS: &[u8; 16] = b"0123456789abcdef";
    let mut buf = [0u8; 8];
    let mut k = buf.len();
    loop {
        k -= 1;
        buf[k] = DIGITS[(n & 15) as usize];
        n >>= 4;
        if n == 0 {
            break;
        }
    }
    for &c in &buf[k..] {
        out.push(c as char);
    }
}

/// STRING: `#` + hex scalar values joined by `.` (no zero padding).
pub fn put_str(out: &mut String, s: &str) {
    out.push('#');
    let mut first = true;
    for c in s.chars() {
        if !first {
            out.push('.');
        }
        first = false;
        put_hex(out, c as u32);
    }
}

pub fn put_u64(out: &mut String, n: u64) {
    let _ = write!(out, "{}", n);
}

pub fn put_i64(out: &mut String, n: i64) {
    let _ = write!(out, "{}", n);
}

pub fn put_u128(out: &mut String, n: u128) {
    let _ = write!(out, "{}", n);
}

pub fn put_bool(out: &mut String, b: bool) {
    out.push_str(if b { "true" } else { "false" });
}
