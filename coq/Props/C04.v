(** Property C04 — Version precedence is the SemVer total order; Eq, Ord and Hash agree.
    This file contains only the property theorems (each closed by [exact] of a lemma
    proved elsewhere), their statements pinned by [Check], and [Print Assumptions]. *)
From Semver Require Import Version SemverOrder VersionOrder C04Proofs.
From Coq Require Import Permutation Sorted.

(** total order laws of [Ord::cmp] *)
Theorem C04_refl : forall a, vcmp a a = Eq.
Proof. exact v_refl. Qed.
Theorem C04_antisym : forall a b, vcmp b a = CompOpp (vcmp a b).
Proof. exact v_anti. Qed.
Theorem C04_trans : forall a b c, vcmp a b = Lt -> vcmp b c = Lt -> vcmp a c = Lt.
Proof. exact v_trans. Qed.
Theorem C04_le_trans : forall a b c, vcmp a b <> Gt -> vcmp b c <> Gt -> vcmp a c <> Gt.
Proof. intros a b c H1 H2. vorder. Qed.
Theorem C04_eq_cong : forall a b c, vcmp a b = Eq -> vcmp a c = vcmp b c /\ vcmp c a = vcmp c b.
Proof. intros a b c H. split; [now apply v_eq_l | now apply v_eq_r]. Qed.
Theorem C04_total : forall a b, vcmp a b = Lt \/ vcmp a b = Eq \/ vcmp b a = Lt.
Proof. intros a b. rewrite (v_anti a b). destruct (vcmp a b); simpl; auto. Qed.

(** [==] holds exactly when the comparison is Equal, i.e. exactly when the four compared
    fields coincide; equal versions feed the same data to the hasher *)
Theorem C04_eq : forall a b, veqb a b = true <-> vcmp a b = Eq.
Proof. exact veqb_vcmp. Qed.
Theorem C04_eq_fields : forall a b,
  vcmp a b = Eq <-> (major a = major b /\ minor a = minor b /\ patch a = patch b /\ pre a = pre b).
Proof. exact vcmp_eq_fields. Qed.
Theorem C04_hash : forall a b, veqb a b = true <-> hash_key a = hash_key b.
Proof. exact veqb_hash. Qed.

(** build metadata is ignored by all three *)
Theorem C04_build : forall a b x y,
  vcmp (with_build a x) (with_build b y) = vcmp a b /\
  veqb (with_build a x) (with_build b y) = veqb a b /\
  hash_key (with_build a x) = hash_key a.
Proof. intros. repeat split. Qed.

(** the comparison is SemVer 2.0.0 section 11 precedence *)
Theorem C04_spec : forall a b, vcmp a b = Lt <-> prec_lt a b.
Proof. exact vcmp_lt_prec. Qed.

(** sorting, max and min are consistent with the order *)
Theorem C04_sorted : forall l, Permutation l (vsort l) /\ StronglySorted vleP (vsort l).
Proof. intro l. split; [apply vsort_perm | apply vsort_strongly_sorted]. Qed.
(** ... and the sorted order is unique up to precedence-equality: ANY sorted permutation of a list agrees with [vsort], position by
    position, up to [vcmp = Eq] (so the statement does not depend on which sorting algorithm the library uses) *)
Theorem C04_sort_canonical : forall l l', Permutation l l' -> StronglySorted vleP l' -> Forall2 (fun a b => vcmp a b = Eq) l' (vsort l).
Proof. exact sort_canonical. Qed.
Theorem C04_max : forall l m, iter_max l = Some m -> In m l /\ forall y, In y l -> vcmp y m <> Gt.
Proof. exact iter_max_spec. Qed.
Theorem C04_min : forall l m, iter_min l = Some m -> In m l /\ forall y, In y l -> vcmp m y <> Gt.
Proof. exact iter_min_spec. Qed.
Theorem C04_max_none : forall l, iter_max l = None <-> l = [].
Proof. exact iter_max_none. Qed.

(** Known finding D18 (outside the data-level statement above, recorded for the text level):
    a numeric prerelease identifier of 2^64 or more is kept as [Alpha] by the parser and is then
    compared as text, so "100000000000000000000" sorts below "99999999999999999999". *)
Example C04_known_D18 :
  vcmp (mkV 1 0 0 [] [Alpha [49;48;48;48;48;48;48;48;48;48;48;48;48;48;48;48;48;48;48;48;48]])
       (mkV 1 0 0 [] [Alpha [57;57;57;57;57;57;57;57;57;57;57;57;57;57;57;57;57;57;57;57]]) = Lt
  /\ ~ canonical (mkV 1 0 0 [] [Alpha [57;57;57;57;57;57;57;57;57;57;57;57;57;57;57;57;57;57;57;57]]).
Proof. split; [reflexivity|]. intro H. inversion H as [|? ? Hc _]. discriminate Hc. Qed.

(** non-vacuity: the premises of the implications are satisfiable by distinct versions *)
Example C04_trans_nonvacuous :
  vcmp (mkV 1 0 0 [] [Alpha [97]]) (mkV 1 0 0 [] [Alpha [97]; Num 1]) = Lt /\
  vcmp (mkV 1 0 0 [] [Alpha [97]; Num 1]) (mkV 1 0 0 [Num 7] []) = Lt.
Proof. split; reflexivity. Qed.

Check C04_refl : forall a, vcmp a a = Eq.
Check C04_antisym : forall a b, vcmp b a = CompOpp (vcmp a b).
Check C04_trans : forall a b c, vcmp a b = Lt -> vcmp b c = Lt -> vcmp a c = Lt.
Check C04_le_trans : forall a b c, vcmp a b <> Gt -> vcmp b c <> Gt -> vcmp a c <> Gt.
Check C04_eq_cong : forall a b c, vcmp a b = Eq -> vcmp a c = vcmp b c /\ vcmp c a = vcmp c b.
Check C04_total : forall a b, vcmp a b = Lt \/ vcmp a b = Eq \/ vcmp b a = Lt.
Check C04_eq : forall a b, veqb a b = true <-> vcmp a b = Eq.
Check C04_eq_fields : forall a b,
  vcmp a b = Eq <-> (major a = major b /\ minor a = minor b /\ patch a = patch b /\ pre a = pre b).
Check C04_hash : forall a b, veqb a b = true <-> hash_key a = hash_key b.
Check C04_build : forall a b x y,
  vcmp (with_build a x) (with_build b y) = vcmp a b /\
  veqb (with_build a x) (with_build b y) = veqb a b /\
  hash_key (with_build a x) = hash_key a.
Check C04_spec : forall a b, vcmp a b = Lt <-> prec_lt a b.
Check C04_sorted : forall l, Permutation l (vsort l) /\ StronglySorted vleP (vsort l).
Check C04_sort_canonical : forall l l', Permutation l l' -> StronglySorted vleP l' -> Forall2 (fun a b => vcmp a b = Eq) l' (vsort l).
Check C04_max : forall l m, iter_max l = Some m -> In m l /\ forall y, In y l -> vcmp y m <> Gt.
Check C04_min : forall l m, iter_min l = Some m -> In m l /\ forall y, In y l -> vcmp m y <> Gt.
Check C04_max_none : forall l, iter_max l = None <-> l = [].

Print Assumptions C04_refl.
Print Assumptions C04_antisym.
Print Assumptions C04_trans.
Print Assumptions C04_le_trans.
Print Assumptions C04_eq_cong.
Print Assumptions C04_total.
Print Assumptions C04_eq.
Print Assumptions C04_eq_fields.
Print Assumptions C04_hash.
Print Assumptions C04_build.
Print Assumptions C04_spec.
Print Assumptions C04_sorted.
Print Assumptions C04_sort_canonical.
Print Assumptions C04_max.
Print Assumptions C04_min.
Print Assumptions C04_max_none.
