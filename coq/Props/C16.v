(** Property C16 — Version::diff names the release-type difference, symmetrically. *)
From Semver Require Import Version DiffSpec C04Proofs C16Proofs.

Theorem C16_spec : forall a b, vdiff a b = npm_diff a b.
Proof. exact vdiff_spec. Qed.
Theorem C16_sym : forall a b, vdiff a b = vdiff b a.
Proof. exact vdiff_sym. Qed.
Theorem C16_none : forall a b, vdiff a b = None <-> vcmp a b = Eq.
Proof. exact vdiff_none. Qed.
Theorem C16_build : forall a b x y, vdiff (with_build a x) (with_build b y) = vdiff a b.
Proof. exact vdiff_build. Qed.
Theorem C16_fields : forall high low,
  (is_pre low && negb (is_pre high)) = false ->
  npm_diff_hl high low =
    if negb (major high =? major low) then prefixed (is_pre high) Major
    else if negb (minor high =? minor low) then prefixed (is_pre high) Minor
    else if negb (patch high =? patch low) then prefixed (is_pre high) Patch
    else PreRelease.
Proof. exact npm_diff_hl_fields. Qed.

(** the documented special cases, by computation *)
Example C16_special :
  vdiff (mkV 1 0 0 [] [Num 1]) (mkV 1 0 0 [] []) = Some Major /\
  vdiff (mkV 1 0 0 [] [Num 1]) (mkV 1 1 1 [] []) = Some Major /\
  vdiff (mkV 1 1 0 [] [Num 1]) (mkV 1 1 1 [] []) = Some Patch /\
  vdiff (mkV 1 1 1 [] [Num 1]) (mkV 1 2 0 [] []) = Some Minor /\
  vdiff (mkV 1 1 1 [] [Num 1]) (mkV 2 0 0 [] []) = Some Major /\
  vdiff (mkV 2 0 0 [] [Num 1]) (mkV 1 0 0 [] []) = Some PreMajor /\
  vdiff (mkV 1 0 0 [] [Num 1]) (mkV 1 0 0 [] [Num 2]) = Some PreRelease.
Proof. repeat split. Qed.

Check C16_spec : forall a b, vdiff a b = npm_diff a b.
Check C16_sym : forall a b, vdiff a b = vdiff b a.
Check C16_none : forall a b, vdiff a b = None <-> vcmp a b = Eq.
Check C16_build : forall a b x y, vdiff (with_build a x) (with_build b y) = vdiff a b.
Check C16_fields : forall high low,
  (is_pre low && negb (is_pre high)) = false ->
  npm_diff_hl high low =
    if negb (major high =? major low) then prefixed (is_pre high) Major
    else if negb (minor high =? minor low) then prefixed (is_pre high) Minor
    else if negb (patch high =? patch low) then prefixed (is_pre high) Patch
    else PreRelease.
Print Assumptions C16_spec.
Print Assumptions C16_sym.
Print Assumptions C16_none.
Print Assumptions C16_build.
Print Assumptions C16_fields.
