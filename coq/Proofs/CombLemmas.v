(** Support for the generated range-grammar parsers (coq/Gen/P_*.v, tools/translate_p.py):
    adapters that present the model functions of Model/RParse.v as combinator-style parsers,
    generic lemmas about the looping combinators, and the tactics the generated equality
    proofs use. *)
From Semver Require Import Version VParse Range RParse Comb ParseLen.
From Coq Require Import Lia.

(** model functions as parsers *)
Definition extras_p : parser (list ident * list ident) := fun s => let '(p, b, r) := extras s in Some ((p, b), r).
Definition simple_pm : parser (option boundset) := fun s => Some (simple s).
Definition garbage_pm : parser (option boundset) := fun s => Some (None, garbage s).
Definition logical_or_pm : parser unit := fun s => match logical_or s with Some r => Some (tt, r) | None => None end.

Lemma lit_single c s : lit [c] s = lit1 c s.
Proof. destruct s as [|x r]; cbn; auto. rewrite (N.eqb_sym c x). destruct (x =? c); reflexivity. Qed.

Ltac comb_unfold := repeat (progress (unfold p_bind, p_ret, p_opt, p_map, p_pair, p_preceded, p_terminated, p_delimited, p_peek, p_space0, p_space1, p_eof, p_literal, opt_lit1,
  extras_p, simple_pm, garbage_pm, logical_or_pm in *; cbn [p_alt] in *; cbv beta in *; rewrite ?lit_single in *)).
Ltac comb_split :=
  repeat (first [ reflexivity | congruence | discriminate | progress (cbn [orb andb negb fst snd] in *) | progress comb_unfold
        | match goal with
          | H : context [let (_, _) := ?x in _] |- _ => is_var x; destruct x
          | H : (_, _) = (_, _) |- _ => injection H; clear H; intros; subst
          | H : Some _ = Some _ |- _ => injection H; clear H; intros; subst
          | |- context [match ?x with _ => _ end] => lazymatch x with context [match _ with _ => _ end] => fail | context [if _ then _ else _] => fail | _ => idtac end; (is_var x; fail 1) || destruct x eqn:?
          | |- context [if ?x then _ else _] => lazymatch x with context [match _ with _ => _ end] => fail | _ => idtac end; (is_var x; fail 1) || destruct x eqn:?
          | |- context [let '(_, _) := ?x in _] => destruct x eqn:?
          | |- context [match ?x with _ => _ end] => is_var x; destruct x
          end ]).

(** [repeat_till(0.., any, stop)] with the terminator test of [garbage()] is the model's [garbage] *)
Definition stop_p : parser unit := p_alt [p_peek p_space1; p_peek (p_literal [124; 124]); p_eof].
Lemma stop_at_term s : stop_p s = if at_term s then Some (tt, s) else None.
Proof.
  unfold stop_p, at_term. comb_unfold. unfold space1. destruct s as [|c r]; [reflexivity|].
  destruct (is_space c); [reflexivity|]. cbn [orb]. destruct (lit [124; 124] (c :: r)); reflexivity.
Qed.
Lemma repeat_till_garbage f : forall s, (length s < f)%nat -> p_repeat_till f p_any stop_p s = Some (tt, garbage s).
Proof.
  induction f as [|f IH]; intros s Hf; [lia|]. cbn [p_repeat_till]. rewrite stop_at_term.
  destruct s as [|c r].
  - reflexivity.
  - change (garbage (c :: r)) with (if at_term (c :: r) then c :: r else garbage r).
    destruct (at_term (c :: r)); [reflexivity|]. cbn [p_any]. apply IH. cbn in Hf. lia.
Qed.

(** [terminated(p, peek(alt((space1, "||", eof))))] is the model's [terminated_p] *)
Definition term_p : parser unit := p_peek (p_alt [p_space1; p_literal [124; 124]; p_eof]).
Lemma term_at_term s : term_p s = if at_term s then Some (tt, s) else None.
Proof.
  unfold term_p, at_term. comb_unfold. unfold space1. destruct s as [|c r]; [reflexivity|].
  destruct (is_space c); [reflexivity|]. cbn [orb]. destruct (lit [124; 124] (c :: r)); reflexivity.
Qed.
Lemma terminated_ok (p : parser (option boundset)) s : p_terminated p term_p s = terminated_p p s.
Proof.
  unfold p_terminated, p_map, p_pair, terminated_p. destruct (p s) as [[b r]|]; [|reflexivity]. rewrite term_at_term. destruct (at_term r); reflexivity.
Qed.

(** [separated(0.., simple, space1)] + the fold is the model's [simples_p] *)
Lemma sep_tail_simples f : forall s, p_sep_tail f simple_pm p_space1 s = simples_tail f s.
Proof.
  induction f as [|f IH]; intro s; cbn [p_sep_tail simples_tail]; unfold p_space1, simple_pm; destruct (space1 s) as [s1|]; try reflexivity.
  destruct (simple s1) as [b s2]. rewrite IH. destruct (simples_tail f s2) as [[l r]|]; reflexivity.
Qed.
Lemma separated0_simples t : p_map (p_separated0 simple_pm p_space1) (fun bs => and_fold (flatten_opts bs)) t = simples_p t.
Proof.
  unfold p_map, p_separated0, simples_p. unfold simple_pm at 1. destruct (simple t) as [b0 s1]. rewrite (sep_tail_simples (length s1) s1).
  destruct (simples_tail (length s1) s1) as [[l r']|]; reflexivity.
Qed.
Lemma empty_alt_ok s : p_peek (p_alt [p_literal [124; 124]; p_eof]) s = if at_empty_alt s then Some (tt, s) else None.
Proof. unfold at_empty_alt. comb_unfold. destruct s as [|c r]; [reflexivity|]. destruct (lit [124; 124] (c :: r)); reflexivity. Qed.
Lemma alt_end_ok s : p_peek (p_pair p_space0 (p_alt [p_literal [124; 124]; p_eof])) s = if at_alt_end s then Some ((tt, tt), s) else None.
Proof. unfold at_alt_end. comb_unfold. destruct (space0 s) as [|c r]; [reflexivity|]. destruct (lit [124; 124] (c :: r)); reflexivity. Qed.

(** [separated(0.., range, logical_or)] + flatten is the model's [bound_sets] *)
Lemma sep_tail_ranges f : forall s, p_map (p_sep_tail f range_p logical_or_pm) (@concat boundset) s = ranges_tail f s.
Proof.
  induction f as [|f IH]; intro s; unfold p_map in *; cbn [p_sep_tail ranges_tail]; unfold logical_or_pm at 1; destruct (logical_or s) as [s1|]; try reflexivity.
  destruct (range_p_total s1) as (bs & s2 & E & _). rewrite E. specialize (IH s2).
  destruct (p_sep_tail f range_p logical_or_pm s2) as [[l r]|]; destruct (ranges_tail f s2) as [[l' r']|]; try discriminate; try reflexivity.
  injection IH as <- <-. reflexivity.
Qed.
Lemma separated0_ranges s : p_map (p_separated0 range_p logical_or_pm) (fun sets => concat sets) s = bound_sets s.
Proof.
  unfold bound_sets, p_map, p_separated0. destruct (range_p_total s) as (bs & s1 & E & _). rewrite E.
  pose proof (sep_tail_ranges (length s1) s1) as H. unfold p_map in H.
  destruct (p_sep_tail (length s1) range_p logical_or_pm s1) as [[l r]|]; destruct (ranges_tail (length s1) s1) as [[l' r']|]; try discriminate; try reflexivity.
  injection H as <- <-. reflexivity.
Qed.
