(** Decimal printing and parsing of numbers: [dec_value (print_N n) = n], the printed
    text is a non-empty digit string. *)
From Semver Require Import Base.
From Coq Require Import Lia Arith Decimal DecimalN DecimalPos DecimalFacts.
Set Default Timeout 120.

Definition dstep (acc c : N) : N := acc * 10 + digit_val c.
Lemma dec_value_fold ds : dec_value ds = fold_left dstep ds 0.
Proof. reflexivity. Qed.

Lemma fold_acc u : forall acc, fold_left dstep (uint_to_str u) (Npos acc) = Npos (Pos.of_uint_acc u acc).
Proof.
  induction u; intro acc; cbn [uint_to_str fold_left Pos.of_uint_acc]; auto;
  (etransitivity; [|apply IHu]); f_equal; unfold dstep, digit_val; lia.
Qed.
Lemma fold_zero u : fold_left dstep (uint_to_str u) 0 = Pos.of_uint u.
Proof.
  induction u; cbn [uint_to_str fold_left Pos.of_uint]; auto;
  (etransitivity; [|apply fold_acc]); f_equal.
Qed.
Lemma dec_value_print n : dec_value (print_N n) = n.
Proof.
  unfold print_N. rewrite dec_value_fold, fold_zero. change (Pos.of_uint (N.to_uint n)) with (N.of_uint (N.to_uint n)).
  apply DecimalN.Unsigned.of_to.
Qed.
Lemma uint_digits u : forallb is_digit (uint_to_str u) = true.
Proof. induction u; cbn; auto. Qed.
Lemma print_N_digits n : forallb is_digit (print_N n) = true.
Proof. apply uint_digits. Qed.
Lemma print_N_nonempty n : print_N n <> [].
Proof.
  unfold print_N. destruct n as [|p]; cbn; [discriminate|].
  pose proof (DecimalPos.Unsigned.to_uint_nonnil p) as H. destruct (Pos.to_uint p); [congruence|..]; discriminate.
Qed.

(** ** length of the printed form *)
Lemma acc_lower u : forall acc,
  Npos acc * 10 ^ N.of_nat (length (uint_to_str u)) <= Npos (Pos.of_uint_acc u acc).
Proof.
  induction u; intro acc; cbn [uint_to_str length Pos.of_uint_acc];
  try (rewrite N.pow_0_r; lia);
  rewrite Nat2N.inj_succ, N.pow_succ_r';
  match goal with |- _ <= N.pos (Pos.of_uint_acc _ ?a) => specialize (IHu a) end;
  set (P := 10 ^ N.of_nat (length (uint_to_str u))) in *; nia.
Qed.
Lemma nzhead_head u : match nzhead u with D0 _ => False | _ => True end.
Proof. induction u; cbn; auto. Qed.
Lemma to_uint_unorm n : N.to_uint n = unorm (N.to_uint n).
Proof. rewrite <- (DecimalN.Unsigned.of_to n) at 1. apply DecimalN.Unsigned.to_of. Qed.

Lemma uint_lower u : match u with D0 _ | Nil => True | _ => 10 ^ N.of_nat (length (uint_to_str u) - 1) <= Pos.of_uint u end.
Proof.
  destruct u; auto; cbn [uint_to_str length Pos.of_uint]; rewrite Nat.sub_succ, Nat.sub_0_r;
  match goal with |- _ <= N.pos (Pos.of_uint_acc ?u ?a) => pose proof (acc_lower u a) end;
  set (P := 10 ^ N.of_nat (length (uint_to_str u))) in *; nia.
Qed.
Lemma print_N_length n k : (1 <= k)%nat -> n < 10 ^ N.of_nat k -> (length (print_N n) <= k)%nat.
Proof.
  intros Hk Hn. unfold print_N. pose proof (to_uint_unorm n) as E. pose proof (uint_lower (N.to_uint n)) as L.
  pose proof (DecimalN.Unsigned.of_to n) as V. unfold N.of_uint in V. rewrite V in L.
  unfold unorm in E. pose proof (nzhead_head (N.to_uint n)) as Hh.
  destruct (nzhead (N.to_uint n)) eqn:Hz; try (exfalso; exact Hh);
  rewrite E; rewrite E in L; cbn [uint_to_str length] in *; try lia;
  rewrite Nat.sub_succ, Nat.sub_0_r in L;
  (destruct (Nat.le_gt_cases (S (length (uint_to_str u))) k) as [|G]; [assumption|]; exfalso;
   assert (10 ^ N.of_nat k <= 10 ^ N.of_nat (length (uint_to_str u))) by (apply N.pow_le_mono_r; lia); lia).
Qed.
Lemma digits_utf8_len s : forallb is_digit s = true -> utf8_len s = N.of_nat (length s).
Proof.
  induction s as [|c s IH]; cbn [forallb utf8_len length]; auto. rewrite andb_true_iff. intros [Hc Hs].
  rewrite IH by assumption. unfold utf8_len1. unfold is_digit in Hc. apply andb_true_iff in Hc as [_ Hc].
  apply N.leb_le in Hc. replace (c <? 128) with true by (symmetry; apply N.ltb_lt; lia). lia.
Qed.
Lemma print_N_utf8_len n k : (1 <= k)%nat -> n < 10 ^ N.of_nat k -> utf8_len (print_N n) <= N.of_nat k.
Proof.
  intros Hk Hn. rewrite digits_utf8_len by apply print_N_digits. pose proof (print_N_length n k Hk Hn). lia.
Qed.
Lemma utf8_len_app a b : utf8_len (a ++ b) = utf8_len a + utf8_len b.
Proof.
  induction a as [|c a IH]; [reflexivity|].
  change (utf8_len1 c + utf8_len (a ++ b) = utf8_len1 c + utf8_len a + utf8_len b). rewrite IH. lia.
Qed.
