(** * Loops as folds: lemmas for the generated [Fn_r_intersect.v], [Fn_r_difference.v], [Fn_r_print.v], [Fn_vprint.v]

    The generated definitions are [fold_left]s whose step functions are whatever the Rust loop bodies say.
    The lemmas here are stated for an arbitrary step function together with a pointwise description of it,
    so that a generated proof only has to establish that description for the body at hand. *)
From Coq Require Import List NArith Lia.
From Semver Require Import Base Version Range Loops.
Import ListNotations.

Definition lift {A S} (f : S -> A -> res S) : res S -> A -> res S :=
  fun acc x => match acc with Ok s => f s x | Panic => Panic end.

Lemma fold_left_panic {A S} (f : S -> A -> res S) (l : list A) : fold_left (lift f) l Panic = Panic.
Proof. induction l as [|x l IH]; cbn [fold_left lift]; auto. Qed.

(** a loop that only appends: [acc := acc ++ g x] *)
Lemma fold_left_flat {A B} (f : list B -> A -> list B) (g : A -> list B) :
  (forall acc x, f acc x = acc ++ g x) -> forall l acc, fold_left f l acc = acc ++ flat_map g l.
Proof.
  intros H l; induction l as [|x l IH]; intro acc; cbn [fold_left flat_map]; [now rewrite app_nil_r|].
  rewrite IH, H, <- app_assoc. reflexivity.
Qed.

(** the same in the [res] monad *)
Fixpoint mconcat_map {A B} (g : A -> res (list B)) (l : list A) : res (list B) :=
  match l with
  | [] => Ok []
  | x :: l' => rbind (g x) (fun r => rbind (mconcat_map g l') (fun rest => Ok (r ++ rest)))
  end.

Lemma fold_left_res_flat {A B} (f : list B -> A -> res (list B)) (g : A -> res (list B)) :
  (forall acc x, f acc x = rmap (app acc) (g x)) ->
  forall l acc, fold_left (lift f) l (Ok acc) = rmap (app acc) (mconcat_map g l).
Proof.
  intros H l; induction l as [|x l IH]; intro acc; cbn [fold_left mconcat_map lift]; [cbn [rmap]; now rewrite app_nil_r|].
  rewrite H. destruct (g x) as [r|]; cbn [rmap rbind]; [|apply fold_left_panic].
  rewrite IH. destruct (mconcat_map g l) as [rest|]; cbn [rmap rbind]; [|reflexivity].
  now rewrite app_assoc.
Qed.

(** a loop that replaces its state: [s := step s x] *)
Lemma fold_left_res_chain {A S} (f : S -> A -> res S) (step : S -> A -> res S) (all : S -> list A -> res S) :
  (forall s x, f s x = step s x) ->
  (forall s, all s [] = Ok s) -> (forall s x l, all s (x :: l) = rbind (step s x) (fun s' => all s' l)) ->
  forall l s, fold_left (lift f) l (Ok s) = all s l.
Proof.
  intros H H0 H1 l; induction l as [|x l IH]; intro s; cbn [fold_left lift]; [now rewrite H0|].
  rewrite H1, H. destruct (step s x) as [s'|]; cbn [rbind]; [apply IH | apply fold_left_panic].
Qed.

(** ** the model's recursive functions in these terms *)
Lemma mfilter_concat_cut pieces righty :
  rmap (@concat _) (mfilter_map (fun piece => bs_difference piece righty) pieces) = cut_pieces pieces righty.
Proof.
  induction pieces as [|p ps IH]; cbn [mfilter_map cut_pieces]; [reflexivity|].
  destruct (bs_difference p righty) as [d|]; cbn [rbind rmap]; [|reflexivity].
  rewrite <- IH. destruct (mfilter_map _ ps) as [r|]; cbn [rbind rmap]; [|reflexivity].
  destruct d; reflexivity.
Qed.

Lemma r_difference_list_mconcat self other :
  r_difference_list self other = mconcat_map (fun lefty => cut_all [lefty] other) self.
Proof. induction self as [|l s IH]; cbn [r_difference_list mconcat_map]; [reflexivity|]. now rewrite IH. Qed.

(** ** loops over [.iter().enumerate()] that print a separator chosen by the index *)
Fixpoint joined {A} (p : A -> str) (sep : nat -> str) (i : nat) (l : list A) : str :=
  match l with
  | [] => []
  | x :: r => sep i ++ p x ++ joined p sep (S i) r
  end.
Fixpoint joined_res {A} (p : A -> res str) (sep : nat -> str) (i : nat) (l : list A) : res str :=
  match l with
  | [] => Ok []
  | x :: r => rbind (p x) (fun s => rbind (joined_res p sep (S i) r) (fun t => Ok (sep i ++ s ++ t)))
  end.

Lemma fold_enum {A} (f : str -> nat * A -> str) (p : A -> str) (sep : nat -> str) :
  (forall acc i x, f acc (i, x) = acc ++ sep i ++ p x) ->
  forall l i acc, fold_left f (enumerate_from i l) acc = acc ++ joined p sep i l.
Proof.
  intros H l; induction l as [|x l IH]; intros i acc; cbn [fold_left enumerate_from joined]; [now rewrite app_nil_r|].
  rewrite IH, H, <- !app_assoc. reflexivity.
Qed.

Lemma fold_enum_res {A} (f : str -> nat * A -> res str) (p : A -> res str) (sep : nat -> str) :
  (forall acc i x, f acc (i, x) = rmap (fun s => acc ++ sep i ++ s) (p x)) ->
  forall l i acc, fold_left (lift f) (enumerate_from i l) (Ok acc) = rmap (app acc) (joined_res p sep i l).
Proof.
  intros H l; induction l as [|x l IH]; intros i acc; cbn [fold_left enumerate_from joined_res lift]; [cbn [rmap]; now rewrite app_nil_r|].
  rewrite H. destruct (p x) as [s|]; cbn [rmap rbind]; [|apply fold_left_panic].
  rewrite IH. destruct (joined_res p sep (S i) l) as [t|]; cbn [rmap rbind]; [|reflexivity].
  now rewrite <- !app_assoc.
Qed.

Lemma print_idents_joined lead l :
  print_idents lead l = joined print_ident (fun i => if Nat.eqb i 0 then [lead] else [46]) 0 l.
Proof.
  destruct l as [|x r]; [reflexivity|]. cbn [print_idents joined Nat.eqb app]. do 2 f_equal.
  assert (E : forall n, print_idents_tail r = joined print_ident (fun i => if Nat.eqb i 0 then [lead] else [46]) (S n) r).
  { induction r as [|y r IH]; intro n; cbn [print_idents_tail joined Nat.eqb app]; [reflexivity|]. now rewrite <- (IH (S n)). }
  apply E.
Qed.

Lemma r_print_joined r :
  r_print r = joined_res bs_print (fun i => if Nat.ltb 0 i then [124; 124] else []) 0 r.
Proof.
  destruct r as [|x r]; [reflexivity|]. cbn [r_print joined_res Nat.ltb Nat.leb app].
  destruct (bs_print x) as [s|]; cbn [rbind]; [|reflexivity].
  assert (E : forall n, r_print_tail r = joined_res bs_print (fun i => if Nat.ltb 0 i then [124; 124] else []) (S n) r).
  { induction r as [|y r IH]; intro n; cbn [r_print_tail joined_res]; [reflexivity|].
    destruct (bs_print y); cbn [rbind]; [|reflexivity]. rewrite <- (IH (S n)). destruct (r_print_tail r); reflexivity. }
  rewrite (E 0%nat). reflexivity.
Qed.
