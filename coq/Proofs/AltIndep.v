(** Alternatives are parsed independently: for ANY strings (no text relation), as long as the left part contains no `|`,
    [bound_sets (x ++ "||" ++ y)] is the alternative parsed from [x] followed by what [y] gives. *)
From Semver Require Import Version VParse VersionGrammar Range RParse ParseLen ParseLemmas.
From Coq Require Import Lia.
Set Default Timeout 180.

Definition nobar (c : N) : bool := negb (c =? 124).
Definition barfree (x : str) : Prop := forallb nobar x = true.
Definition BAR (y : str) : str := 124 :: 124 :: y.

Lemma barfree_cons c x : barfree (c :: x) <-> (c =? 124) = false /\ barfree x.
Proof. unfold barfree, nobar. cbn. rewrite andb_true_iff, negb_true_iff. tauto. Qed.
Lemma barfree_nil : barfree []. Proof. reflexivity. Qed.
Lemma barfree_app a b : barfree (a ++ b) <-> barfree a /\ barfree b.
Proof. unfold barfree. rewrite forallb_app, andb_true_iff. tauto. Qed.

(** scanners *)
Lemma lit1_bar c x y : c <> 124 -> barfree x -> lit1 c (x ++ BAR y) = match lit1 c x with Some r => Some (r ++ BAR y) | None => None end.
Proof.
  intros Hc Hx. unfold BAR, lit1. destruct x as [|a x]; cbn [app].
  - destruct (N.eqb_spec 124 c); [congruence|reflexivity].
  - destruct (a =? c); reflexivity.
Qed.
Lemma lit1_rest c x r : lit1 c x = Some r -> barfree x -> barfree r.
Proof. destruct x as [|a x]; cbn; [discriminate|]. destruct (a =? c); [|discriminate]. intros [= <-] H. now apply barfree_cons in H. Qed.
Lemma drop_while_bar p x y : p 124 = false -> drop_while p (x ++ BAR y) = drop_while p x ++ BAR y.
Proof. intro Hp. induction x as [|a x IH]; cbn; [now rewrite Hp|]. destruct (p a); auto. Qed.
Lemma drop_while_rest p x : barfree x -> barfree (drop_while p x).
Proof. induction x as [|a x IH]; cbn; auto. intro H. destruct (p a); auto. apply barfree_cons in H. tauto. Qed.
Lemma space0_bar x y : space0 (x ++ BAR y) = space0 x ++ BAR y.
Proof. apply drop_while_bar. reflexivity. Qed.
Lemma space0_rest x : barfree x -> barfree (space0 x). Proof. apply drop_while_rest. Qed.
Lemma space1_bar x y : space1 (x ++ BAR y) = match space1 x with Some r => Some (r ++ BAR y) | None => None end.
Proof. destruct x as [|a x]; cbn; [reflexivity|]. destruct (is_space a); [|reflexivity]. now rewrite space0_bar. Qed.
Lemma space1_rest x r : space1 x = Some r -> barfree x -> barfree r.
Proof. destruct x as [|a x]; cbn; [discriminate|]. destruct (is_space a); [|discriminate]. intros [= <-] H. apply barfree_cons in H. apply space0_rest. tauto. Qed.
Lemma span_bar p x y : p 124 = false -> span p (x ++ BAR y) = (fst (span p x), snd (span p x) ++ BAR y).
Proof.
  intro Hp. induction x as [|a x IH]; cbn; [now rewrite Hp|]. destruct (p a); [|reflexivity]. rewrite IH. destruct (span p x); reflexivity.
Qed.
Lemma span_rest p x : barfree x -> barfree (snd (span p x)).
Proof. induction x as [|a x IH]; cbn; auto. intro H. destruct (p a); auto. destruct (span p x) eqn:E. cbn in *. apply IH. apply barfree_cons in H. tauto. Qed.

(** numbers, identifiers, extras *)
Lemma number_o_bar x y : barfree x -> number_o (x ++ BAR y) = match number_o x with Some (n, r) => Some (n, r ++ BAR y) | None => None end.
Proof.
  intro Hx. unfold number_o, number. rewrite (span_bar is_digit x y eq_refl). destruct (span is_digit x) as [ds rest]. cbn [fst snd].
  destruct ds as [|d ds]; cbn; [reflexivity|]. destruct (U64_LIMIT <=? _); cbn; [reflexivity|]. destruct (MAX_SAFE_INTEGER <? _); reflexivity.
Qed.
Lemma number_o_rest x n r : number_o x = Some (n, r) -> barfree x -> barfree r.
Proof.
  unfold number_o, number. intros H Hx. pose proof (span_rest is_digit x Hx) as Hr. destruct (span is_digit x) as [ds rest]. cbn in Hr.
  destruct ds as [|d ds]; cbn in H; [discriminate|]. destruct (U64_LIMIT <=? _); cbn in H; [discriminate|]. destruct (MAX_SAFE_INTEGER <? _); cbn in H; [discriminate|].
  now injection H as <- <-.
Qed.

Lemma ident_char_124 : is_ident_char 124 = false. Proof. reflexivity. Qed.
Lemma identifier_bar x y : identifier (x ++ BAR y) = match identifier x with Some (i, r) => Some (i, r ++ BAR y) | None => None end.
Proof.
  unfold identifier. rewrite (span_bar is_ident_char x y ident_char_124). destruct (span is_ident_char x) as [cs rest]. cbn [fst snd].
  destruct cs; reflexivity.
Qed.
Lemma identifier_rest x i r : identifier x = Some (i, r) -> barfree x -> barfree r.
Proof.
  unfold identifier. intros H Hx. pose proof (span_rest is_ident_char x Hx) as Hr. destruct (span is_ident_char x) as [cs rest]. cbn in Hr.
  destruct cs; [discriminate|]. now injection H as <- <-.
Qed.
Lemma identifier_len x i r : identifier x = Some (i, r) -> (length r < length x)%nat.
Proof.
  unfold identifier. destruct (span is_ident_char x) as [cs rest] eqn:E. apply span_inv in E as (-> & _ & _).
  destruct cs; [discriminate|]. intros [= <- <-]. cbn. rewrite app_length. lia.
Qed.
Lemma idents_tail_fuel f : forall f' s, (length s <= f)%nat -> (length s <= f')%nat -> idents_tail f s = idents_tail f' s.
Proof.
  induction f as [|f IH]; intros f' s H1 H2.
  - destruct s; [|cbn in H1; lia]. destruct f'; reflexivity.
  - destruct f' as [|f'].
    + destruct s; [|cbn in H2; lia]. reflexivity.
    + cbn [idents_tail]. destruct (lit1 46 s) as [r|] eqn:El; [|reflexivity]. apply lit1_inv in El. subst s.
      destruct (identifier r) as [[i r']|] eqn:Ei; [|reflexivity]. apply identifier_len in Ei. cbn in H1, H2.
      rewrite (IH f' r') by lia. reflexivity.
Qed.
Lemma idents_tail_bar f : forall x y, barfree x -> (length x <= f)%nat ->
  idents_tail (f + 2 + length y) (x ++ BAR y) = (fst (idents_tail f x), snd (idents_tail f x) ++ BAR y).
Proof.
  induction f as [|f IH]; intros x y Hx Hf.
  - destruct x; [|cbn in Hf; lia]. cbn. reflexivity.
  - cbn [Nat.add idents_tail]. rewrite (lit1_bar 46 x y) by (auto; discriminate).
    destruct (lit1 46 x) as [r|] eqn:El; [|reflexivity]. pose proof (lit1_rest _ _ _ El Hx) as Hr. apply lit1_inv in El. subst x.
    rewrite identifier_bar. destruct (identifier r) as [[i r']|] eqn:Ei; [|reflexivity].
    pose proof (identifier_rest _ _ _ Ei Hr) as Hr'. apply identifier_len in Ei. cbn in Hf.
    rewrite (IH r' y Hr') by lia. destruct (idents_tail f r'); reflexivity.
Qed.
Lemma idents_tail_rest f : forall x, barfree x -> barfree (snd (idents_tail f x)).
Proof.
  induction f as [|f IH]; intros x Hx; cbn; auto.
  destruct (lit1 46 x) as [r|] eqn:El; auto. pose proof (lit1_rest _ _ _ El Hx) as Hr.
  destruct (identifier r) as [[i r']|] eqn:Ei; auto. pose proof (identifier_rest _ _ _ Ei Hr) as Hr'.
  specialize (IH r' Hr'). destruct (idents_tail f r'); auto.
Qed.
Lemma idents1_bar x y : barfree x -> idents1 (x ++ BAR y) = match idents1 x with Some (l, r) => Some (l, r ++ BAR y) | None => None end.
Proof.
  intro Hx. unfold idents1. rewrite identifier_bar. destruct (identifier x) as [[i r]|] eqn:Ei; [|reflexivity].
  pose proof (identifier_rest _ _ _ Ei Hx) as Hr.
  assert (E : idents_tail (length (r ++ BAR y)) (r ++ BAR y) = idents_tail (length r + 2 + length y) (r ++ BAR y)).
  { apply idents_tail_fuel; rewrite app_length; cbn; lia. }
  rewrite E, (idents_tail_bar (length r) r y Hr (le_n _)). destruct (idents_tail (length r) r); reflexivity.
Qed.
Lemma idents1_rest x l r : idents1 x = Some (l, r) -> barfree x -> barfree r.
Proof.
  unfold idents1. intros H Hx. destruct (identifier x) as [[i r0]|] eqn:Ei; [|discriminate].
  pose proof (idents_tail_rest (length r0) r0 (identifier_rest _ _ _ Ei Hx)) as Hr. destruct (idents_tail (length r0) r0). cbn in Hr. now injection H as <- <-.
Qed.
Lemma opt_lit1_bar c x y : c <> 124 -> barfree x -> opt_lit1 c (x ++ BAR y) = opt_lit1 c x ++ BAR y.
Proof. intros Hc Hx. unfold opt_lit1. rewrite (lit1_bar c x y Hc Hx). destruct (lit1 c x); reflexivity. Qed.
Lemma opt_lit1_rest c x : barfree x -> barfree (opt_lit1 c x).
Proof. intro Hx. unfold opt_lit1. destruct (lit1 c x) eqn:E; auto. eapply lit1_rest; eauto. Qed.
Lemma pre_release_bar x y : barfree x -> pre_release (x ++ BAR y) = match pre_release x with Some (l, r) => Some (l, r ++ BAR y) | None => None end.
Proof. intro Hx. unfold pre_release. rewrite opt_lit1_bar by (auto; discriminate). apply idents1_bar. now apply opt_lit1_rest. Qed.
Lemma pre_release_rest x l r : pre_release x = Some (l, r) -> barfree x -> barfree r.
Proof. unfold pre_release. intros H Hx. eapply idents1_rest; eauto. now apply opt_lit1_rest. Qed.
Lemma build_meta_bar x y : barfree x -> build_meta (x ++ BAR y) = match build_meta x with Some (l, r) => Some (l, r ++ BAR y) | None => None end.
Proof.
  intro Hx. unfold build_meta. rewrite lit1_bar by (auto; discriminate). destruct (lit1 43 x) as [r|] eqn:E; [|reflexivity].
  apply idents1_bar. eapply lit1_rest; eauto.
Qed.
Lemma build_meta_rest x l r : build_meta x = Some (l, r) -> barfree x -> barfree r.
Proof. unfold build_meta. intros H Hx. destruct (lit1 43 x) as [r0|] eqn:E; [|discriminate]. eapply idents1_rest; eauto. eapply lit1_rest; eauto. Qed.
Lemma extras_bar x y : barfree x -> extras (x ++ BAR y) = (let '(p, b, r) := extras x in (p, b, r ++ BAR y)).
Proof.
  intro Hx. unfold extras. rewrite pre_release_bar by auto. destruct (pre_release x) as [[p r]|] eqn:Ep.
  - pose proof (pre_release_rest _ _ _ Ep Hx) as Hr. rewrite build_meta_bar by auto. destruct (build_meta r) as [[b r']|]; reflexivity.
  - rewrite build_meta_bar by auto. destruct (build_meta x) as [[b r']|]; reflexivity.
Qed.
Lemma extras_rest x : barfree x -> barfree (snd (extras x)).
Proof.
  intro Hx. unfold extras. destruct (pre_release x) as [[p r]|] eqn:Ep.
  - pose proof (pre_release_rest _ _ _ Ep Hx) as Hr. destruct (build_meta r) as [[b r']|] eqn:Eb; cbn; auto. eapply build_meta_rest; eauto.
  - destruct (build_meta x) as [[b r']|] eqn:Eb; cbn; auto. eapply build_meta_rest; eauto.
Qed.

(** the range grammar *)
Definition ext {A} (B : str) (o : option (A * str)) : option (A * str) := match o with Some (a, r) => Some (a, r ++ B) | None => None end.
Definition rest_ok {A} (o : option (A * str)) : Prop := match o with Some (_, r) => barfree r | None => True end.

Lemma component_bar x y : barfree x -> component (x ++ BAR y) = ext (BAR y) (component x).
Proof.
  intro Hx. unfold component. destruct x as [|c r]; [reflexivity|]. cbn [app]. destruct (is_wild c); [reflexivity|].
  change (c :: r ++ BAR y) with ((c :: r) ++ BAR y). rewrite (number_o_bar _ y Hx). destruct (number_o (c :: r)) as [[n r']|]; reflexivity.
Qed.
Lemma component_rest x : barfree x -> rest_ok (component x).
Proof.
  intro Hx. unfold component. destruct x as [|c r]; [exact I|]. destruct (is_wild c); cbn.
  - apply barfree_cons in Hx. tauto.
  - destruct (number_o (c :: r)) as [[n r']|] eqn:E; cbn; auto. eapply number_o_rest; eauto.
Qed.
Lemma opt_dot_bar x y : barfree x -> opt_dot_component (x ++ BAR y) = (fst (opt_dot_component x), snd (opt_dot_component x) ++ BAR y).
Proof.
  intro Hx. unfold opt_dot_component. rewrite lit1_bar by (auto; discriminate). destruct (lit1 46 x) as [r|] eqn:E; [|reflexivity].
  rewrite (component_bar r y) by (eapply lit1_rest; eauto). destruct (component r) as [[c r']|]; reflexivity.
Qed.
Lemma opt_dot_rest x : barfree x -> barfree (snd (opt_dot_component x)).
Proof.
  intro Hx. unfold opt_dot_component. destruct (lit1 46 x) as [r|] eqn:E; auto.
  pose proof (component_rest r (lit1_rest _ _ _ E Hx)) as H. destruct (component r) as [[c r']|]; auto.
Qed.
Lemma partial_version_bar x y : barfree x -> partial_version (x ++ BAR y) = ext (BAR y) (partial_version x).
Proof.
  intro Hx. unfold partial_version. rewrite opt_lit1_bar by (auto; discriminate). rewrite space0_bar.
  pose proof (space0_rest _ (opt_lit1_rest 118 x Hx)) as H2. set (s2 := space0 (opt_lit1 118 x)) in *.
  rewrite (component_bar s2 y H2). pose proof (component_rest s2 H2) as H3. destruct (component s2) as [[ma s3]|]; [|reflexivity]. cbn [ext rest_ok] in *.
  rewrite (opt_dot_bar s3 y H3). pose proof (opt_dot_rest s3 H3) as H4. destruct (opt_dot_component s3) as [mi s4]. cbn [fst snd] in *.
  rewrite (opt_dot_bar s4 y H4). pose proof (opt_dot_rest s4 H4) as H5. destruct (opt_dot_component s4) as [pa s5]. cbn [fst snd] in *.
  destruct pa as [pa|].
  - rewrite (extras_bar s5 y H5). destruct (extras s5) as [[p b] r]. destruct (opt_and (opt_and ma (opt_flatten mi)) (opt_flatten (Some pa))); reflexivity.
  - destruct (opt_and (opt_and ma (opt_flatten mi)) (opt_flatten None)); reflexivity.
Qed.
Lemma partial_version_rest x : barfree x -> rest_ok (partial_version x).
Proof.
  intro Hx. unfold partial_version.
  pose proof (space0_rest _ (opt_lit1_rest 118 x Hx)) as H2. set (s2 := space0 (opt_lit1 118 x)) in *.
  pose proof (component_rest s2 H2) as H3. destruct (component s2) as [[ma s3]|]; [|exact I]. cbn [rest_ok] in *.
  pose proof (opt_dot_rest s3 H3) as H4. destruct (opt_dot_component s3) as [mi s4]. cbn [fst snd] in *.
  pose proof (opt_dot_rest s4 H4) as H5. destruct (opt_dot_component s4) as [pa s5]. cbn [fst snd] in *.
  destruct pa as [pa|].
  - pose proof (extras_rest s5 H5) as H6. destruct (extras s5) as [[p b] r]. cbn in H6. destruct (opt_and (opt_and ma (opt_flatten mi)) (opt_flatten (Some pa))); exact H6.
  - destruct (opt_and (opt_and ma (opt_flatten mi)) (opt_flatten None)); exact H5.
Qed.

Lemma lit_bar l x y : barfree l -> barfree x -> lit l (x ++ BAR y) = match lit l x with Some r => Some (r ++ BAR y) | None => None end.
Proof.
  revert x. induction l as [|a l IH]; intros x Hl Hx; [reflexivity|]. apply barfree_cons in Hl as [Ha Hl].
  destruct x as [|b x]; cbn [app lit BAR].
  - rewrite Ha. reflexivity.
  - apply barfree_cons in Hx as [_ Hx]. destruct (a =? b); [apply IH; auto|reflexivity].
Qed.
Lemma lit_rest l : forall x r, lit l x = Some r -> barfree x -> barfree r.
Proof.
  induction l as [|a l IH]; intros x r; cbn; [intros [= <-]; auto|]. destruct x as [|b x]; [discriminate|].
  destruct (a =? b); [|discriminate]. intros H Hx. apply barfree_cons in Hx as [_ Hx]. eauto.
Qed.
Lemma operation_p_bar x y : barfree x -> operation_p (x ++ BAR y) = ext (BAR y) (operation_p x).
Proof.
  intro Hx. unfold operation_p. rewrite !(lit_bar _ x y) by (auto; reflexivity). rewrite !(lit1_bar _ x y) by (auto; discriminate).
  destruct (lit [62; 61] x); [reflexivity|]. destruct (lit1 62 x); [reflexivity|]. destruct (lit1 61 x); [reflexivity|].
  destruct (lit [60; 61] x); [reflexivity|]. destruct (lit1 60 x); reflexivity.
Qed.
Lemma operation_p_rest x : barfree x -> rest_ok (operation_p x).
Proof.
  intro Hx. unfold operation_p.
  destruct (lit [62; 61] x) eqn:E1; [eapply lit_rest; eauto|]. destruct (lit1 62 x) eqn:E2; [eapply lit1_rest; eauto|].
  destruct (lit1 61 x) eqn:E3; [eapply lit1_rest; eauto|]. destruct (lit [60; 61] x) eqn:E4; [eapply lit_rest; eauto|].
  destruct (lit1 60 x) eqn:E5; [eapply lit1_rest; eauto|exact I].
Qed.

(** a parser of the grammar is insensitive to what follows a `|`-free text, as long as it is `||` *)
Definition stable {A} (p : str -> option (A * str)) : Prop :=
  (forall x y, barfree x -> p (x ++ BAR y) = ext (BAR y) (p x)) /\ (forall x, barfree x -> rest_ok (p x)).

Lemma primitive_p_stable : stable primitive_p.
Proof.
  split; intros x; intros.
  - unfold primitive_p. rewrite operation_p_bar by auto. pose proof (operation_p_rest x H) as Hr. destruct (operation_p x) as [[op r]|]; [|reflexivity].
    cbn [ext rest_ok] in *. rewrite space0_bar, partial_version_bar by now apply space0_rest. destruct (partial_version (space0 r)) as [[p r']|]; reflexivity.
  - unfold primitive_p. pose proof (operation_p_rest x H) as Hr. destruct (operation_p x) as [[op r]|]; [|exact I]. cbn [rest_ok] in *.
    pose proof (partial_version_rest _ (space0_rest r Hr)) as H2. destruct (partial_version (space0 r)) as [[p r']|]; auto.
Qed.
Lemma partial_p_stable : stable partial_p.
Proof.
  split; intros x; intros; unfold partial_p.
  - rewrite partial_version_bar by auto. destruct (partial_version x) as [[p r]|]; reflexivity.
  - pose proof (partial_version_rest x H) as H2. destruct (partial_version x) as [[p r]|]; auto.
Qed.
Lemma tilde_p_stable : stable tilde_p.
Proof.
  split; intros x; intros; unfold tilde_p.
  - rewrite lit1_bar by (auto; discriminate). destruct (lit1 126 x) as [r|] eqn:E; [|reflexivity]. pose proof (lit1_rest _ _ _ E H) as Hr.
    rewrite space0_bar. pose proof (space0_rest r Hr) as H1. set (r1 := space0 r) in *. rewrite lit1_bar by (auto; discriminate).
    destruct (lit1 62 r1) as [r2|] eqn:E2.
    + pose proof (lit1_rest _ _ _ E2 H1) as H2. rewrite space0_bar, partial_version_bar by now apply space0_rest. destruct (partial_version (space0 r2)) as [[p r']|]; reflexivity.
    + rewrite space0_bar, partial_version_bar by now apply space0_rest. destruct (partial_version (space0 r1)) as [[p r']|]; reflexivity.
  - destruct (lit1 126 x) as [r|] eqn:E; [|exact I]. pose proof (lit1_rest _ _ _ E H) as Hr. pose proof (space0_rest r Hr) as H1. set (r1 := space0 r) in *.
    destruct (lit1 62 r1) as [r2|] eqn:E2.
    + pose proof (partial_version_rest _ (space0_rest r2 (lit1_rest _ _ _ E2 H1))) as H3. destruct (partial_version (space0 r2)) as [[p r']|]; auto.
    + pose proof (partial_version_rest _ (space0_rest r1 H1)) as H3. destruct (partial_version (space0 r1)) as [[p r']|]; auto.
Qed.
Lemma caret_p_stable : stable caret_p.
Proof.
  split; intros x; intros; unfold caret_p.
  - rewrite lit1_bar by (auto; discriminate). destruct (lit1 94 x) as [r|] eqn:E; [|reflexivity]. pose proof (lit1_rest _ _ _ E H) as Hr.
    rewrite space0_bar, partial_version_bar by now apply space0_rest. destruct (partial_version (space0 r)) as [[p r']|]; reflexivity.
  - destruct (lit1 94 x) as [r|] eqn:E; [|exact I]. pose proof (partial_version_rest _ (space0_rest r (lit1_rest _ _ _ E H))) as H3.
    destruct (partial_version (space0 r)) as [[p r']|]; auto.
Qed.
Lemma hyphen_p_stable : stable hyphen_p.
Proof.
  split; intros x; intros; unfold hyphen_p.
  - rewrite partial_version_bar by auto. pose proof (partial_version_rest x H) as H1. destruct (partial_version x) as [[lo s1]|]; [|reflexivity]. cbn [ext rest_ok] in *.
    rewrite space1_bar. destruct (space1 s1) as [s2|] eqn:E2; [|reflexivity]. pose proof (space1_rest _ _ E2 H1) as H2.
    rewrite lit1_bar by (auto; discriminate). destruct (lit1 45 s2) as [s3|] eqn:E3; [|reflexivity]. pose proof (lit1_rest _ _ _ E3 H2) as H3.
    rewrite space1_bar. destruct (space1 s3) as [s4|] eqn:E4; [|reflexivity]. pose proof (space1_rest _ _ E4 H3) as H4.
    rewrite partial_version_bar by auto. destruct (partial_version s4) as [[up r]|]; reflexivity.
  - pose proof (partial_version_rest x H) as H1. destruct (partial_version x) as [[lo s1]|]; [|exact I]. cbn [rest_ok] in *.
    destruct (space1 s1) as [s2|] eqn:E2; [|exact I]. pose proof (space1_rest _ _ E2 H1) as H2.
    destruct (lit1 45 s2) as [s3|] eqn:E3; [|exact I]. pose proof (lit1_rest _ _ _ E3 H2) as H3.
    destruct (space1 s3) as [s4|] eqn:E4; [|exact I]. pose proof (partial_version_rest _ (space1_rest _ _ E4 H3)) as H5.
    destruct (partial_version s4) as [[up r]|]; auto.
Qed.

(** terminators see `||` exactly as they see the end *)
Lemma at_term_bar x y : barfree x -> at_term (x ++ BAR y) = at_term x.
Proof.
  intro Hx. destruct x as [|c r]; [reflexivity|]. apply barfree_cons in Hx as [Hc _]. unfold at_term. cbn [app]. f_equal.
  cbn [lit]. rewrite (N.eqb_sym 124 c), Hc. reflexivity.
Qed.
Lemma terminated_p_bar (p : str -> option (option boundset * str)) : stable p -> stable (terminated_p p).
Proof.
  intros [P1 P2]. split; intros x; intros; unfold terminated_p.
  - rewrite P1 by auto. specialize (P2 x H). destruct (p x) as [[b r]|]; [|reflexivity]. cbn [ext rest_ok] in *. rewrite at_term_bar by auto. destruct (at_term r); reflexivity.
  - specialize (P2 x H). destruct (p x) as [[b r]|]; [|exact I]. destruct (at_term r); auto. exact I.
Qed.
Lemma garbage_bar x y : barfree x -> garbage (x ++ BAR y) = garbage x ++ BAR y.
Proof.
  induction x as [|c r IH]; intro Hx; [reflexivity|].
  change (garbage ((c :: r) ++ BAR y)) with (if at_term ((c :: r) ++ BAR y) then (c :: r) ++ BAR y else garbage (r ++ BAR y)).
  change (garbage (c :: r)) with (if at_term (c :: r) then c :: r else garbage r).
  rewrite at_term_bar by auto. destruct (at_term (c :: r)); [reflexivity|]. apply IH. apply barfree_cons in Hx. tauto.
Qed.
Lemma garbage_rest x : barfree x -> barfree (garbage x).
Proof.
  induction x as [|c r IH]; intro Hx; [exact Hx|]. change (garbage (c :: r)) with (if at_term (c :: r) then c :: r else garbage r).
  destruct (at_term (c :: r)); auto. apply IH. apply barfree_cons in Hx. tauto.
Qed.
Lemma simple_bar x y : barfree x -> simple (x ++ BAR y) = (fst (simple x), snd (simple x) ++ BAR y).
Proof.
  intro Hx. unfold simple.
  destruct (terminated_p_bar _ primitive_p_stable) as [A1 _]. destruct (terminated_p_bar _ partial_p_stable) as [A2 _].
  destruct (terminated_p_bar _ tilde_p_stable) as [A3 _]. destruct (terminated_p_bar _ caret_p_stable) as [A4 _].
  rewrite A1, A2, A3, A4 by auto.
  destruct (terminated_p primitive_p x) as [[b r]|]; [reflexivity|]. destruct (terminated_p partial_p x) as [[b r]|]; [reflexivity|].
  destruct (terminated_p tilde_p x) as [[b r]|]; [reflexivity|]. destruct (terminated_p caret_p x) as [[b r]|]; [reflexivity|].
  cbn [ext fst snd]. now rewrite garbage_bar.
Qed.
Lemma simple_rest x : barfree x -> barfree (snd (simple x)).
Proof.
  intro Hx. unfold simple.
  destruct (terminated_p_bar _ primitive_p_stable) as [_ A1]. destruct (terminated_p_bar _ partial_p_stable) as [_ A2].
  destruct (terminated_p_bar _ tilde_p_stable) as [_ A3]. destruct (terminated_p_bar _ caret_p_stable) as [_ A4].
  specialize (A1 x Hx). specialize (A2 x Hx). specialize (A3 x Hx). specialize (A4 x Hx).
  destruct (terminated_p primitive_p x) as [[b r]|]; [exact A1|]. destruct (terminated_p partial_p x) as [[b r]|]; [exact A2|].
  destruct (terminated_p tilde_p x) as [[b r]|]; [exact A3|]. destruct (terminated_p caret_p x) as [[b r]|]; [exact A4|].
  cbn. now apply garbage_rest.
Qed.

(** the comparator loop *)
Lemma simples_tail_fuel_eq f : forall f' s, (length s <= f)%nat -> (length s <= f')%nat -> simples_tail f s = simples_tail f' s.
Proof.
  induction f as [|f IH]; intros f' s H1 H2.
  - destruct s; [|cbn in H1; lia]. destruct f'; reflexivity.
  - destruct f' as [|f'].
    + destruct s; [|cbn in H2; lia]. reflexivity.
    + cbn [simples_tail]. destruct (space1 s) as [s1|] eqn:E1; [|reflexivity]. apply space1_len in E1.
      destruct (simple s1) as [b s2] eqn:E2. apply simple_len in E2. rewrite (IH f' s2) by lia. reflexivity.
Qed.
Lemma simples_tail_bar f : forall x y, barfree x -> (length x <= f)%nat ->
  simples_tail (f + 2 + length y) (x ++ BAR y) = ext (BAR y) (simples_tail f x).
Proof.
  induction f as [|f IH]; intros x y Hx Hf.
  - destruct x; [|cbn in Hf; lia]. reflexivity.
  - cbn [Nat.add simples_tail]. rewrite space1_bar. destruct (space1 x) as [s1|] eqn:E1; [|reflexivity].
    pose proof (space1_rest _ _ E1 Hx) as H1. apply space1_len in E1. rewrite (simple_bar s1 y H1).
    pose proof (simple_rest s1 H1) as H2. destruct (simple s1) as [b s2] eqn:E2. cbn [fst snd] in *. apply simple_len in E2.
    rewrite (IH s2 y H2) by lia. destruct (simples_tail f s2) as [[l r]|]; reflexivity.
Qed.
Lemma simples_tail_rest f : forall x, barfree x -> rest_ok (simples_tail f x).
Proof.
  induction f as [|f IH]; intros x Hx; cbn [simples_tail].
  - destruct (space1 x); cbn; auto.
  - destruct (space1 x) as [s1|] eqn:E1; cbn; auto. pose proof (space1_rest _ _ E1 Hx) as H1.
    pose proof (simple_rest s1 H1) as H2. destruct (simple s1) as [b s2]. cbn in H2. specialize (IH s2 H2).
    destruct (simples_tail f s2) as [[l r]|]; cbn in *; auto.
Qed.
Lemma simples_p_bar x y : barfree x -> simples_p (x ++ BAR y) = ext (BAR y) (simples_p x).
Proof.
  intro Hx. unfold simples_p. rewrite (simple_bar x y Hx). pose proof (simple_rest x Hx) as H1. destruct (simple x) as [b s1]. cbn [fst snd] in *.
  assert (E : simples_tail (length (s1 ++ BAR y)) (s1 ++ BAR y) = simples_tail (length s1 + 2 + length y) (s1 ++ BAR y)).
  { apply simples_tail_fuel_eq; rewrite app_length; cbn; lia. }
  rewrite E, (simples_tail_bar (length s1) s1 y H1 (le_n _)). destruct (simples_tail (length s1) s1) as [[l r]|]; reflexivity.
Qed.
Lemma simples_p_rest x : barfree x -> rest_ok (simples_p x).
Proof.
  intro Hx. unfold simples_p. pose proof (simple_rest x Hx) as H1. destruct (simple x) as [b s1]. cbn in H1.
  pose proof (simples_tail_rest (length s1) s1 H1) as H2. destruct (simples_tail (length s1) s1) as [[l r]|]; auto.
Qed.
Lemma at_alt_end_bar x y : barfree x -> at_alt_end (x ++ BAR y) = at_alt_end x.
Proof.
  intro Hx. unfold at_alt_end. rewrite space0_bar. pose proof (space0_rest x Hx) as H. destruct (space0 x) as [|c r]; [reflexivity|].
  apply barfree_cons in H as [Hc _]. cbn [app lit]. now rewrite (N.eqb_sym 124 c), Hc.
Qed.
Lemma at_empty_alt_bar t y : barfree t -> at_empty_alt (t ++ BAR y) = at_empty_alt t.
Proof.
  intro H. destruct t as [|c r]; [reflexivity|]. apply barfree_cons in H as [Hc _]. unfold at_empty_alt. cbn [app lit]. now rewrite (N.eqb_sym 124 c), Hc.
Qed.
Lemma range_p_bar x y : barfree x -> range_p (x ++ BAR y) = ext (BAR y) (range_p x).
Proof.
  intro Hx. unfold range_p. rewrite space0_bar. pose proof (space0_rest x Hx) as H0. set (t := space0 x) in *.
  rewrite (at_empty_alt_bar t y H0). destruct (at_empty_alt t); [reflexivity|].
  destruct hyphen_p_stable as [A B]. rewrite (A t y H0). specialize (B t H0). destruct (hyphen_p t) as [[b r]|]; cbn [ext rest_ok] in *.
  - rewrite at_alt_end_bar by auto. destruct (at_alt_end r); [reflexivity|]. now apply simples_p_bar.
  - now apply simples_p_bar.
Qed.
Lemma range_p_rest x : barfree x -> rest_ok (range_p x).
Proof.
  intro Hx. unfold range_p. pose proof (space0_rest x Hx) as H0. set (t := space0 x) in *.
  destruct (at_empty_alt t); [exact H0|].
  destruct hyphen_p_stable as [_ B]. specialize (B t H0). destruct (hyphen_p t) as [[b r]|]; cbn [rest_ok] in *.
  - destruct (at_alt_end r); [exact B|]. now apply simples_p_rest.
  - now apply simples_p_rest.
Qed.
(** what is left of a `|`-free text after its alternative is only blanks *)
Lemma at_term_barfree r : barfree r -> at_term r = true -> space1 r = None -> r = [].
Proof.
  intros Hb Ht Hs. destruct r as [|c t]; auto. exfalso. apply barfree_cons in Hb as [Hc _]. unfold at_term in Ht. cbn in Hs.
  destruct (is_space c); [discriminate|]. cbn [orb lit] in Ht. rewrite (N.eqb_sym 124 c), Hc in Ht. discriminate.
Qed.
Lemma terminated_at_term p s b r : terminated_p p s = Some (b, r) -> at_term r = true.
Proof. unfold terminated_p. destruct (p s) as [[b0 r0]|]; [|discriminate]. destruct (at_term r0) eqn:E; [|discriminate]. now intros [= _ <-]. Qed.
Lemma garbage_at_term s : at_term (garbage s) = true.
Proof. induction s as [|c t IH]; [reflexivity|]. change (garbage (c :: t)) with (if at_term (c :: t) then c :: t else garbage t). destruct (at_term (c :: t)) eqn:E; auto. Qed.
Lemma simple_at_term s : at_term (snd (simple s)) = true.
Proof.
  unfold simple.
  destruct (terminated_p primitive_p s) as [[b r]|] eqn:E1; [eapply terminated_at_term; eauto|].
  destruct (terminated_p partial_p s) as [[b r]|] eqn:E2; [eapply terminated_at_term; eauto|].
  destruct (terminated_p tilde_p s) as [[b r]|] eqn:E3; [eapply terminated_at_term; eauto|].
  destruct (terminated_p caret_p s) as [[b r]|] eqn:E4; [eapply terminated_at_term; eauto|]. apply garbage_at_term.
Qed.
Lemma simples_tail_end f : forall s l r, at_term s = true -> simples_tail f s = Some (l, r) -> at_term r = true /\ space1 r = None.
Proof.
  induction f as [|f IH]; intros s l r Hs; cbn [simples_tail].
  - destruct (space1 s) eqn:E; [discriminate|]. intros [= _ <-]. auto.
  - destruct (space1 s) as [s1|] eqn:E; [|intros [= _ <-]; auto].
    pose proof (simple_at_term s1) as H1. destruct (simple s1) as [b s2]. cbn in H1.
    destruct (simples_tail f s2) as [[l' r']|] eqn:E2; [|discriminate]. intros [= _ <-]. eapply IH; eauto.
Qed.
Lemma range_p_blank_rest x bs r : barfree x -> range_p x = Some (bs, r) -> space0 r = [].
Proof.
  intros Hx H. pose proof (range_p_rest x Hx) as Hr. rewrite H in Hr. cbn in Hr. unfold range_p in H. set (t := space0 x) in *.
  assert (S : forall bs r, simples_p t = Some (bs, r) -> barfree r -> r = []).
  { intros bs0 r0 E Hb. unfold simples_p in E. pose proof (simple_at_term t) as H1. destruct (simple t) as [b s1]. cbn in H1.
    destruct (simples_tail (length s1) s1) as [[l r']|] eqn:E2; [|discriminate]. injection E as _ <-.
    destruct (simples_tail_end _ _ _ _ H1 E2) as [A B]. now apply at_term_barfree. }
  destruct (at_empty_alt t) eqn:Ee.
  { injection H as _ <-. pose proof (space0_rest x Hx) as Hs. fold t in Hs. destruct t as [|c u]; [reflexivity|].
    apply barfree_cons in Hs as [Hc _]. unfold at_empty_alt in Ee. cbn [lit] in Ee. rewrite (N.eqb_sym 124 c), Hc in Ee. discriminate. }
  destruct (hyphen_p t) as [[b r0]|] eqn:Eh.
  - destruct (at_alt_end r0) eqn:Ea.
    + injection H as _ ->. unfold at_alt_end in Ea. pose proof (space0_rest r Hr) as Hs. destruct (space0 r) as [|c u]; auto.
      apply barfree_cons in Hs as [Hc _]. cbn [lit] in Ea. rewrite (N.eqb_sym 124 c), Hc in Ea. discriminate.
    + rewrite (S bs r H Hr). reflexivity.
  - rewrite (S bs r H Hr). reflexivity.
Qed.

(** the alternative loop *)
Lemma logical_or_len' s r : logical_or s = Some r -> (length r < length s)%nat.
Proof. apply logical_or_len. Qed.
Lemma ranges_tail_fuel_eq f : forall f' s, (length s <= f)%nat -> (length s <= f')%nat -> ranges_tail f s = ranges_tail f' s.
Proof.
  induction f as [|f IH]; intros f' s H1 H2.
  - destruct s; [|cbn in H1; lia]. destruct f'; reflexivity.
  - destruct f' as [|f'].
    + destruct s; [|cbn in H2; lia]. reflexivity.
    + cbn [ranges_tail]. destruct (logical_or s) as [s1|] eqn:E1; [|reflexivity]. apply logical_or_len in E1.
      destruct (range_p_total s1) as (bs & s2 & E2 & L2). rewrite E2. rewrite (IH f' s2) by lia. reflexivity.
Qed.
Lemma bound_sets_unfold s : bound_sets s = match range_p s with
  | None => None
  | Some (bs, s1) => match ranges_tail (length s1) s1 with Some (l, r) => Some (bs ++ l, r) | None => None end end.
Proof. reflexivity. Qed.
Lemma range_p_skip0 y : range_p (space0 y) = range_p y.
Proof. unfold range_p. assert (E : space0 (space0 y) = space0 y). { unfold space0. induction y as [|c t IH]; cbn; auto. destruct (is_space c) eqn:Ec; auto. cbn. now rewrite Ec. } now rewrite E. Qed.

(** alternatives are independent: a `|`-free text followed by `||` and ANY text *)
Theorem alt_independent x y : barfree x ->
  exists bs w, range_p x = Some (bs, w) /\ space0 w = [] /\ bound_sets x = Some (bs, w) /\
    bound_sets (x ++ BAR y) = match bound_sets y with Some (l, r) => Some (bs ++ l, r) | None => None end.
Proof.
  intro Hx. destruct (range_p_total x) as (bs & w & E & _). pose proof (range_p_blank_rest x bs w Hx E) as Hw.
  exists bs, w. split; [exact E|]. split; [exact Hw|]. split.
  - rewrite bound_sets_unfold, E. assert (L : logical_or w = None) by (unfold logical_or; now rewrite Hw).
    destruct (length w); cbn [ranges_tail]; rewrite L; now rewrite app_nil_r.
  - rewrite bound_sets_unfold, (range_p_bar x y Hx), E. cbn [ext].
    assert (L : logical_or (w ++ BAR y) = Some (space0 y)).
    { unfold logical_or. rewrite space0_bar, Hw. reflexivity. }
    assert (F : (1 <= length (w ++ BAR y))%nat) by (rewrite app_length; cbn; lia).
    destruct (length (w ++ BAR y)) as [|f] eqn:El; [lia|]. cbn [ranges_tail]. rewrite L, range_p_skip0.
    rewrite bound_sets_unfold. destruct (range_p_total y) as (bs' & s2 & E2 & L2). rewrite E2.
    rewrite (ranges_tail_fuel_eq f (length s2) s2); [|rewrite app_length in El; cbn in El; lia|lia].
    destruct (ranges_tail (length s2) s2) as [[l r]|]; reflexivity.
Qed.

(** ** consequences for [Range::parse] *)
From Semver Require Import NpmRange RangeText Interval SetOps RangeOps RangeLaws AndFold LayerB.
Lemma r_parse_sets s : exists l r, bound_sets s = Some (l, r) /\ r_parse s = match l with [] => RErr (mkErr s 0 KNoValidRanges) | _ => ROk l end.
Proof. destruct (bound_sets_total s) as (l & r & E). exists l, r. split; auto. unfold r_parse. rewrite E. destruct l; reflexivity. Qed.
Lemma sat_res_sets s l r v : bound_sets s = Some (l, r) -> sat_res (r_parse s) v = r_satisfies l v.
Proof. intro E. unfold r_parse. rewrite E. destruct l; reflexivity. Qed.

(** `x || y` for a `|`-free x and an ARBITRARY y: satisfied exactly by what satisfies x or y *)
Theorem or_any x y v : barfree x -> sat_res (r_parse (x ++ BAR y)) v = sat_res (r_parse x) v || sat_res (r_parse y) v.
Proof.
  intro Hx. destruct (alt_independent x y Hx) as (bs & w & _ & _ & Ex & Exy). destruct (bound_sets_total y) as (l & r & Ey). rewrite Ey in Exy.
  rewrite (sat_res_sets _ _ _ v Exy), (sat_res_sets _ _ _ v Ex), (sat_res_sets _ _ _ v Ey). apply alternatives_app.
Qed.
(** ... and if both parse, it parses to the concatenation *)
Theorem or_any_parses x y A B : barfree x -> r_parse x = ROk A -> r_parse y = ROk B -> r_parse (x ++ BAR y) = ROk (A ++ B).
Proof.
  intros Hx EA EB. destruct (alt_independent x y Hx) as (bs & w & _ & _ & Ex & Exy). destruct (bound_sets_total y) as (l & r & Ey). rewrite Ey in Exy.
  unfold r_parse in *. rewrite Ex in EA. rewrite Ey in EB. rewrite Exy.
  destruct bs as [|b0 bs]; [discriminate|]. injection EA as <-. destruct l as [|l0 l]; [discriminate|]. injection EB as <-. reflexivity.
Qed.
(** it fails to parse exactly when both sides do *)
Theorem or_any_fails x y : barfree x -> (exists e, r_parse (x ++ BAR y) = RErr e) <-> (exists e1, r_parse x = RErr e1) /\ (exists e2, r_parse y = RErr e2).
Proof.
  intro Hx. destruct (alt_independent x y Hx) as (bs & w & _ & _ & Ex & Exy). destruct (bound_sets_total y) as (l & r & Ey). rewrite Ey in Exy.
  unfold r_parse. rewrite Ex, Ey, Exy. destruct bs as [|b0 bs], l as [|l0 l]; cbn [app]; split; try (intros [e H]; discriminate); try (intros [[e1 H1] [e2 H2]]; discriminate); eauto.
Qed.

(** several alternatives: any list of `|`-free segments joined by `||` *)
Fixpoint join (xs : list str) : str := match xs with [] => [] | [x] => x | x :: rest => x ++ BAR (join rest) end.
Theorem or_join xs ys v : xs <> [] -> ys <> [] -> Forall barfree xs ->
  sat_res (r_parse (join (xs ++ ys))) v = sat_res (r_parse (join xs)) v || sat_res (r_parse (join ys)) v.
Proof.
  intros Nx Ny Hb. induction xs as [|x xs IH]; [congruence|]. inversion Hb as [|? ? Hx Hxs]; subst.
  destruct xs as [|x2 xs].
  - cbn [app]. destruct ys as [|y ys]; [congruence|]. change (join (x :: y :: ys)) with (x ++ BAR (join (y :: ys))). cbn [join]. now apply or_any.
  - change (join ((x :: x2 :: xs) ++ ys)) with (x ++ BAR (join ((x2 :: xs) ++ ys))). change (join (x :: x2 :: xs)) with (x ++ BAR (join (x2 :: xs))).
    rewrite !or_any by auto. rewrite IH by (auto; discriminate). now rewrite orb_assoc.
Qed.
