(** Layer B for the canonical printer (C13): [Range::parse] reads back what [Display]
    writes.  Each printed interval shape is traced through [simple] (the earlier
    alternatives of its [alt] fail, the right one succeeds and is followed by a
    terminator), the two-comparator shapes through the AND-fold, and the `||`-joined list
    through [bound_sets]. *)
From Semver Require Import Version VersionOrder C04Proofs VParse VersionGrammar Range RParse Interval SetOps RangeOps RangeLaws
  ParseLen ParseWf DecLemmas ParseLemmas VersionRT NoPanic.
From Coq Require Import Lia.
Set Default Timeout 180.

(** ** characters *)
Lemma digit_facts c : is_digit c = true ->
  is_space c = false /\ is_wild c = false /\ (c =? 118) = false /\ (c =? 62) = false /\ (c =? 61) = false /\
  (c =? 60) = false /\ (c =? 126) = false /\ (c =? 94) = false /\ (c =? 124) = false /\ (c =? 45) = false.
Proof.
  unfold is_digit, is_space, is_wild. rewrite andb_true_iff, !N.leb_le. intros [H1 H2].
  repeat split; repeat match goal with |- context [?a =? ?b] => destruct (N.eqb_spec a b); [lia|] end; reflexivity.
Qed.
Lemma vprint_head w : exists c t, vprint w = c :: t /\ is_digit c = true.
Proof.
  unfold vprint. pose proof (print_N_nonempty (major w)) as Hn. pose proof (print_N_digits (major w)) as Hd.
  destruct (print_N (major w)) as [|c t] eqn:E; [congruence|]. cbn in Hd. apply andb_true_iff in Hd as [Hc _].
  exists c. eexists. split; [reflexivity|exact Hc].
Qed.

(** what may follow a comparator: end of input, a blank, or `||` *)
Definition term (r : str) : Prop := at_term r = true.
Lemma term_cases r : term r -> r = [] \/ (exists c t, r = c :: t /\ is_space c = true) \/ (exists t, r = 124 :: 124 :: t).
Proof.
  unfold term, at_term. destruct r as [|c t]; auto. intro H. apply orb_true_iff in H as [H|H]; [right; left; eauto|].
  right; right. destruct (lit [124; 124] (c :: t)) as [t'|] eqn:E; [|discriminate H].
  cbn [lit] in E. destruct (124 =? c) eqn:E1; [|discriminate E]. apply N.eqb_eq in E1. subst c.
  destruct t as [|d t]; [discriminate E|]. destruct (124 =? d) eqn:E2; [|discriminate E]. apply N.eqb_eq in E2. subst d. eauto.
Qed.
Lemma space_not_ident c : is_space c = true -> is_ident_char c = false /\ (c =? 46) = false /\ (c =? 43) = false /\ is_digit c = false.
Proof.
  unfold is_space. intro H. apply orb_true_iff in H as [E|E]; apply N.eqb_eq in E; subst; repeat split; reflexivity.
Qed.
Lemma term_stop_extras r : term r -> stop_extras r.
Proof.
  intro H. destruct (term_cases r H) as [->|[(c & t & -> & Hc)|(t & ->)]].
  - repeat split; discriminate.
  - destruct (space_not_ident c Hc) as (A & B & C & _). repeat split; cbn; auto.
    + intros t' H'. rewrite B in H'. discriminate.
    + now rewrite C.
  - repeat split; cbn; auto; discriminate.
Qed.
Lemma term_not_digit r : term r -> not_head is_digit r.
Proof.
  intro H. destruct (term_cases r H) as [->|[(c & t & -> & Hc)|(t & ->)]]; cbn; auto.
  now destruct (space_not_ident c Hc) as (_ & _ & _ & D).
Qed.

(** ** a printed version read as a partial version *)
Definition full_partial (w : version) : partial_t :=
  mkP (Some (major w)) (Some (minor w)) (Some (patch w)) (pre w) (build w).
Lemma partial_into_full w : partial_into (full_partial w) = w.
Proof. destruct w; reflexivity. Qed.

Lemma number_o_fwd n r : n <= MAX_SAFE_INTEGER -> not_head is_digit r -> number_o (print_N n ++ r) = Some (n, r).
Proof.
  intros Hn Hr. unfold number_o. destruct (print_N_num_text n Hn) as (D & V & _).
  pose proof (number_fwd (print_N n) r D Hr) as F. rewrite V in F. now rewrite (F Hn).
Qed.
Lemma component_fwd n r : n <= MAX_SAFE_INTEGER -> not_head is_digit r -> component (print_N n ++ r) = Some (Some n, r).
Proof.
  intros Hn Hr. unfold component. pose proof (print_N_nonempty n) as Hne. pose proof (print_N_digits n) as Hd.
  pose proof (number_o_fwd n r Hn Hr) as F.
  destruct (print_N n) as [|c t] eqn:E; [congruence|]. cbn in Hd. apply andb_true_iff in Hd as [Hc _].
  destruct (digit_facts c Hc) as (_ & W & _). cbn [app] in *. rewrite W, F. reflexivity.
Qed.
Lemma opt_dot_component_fwd n r : n <= MAX_SAFE_INTEGER -> not_head is_digit r ->
  opt_dot_component (46 :: print_N n ++ r) = (Some (Some n), r).
Proof. intros. unfold opt_dot_component. rewrite lit1_fwd, component_fwd; auto. Qed.

Theorem partial_version_print w r : canonical_version w -> term r ->
  partial_version (vprint w ++ r) = Some (full_partial w, r).
Proof.
  intros (H1 & H2 & H3 & H4 & H5) Hr. unfold partial_version.
  destruct (vprint_head w) as (c & t & E & Hc). destruct (digit_facts c Hc) as (Sp & _ & V & _).
  assert (E1 : opt_lit1 118 (vprint w ++ r) = vprint w ++ r).
  { rewrite E. unfold opt_lit1. cbn [app lit1]. now rewrite V. }
  rewrite E1.
  assert (E2 : space0 (vprint w ++ r) = vprint w ++ r).
  { rewrite E. unfold space0. cbn [app drop_while]. now rewrite Sp. }
  rewrite E2. unfold vprint. rewrite <- !app_assoc. cbn [app]. rewrite <- !app_assoc. cbn [app].
  rewrite (component_fwd (major w)) by (auto; reflexivity).
  rewrite (opt_dot_component_fwd (minor w)) by (auto; reflexivity).
  assert (Hd : not_head is_digit ((print_idents 45 (pre w) ++ print_idents 43 (build w)) ++ r)).
  { eapply extras_text_not_digit; [apply (print_extras_text (pre w) (build w) H4 H5)|]. now apply term_not_digit. }
  rewrite <- app_assoc in Hd.
  rewrite <- !app_assoc. rewrite (opt_dot_component_fwd (patch w)) by auto.
  rewrite app_assoc.
  rewrite (extras_fwd _ (pre w) (build w) r (extras_text_loosen _ _ _ (print_extras_text _ _ H4 H5)) (term_stop_extras r Hr)).
  reflexivity.
Qed.

(** ** printed comparators through [simple] *)
Lemma operation_gte s : operation_p (62 :: 61 :: s) = Some (OpGTE, s).
Proof. reflexivity. Qed.
Lemma operation_lte s : operation_p (60 :: 61 :: s) = Some (OpLTE, s).
Proof. reflexivity. Qed.
Lemma operation_gt c t : is_digit c = true -> operation_p (62 :: c :: t) = Some (OpGT, c :: t).
Proof. intro H. destruct (digit_facts c H) as (_ & _ & _ & _ & E & _). unfold operation_p. cbn [lit lit1]. rewrite N.eqb_refl, (N.eqb_sym 61 c), E. reflexivity. Qed.
Lemma operation_lt c t : is_digit c = true -> operation_p (60 :: c :: t) = Some (OpLT, c :: t).
Proof. intro H. destruct (digit_facts c H) as (_ & _ & _ & _ & E & _). unfold operation_p. cbn [lit lit1]. rewrite N.eqb_refl, (N.eqb_sym 61 c), E. reflexivity. Qed.
Lemma operation_digit c t : is_digit c = true -> operation_p (c :: t) = None.
Proof.
  intro H. destruct (digit_facts c H) as (_ & _ & _ & E62 & E61 & E60 & _). unfold operation_p. cbn [lit lit1].
  rewrite (N.eqb_sym 62 c), (N.eqb_sym 60 c), E62, E61, E60. reflexivity.
Qed.

Lemma partial_version_op c s : (c = 62 \/ c = 60) -> partial_version (c :: s) = None.
Proof.
  intro H. unfold partial_version, opt_lit1, space0, component, number_o, number.
  destruct H as [-> | ->]; cbn [lit1 N.eqb Pos.eqb drop_while is_space orb is_wild span is_digit andb N.leb N.compare Pos.compare Pos.compare_cont with_ctx]; reflexivity.
Qed.
Lemma hyphen_p_op c s : (c = 62 \/ c = 60) -> hyphen_p (c :: s) = None.
Proof.
  intro H. unfold hyphen_p. rewrite (partial_version_op c s H). destruct H as [-> | ->]; reflexivity.
Qed.
Lemma space1_term_not_blank r : (r = [] \/ exists t, r = 124 :: t) -> space1 r = None.
Proof. intros [->|(t & ->)]; reflexivity. Qed.
Lemma hyphen_p_version w r : canonical_version w -> term r -> (r = [] \/ exists t, r = 124 :: t) ->
  hyphen_p (vprint w ++ r) = None.
Proof.
  intros Cw Hr Hb. unfold hyphen_p. rewrite (partial_version_print w r Cw Hr). now rewrite (space1_term_not_blank r Hb).
Qed.

Lemma primitive_full_gte w : primitive_tbl OpGTE (full_partial w) = at_least (Including w).
Proof. unfold primitive_tbl. cbn. now rewrite partial_into_full. Qed.
Lemma primitive_full_gt w : primitive_tbl OpGT (full_partial w) = at_least (Excluding w).
Proof. unfold primitive_tbl. cbn. now rewrite partial_into_full. Qed.
Lemma primitive_full_lt w : primitive_tbl OpLT (full_partial w) = at_most (Excluding w).
Proof. destruct w; reflexivity. Qed.
Lemma primitive_full_lte w : primitive_tbl OpLTE (full_partial w) = at_most (Including w).
Proof. unfold primitive_tbl. cbn. now rewrite partial_into_full. Qed.
Lemma partial_full w : partial_tbl (full_partial w) = exact w.
Proof. unfold partial_tbl. cbn. now rewrite partial_into_full. Qed.

Definition op_text (op : operation) : str :=
  match op with OpGTE => [62; 61] | OpGT => [62] | OpLTE => [60; 61] | OpLT => [60] | OpExact => [61] end.
Lemma space0_digit c t : is_digit c = true -> space0 (c :: t) = c :: t.
Proof. intro H. destruct (digit_facts c H) as (Sp & _). unfold space0. cbn. now rewrite Sp. Qed.

Lemma primitive_p_print op w r : op <> OpExact -> canonical_version w -> term r ->
  primitive_p (op_text op ++ vprint w ++ r) = Some (primitive_tbl op (full_partial w), r).
Proof.
  intros Hop Cw Hr. destruct (vprint_head w) as (c & t & E & Hc). unfold primitive_p.
  assert (Eo : operation_p (op_text op ++ vprint w ++ r) = Some (op, vprint w ++ r)).
  { rewrite E. destruct op; cbn [op_text app]; try congruence;
      [apply operation_gt|apply operation_gte|apply operation_lt|apply operation_lte]; auto. }
  rewrite Eo. rewrite E at 1. cbn [app]. rewrite (space0_digit c _ Hc).
  change (c :: t ++ r) with ((c :: t) ++ r). rewrite <- E. now rewrite (partial_version_print w r Cw Hr).
Qed.

Lemma simple_primitive op w r : op <> OpExact -> canonical_version w -> term r ->
  simple (op_text op ++ vprint w ++ r) = (primitive_tbl op (full_partial w), r).
Proof.
  intros Hop Cw Hr. unfold simple, terminated_p.
  rewrite (primitive_p_print op w r Hop Cw Hr). unfold term in Hr. now rewrite Hr.
Qed.
Lemma simple_bare w r : canonical_version w -> term r -> (r = [] \/ exists t, r = 124 :: t) ->
  simple (vprint w ++ r) = (exact w, r).
Proof.
  intros Cw Hr Hb. unfold simple, terminated_p.
  destruct (vprint_head w) as (c & t & E & Hc).
  assert (Hp : primitive_p (vprint w ++ r) = None).
  { unfold primitive_p. rewrite E. cbn [app]. now rewrite (operation_digit c _ Hc). }
  rewrite Hp. unfold partial_p. rewrite (partial_version_print w r Cw Hr), partial_full. unfold term in Hr. now rewrite Hr.
Qed.

(** ** one printed alternative through [range_p] *)
Definition pred_canon (p : pred) : Prop :=
  match p with Including v | Excluding v => canonical_version v | Unbounded => True end.
Definition printable_bs (bs : boundset) : Prop :=
  pred_canon (predicate (bs_lower bs)) /\ pred_canon (predicate (bs_upper bs)) /\
  ~ (predicate (bs_lower bs) = Unbounded /\ predicate (bs_upper bs) = Unbounded).
Definition printable (R : range) : Prop := Forall printable_bs R.

(** what follows an alternative: the end, or `||` *)
Definition alt_end (r : str) : Prop := r = [] \/ exists t, r = 124 :: 124 :: t.
Lemma alt_end_term r : alt_end r -> term r.
Proof. intros [->|(t & ->)]; reflexivity. Qed.
Lemma alt_end_bar r : alt_end r -> r = [] \/ exists t, r = 124 :: t.
Proof. intros [->|(t & ->)]; eauto. Qed.
Lemma alt_end_space1 r : alt_end r -> space1 r = None.
Proof. intros [->|(t & ->)]; reflexivity. Qed.

Lemma simples_tail_stop f r : alt_end r -> simples_tail f r = Some ([], r).
Proof. intro H. destruct f; cbn; now rewrite (alt_end_space1 r H). Qed.

Lemma bmax_unb p : p <> Unbounded -> bmax (Lower p) (Lower Unbounded) = Lower p.
Proof. destruct p; try congruence; reflexivity. Qed.
Lemma bmin_unb p : p <> Unbounded -> bmin (Upper Unbounded) (Upper p) = Upper p.
Proof. destruct p; try congruence; reflexivity. Qed.

Lemma range_p_no_hyphen s : space0 s = s -> at_empty_alt s = false -> hyphen_p s = None -> range_p s = simples_p s.
Proof. intros H0 He H. unfold range_p. now rewrite H0, He, H. Qed.
Lemma lit_bars_digit c t : is_digit c = true -> lit [124; 124] (c :: t) = None.
Proof. intro Hc. cbn [lit]. destruct (N.eqb_spec c 124) as [->|Hn]; [discriminate Hc|]. unfold lit1. destruct (N.eqb_spec 124 c) as [E|_]; [congruence|reflexivity]. Qed.
Lemma at_empty_alt_op_text op t : op <> OpExact -> at_empty_alt (op_text op ++ t) = false.
Proof. intro Hop. destruct op; cbn [op_text app]; try congruence; reflexivity. Qed.
Lemma at_empty_alt_vprint w r : at_empty_alt (vprint w ++ r) = false.
Proof. destruct (vprint_head w) as (c & t & -> & Hc). cbn [app]. unfold at_empty_alt. now rewrite lit_bars_digit. Qed.
Lemma space0_op_text op t : op <> OpExact -> space0 (op_text op ++ t) = op_text op ++ t.
Proof. intro Hop. destruct op; cbn [op_text app]; try congruence; reflexivity. Qed.
Lemma space0_vprint w r : space0 (vprint w ++ r) = vprint w ++ r.
Proof. destruct (vprint_head w) as (c & t & -> & Hc). cbn [app]. now apply space0_digit. Qed.
Lemma hyphen_p_op_text op t : op <> OpExact -> hyphen_p (op_text op ++ t) = None.
Proof. intro Hop. destruct op; cbn [op_text app]; try congruence; apply hyphen_p_op; auto. Qed.
Lemma one_token op w r : op <> OpExact -> canonical_version w -> alt_end r ->
  range_p (op_text op ++ vprint w ++ r) = Some (and_fold (flatten_opts [primitive_tbl op (full_partial w)]), r).
Proof.
  intros Hop Cw Hr. rewrite range_p_no_hyphen; [|now apply space0_op_text|now apply at_empty_alt_op_text|now apply hyphen_p_op_text]. unfold simples_p. rewrite (simple_primitive op w r Hop Cw (alt_end_term r Hr)).
  now rewrite (simples_tail_stop _ r Hr).
Qed.
Lemma two_tokens op1 w1 op2 w2 r : op1 <> OpExact -> op2 <> OpExact -> (op2 = OpLT \/ op2 = OpLTE) ->
  canonical_version w1 -> canonical_version w2 -> alt_end r ->
  range_p (op_text op1 ++ vprint w1 ++ 32 :: op_text op2 ++ vprint w2 ++ r) =
  Some (and_fold (flatten_opts [primitive_tbl op1 (full_partial w1); primitive_tbl op2 (full_partial w2)]), r).
Proof.
  intros H1 H2 H2' C1 C2 Hr. rewrite range_p_no_hyphen; [|now apply space0_op_text|now apply at_empty_alt_op_text|now apply hyphen_p_op_text]. unfold simples_p.
  rewrite (simple_primitive op1 w1 (32 :: op_text op2 ++ vprint w2 ++ r) H1 C1) by reflexivity.
  cbn [length]. cbn [simples_tail space1 is_space N.eqb Pos.eqb orb].
  assert (Es : space0 (op_text op2 ++ vprint w2 ++ r) = op_text op2 ++ vprint w2 ++ r) by (destruct H2' as [-> | ->]; reflexivity).
  rewrite Es. rewrite (simple_primitive op2 w2 r H2 C2 (alt_end_term r Hr)). now rewrite (simples_tail_stop _ r Hr).
Qed.

Lemma and_fold_one b : and_fold [b] = [b]. Proof. reflexivity. Qed.

Ltac norm_text := unfold op_gte, op_lte; cbn [app]; repeat (rewrite <- app_assoc; cbn [app]).
Lemma bs_eqb_refl b : bs_eqb b b = true.
Proof. unfold bs_eqb. now rewrite !bound_eqb_refl. Qed.

Theorem range_p_print bs s r : wf_bs bs -> printable_bs bs -> bs_print bs = Ok s -> alt_end r ->
  exists bs', range_p (s ++ r) = Some ([bs'], r) /\ bs_eqb bs' bs = true /\ bs_print bs' = Ok s.
Proof.
  intros (Hl & Hu & Hv) (Cl & Cu & Nu) Hp Hr. destruct bs as [u l]. cbn [bs_lower bs_upper] in *.
  destruct l as [pl|]; [|discriminate]. destruct u as [|pu]; [discriminate|]. cbn [predicate] in *.
  assert (Refl : forall x, veqb x x = true) by (intro; apply veqb_vcmp, v_refl).
  unfold bs_print in Hp; cbn [bs_lower bs_upper] in Hp.
  destruct pl as [vl|vl|], pu as [vu|vu|]; cbn [pred_canon] in *.
  - (* >vl <vu *)
    injection Hp as <-. exists (mkBS (Upper (Excluding vu)) (Lower (Excluding vl))). split; [|split; [apply bs_eqb_refl|try reflexivity; unfold bs_print; cbn [bs_upper bs_lower]; now rewrite Ev]].
    norm_text. pose proof (two_tokens OpGT vl OpLT vu r) as T. cbn [op_text app] in T. rewrite T by (auto; discriminate).
    rewrite primitive_full_gt, primitive_full_lt. unfold at_least, at_most. cbn [bs_new blt bcmp flatten_opts].
    unfold and_fold. cbn [fold_left]. unfold bs_intersect. cbn [bs_lower bs_upper]. rewrite bmax_unb, bmin_unb by discriminate.
    now rewrite (valid_bs_new _ _ Hv).
  - (* >vl <=vu *)
    injection Hp as <-. exists (mkBS (Upper (Including vu)) (Lower (Excluding vl))). split; [|split; [apply bs_eqb_refl|try reflexivity; unfold bs_print; cbn [bs_upper bs_lower]; now rewrite Ev]].
    norm_text. pose proof (two_tokens OpGT vl OpLTE vu r) as T. cbn [op_text app] in T. rewrite T by (auto; discriminate).
    rewrite primitive_full_gt, primitive_full_lte. unfold at_least, at_most. cbn [bs_new blt bcmp flatten_opts].
    unfold and_fold. cbn [fold_left]. unfold bs_intersect. cbn [bs_lower bs_upper]. rewrite bmax_unb, bmin_unb by discriminate.
    now rewrite (valid_bs_new _ _ Hv).
  - (* >vl *)
    injection Hp as <-. exists (mkBS (Upper Unbounded) (Lower (Excluding vl))). split; [|split; [apply bs_eqb_refl|try reflexivity; unfold bs_print; cbn [bs_upper bs_lower]; now rewrite Ev]].
    norm_text. pose proof (one_token OpGT vl r) as T. cbn [op_text app] in T. rewrite T by (auto; discriminate).
    rewrite primitive_full_gt. reflexivity.
  - (* >=vl <vu *)
    injection Hp as <-. exists (mkBS (Upper (Excluding vu)) (Lower (Including vl))). split; [|split; [apply bs_eqb_refl|try reflexivity; unfold bs_print; cbn [bs_upper bs_lower]; now rewrite Ev]].
    norm_text. pose proof (two_tokens OpGTE vl OpLT vu r) as T. cbn [op_text app] in T. rewrite T by (auto; discriminate).
    rewrite primitive_full_gte, primitive_full_lt. unfold at_least, at_most. cbn [bs_new blt bcmp flatten_opts].
    unfold and_fold. cbn [fold_left]. unfold bs_intersect. cbn [bs_lower bs_upper]. rewrite bmax_unb, bmin_unb by discriminate.
    now rewrite (valid_bs_new _ _ Hv).
  - (* >=vl <=vu, or exact *)
    destruct (veqb vl vu) eqn:Ev.
    + injection Hp as <-. exists (mkBS (Upper (Including vl)) (Lower (Including vl))).
      split; [|split; [unfold bs_eqb, bound_eqb, pred_eqb; cbn [bs_upper bs_lower]; now rewrite Refl, Ev
                      | unfold bs_print; cbn [bs_upper bs_lower]; now rewrite Refl]].
      rewrite range_p_no_hyphen; [|apply space0_vprint|apply at_empty_alt_vprint|apply hyphen_p_version; [exact Cl|exact (alt_end_term r Hr)|exact (alt_end_bar r Hr)]].
      unfold simples_p. rewrite (simple_bare vl r Cl (alt_end_term r Hr) (alt_end_bar r Hr)).
      rewrite (simples_tail_stop _ r Hr). unfold exact, bs_new. now rewrite Refl.
    + injection Hp as <-. exists (mkBS (Upper (Including vu)) (Lower (Including vl))). split; [|split; [apply bs_eqb_refl|try reflexivity; unfold bs_print; cbn [bs_upper bs_lower]; now rewrite Ev]].
      norm_text. pose proof (two_tokens OpGTE vl OpLTE vu r) as T. cbn [op_text app] in T. rewrite T by (auto; discriminate).
      rewrite primitive_full_gte, primitive_full_lte. unfold at_least, at_most. cbn [bs_new blt bcmp flatten_opts].
      unfold and_fold. cbn [fold_left]. unfold bs_intersect. cbn [bs_lower bs_upper]. rewrite bmax_unb, bmin_unb by discriminate.
      now rewrite (valid_bs_new _ _ Hv).
  - (* >=vl *)
    injection Hp as <-. exists (mkBS (Upper Unbounded) (Lower (Including vl))). split; [|split; [apply bs_eqb_refl|try reflexivity; unfold bs_print; cbn [bs_upper bs_lower]; now rewrite Ev]].
    norm_text. pose proof (one_token OpGTE vl r) as T. cbn [op_text app] in T. rewrite T by (auto; discriminate).
    rewrite primitive_full_gte. reflexivity.
  - (* <vu *)
    injection Hp as <-. exists (mkBS (Upper (Excluding vu)) (Lower Unbounded)). split; [|split; [apply bs_eqb_refl|try reflexivity; unfold bs_print; cbn [bs_upper bs_lower]; now rewrite Ev]].
    norm_text. pose proof (one_token OpLT vu r) as T. cbn [op_text app] in T. rewrite T by (auto; discriminate).
    rewrite primitive_full_lt. reflexivity.
  - (* <=vu *)
    injection Hp as <-. exists (mkBS (Upper (Including vu)) (Lower Unbounded)). split; [|split; [apply bs_eqb_refl|try reflexivity; unfold bs_print; cbn [bs_upper bs_lower]; now rewrite Ev]].
    norm_text. pose proof (one_token OpLTE vu r) as T. cbn [op_text app] in T. rewrite T by (auto; discriminate).
    rewrite primitive_full_lte. reflexivity.
  - exfalso. apply Nu. auto.
Qed.

(** ** the `||`-joined list through [bound_sets] *)
Lemma bs_print_head bs s : wf_bs bs -> bs_print bs = Ok s -> exists c t, s = c :: t /\ is_space c = false.
Proof.
  intros (Hl & Hu & _). unfold bs_print. destruct (bs_lower bs) as [pl|]; [|discriminate]. destruct (bs_upper bs) as [|pu]; [discriminate|].
  assert (Hv : forall w r, exists c t, vprint w ++ r = c :: t /\ is_space c = false).
  { intros w r. destruct (vprint_head w) as (c & t & -> & Hc). destruct (digit_facts c Hc) as (Sp & _). cbn. eauto. }
  destruct pl as [vl|vl|], pu as [vu|vu|]; try (destruct (veqb vl vu)); intros [= <-]; unfold op_gte, op_lte; cbn [app];
    try (eexists _, _; split; [reflexivity|reflexivity]).
  destruct (Hv vl []) as (c & t & E & Sp). rewrite app_nil_r in E. eauto.
Qed.
Lemma r_print_tail_end R t : r_print_tail R = Ok t -> alt_end t.
Proof.
  destruct R as [|bs R]; cbn.
  - intros [= <-]. now left.
  - destruct (bs_print bs); cbn; [|discriminate]. destruct (r_print_tail R); cbn; [|discriminate]. intros [= <-]. right. eauto.
Qed.

Lemma ranges_tail_print R : wf R -> printable R -> forall t, r_print_tail R = Ok t ->
  forall f, (length t <= f)%nat -> exists R', ranges_tail f t = Some (R', []) /\ range_eqb R' R = true /\ r_print_tail R' = Ok t.
Proof.
  intros W P. induction W as [|bs R Wb WR IH]; intros t Ht f Hf.
  - injection Ht as <-. exists []. split; [destruct f; reflexivity|split; reflexivity].
  - inversion P as [|? ? Pb PR]; subst. cbn [r_print_tail] in Ht.
    destruct (bs_print bs) as [s|] eqn:Es; cbn in Ht; [|discriminate].
    destruct (r_print_tail R) as [t'|] eqn:Et; cbn in Ht; [|discriminate]. injection Ht as <-.
    destruct f as [|f]; [cbn in Hf; lia|]. cbn [ranges_tail].
    destruct (bs_print_head bs s Wb Es) as (c & s' & -> & Sp).
    assert (El : logical_or (124 :: 124 :: (c :: s') ++ t') = Some ((c :: s') ++ t')).
    { unfold logical_or, space0. cbn [drop_while is_space N.eqb Pos.eqb orb lit app]. now rewrite Sp. }
    rewrite El.
    destruct (range_p_print bs (c :: s') t' Wb Pb Es (r_print_tail_end R t' Et)) as (bs' & Er & Eq & Ep). rewrite Er.
    destruct (IH PR t' eq_refl f) as (R' & ER & EqR & EpR). { cbn in Hf. rewrite app_length in Hf. cbn in Hf. lia. }
    rewrite ER. exists (bs' :: R'). split; [reflexivity|]. split; [cbn; now rewrite Eq, EqR|]. cbn [r_print_tail]. now rewrite Ep, EpR.
Qed.

(** C13: a well-formed, printable, non-empty range prints to a text that parses back to an equal range *)
Theorem print_parse_roundtrip R : R <> [] -> wf R -> printable R ->
  exists s R', r_print R = Ok s /\ r_parse s = ROk R' /\ range_eqb R' R = true /\ r_print R' = Ok s.
Proof.
  intros Ne W P. destruct R as [|bs R]; [congruence|]. inversion W as [|? ? Wb WR]; subst. inversion P as [|? ? Pb PR]; subst.
  destruct (bs_print_ok bs Wb) as (s & Es). destruct (r_print_tail_ok R WR) as (t & Et).
  exists (s ++ t). cbn [r_print]. rewrite Es, Et. cbn [rbind].
  destruct (range_p_print bs s t Wb Pb Es (r_print_tail_end R t Et)) as (bs' & Er & Eq & Ep).
  destruct (ranges_tail_print R WR PR t Et (length t) (le_n _)) as (R' & ER & EqR & EpR).
  exists (bs' :: R'). split; [reflexivity|]. split; [|split].
  - unfold r_parse, bound_sets. rewrite Er, ER. reflexivity.
  - cbn. now rewrite Eq, EqR.
  - cbn [r_print]. now rewrite Ep, EpR.
Qed.
(** ... and the re-parsed range prints the same text again *)
Lemma vprint_eqb_full a b : veqb_full a b = true -> vprint a = vprint b.
Proof.
  unfold veqb_full, veqb. rewrite !andb_true_iff, !N.eqb_eq, !idents_eqb_eq. intros [[[[A B] C] D] E].
  unfold vprint. now rewrite A, B, C, D, E.
Qed.

(** ranges equal as [PartialEq] sees them (build metadata ignored) admit the same versions *)
Lemma veqb_same a b : veqb a b = true -> major a = major b /\ minor a = minor b /\ patch a = patch b /\ pre a = pre b.
Proof. unfold veqb. rewrite !andb_true_iff, !N.eqb_eq, idents_eqb_eq. tauto. Qed.
Lemma tagged_eqb b1 b2 v : bound_eqb b1 b2 = true -> tagged_same_tuple b1 v = tagged_same_tuple b2 v.
Proof.
  destruct b1 as [[x|x|]|[x|x|]], b2 as [[y|y|]|[y|y|]]; cbn; try discriminate; auto;
    intro H; apply veqb_same in H as (A & B & C & D); unfold tagged_same_tuple, is_pre, same_tuple; cbn; now rewrite A, B, C, D.
Qed.
Lemma bs_eqb_sat a b v : bs_eqb a b = true -> bs_satisfies a v = bs_satisfies b v /\ within a v = within b v.
Proof.
  unfold bs_eqb. rewrite andb_true_iff. intros [Hu Hl]. unfold bs_satisfies, within, gate.
  rewrite (lower_ok_eqb _ _ v Hl), (upper_ok_eqb _ _ v Hu), (tagged_eqb _ _ v Hl), (tagged_eqb _ _ v Hu). auto.
Qed.
Theorem range_eqb_sat A : forall B v, range_eqb A B = true -> r_satisfies A v = r_satisfies B v /\ r_within A v = r_within B v.
Proof.
  induction A as [|a A IH]; destruct B as [|b B]; cbn; try discriminate; auto.
  intros v H. apply andb_true_iff in H as [H1 H2]. destruct (bs_eqb_sat a b v H1) as [S W]. destruct (IH B v H2) as [S' W'].
  unfold r_satisfies, r_within in *. cbn [existsb]. now rewrite S, W, S', W'.
Qed.
