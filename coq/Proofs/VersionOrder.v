(** Order theory of [vcmp]: total preorder laws, the [order] tactic instance, and the
    facts about neighbouring versions used by the prerelease gate and [min_version]. *)
From Semver Require Import Version.
From Coq Require Import Lia Orders OrdersTac.

Section LexFacts.
  Context {A : Type} (c : A -> A -> comparison).
  Hypothesis c_refl : forall a, c a a = Eq.
  Hypothesis c_anti : forall a b, c b a = CompOpp (c a b).
  Hypothesis c_eq_l : forall a b d, c a b = Eq -> c a d = c b d.
  Hypothesis c_trans : forall a b d, c a b = Lt -> c b d = Lt -> c a d = Lt.
  Lemma lex_refl x : lex c x x = Eq.
  Proof. induction x; simpl; auto. now rewrite c_refl. Qed.
  Lemma lex_anti x : forall y, lex c y x = CompOpp (lex c x y).
  Proof. induction x as [|a x IH]; destruct y as [|b y]; simpl; auto.
    rewrite (c_anti a b). destruct (c a b); simpl; auto. Qed.
  Lemma c_eq_r a b d : c a b = Eq -> c d a = c d b.
  Proof. intro H. rewrite (c_anti a d), (c_anti b d). f_equal. now apply c_eq_l. Qed.
  Lemma lex_eq_l x : forall y z, lex c x y = Eq -> lex c x z = lex c y z.
  Proof. induction x as [|a x IH]; destruct y as [|b y]; simpl; try discriminate; auto.
    intros z. destruct (c a b) eqn:E; try discriminate. intro H.
    destruct z as [|d z]; auto. simpl. rewrite (c_eq_l _ _ d E). destruct (c b d); auto. Qed.
  Lemma lex_trans x : forall y z, lex c x y = Lt -> lex c y z = Lt -> lex c x z = Lt.
  Proof. induction x as [|a x IH]; destruct y as [|b y]; destruct z as [|d z]; simpl; try discriminate; auto.
    destruct (c a b) eqn:E1; try discriminate.
    - rewrite (c_eq_l _ _ d E1). destruct (c b d); try discriminate; eauto.
    - intros _. destruct (c b d) eqn:E2; try discriminate.
      + rewrite <- (c_eq_r _ _ a E2), E1. auto.
      + rewrite (c_trans _ _ _ E1 E2). auto. Qed.
End LexFacts.

Notation ncmp := N.compare (only parsing).
Lemma n_refl a : ncmp a a = Eq. Proof. apply N.compare_refl. Qed.
Lemma n_anti a b : ncmp b a = CompOpp (ncmp a b). Proof. apply N.compare_antisym. Qed.
Lemma n_eq_l a b d : ncmp a b = Eq -> ncmp a d = ncmp b d.
Proof. intro H. apply N.compare_eq in H. now subst. Qed.
Lemma n_trans a b d : ncmp a b = Lt -> ncmp b d = Lt -> ncmp a d = Lt.
Proof. rewrite !N.compare_lt_iff. lia. Qed.

Lemma s_refl a : scmp a a = Eq. Proof. apply lex_refl, n_refl. Qed.
Lemma s_anti a b : scmp b a = CompOpp (scmp a b). Proof. apply lex_anti, n_anti. Qed.
Lemma s_eq_l a b d : scmp a b = Eq -> scmp a d = scmp b d.
Proof. apply lex_eq_l; auto using n_anti, n_eq_l. Qed.
Lemma s_trans a b d : scmp a b = Lt -> scmp b d = Lt -> scmp a d = Lt.
Proof. apply (lex_trans N.compare n_anti n_eq_l n_trans). Qed.

Lemma i_refl a : icmp a a = Eq. Proof. destruct a; simpl; auto using n_refl, s_refl. Qed.
Lemma i_anti a b : icmp b a = CompOpp (icmp a b).
Proof. destruct a, b; simpl; auto using n_anti, s_anti. Qed.
Lemma i_eq_l a b d : icmp a b = Eq -> icmp a d = icmp b d.
Proof. destruct a, b, d; simpl; try discriminate; auto using n_eq_l, s_eq_l. Qed.
Lemma i_trans a b d : icmp a b = Lt -> icmp b d = Lt -> icmp a d = Lt.
Proof. destruct a, b, d; simpl; try discriminate; auto; [apply n_trans | apply s_trans]. Qed.

Lemma pcmp_cons x a y b : pcmp (x :: a) (y :: b) = lex icmp (x :: a) (y :: b).
Proof. reflexivity. Qed.

Lemma p_refl a : pcmp a a = Eq.
Proof. destruct a; [reflexivity|]. rewrite pcmp_cons. apply lex_refl, i_refl. Qed.
Lemma p_anti a b : pcmp b a = CompOpp (pcmp a b).
Proof. destruct a, b; try reflexivity. rewrite !pcmp_cons. apply lex_anti, i_anti. Qed.
Lemma p_eq_l a b d : pcmp a b = Eq -> pcmp a d = pcmp b d.
Proof. destruct a as [|x a], b as [|y b]; simpl; try discriminate; auto.
  intro H. destruct d as [|z d]; auto.
  change (lex icmp (x::a) (z::d) = lex icmp (y::b) (z::d)). apply lex_eq_l; auto using i_anti, i_eq_l. Qed.
Lemma p_trans a b d : pcmp a b = Lt -> pcmp b d = Lt -> pcmp a d = Lt.
Proof. destruct a as [|x a], b as [|y b], d as [|z d]; simpl; try discriminate; auto.
  change (lex icmp (x::a) (y::b) = Lt -> lex icmp (y::b) (z::d) = Lt -> lex icmp (x::a) (z::d) = Lt).
  apply (lex_trans icmp i_anti i_eq_l i_trans). Qed.

Lemma v_refl a : vcmp a a = Eq.
Proof. unfold vcmp. rewrite !N.compare_refl. apply p_refl. Qed.
Lemma v_anti a b : vcmp b a = CompOpp (vcmp a b).
Proof. unfold vcmp.
  rewrite (N.compare_antisym (major a)), (N.compare_antisym (minor a)),
          (N.compare_antisym (patch a)), (p_anti (pre a)).
  destruct (major a ?= major b); simpl; auto.
  destruct (minor a ?= minor b); simpl; auto.
  destruct (patch a ?= patch b); simpl; auto. Qed.
Lemma v_eq_l a b d : vcmp a b = Eq -> vcmp a d = vcmp b d.
Proof. unfold vcmp. intro H.
  destruct (major a ?= major b) eqn:E1; try discriminate. rewrite (n_eq_l _ _ (major d) E1).
  destruct (minor a ?= minor b) eqn:E2; try discriminate. rewrite (n_eq_l _ _ (minor d) E2).
  destruct (patch a ?= patch b) eqn:E3; try discriminate. rewrite (n_eq_l _ _ (patch d) E3).
  rewrite (p_eq_l _ _ (pre d) H). reflexivity. Qed.
Lemma v_eq_r a b d : vcmp a b = Eq -> vcmp d a = vcmp d b.
Proof. intro H. rewrite (v_anti a d), (v_anti b d). f_equal. now apply v_eq_l. Qed.

Definition same_tuple_p a b := major a = major b /\ minor a = minor b /\ patch a = patch b.
Definition tuple_lt a b :=
  major a < major b \/
  (major a = major b /\ (minor a < minor b \/ (minor a = minor b /\ patch a < patch b))).
Lemma vcmp_cases a b :
  (tuple_lt a b /\ vcmp a b = Lt) \/ (tuple_lt b a /\ vcmp a b = Gt) \/
  (same_tuple_p a b /\ vcmp a b = pcmp (pre a) (pre b)).
Proof.
  unfold vcmp, tuple_lt, same_tuple_p.
  destruct (N.compare_spec (major a) (major b)); [|left; split; auto|right; left; split; auto].
  destruct (N.compare_spec (minor a) (minor b)); [|left; split; auto|right; left; split; auto; lia].
  destruct (N.compare_spec (patch a) (patch b)); [|left; split; auto|right; left; split; auto; lia].
  right; right; auto.
Qed.
Lemma v_trans a b d : vcmp a b = Lt -> vcmp b d = Lt -> vcmp a d = Lt.
Proof.
  intros H1 H2.
  destruct (vcmp_cases a b) as [[T1 _]|[[_ C]|[S1 C1]]]; [| congruence |];
  destruct (vcmp_cases b d) as [[T2 _]|[[_ C]|[S2 C2]]]; try congruence;
  destruct (vcmp_cases a d) as [[T3 E]|[[T3 E]|[S3 E]]]; auto;
  unfold tuple_lt, same_tuple_p in *; try lia.
  rewrite E. rewrite C1 in H1. rewrite C2 in H2. eapply p_trans; eauto.
Qed.

(** ** The [order] tactic on versions *)

(** The three relations are wrapped in inductive propositions: [MakeOrderTac] inlines the
    bodies of [eq]/[lt]/[le] at functor application, and its Ltac matches them
    syntactically, so they must be constants rather than unfoldable equations. *)
Inductive veqP (a b : version) : Prop := VEq (_ : vcmp a b = Eq).
Inductive vltP (a b : version) : Prop := VLt (_ : vcmp a b = Lt).
Inductive vleP (a b : version) : Prop := VLe (_ : vcmp a b <> Gt).
Lemma veqP_iff a b : veqP a b <-> vcmp a b = Eq. Proof. split; [now intros []|now constructor]. Qed.
Lemma vltP_iff a b : vltP a b <-> vcmp a b = Lt. Proof. split; [now intros []|now constructor]. Qed.
Lemma vleP_iff a b : vleP a b <-> vcmp a b <> Gt. Proof. split; [now intros []|now constructor]. Qed.

Module VO <: EqLtLe.
  Definition t := version.
  Definition eq := veqP.
  Definition lt := vltP.
  Definition le := vleP.
End VO.
Module VP <: IsTotalOrder VO.
  Lemma eq_equiv : Equivalence VO.eq.
  Proof. split; unfold VO.eq.
    - intro x. constructor. apply v_refl.
    - intros x y [H]. constructor. rewrite v_anti, H; reflexivity.
    - intros x y z [H1] [H2]. constructor. rewrite (v_eq_l _ _ _ H1); assumption. Qed.
  Lemma lt_strorder : StrictOrder VO.lt.
  Proof. split.
    - intros x [H]. rewrite v_refl in H; discriminate.
    - intros x y z [H1] [H2]. constructor. eapply v_trans; eauto. Qed.
  Lemma lt_compat : Proper (VO.eq ==> VO.eq ==> iff) VO.lt.
  Proof. unfold VO.eq, VO.lt. intros a a' [Ha] b b' [Hb]. rewrite !vltP_iff.
    rewrite (v_eq_l _ _ _ Ha), (v_eq_r _ _ _ Hb). tauto. Qed.
  Lemma le_lteq : forall x y, VO.le x y <-> VO.lt x y \/ VO.eq x y.
  Proof. unfold VO.le, VO.lt, VO.eq; intros. rewrite vleP_iff, vltP_iff, veqP_iff.
    destruct (vcmp x y); intuition congruence. Qed.
  Lemma lt_total : forall x y, VO.lt x y \/ VO.eq x y \/ VO.lt y x.
  Proof. unfold VO.lt, VO.eq; intros. rewrite !vltP_iff, veqP_iff. rewrite (v_anti x y).
    destruct (vcmp x y); simpl; auto. Qed.
End VP.
Module VT := MakeOrderTac VO VP.

(** Reflect [vlt]/[vle]/[vcmp] into the wrapped relations so that [VT.order] applies. *)
Lemma vlt_iff a b : vlt a b = true <-> vltP a b.
Proof. rewrite vltP_iff. unfold vlt. destruct (vcmp a b); intuition congruence. Qed.
Lemma vle_iff a b : vle a b = true <-> vleP a b.
Proof. rewrite vleP_iff. unfold vle. destruct (vcmp a b); intuition congruence. Qed.
Lemma vlt_false_iff a b : vlt a b = false <-> vleP b a.
Proof. rewrite vleP_iff. unfold vlt. rewrite (v_anti a b). destruct (vcmp a b); simpl; intuition congruence. Qed.
Lemma vle_false_iff a b : vle a b = false <-> vltP b a.
Proof. rewrite vltP_iff. unfold vle. rewrite (v_anti a b). destruct (vcmp a b); simpl; intuition congruence. Qed.
Lemma vcmp_Gt_iff a b : vcmp a b = Gt <-> vltP b a.
Proof. rewrite vltP_iff. rewrite (v_anti a b). destruct (vcmp a b); simpl; intuition congruence. Qed.
Lemma vcmp_nLt_iff a b : vcmp a b <> Lt <-> vleP b a.
Proof. rewrite vleP_iff. rewrite (v_anti a b). destruct (vcmp a b); simpl; intuition congruence. Qed.

Lemma vcmp_spec a b : CompareSpec (veqP a b) (vltP a b) (vltP b a) (vcmp a b).
Proof. destruct (vcmp a b) eqn:E; constructor; try (now constructor). now apply vcmp_Gt_iff. Qed.

(** ** Equality *)
Lemma str_eqb_eq a : forall b, str_eqb a b = true <-> a = b.
Proof. induction a as [|x a IH]; destruct b as [|y b]; simpl; try (intuition congruence).
  rewrite andb_true_iff, N.eqb_eq, IH. intuition congruence. Qed.
Lemma ident_eqb_eq a b : ident_eqb a b = true <-> a = b.
Proof. destruct a, b; simpl; try (intuition congruence).
  - rewrite N.eqb_eq. intuition congruence.
  - rewrite str_eqb_eq. intuition congruence. Qed.
Lemma idents_eqb_eq a : forall b, idents_eqb a b = true <-> a = b.
Proof. induction a as [|x a IH]; destruct b as [|y b]; simpl; try (intuition congruence).
  rewrite andb_true_iff, ident_eqb_eq, IH. intuition congruence. Qed.

Lemma scmp_eq a : forall b, scmp a b = Eq <-> a = b.
Proof. unfold scmp. induction a as [|x a IH]; destruct b as [|y b]; simpl; try (intuition congruence).
  destruct (N.compare_spec x y); subst.
  - rewrite IH. intuition congruence.
  - split; [discriminate|]. intro Hx; injection Hx; lia.
  - split; [discriminate|]. intro Hx; injection Hx; lia. Qed.
Lemma icmp_eq a b : icmp a b = Eq <-> a = b.
Proof. destruct a, b; simpl; try (intuition congruence).
  - rewrite N.compare_eq_iff. intuition congruence.
  - rewrite scmp_eq. intuition congruence. Qed.
Lemma lex_icmp_eq a : forall b, lex icmp a b = Eq <-> a = b.
Proof. induction a as [|x a IH]; destruct b as [|y b]; simpl; try (intuition congruence).
  destruct (icmp x y) eqn:E.
  - apply icmp_eq in E. subst. rewrite IH. intuition congruence.
  - split; [discriminate|]. intro Hx; injection Hx; intros; subst. rewrite i_refl in E. discriminate.
  - split; [discriminate|]. intro Hx; injection Hx; intros; subst. rewrite i_refl in E. discriminate. Qed.
Lemma pcmp_eq a b : pcmp a b = Eq <-> a = b.
Proof. destruct a, b; try (simpl; intuition congruence). rewrite pcmp_cons. apply lex_icmp_eq. Qed.

(** [==] holds exactly when the comparison is [Equal]. *)
Lemma veqb_vcmp a b : veqb a b = true <-> vcmp a b = Eq.
Proof.
  unfold veqb, vcmp. rewrite !andb_true_iff, !N.eqb_eq, idents_eqb_eq.
  destruct (N.compare_spec (major a) (major b)); [|intuition (try discriminate; lia)..].
  destruct (N.compare_spec (minor a) (minor b)); [|intuition (try discriminate; lia)..].
  destruct (N.compare_spec (patch a) (patch b)); [|intuition (try discriminate; lia)..].
  rewrite pcmp_eq. tauto.
Qed.
Lemma veqb_iff a b : veqb a b = true <-> veqP a b.
Proof. rewrite veqP_iff. apply veqb_vcmp. Qed.
Lemma veqb_false_iff a b : veqb a b = false <-> ~ veqP a b.
Proof. rewrite <- veqb_iff. destruct (veqb a b); intuition congruence. Qed.

(** ** Facts needed for the gate and for [min_version] *)

(** sandwich: between two versions of one tuple, the upper one tagged, there are only
    tagged versions of that tuple *)
Lemma sandwich l w v : same_tuple_p l v -> is_pre v = true ->
  vcmp l w <> Gt -> vcmp w v <> Gt -> same_tuple_p w v /\ is_pre w = true.
Proof.
  intros S Hv H1 H2.
  destruct (vcmp_cases l w) as [[T1 _]|[[T1 C]|[S1 C1]]]; [| congruence |];
  destruct (vcmp_cases w v) as [[T2 _]|[[T2 C]|[S2 C2]]]; try congruence;
  unfold tuple_lt, same_tuple_p in *; try lia.
  split; [lia|]. unfold is_pre in *. rewrite C2 in H2. destruct (pre w); auto.
  destruct (pre v); simpl in *; congruence.
Qed.

Lemma num0_least i : icmp (Num 0) i <> Gt.
Proof. destruct i as [n|s]; simpl; try discriminate. destruct n; simpl; discriminate. Qed.
Lemma tag0_least t : t <> [] -> pcmp [Num 0] t <> Gt.
Proof. destruct t as [|i t]; [congruence|]. intros _. rewrite pcmp_cons. cbn [lex].
  pose proof (num0_least i) as H.
  destruct (icmp (Num 0) i); [destruct t; discriminate | discriminate | congruence]. Qed.

(** [0.0.0-0] is the least version. *)
Lemma zero_least b v : vcmp (mkV 0 0 0 b [Num 0]) v <> Gt.
Proof.
  destruct (vcmp_cases (mkV 0 0 0 b [Num 0]) v) as [[_ E]|[[T _]|[S E]]]; try congruence.
  - unfold tuple_lt in T; simpl in T. lia.
  - rewrite E. simpl pre. destruct (pre v) eqn:P; [discriminate|]. apply tag0_least. congruence.
Qed.
(** nothing lies strictly between [M.m.p] and [M.m.(p+1)-0] *)
Lemma succ_release v w b : pre v = [] -> vcmp v w = Lt ->
  vcmp (mkV (major v) (minor v) (patch v + 1) b [Num 0]) w <> Gt.
Proof.
  intros Pv H. set (s := mkV _ _ _ _ _).
  destruct (vcmp_cases v w) as [[T _]|[[_ C]|[S C]]]; try congruence.
  - destruct (vcmp_cases s w) as [[_ E]|[[T2 _]|[S2 E]]]; try congruence.
    + unfold tuple_lt in *; simpl in *. lia.
    + rewrite E. simpl pre. destruct (pre w) eqn:P; [discriminate|]. apply tag0_least. congruence.
  - rewrite C, Pv in H. destruct (pre w); simpl in H; discriminate.
Qed.

(** [vorder]: bring every comparison on versions into the wrapped vocabulary, then [order]. *)
Ltac vfold :=
  repeat match goal with
  | H : vcmp ?a ?b <> Gt |- _ => apply (proj2 (vleP_iff a b)) in H
  | H : vcmp ?a ?b <> Lt |- _ => apply (proj1 (vcmp_nLt_iff a b)) in H
  | H : vcmp ?a ?b = Lt |- _ => apply (proj2 (vltP_iff a b)) in H
  | H : vcmp ?a ?b = Eq |- _ => apply (proj2 (veqP_iff a b)) in H
  | H : vcmp ?a ?b = Gt |- _ => apply (proj1 (vcmp_Gt_iff a b)) in H
  | H : vlt ?a ?b = true |- _ => apply (proj1 (vlt_iff a b)) in H
  | H : vlt ?a ?b = false |- _ => apply (proj1 (vlt_false_iff a b)) in H
  | H : vle ?a ?b = true |- _ => apply (proj1 (vle_iff a b)) in H
  | H : vle ?a ?b = false |- _ => apply (proj1 (vle_false_iff a b)) in H
  | H : veqb ?a ?b = true |- _ => apply (proj1 (veqb_iff a b)) in H
  | H : veqb ?a ?b = false |- _ => apply (proj1 (veqb_false_iff a b)) in H
  | |- vcmp ?a ?b <> Gt => refine (proj1 (vleP_iff a b) _)
  | |- vcmp ?a ?b <> Lt => refine (proj2 (vcmp_nLt_iff a b) _)
  | |- vcmp ?a ?b = Lt => refine (proj1 (vltP_iff a b) _)
  | |- vcmp ?a ?b = Eq => refine (proj1 (veqP_iff a b) _)
  | |- vcmp ?a ?b = Gt => refine (proj2 (vcmp_Gt_iff a b) _)
  | |- vlt ?a ?b = true => refine (proj2 (vlt_iff a b) _)
  | |- vlt ?a ?b = false => refine (proj2 (vlt_false_iff a b) _)
  | |- vle ?a ?b = true => refine (proj2 (vle_iff a b) _)
  | |- vle ?a ?b = false => refine (proj2 (vle_false_iff a b) _)
  | |- veqb ?a ?b = true => refine (proj2 (veqb_iff a b) _)
  | |- veqb ?a ?b = false => refine (proj2 (veqb_false_iff a b) _)
  end.
Ltac vorder := vfold; VT.order.

Goal forall x y z, vcmp y x = Lt -> vle x z = true -> vcmp y z <> Gt /\ veqb z y = false.
Proof. intros x y z H1 H2. split; vorder. Qed.
