(** Forward and inverse lemmas for the sub-parsers of the version grammar: each parser is
    characterised exactly by a decomposition of its input.  Used by C05 (accepted
    language), C12/C18 (round trips), C17 (error positions) and by the range grammar. *)
From Semver Require Import Version VParse VersionGrammar ParseLen.
From Coq Require Import Lia.
Set Default Timeout 120.

(** the next scalar, if any, does not satisfy [p] *)
Definition not_head (p : N -> bool) (s : str) : Prop :=
  match s with [] => True | c :: _ => p c = false end.

Lemma span_fwd p a : forall r, all p a -> not_head p r -> span p (a ++ r) = (a, r).
Proof.
  unfold all. induction a as [|x a IH]; cbn; intros r Ha Hr.
  - destruct r as [|c r]; cbn in *; auto. now rewrite Hr.
  - apply andb_true_iff in Ha as [Hx Ha]. now rewrite Hx, IH.
Qed.
Lemma span_inv p s : forall a r, span p s = (a, r) -> s = a ++ r /\ all p a /\ not_head p r.
Proof.
  unfold all. induction s as [|c s IH]; cbn; intros a r.
  - intros [= <- <-]. cbn. auto.
  - destruct (p c) eqn:E.
    + destruct (span p s) as [a' r'] eqn:Es. intros [= <- <-]. destruct (IH _ _ eq_refl) as (-> & Ha & Hr).
      cbn. rewrite E, Ha. auto.
    + intros [= <- <-]. cbn. auto.
Qed.

(** ** numbers *)
Lemma number_fwd ds r : digits ds -> not_head is_digit r -> dec_value ds <= MAX_SAFE_INTEGER ->
  number (ds ++ r) = POk (dec_value ds) r.
Proof.
  intros [Hne Hd] Hr Hm. unfold number. rewrite (span_fwd _ _ _ Hd Hr).
  destruct ds as [|d ds]; [congruence|].
  assert (E1 : (U64_LIMIT <=? dec_value (d :: ds)) = false) by (apply N.leb_gt; unfold U64_LIMIT, MAX_SAFE_INTEGER in *; lia).
  assert (E2 : (MAX_SAFE_INTEGER <? dec_value (d :: ds)) = false) by (apply N.ltb_ge; lia).
  now rewrite E1, E2.
Qed.
Lemma number_inv s n r : number s = POk n r ->
  exists ds, s = ds ++ r /\ digits ds /\ not_head is_digit r /\ n = dec_value ds /\ n <= MAX_SAFE_INTEGER.
Proof.
  unfold number. intro H. apply with_ctx_ok in H.
  destruct (span is_digit s) as [ds rest] eqn:E. apply span_inv in E as (-> & Hd & Hr).
  destruct ds as [|d ds]; [discriminate|].
  destruct (U64_LIMIT <=? _); [discriminate|].
  destruct (MAX_SAFE_INTEGER <? dec_value (d :: ds)) eqn:E2; [discriminate|].
  injection H as <- <-. exists (d :: ds). repeat split; auto; try discriminate. now apply N.ltb_ge.
Qed.

(** ** identifiers *)
Lemma identifier_fwd cs r : ident_text cs -> not_head is_ident_char r ->
  identifier (cs ++ r) = Some (classify cs, r).
Proof.
  intros [Hne Hc] Hr. unfold identifier. rewrite (span_fwd _ _ _ Hc Hr). destruct cs; [congruence|reflexivity].
Qed.
Lemma identifier_inv s i r : identifier s = Some (i, r) ->
  exists cs, s = cs ++ r /\ ident_text cs /\ not_head is_ident_char r /\ i = classify cs.
Proof.
  unfold identifier. destruct (span is_ident_char s) as [cs rest] eqn:E. apply span_inv in E as (-> & Hc & Hr).
  destruct cs as [|c cs]; [discriminate|]. intros [= <- <-]. exists (c :: cs). repeat split; auto. discriminate.
Qed.

(** what may follow a list of identifiers: neither an identifier character nor
    "." + identifier character *)
Definition stop_ids (r : str) : Prop :=
  not_head is_ident_char r /\ forall t, lit1 46 r = Some t -> not_head is_ident_char t.

(** [. id . id ...] *)
Inductive tail_text : str -> list ident -> Prop :=
| TT_nil : tail_text [] []
| TT_cons s t l : ident_text s -> tail_text t l -> tail_text (46 :: s ++ t) (classify s :: l).

Lemma lit1_inv c s t : lit1 c s = Some t -> s = c :: t.
Proof. destruct s as [|x s]; cbn; [discriminate|]. destruct (x =? c) eqn:E; [|discriminate].
  apply N.eqb_eq in E. intros [= <-]. now subst. Qed.
Lemma lit1_fwd c t : lit1 c (c :: t) = Some t.
Proof. cbn. now rewrite N.eqb_refl. Qed.
Lemma identifier_none s : identifier s = None -> not_head is_ident_char s.
Proof.
  destruct s as [|c s]; cbn; auto. unfold identifier. cbn [span]. destruct (is_ident_char c); auto.
  destruct (span is_ident_char s); discriminate.
Qed.
Lemma identifier_none_fwd s : not_head is_ident_char s -> identifier s = None.
Proof. destruct s as [|c s]; cbn; auto. unfold identifier. cbn [span]. now intros ->. Qed.

Lemma idents_tail_fwd t l : tail_text t l -> forall f r, stop_ids r -> (length l <= f)%nat ->
  idents_tail f (t ++ r) = (l, r).
Proof.
  induction 1 as [|s t l Hs Ht IH]; intros f r Hr Hf.
  - cbn [app]. destruct f as [|f]; [reflexivity|]. cbn [idents_tail].
    destruct Hr as [H1 H2]. destruct (lit1 46 r) as [t0|] eqn:E; [|reflexivity].
    now rewrite (identifier_none_fwd t0 (H2 _ eq_refl)).
  - destruct f as [|f]; [cbn in Hf; lia|]. cbn [idents_tail app]. rewrite lit1_fwd.
    rewrite <- app_assoc. rewrite (identifier_fwd s (t ++ r) Hs).
    + rewrite IH; auto. cbn in Hf. lia.
    + destruct Ht; cbn; [exact (proj1 Hr)|reflexivity].
Qed.
Lemma idents_tail_inv f : forall s l r, idents_tail f s = (l, r) -> (length s <= f)%nat ->
  not_head is_ident_char s ->
  exists t, s = t ++ r /\ tail_text t l /\ stop_ids r.
Proof.
  induction f as [|f IH]; intros s l r H Hf Hh.
  - destruct s; [|cbn in Hf; lia]. cbn in H. injection H as <- <-. exists []. repeat split; try constructor.
    discriminate.
  - cbn [idents_tail] in H. destruct (lit1 46 s) as [t0|] eqn:El.
    + pose proof (lit1_inv _ _ _ El) as ->. destruct (identifier t0) as [[i r']|] eqn:Ei.
      * destruct (idents_tail f r') as [l' r''] eqn:Et. injection H as <- <-.
        pose proof (identifier_len _ _ _ Ei) as Li.
        apply identifier_inv in Ei as (cs & -> & Hcs & Hh' & ->).
        apply IH in Et as (t & -> & Ht & Hst); [| cbn in Hf; rewrite app_length in *; lia | exact Hh'].
        exists (46 :: cs ++ t). split; [cbn; now rewrite app_assoc|]. split; [now constructor|exact Hst].
      * injection H as <- <-. exists []. split; [reflexivity|]. split; [constructor|].
        split; [exact Hh|]. intros t Ht. rewrite El in Ht. injection Ht as <-. now apply identifier_none.
    + injection H as <- <-. exists []. split; [reflexivity|]. split; [constructor|].
      split; [exact Hh|]. intros t Ht. congruence.
Qed.

(** ** identifier lists *)
Lemma tail_text_len t l : tail_text t l -> (2 * length l <= length t)%nat.
Proof.
  induction 1 as [|s t l [Hne _] _ IH]; cbn; [lia|]. rewrite app_length.
  destruct s; [congruence|]. cbn. lia.
Qed.
Lemma idents_text_split s l : idents_text s l ->
  exists s0 t l', s = s0 ++ t /\ ident_text s0 /\ tail_text t l' /\ l = classify s0 :: l'.
Proof.
  induction 1 as [s Hs|s t l Hs _ (s0 & t' & l' & -> & Hs0 & Ht & ->)].
  - exists s, [], []. split; [now rewrite app_nil_r|]. split; [exact Hs|]. split; [constructor|reflexivity].
  - exists s, (46 :: s0 ++ t'), (classify s0 :: l'). split; [reflexivity|]. split; [exact Hs|].
    split; [now constructor|reflexivity].
Qed.
Lemma idents_text_join s0 t l' : ident_text s0 -> tail_text t l' -> idents_text (s0 ++ t) (classify s0 :: l').
Proof.
  intros Hs Ht. revert s0 Hs. induction Ht as [|s t l Hs' Ht IH]; intros s0 Hs.
  - rewrite app_nil_r. now constructor.
  - change (s0 ++ 46 :: s ++ t) with (s0 ++ 46 :: (s ++ t)). constructor; auto.
Qed.

Lemma idents1_fwd ps l r : idents_text ps l -> stop_ids r -> idents1 (ps ++ r) = Some (l, r).
Proof.
  intros H Hr. apply idents_text_split in H as (s0 & t & l' & -> & Hs0 & Ht & ->).
  unfold idents1. rewrite <- app_assoc. rewrite (identifier_fwd s0 (t ++ r) Hs0).
  - rewrite (idents_tail_fwd t l' Ht); auto. apply tail_text_len in Ht. rewrite app_length. lia.
  - destruct Ht; cbn; [exact (proj1 Hr)|reflexivity].
Qed.
Lemma idents1_inv s l r : idents1 s = Some (l, r) ->
  exists ps, s = ps ++ r /\ idents_text ps l /\ stop_ids r.
Proof.
  unfold idents1. destruct (identifier s) as [[i r0]|] eqn:Ei; [|discriminate].
  destruct (idents_tail (length r0) r0) as [l' r'] eqn:Et. intros [= <- <-].
  apply identifier_inv in Ei as (cs & -> & Hcs & Hh & ->).
  apply idents_tail_inv in Et as (t & -> & Ht & Hst); auto.
  exists (cs ++ t). split; [now rewrite app_assoc|]. split; auto. now apply idents_text_join.
Qed.

Lemma idents_text_head ps l : idents_text ps l -> exists c t, ps = c :: t /\ is_ident_char c = true.
Proof.
  intro H. apply idents_text_split in H as (s0 & t & l' & -> & [Hne Hc] & _).
  destruct s0 as [|c s0]; [congruence|]. exists c, (s0 ++ t). split; auto.
  unfold all in Hc. cbn in Hc. now apply andb_true_iff in Hc as [Hc _].
Qed.

Lemma pre_release_fwd_strict ps l r : idents_text ps l -> stop_ids r ->
  pre_release (45 :: ps ++ r) = Some (l, r).
Proof. intros. unfold pre_release, opt_lit1. rewrite lit1_fwd. now apply idents1_fwd. Qed.
Lemma alpha_not_45 c : is_alpha c = true -> (c =? 45) = false.
Proof. intro H. destruct (c =? 45) eqn:E; auto. apply N.eqb_eq in E. subst. discriminate H. Qed.
Lemma pre_release_fwd_loose ps l r : starts_alpha ps -> idents_text ps l -> stop_ids r ->
  pre_release (ps ++ r) = Some (l, r).
Proof.
  intros Ha H Hr. unfold pre_release, opt_lit1. destruct ps as [|c ps]; [destruct Ha|]. cbn in Ha.
  cbn [app lit1]. rewrite (alpha_not_45 _ Ha). now apply (idents1_fwd (c :: ps)).
Qed.
Lemma pre_release_inv s l r : pre_release s = Some (l, r) ->
  exists ps, idents_text ps l /\ stop_ids r /\
    (s = 45 :: ps ++ r \/ (s = ps ++ r /\ lit1 45 s = None)).
Proof.
  unfold pre_release, opt_lit1. destruct (lit1 45 s) as [t|] eqn:E; intro H.
  - apply lit1_inv in E. subst s. apply idents1_inv in H as (ps & -> & Hp & Hr). exists ps. auto.
  - apply idents1_inv in H as (ps & -> & Hp & Hr). exists ps. auto.
Qed.
Lemma build_meta_fwd bs l r : idents_text bs l -> stop_ids r -> build_meta (43 :: bs ++ r) = Some (l, r).
Proof. intros. unfold build_meta. rewrite lit1_fwd. now apply idents1_fwd. Qed.
Lemma build_meta_inv s l r : build_meta s = Some (l, r) ->
  exists bs, s = 43 :: bs ++ r /\ idents_text bs l /\ stop_ids r.
Proof.
  unfold build_meta. destruct (lit1 43 s) as [t|] eqn:E; [|discriminate]. apply lit1_inv in E. subst s.
  intro H. apply idents1_inv in H as (bs & -> & Hb & Hr). exists bs. auto.
Qed.

(** what may follow the extras: not an identifier character, not "." + identifier
    character, not "+" *)
Definition stop_extras (r : str) : Prop := stop_ids r /\ lit1 43 r = None.

Lemma stop_ids_43 t : stop_ids (43 :: t).
Proof. split; [reflexivity|]. intros t' H. cbn in H. discriminate H. Qed.
Lemma pre_release_none r : not_head is_ident_char r -> pre_release r = None.
Proof.
  intro H. unfold pre_release, opt_lit1. destruct (lit1 45 r) as [t|] eqn:E.
  - apply lit1_inv in E. subst r. discriminate H.
  - unfold idents1. now rewrite identifier_none_fwd.
Qed.
Lemma build_meta_none r : lit1 43 r = None -> build_meta r = None.
Proof. unfold build_meta. now intros ->. Qed.

Lemma extras_fwd e p b r : extras_text true e p b -> stop_extras r -> extras (e ++ r) = (p, b, r).
Proof.
  intros H [Hr H43]. unfold extras. destruct H as [|ps p Hp|bs b Hb|ps p bs b Hp Hb|ps p _ Ha Hp|ps p bs b _ Ha Hp Hb].
  - cbn [app]. rewrite (pre_release_none r (proj1 Hr)), (build_meta_none r H43). reflexivity.
  - cbn [app]. rewrite (pre_release_fwd_strict ps p r Hp Hr), (build_meta_none r H43). reflexivity.
  - cbn [app]. rewrite (pre_release_none (43 :: bs ++ r)) by reflexivity.
    rewrite (build_meta_fwd bs b r Hb Hr). reflexivity.
  - cbn [app]. rewrite <- app_assoc. cbn [app].
    rewrite (pre_release_fwd_strict ps p (43 :: bs ++ r) Hp (stop_ids_43 _)).
    rewrite (build_meta_fwd bs b r Hb Hr). reflexivity.
  - rewrite (pre_release_fwd_loose ps p r Ha Hp Hr), (build_meta_none r H43). reflexivity.
  - rewrite <- app_assoc. cbn [app].
    rewrite (pre_release_fwd_loose ps p (43 :: bs ++ r) Ha Hp (stop_ids_43 _)).
    rewrite (build_meta_fwd bs b r Hb Hr). reflexivity.
Qed.

Lemma ident_char_cases c : is_ident_char c = true -> is_digit c = true \/ is_alpha c = true \/ c = 45.
Proof.
  unfold is_ident_char. rewrite !orb_true_iff, N.eqb_eq. tauto.
Qed.
Lemma extras_inv s p b r : not_head is_digit s -> extras s = (p, b, r) ->
  exists e, s = e ++ r /\ extras_text true e p b.
Proof.
  intros Hd. unfold extras. destruct (pre_release s) as [[p0 r0]|] eqn:Ep.
  - apply pre_release_inv in Ep as (ps & Hp & Hr0 & Hs).
    assert (Hloose : s = ps ++ r0 -> lit1 45 s = None -> starts_alpha ps).
    { intros -> Hn. destruct (idents_text_head _ _ Hp) as (c & t & -> & Hc). cbn in *.
      destruct (ident_char_cases _ Hc) as [D|[A| ->]]; auto; [congruence|discriminate Hn]. }
    destruct (build_meta r0) as [[b0 r1]|] eqn:Eb.
    + apply build_meta_inv in Eb as (bs & -> & Hb & Hr1). intros [= <- <- <-].
      destruct Hs as [->|[-> Hn]].
      * exists (45 :: ps ++ 43 :: bs). split; [cbn; now rewrite <- app_assoc|]. now constructor.
      * exists (ps ++ 43 :: bs). split; [now rewrite <- app_assoc|]. apply ET_both_loose; auto.
    + intros [= <- <- <-]. destruct Hs as [->|[-> Hn]].
      * exists (45 :: ps). split; [reflexivity|]. now constructor.
      * exists ps. split; [reflexivity|]. apply ET_pre_loose; auto.
  - destruct (build_meta s) as [[b0 r1]|] eqn:Eb.
    + apply build_meta_inv in Eb as (bs & -> & Hb & Hr1). intros [= <- <- <-].
      exists (43 :: bs). split; [reflexivity|]. now constructor.
    + intros [= <- <- <-]. exists []. split; [reflexivity|]. constructor.
Qed.

(** ** blanks *)
Lemma space0_fwd ws r : all is_space ws -> not_head is_space r -> space0 (ws ++ r) = r.
Proof.
  unfold all, space0. induction ws as [|c ws IH]; cbn; intros Hw Hr.
  - destruct r as [|x r]; cbn in *; auto. now rewrite Hr.
  - apply andb_true_iff in Hw as [Hc Hw]. rewrite Hc. auto.
Qed.
Lemma space0_inv s : exists ws, s = ws ++ space0 s /\ all is_space ws /\ not_head is_space (space0 s).
Proof.
  unfold all, space0. induction s as [|c s (ws & E & Hw & Hr)]; cbn.
  - exists []. auto.
  - destruct (is_space c) eqn:Ec.
    + exists (c :: ws). cbn. rewrite Ec, Hw. split; [now rewrite <- E|auto].
    + exists []. cbn. auto.
Qed.
Lemma space0_nil_iff s : space0 s = [] <-> all is_space s.
Proof.
  split.
  - intro H. destruct (space0_inv s) as (ws & E & Hw & _). rewrite H, app_nil_r in E. now subst.
  - intro H. rewrite <- (app_nil_r s). now apply space0_fwd.
Qed.
Lemma digit_not_space c : is_digit c = true -> is_space c = false.
Proof.
  unfold is_digit, is_space. rewrite andb_true_iff, !N.leb_le. intros [H1 H2].
  destruct (c =? 32) eqn:E1; [apply N.eqb_eq in E1; lia|]. destruct (c =? 9) eqn:E2; [apply N.eqb_eq in E2; lia|]. reflexivity.
Qed.
Lemma digits_head ds : digits ds -> exists c t, ds = c :: t /\ is_digit c = true.
Proof.
  intros [Hne Hd]. destruct ds as [|c t]; [congruence|]. exists c, t. split; auto.
  unfold all in Hd. cbn in Hd. now apply andb_true_iff in Hd as [Hd _].
Qed.

(** ** version core *)
Lemma dot_fwd r : dot (46 :: r) = POk tt r.
Proof. unfold dot. now rewrite lit1_fwd. Qed.
Lemma dot_inv s r : dot s = POk tt r -> s = 46 :: r.
Proof. unfold dot. destruct (lit1 46 s) as [t|] eqn:E; [|discriminate]. intros [= <-]. now apply lit1_inv. Qed.
Lemma not_digit_46 : is_digit 46 = false. Proof. reflexivity. Qed.

Lemma version_core_fwd M m p a b c r :
  num_text M a -> num_text m b -> num_text p c -> not_head is_digit r ->
  version_core (M ++ 46 :: m ++ 46 :: p ++ r) = POk (a, b, c) r.
Proof.
  intros (DM & <- & LM) (Dm & <- & Lm) (Dp & <- & Lp) Hr. unfold version_core.
  rewrite (number_fwd M _ DM) by (auto; reflexivity). rewrite dot_fwd.
  rewrite (number_fwd m _ Dm) by (auto; reflexivity). rewrite dot_fwd.
  rewrite (number_fwd p _ Dp) by auto. reflexivity.
Qed.
Lemma version_core_inv s a b c r : version_core s = POk (a, b, c) r ->
  exists M m p, s = M ++ 46 :: m ++ 46 :: p ++ r /\ num_text M a /\ num_text m b /\ num_text p c /\ not_head is_digit r.
Proof.
  unfold version_core. intro H. apply with_ctx_ok in H.
  destruct (number s) as [ma s1|] eqn:E1; [|discriminate].
  destruct (dot s1) as [[] s2|] eqn:D1; [|discriminate].
  destruct (number s2) as [mi s3|] eqn:E2; [|discriminate].
  destruct (dot s3) as [[] s4|] eqn:D2; [|discriminate].
  destruct (number s4) as [pa s5|] eqn:E3; [|discriminate].
  injection H as <- <- <- <-.
  apply number_inv in E1 as (M & -> & DM & _ & -> & LM). apply dot_inv in D1 as ->.
  apply number_inv in E2 as (m & -> & Dm & _ & -> & Lm). apply dot_inv in D2 as ->.
  apply number_inv in E3 as (p & -> & Dp & Hr & -> & Lp).
  exists M, m, p. unfold num_text. tauto.
Qed.

(** ** the whole version *)
Definition strip_v (s : str) : str := match lit1 118 s with Some r => r | None => opt_lit1 86 s end.
Lemma strip_v_fwd l rest : lead_text l -> (exists c t, rest = c :: t /\ is_digit c = true) ->
  space0 (strip_v (l ++ rest)) = rest.
Proof.
  intros (ws & Hw & Hl) (c & t & -> & Hc).
  assert (Hsp : not_head is_space (c :: t)) by (cbn; now apply digit_not_space).
  assert (Hno : forall x, (x = 118 \/ x = 86) -> lit1 x (ws ++ c :: t) = None).
  { intros x Hx. destruct ws as [|w ws]; cbn.
    - destruct (c =? x) eqn:E; auto. apply N.eqb_eq in E. subst c. destruct Hx; subst; discriminate Hc.
    - unfold all in Hw. cbn in Hw. apply andb_true_iff in Hw as [Hw0 _].
      destruct (w =? x) eqn:E; auto. apply N.eqb_eq in E. subst w. destruct Hx; subst; discriminate Hw0. }
  unfold strip_v, opt_lit1. destruct Hl as [->|[->| ->]].
  - rewrite !Hno by auto. now apply space0_fwd.
  - cbn [app]. rewrite lit1_fwd. now apply space0_fwd.
  - cbn [app lit1]. change (86 =? 118) with false. cbn [lit1]. rewrite N.eqb_refl. now apply space0_fwd.
Qed.
Lemma strip_v_inv s : exists l, s = l ++ space0 (strip_v s) /\ lead_text l.
Proof.
  unfold strip_v, opt_lit1. destruct (lit1 118 s) as [r|] eqn:E1.
  - apply lit1_inv in E1. subst s. destruct (space0_inv r) as (ws & E & Hw & _).
    exists (118 :: ws). split; [cbn; now rewrite <- E|]. exists ws. auto.
  - destruct (lit1 86 s) as [r|] eqn:E2.
    + apply lit1_inv in E2. subst s. destruct (space0_inv r) as (ws & E & Hw & _).
      exists (86 :: ws). split; [cbn; now rewrite <- E|]. exists ws. auto.
    + destruct (space0_inv s) as (ws & E & Hw & _). exists ws. split; auto. exists ws. auto.
Qed.
Lemma version_p_unfold s : version_p s =
  with_ctx CVersion
    match version_core (space0 (strip_v s)) with
    | PErr e => PErr e
    | POk (ma, mi, pa) s3 => let '(p, b, s4) := extras s3 in POk (mkV ma mi pa b p) s4
    end.
Proof. reflexivity. Qed.

Lemma blank_stop_extras t : all is_space t -> stop_extras t.
Proof.
  intro H. destruct t as [|c t]; [repeat split; discriminate|].
  unfold all in H. cbn in H. apply andb_true_iff in H as [Hc _].
  assert (Hi : is_ident_char c = false).
  { unfold is_space in Hc. apply orb_true_iff in Hc as [E|E]; apply N.eqb_eq in E; subst; reflexivity. }
  repeat split; cbn; auto.
  - intros t' H. destruct (c =? 46) eqn:E; [|discriminate]. apply N.eqb_eq in E. subst. discriminate Hc.
  - destruct (c =? 43) eqn:E; auto. apply N.eqb_eq in E. subst. discriminate Hc.
Qed.
Lemma extras_text_not_digit loose e p b r : extras_text loose e p b -> not_head is_digit r -> not_head is_digit (e ++ r).
Proof.
  intros H Hr. destruct H as [|ps p Hp|bs b Hb|ps p bs b Hp Hb|ps p _ Ha Hp|ps p bs b _ Ha Hp Hb]; cbn; auto.
  - destruct ps as [|c ps]; [destruct Ha|]. cbn in *. unfold is_alpha, is_digit in *.
    destruct (48 <=? c) eqn:E1, (c <=? 57) eqn:E2; auto. apply N.leb_le in E1, E2.
    rewrite !orb_true_iff, !andb_true_iff, !N.leb_le in Ha. lia.
  - destruct ps as [|c ps]; [destruct Ha|]. cbn in *. unfold is_alpha, is_digit in *.
    destruct (48 <=? c) eqn:E1, (c <=? 57) eqn:E2; auto. apply N.leb_le in E1, E2.
    rewrite !orb_true_iff, !andb_true_iff, !N.leb_le in Ha. lia.
Qed.
Lemma blank_not_digit t : all is_space t -> not_head is_digit t.
Proof.
  destruct t as [|c t]; cbn; auto. unfold all. cbn. intro H. apply andb_true_iff in H as [Hc _].
  unfold is_space in Hc. apply orb_true_iff in Hc as [E|E]; apply N.eqb_eq in E; subst; reflexivity.
Qed.

Theorem version_eof_iff s v : version_eof s = POk v [] <->
  exists l M m p e t,
    s = l ++ M ++ 46 :: m ++ 46 :: p ++ e ++ t /\
    lead_text l /\ num_text M (major v) /\ num_text m (minor v) /\ num_text p (patch v) /\
    extras_text true e (pre v) (build v) /\ all is_space t.
Proof.
  unfold version_eof. rewrite version_p_unfold. split.
  - destruct (strip_v_inv s) as (l & Es & Hl).
    destruct (version_core (space0 (strip_v s))) as [[[ma mi] pa] s3|] eqn:Ec; [|discriminate].
    apply version_core_inv in Ec as (M & m & p & Ecore & HM & Hm & Hp & Hd).
    destruct (extras s3) as [[pr bl] s4] eqn:Ee. cbn [with_ctx].
    apply (extras_inv _ _ _ _ Hd) in Ee as (e & -> & He).
    destruct (space0 s4) eqn:E4; [|discriminate]. intros [= <-]. apply space0_nil_iff in E4.
    exists l, M, m, p, e, s4. cbn. rewrite Es at 1. rewrite Ecore. tauto.
  - intros (l & M & m & p & e & t & -> & Hl & HM & Hm & Hp & He & Ht).
    rewrite (strip_v_fwd l); [| exact Hl |].
    + assert (Hd : not_head is_digit (e ++ t)) by (eapply extras_text_not_digit; eauto using blank_not_digit).
      rewrite (version_core_fwd M m p _ _ _ (e ++ t) HM Hm Hp Hd).
      rewrite (extras_fwd e _ _ t He (blank_stop_extras t Ht)). cbn [with_ctx].
      apply space0_nil_iff in Ht. rewrite Ht. destruct v; reflexivity.
    + destruct HM as (DM & _). destruct (digits_head M DM) as (c & t' & -> & Hc). cbn. eauto.
Qed.

Lemma version_eof_rest s v r : version_eof s = POk v r -> r = [].
Proof.
  unfold version_eof. destruct (version_p s) as [v' r'|]; [|discriminate].
  destruct (space0 r'); [now intros [= _ <-]|discriminate].
Qed.

(** [Version::parse] accepts exactly the loose version language *)
Theorem vparse_iff s v : vparse s = inl v <-> is_version_text_loose s v.
Proof.
  unfold vparse, is_version_text_loose, is_version_text_gen. destruct (MAX_LENGTH <? utf8_len s) eqn:El.
  - apply N.ltb_lt in El. split; [discriminate|]. intros [H _]. lia.
  - apply N.ltb_ge in El. rewrite <- version_eof_iff. split.
    + destruct (version_eof s) as [v' r|] eqn:E; [|discriminate]. intros [= <-].
      pose proof (version_eof_rest _ _ _ E) as ->. auto.
    + intros [_ H]. now rewrite H.
Qed.
