(** Lemmas behind property C04 (precedence is the SemVer total order; Eq/Ord/Hash agree;
    sorting, max and min are consistent with it). *)
From Semver Require Import Version VersionOrder SemverOrder.
From Coq Require Import Lia Permutation Sorted.

(** ** Agreement with the SemVer section 11 relation *)
Lemma scmp_lt a : forall b, scmp a b = Lt <-> str_lt a b.
Proof.
  unfold scmp. induction a as [|x a IH]; destruct b as [|y b]; simpl.
  - split; [discriminate | inversion 1].
  - split; [constructor | reflexivity].
  - split; [discriminate | inversion 1].
  - destruct (N.compare_spec x y) as [->|L|G].
    + rewrite IH. split; [constructor; assumption|]. inversion 1; subst; [lia | assumption].
    + split; [intros _; now constructor | reflexivity].
    + split; [discriminate|]. inversion 1; subst; lia.
Qed.
Lemma icmp_lt a b : icmp a b = Lt <-> id_lt a b.
Proof.
  destruct a, b; simpl.
  - rewrite N.compare_lt_iff. split; [now constructor | now inversion 1].
  - split; [constructor | reflexivity].
  - split; [discriminate | inversion 1].
  - rewrite scmp_lt. split; [now constructor | now inversion 1].
Qed.
Lemma id_lt_irrefl i : ~ id_lt i i.
Proof. intro H. apply icmp_lt in H. rewrite i_refl in H. discriminate. Qed.
Lemma lex_icmp_lt a : forall b, lex icmp a b = Lt <-> ids_lt a b.
Proof.
  induction a as [|x a IH]; destruct b as [|y b]; simpl.
  - split; [discriminate | inversion 1].
  - split; [constructor | reflexivity].
  - split; [discriminate | inversion 1].
  - destruct (icmp x y) eqn:E.
    + apply icmp_eq in E. subst y. rewrite IH. split; [now constructor|].
      intro H. inversion H; subst; auto. exfalso. eapply id_lt_irrefl; eauto.
    + split; [intros _; apply il_head; now apply icmp_lt | reflexivity].
    + split; [discriminate|]. intro H. exfalso. inversion H; subst.
      * match goal with H1 : id_lt _ _ |- _ => apply icmp_lt in H1; congruence end.
      * rewrite i_refl in E; discriminate.
Qed.

Lemma vcmp_lt_prec a b : vcmp a b = Lt <-> prec_lt a b.
Proof.
  unfold vcmp.
  destruct (N.compare_spec (major a) (major b)) as [E1|L1|G1].
  2:{ split; [intros _; now apply pl_major | reflexivity]. }
  2:{ split; [discriminate | inversion 1; lia]. }
  destruct (N.compare_spec (minor a) (minor b)) as [E2|L2|G2].
  2:{ split; [intros _; now apply pl_minor | reflexivity]. }
  2:{ split; [discriminate | inversion 1; lia]. }
  destruct (N.compare_spec (patch a) (patch b)) as [E3|L3|G3].
  2:{ split; [intros _; now apply pl_patch | reflexivity]. }
  2:{ split; [discriminate | inversion 1; lia]. }
  destruct (pre a) as [|x pa] eqn:Pa, (pre b) as [|y pb] eqn:Pb; simpl.
  - split; [discriminate|]. inversion 1; try lia; congruence.
  - split; [discriminate|]. inversion 1; try lia; try congruence.
  - split; [intros _; apply pl_release; congruence | reflexivity].
  - change (lex icmp (x :: pa) (y :: pb) = Lt <-> prec_lt a b). rewrite lex_icmp_lt. split.
    + intro H. apply pl_pre; congruence.
    + intro H. inversion H; try lia; try congruence.
Qed.

(** ** Eq / Hash *)
Lemma vcmp_eq_fields a b :
  vcmp a b = Eq <-> (major a = major b /\ minor a = minor b /\ patch a = patch b /\ pre a = pre b).
Proof. rewrite <- veqb_vcmp. unfold veqb. rewrite !andb_true_iff, !N.eqb_eq, idents_eqb_eq. tauto. Qed.
Lemma veqb_hash a b : veqb a b = true <-> hash_key a = hash_key b.
Proof. rewrite veqb_vcmp, vcmp_eq_fields. unfold hash_key. split.
  - intros (-> & -> & -> & ->). reflexivity.
  - intro H. injection H. tauto. Qed.

Definition with_build (v : version) (b : list ident) : version :=
  mkV (major v) (minor v) (patch v) b (pre v).
Lemma vcmp_build a b x y : vcmp (with_build a x) (with_build b y) = vcmp a b.
Proof. reflexivity. Qed.
Lemma veqb_build a b x y : veqb (with_build a x) (with_build b y) = veqb a b.
Proof. reflexivity. Qed.
Lemma hash_build a x : hash_key (with_build a x) = hash_key a.
Proof. reflexivity. Qed.

(** ** Sorting, max, min *)

Lemma vinsert_perm x l : Permutation (x :: l) (vinsert x l).
Proof. induction l as [|y l IH]; simpl; auto.
  destruct (vle x y); auto. rewrite perm_swap. now constructor. Qed.
Lemma vsort_perm l : Permutation l (vsort l).
Proof. induction l as [|x l IH]; simpl; auto.
  rewrite <- vinsert_perm. now constructor. Qed.

Lemma vinsert_sorted x l : Sorted vleP l -> Sorted vleP (vinsert x l).
Proof.
  induction 1 as [|y l Hs IH Hd]; simpl.
  - repeat constructor.
  - destruct (vle x y) eqn:E.
    + constructor; [constructor; assumption|]. constructor. now apply vle_iff.
    + constructor; [assumption|].
      apply vle_false_iff in E.
      destruct l as [|z l]; simpl.
      * constructor. vorder.
      * destruct (vle x z); constructor.
        -- vorder.
        -- now inversion Hd.
Qed.
Lemma vsort_sorted l : Sorted vleP (vsort l).
Proof. induction l; simpl; [constructor | now apply vinsert_sorted]. Qed.

Lemma vleP_trans : Relations_1.Transitive vleP.
Proof. intros a b c H1 H2. vorder. Qed.
Lemma vsort_strongly_sorted l : StronglySorted vleP (vsort l).
Proof. apply Sorted_StronglySorted; [exact vleP_trans | apply vsort_sorted]. Qed.

(** the fold behind [Iterator::max]: the result is an element and an upper bound *)
Lemma fold_vmax2 r : forall x,
  let m := fold_left vmax2 r x in
  In m (x :: r) /\ forall y, In y (x :: r) -> vcmp y m <> Gt.
Proof.
  induction r as [|z r IH]; intros x; cbn [fold_left].
  - split; [now left|]. intros y [<-|[]]. rewrite v_refl. discriminate.
  - destruct (IH (vmax2 x z)) as [Hin Hub]. split.
    + destruct Hin as [E|Hin]; [|right; right; exact Hin].
      rewrite <- E. unfold vmax2. destruct (vcmp x z); simpl; auto.
    + intros y Hy.
      assert (Hxz : vcmp x (vmax2 x z) <> Gt /\ vcmp z (vmax2 x z) <> Gt).
      { unfold vmax2. destruct (vcmp x z) eqn:E; rewrite ?v_refl; repeat split; try discriminate; try congruence.
        rewrite v_anti, E. discriminate. }
      destruct Hxz as [Hx Hz].
      pose proof (Hub _ (or_introl eq_refl)) as Hm.
      destruct Hy as [<-|[<-|Hy]].
      * vorder.
      * vorder.
      * apply Hub. now right.
Qed.
Lemma fold_vmin2 r : forall x,
  let m := fold_left vmin2 r x in
  In m (x :: r) /\ forall y, In y (x :: r) -> vcmp m y <> Gt.
Proof.
  induction r as [|z r IH]; intros x; cbn [fold_left].
  - split; [now left|]. intros y [<-|[]]. rewrite v_refl. discriminate.
  - destruct (IH (vmin2 x z)) as [Hin Hub]. split.
    + destruct Hin as [E|Hin]; [|right; right; exact Hin].
      rewrite <- E. unfold vmin2. destruct (vcmp x z); simpl; auto.
    + intros y Hy.
      assert (Hxz : vcmp (vmin2 x z) x <> Gt /\ vcmp (vmin2 x z) z <> Gt).
      { unfold vmin2. destruct (vcmp x z) eqn:E; rewrite ?v_refl; repeat split; try discriminate; try congruence.
        rewrite v_anti, E. discriminate. }
      destruct Hxz as [Hx Hz].
      pose proof (Hub _ (or_introl eq_refl)) as Hm.
      destruct Hy as [<-|[<-|Hy]].
      * vorder.
      * vorder.
      * apply Hub. now right.
Qed.

Lemma iter_max_spec l m : iter_max l = Some m ->
  In m l /\ forall y, In y l -> vcmp y m <> Gt.
Proof. destruct l as [|x r]; simpl; [discriminate|]. intro H; injection H as <-. apply fold_vmax2. Qed.
Lemma iter_min_spec l m : iter_min l = Some m ->
  In m l /\ forall y, In y l -> vcmp m y <> Gt.
Proof. destruct l as [|x r]; simpl; [discriminate|]. intro H; injection H as <-. apply fold_vmin2. Qed.
Lemma iter_max_none l : iter_max l = None <-> l = [].
Proof. destruct l; simpl; split; congruence. Qed.
Lemma iter_min_none l : iter_min l = None <-> l = [].
Proof. destruct l; simpl; split; congruence. Qed.

(** ** any sorted permutation is the model's sort, up to precedence-equality
    ([slice::sort] is modelled as a stable insertion sort; this theorem makes the consistency of sorting independent of that
    choice: whatever algorithm produced a sorted permutation, position by position it holds precedence-equal versions) *)
Definition veqv (a b : version) : Prop := vcmp a b = Eq.
Lemma veqv_sym a b : veqv a b -> veqv b a.
Proof. unfold veqv. intro H. rewrite (v_anti a b), H. reflexivity. Qed.
Lemma veqv_trans a b c : veqv a b -> veqv b c -> veqv a c.
Proof. unfold veqv. intros H1 H2. rewrite (v_eq_l a b c H1). exact H2. Qed.
Lemma veqv_le a b : veqv a b -> vleP a b.
Proof. unfold veqv. intro H. apply vleP_iff. rewrite H. discriminate. Qed.
Lemma vle_eqv_r a b c : vleP a b -> veqv b c -> vleP a c.
Proof. intros H1 H2. apply vleP_iff. apply vleP_iff in H1. unfold veqv in H2. rewrite <- (v_eq_r b c a H2). exact H1. Qed.
Lemma vle_antisym a b : vleP a b -> vleP b a -> veqv a b.
Proof. intros H1 H2. apply vleP_iff in H1, H2. unfold veqv. rewrite (v_anti a b) in H2. destruct (vcmp a b); simpl in *; congruence. Qed.

Lemma Forall2_in_l {A B} (R : A -> B -> Prop) l l2 a : Forall2 R l l2 -> In a l -> exists y, In y l2 /\ R a y.
Proof. induction 1 as [|x y l l2 H _ IH]; intros [].
  - subst. exists y. split; [now left|exact H].
  - destruct (IH H0) as (z & Hz & Rz). exists z. split; [now right|exact Rz].
Qed.

(** a permutation up to precedence-equality *)
Definition permE (l1 l2 : list version) : Prop := exists l', Permutation l1 l' /\ Forall2 veqv l' l2.

Lemma sorted_permE_eqv : forall l2 l1, StronglySorted vleP l1 -> StronglySorted vleP l2 -> permE l1 l2 -> Forall2 veqv l1 l2.
Proof.
  induction l2 as [|b t2 IH]; intros l1 S1 S2 (l' & P & F).
  - inversion F; subst. apply Permutation_sym, Permutation_nil in P. subst. constructor.
  - inversion F as [|c y t1' t2' Hcb Ft]; subst.
    destruct l1 as [|a t1]; [apply Permutation_nil in P; discriminate|].
    inversion S1 as [|? ? S1t A1]; subst. inversion S2 as [|? ? S2t A2]; subst.
    rewrite Forall_forall in A1, A2.
    assert (Hab : vleP a b).
    { assert (Hc : In c (a :: t1)) by (eapply Permutation_in; [apply Permutation_sym; exact P|now left]).
      destruct Hc as [<-|Hc]; [now apply veqv_le|]. exact (vle_eqv_r a c b (A1 c Hc) Hcb). }
    assert (Ha' : In a (c :: t1')) by (eapply Permutation_in; [exact P|now left]).
    assert (Hba : vleP b a).
    { destruct Ha' as [->|Ha']; [now apply veqv_le, veqv_sym|].
      destruct (Forall2_in_l _ _ _ _ Ft Ha') as (y & Hy & Hay). exact (vle_eqv_r b y a (A2 y Hy) (veqv_sym _ _ Hay)). }
    pose proof (vle_antisym a b Hab Hba) as Eab.
    constructor; [exact Eab|]. apply IH; auto.
    destruct Ha' as [->|Ha'].
    + exists t1'. split; [exact (Permutation_cons_inv P)|exact Ft].
    + destruct (in_split _ _ Ha') as (u & w & ->).
      destruct (Forall2_app_inv_l _ _ Ft) as (t2u & t2w' & Fu & Fw & ->).
      inversion Fw as [|? y ? t2w Hay Fw']; subst.
      exists (u ++ c :: w). split.
      * assert (P' : Permutation (a :: t1) (a :: c :: u ++ w)).
        { eapply Permutation_trans; [exact P|]. change (c :: u ++ a :: w) with ((c :: u) ++ a :: w). apply Permutation_sym. apply (Permutation_middle (c :: u) w a). }
        apply Permutation_cons_inv in P'. eapply Permutation_trans; [exact P'|]. apply Permutation_middle.
      * apply Forall2_app; [exact Fu|]. constructor; [|exact Fw'].
        apply (veqv_trans c b y Hcb). apply (veqv_trans b a y (veqv_sym _ _ Eab) Hay).
Qed.

Theorem sort_canonical l l' : Permutation l l' -> StronglySorted vleP l' -> Forall2 (fun a b => vcmp a b = Eq) l' (vsort l).
Proof.
  intros P S. apply (sorted_permE_eqv (vsort l) l' S (vsort_strongly_sorted l)).
  exists (vsort l). split.
  - eapply Permutation_trans; [apply Permutation_sym; exact P|apply vsort_perm].
  - clear. induction (vsort l); constructor; auto. apply v_refl.
Qed.
