(** Lemmas behind property C04 (precedence is the SemVer total order; Eq/Ord/Hash agree;
    sorting, max and min are consistent with it). *)
From Semver Require Import Version VersionOrder SemverOrder.
From Coq Require Import Lia Permutation Sorted.

(** ** Agreement with the SemVer section 11 relation *)
Lemma scmp_lt a : forall b, scmp a b = Lt <-> str_lt a b.
Proof.
  unfold scmp. induction a as [|x a IH]; destruct b as [|y b]; simpl.
  - split; [discriminate | inversion 1].
  - split; [constructor | reflexivity].
  - split; [discriminate | inversion 1].
  - destruct (N.compare_spec x y) as [->|L|G].
    + rewrite IH. split; [constructor; assumption|]. inversion 1; subst; [lia | assumption].
    + split; [intros _; now constructor | reflexivity].
    + split; [discriminate|]. inversion 1; subst; lia.
Qed.
Lemma icmp_lt a b : icmp a b = Lt <-> id_lt a b.
Proof.
  destruct a, b; simpl.
  - rewrite N.compare_lt_iff. split; [now constructor | now inversion 1].
  - split; [constructor | reflexivity].
  - split; [discriminate | inversion 1].
  - rewrite scmp_lt. split; [now constructor | now inversion 1].
Qed.
Lemma id_lt_irrefl i : ~ id_lt i i.
Proof. intro H. apply icmp_lt in H. rewrite i_refl in H. discriminate. Qed.
Lemma lex_icmp_lt a : forall b, lex icmp a b = Lt <-> ids_lt a b.
Proof.
  induction a as [|x a IH]; destruct b as [|y b]; simpl.
  - split; [discriminate | inversion 1].
  - split; [constructor | reflexivity].
  - split; [discriminate | inversion 1].
  - destruct (icmp x y) eqn:E.
    + apply icmp_eq in E. subst y. rewrite IH. split; [now constructor|].
      intro H. inversion H; subst; auto. exfalso. eapply id_lt_irrefl; eauto.
    + split; [intros _; apply il_head; now apply icmp_lt | reflexivity].
    + split; [discriminate|]. intro H. exfalso. inversion H; subst.
      * match goal with H1 : id_lt _ _ |- _ => apply icmp_lt in H1; congruence end.
      * rewrite i_refl in E; discriminate.
Qed.

Lemma vcmp_lt_prec a b : vcmp a b = Lt <-> prec_lt a b.
Proof.
  unfold vcmp.
  destruct (N.compare_spec (major a) (major b)) as [E1|L1|G1].
  2:{ split; [intros _; now apply pl_major | reflexivity]. }
  2:{ split; [discriminate | inversion 1; lia]. }
  destruct (N.compare_spec (minor a) (minor b)) as [E2|L2|G2].
  2:{ split; [intros _; now apply pl_minor | reflexivity]. }
  2:{ split; [discriminate | inversion 1; lia]. }
  destruct (N.compare_spec (patch a) (patch b)) as [E3|L3|G3].
  2:{ split; [intros _; now apply pl_patch | reflexivity]. }
  2:{ split; [discriminate | inversion 1; lia]. }
  destruct (pre a) as [|x pa] eqn:Pa, (pre b) as [|y pb] eqn:Pb; simpl.
  - split; [discriminate|]. inversion 1; try lia; congruence.
  - split; [discriminate|]. inversion 1; try lia; try congruence.
  - split; [intros _; apply pl_release; congruence | reflexivity].
  - change (lex icmp (x :: pa) (y :: pb) = Lt <-> prec_lt a b). rewrite lex_icmp_lt. split.
    + intro H. apply pl_pre; congruence.
    + intro H. inversion H; try lia; try congruence.
Qed.

(** ** Eq / Hash *)
Lemma vcmp_eq_fields a b :
  vcmp a b = Eq <-> (major a = major b /\ minor a = minor b /\ patch a = patch b /\ pre a = pre b).
Proof. rewrite <- veqb_vcmp. unfold veqb. rewrite !andb_true_iff, !N.eqb_eq, idents_eqb_eq. tauto. Qed.
Lemma veqb_hash a b : veqb a b = true <-> hash_key a = hash_key b.
Proof. rewrite veqb_vcmp, vcmp_eq_fields. unfold hash_key. split.
  - intros (-> & -> & -> & ->). reflexivity.
  - intro H. injection H. tauto. Qed.

Definition with_build (v : version) (b : list ident) : version :=
  mkV (major v) (minor v) (patch v) b (pre v).
Lemma vcmp_build a b x y : vcmp (with_build a x) (with_build b y) = vcmp a b.
Proof. reflexivity. Qed.
Lemma veqb_build a b x y : veqb (with_build a x) (with_build b y) = veqb a b.
Proof. reflexivity. Qed.
Lemma hash_build a x : hash_key (with_build a x) = hash_key a.
Proof. reflexivity. Qed.

(** ** Sorting, max, min *)

Lemma vinsert_perm x l : Permutation (x :: l) (vinsert x l).
Proof. induction l as [|y l IH]; simpl; auto.
  destruct (vle x y); auto. rewrite perm_swap. now constructor. Qed.
Lemma vsort_perm l : Permutation l (vsort l).
Proof. induction l as [|x l IH]; simpl; auto.
  rewrite <- vinsert_perm. now constructor. Qed.

Lemma vinsert_sorted x l : Sorted vleP l -> Sorted vleP (vinsert x l).
Proof.
  induction 1 as [|y l Hs IH Hd]; simpl.
  - repeat constructor.
  - destruct (vle x y) eqn:E.
    + constructor; [constructor; assumption|]. constructor. now apply vle_iff.
    + constructor; [assumption|].
      apply vle_false_iff in E.
      destruct l as [|z l]; simpl.
      * constructor. vorder.
      * destruct (vle x z); constructor.
        -- vorder.
        -- now inversion Hd.
Qed.
Lemma vsort_sorted l : Sorted vleP (vsort l).
Proof. induction l; simpl; [constructor | now apply vinsert_sorted]. Qed.

Lemma vleP_trans : Relations_1.Transitive vleP.
Proof. intros a b c H1 H2. vorder. Qed.
Lemma vsort_strongly_sorted l : StronglySorted vleP (vsort l).
Proof. apply Sorted_StronglySorted; [exact vleP_trans | apply vsort_sorted]. Qed.

(** the fold behind [Iterator::max]: the result is an element and an upper bound *)
Lemma fold_vmax2 r : forall x,
  let m := fold_left vmax2 r x in
  In m (x :: r) /\ forall y, In y (x :: r) -> vcmp y m <> Gt.
Proof.
  induction r as [|z r IH]; intros x; cbn [fold_left].
  - split; [now left|]. intros y [<-|[]]. rewrite v_refl. discriminate.
  - destruct (IH (vmax2 x z)) as [Hin Hub]. split.
    + destruct Hin as [E|Hin]; [|right; right; exact Hin].
      rewrite <- E. unfold vmax2. destruct (vcmp x z); simpl; auto.
    + intros y Hy.
      assert (Hxz : vcmp x (vmax2 x z) <> Gt /\ vcmp z (vmax2 x z) <> Gt).
      { unfold vmax2. destruct (vcmp x z) eqn:E; rewrite ?v_refl; repeat split; try discriminate; try congruence.
        rewrite v_anti, E. discriminate. }
      destruct Hxz as [Hx Hz].
      pose proof (Hub _ (or_introl eq_refl)) as Hm.
      destruct Hy as [<-|[<-|Hy]].
      * vorder.
      * vorder.
      * apply Hub. now right.
Qed.
Lemma fold_vmin2 r : forall x,
  let m := fold_left vmin2 r x in
  In m (x :: r) /\ forall y, In y (x :: r) -> vcmp m y <> Gt.
Proof.
  induction r as [|z r IH]; intros x; cbn [fold_left].
  - split; [now left|]. intros y [<-|[]]. rewrite v_refl. discriminate.
  - destruct (IH (vmin2 x z)) as [Hin Hub]. split.
    + destruct Hin as [E|Hin]; [|right; right; exact Hin].
      rewrite <- E. unfold vmin2. destruct (vcmp x z); simpl; auto.
    + intros y Hy.
      assert (Hxz : vcmp (vmin2 x z) x <> Gt /\ vcmp (vmin2 x z) z <> Gt).
      { unfold vmin2. destruct (vcmp x z) eqn:E; rewrite ?v_refl; repeat split; try discriminate; try congruence.
        rewrite v_anti, E. discriminate. }
      destruct Hxz as [Hx Hz].
      pose proof (Hub _ (or_introl eq_refl)) as Hm.
      destruct Hy as [<-|[<-|Hy]].
      * vorder.
      * vorder.
      * apply Hub. now right.
Qed.

Lemma iter_max_spec l m : iter_max l = Some m ->
  In m l /\ forall y, In y l -> vcmp y m <> Gt.
Proof. destruct l as [|x r]; simpl; [discriminate|]. intro H; injection H as <-. apply fold_vmax2. Qed.
Lemma iter_min_spec l m : iter_min l = Some m ->
  In m l /\ forall y, In y l -> vcmp m y <> Gt.
Proof. destruct l as [|x r]; simpl; [discriminate|]. intro H; injection H as <-. apply fold_vmin2. Qed.
Lemma iter_max_none l : iter_max l = None <-> l = [].
Proof. destruct l; simpl; split; congruence. Qed.
Lemma iter_min_none l : iter_min l = None <-> l = [].
Proof. destruct l; simpl; split; congruence. Qed.
