(** Semantics of the interval and range operations: [intersect], [difference],
    [allows_any], [allows_all] against bounds membership ([within]) and satisfaction
    (membership + prerelease gate); closure of well-formedness; absence of panics. *)
From Semver Require Import Version VersionOrder Range Interval.
From Coq Require Import Lia.
Set Default Timeout 120.

(** ** single intervals *)

Lemma bs_intersect_wf a b c : wf_bs a -> wf_bs b -> bs_intersect a b = Some c -> wf_bs c.
Proof.
  intros (Hla & Hua & _) (Hlb & Hub & _). unfold bs_intersect.
  apply bs_new_wf; auto using is_lower_max, is_upper_min.
Qed.

Lemma bs_intersect_shape a b c : bs_intersect a b = Some c ->
  c = mkBS (bmin (bs_upper a) (bs_upper b)) (bmax (bs_lower a) (bs_lower b)).
Proof. apply bs_new_shape. Qed.

Theorem bs_intersect_within a b v : wf_bs a -> wf_bs b ->
  match bs_intersect a b with
  | Some c => within c v = within a v && within b v
  | None => within a v && within b v = false
  end.
Proof.
  intros (Hla & Hua & _) (Hlb & Hub & _). unfold bs_intersect.
  destruct (bs_new _ _) as [c|] eqn:E.
  - apply bs_new_shape in E. subst c. unfold within; cbn [bs_lower bs_upper].
    rewrite lower_ok_max, upper_ok_min by assumption.
    destruct (lower_ok (bs_lower a) v), (lower_ok (bs_lower b) v), (upper_ok (bs_upper a) v), (upper_ok (bs_upper b) v); reflexivity.
  - assert (V : valid (bmax (bs_lower a) (bs_lower b)) (bmin (bs_upper a) (bs_upper b)) = false)
      by (unfold valid; now rewrite E).
    apply invalid_empty with (v := v) in V; auto using is_lower_max, is_upper_min.
    rewrite lower_ok_max, upper_ok_min in V by assumption. unfold within.
    destruct (lower_ok (bs_lower a) v), (lower_ok (bs_lower b) v), (upper_ok (bs_upper a) v), (upper_ok (bs_upper b) v); simpl in *; congruence.
Qed.

Definition is_some {A} (o : option A) : bool := match o with Some _ => true | None => false end.

(** [allows_any] is exactly "the intersection is a valid interval" *)
Theorem bs_allows_any_intersect a b : wf_bs a -> wf_bs b ->
  bs_allows_any a b = is_some (bs_intersect a b).
Proof.
  intros (Hla & Hua & Va) (Hlb & Hub & Vb).
  unfold bs_allows_any, bs_intersect.
  change (is_some (bs_new ?l ?u)) with (valid l u).
  rewrite valid_max, !valid_min by auto using is_upper_min.
  rewrite Va, Vb. rewrite !upper_lt_lower by assumption.
  destruct (valid (bs_lower a) (bs_upper b)), (valid (bs_lower b) (bs_upper a)); reflexivity.
Qed.

(** [allows_all] implies containment of the bounds *)
Theorem bs_allows_all_within a b v : wf_bs a -> wf_bs b ->
  bs_allows_all a b = true -> within b v = true -> within a v = true.
Proof.
  intros (Hla & Hua & _) (Hlb & Hub & _). unfold bs_allows_all, within.
  rewrite !andb_true_iff. intros [H1 H2] [H3 H4]. split.
  - eapply lower_mono; eauto.
  - eapply upper_mono; eauto.
Qed.

Lemma ble_refl_lower l : is_lower l = true -> ble l l = true.
Proof. destruct l as [[]|]; try discriminate; intros _; unfold ble, bcmp; rewrite ?v_refl; reflexivity. Qed.
Lemma ble_refl_upper u : is_upper u = true -> ble u u = true.
Proof. destruct u as [|[]]; try discriminate; intros _; unfold ble, bcmp; rewrite ?v_refl; reflexivity. Qed.
Lemma bs_allows_all_refl a : wf_bs a -> bs_allows_all a a = true.
Proof. intros (Hl & Hu & _). unfold bs_allows_all. now rewrite ble_refl_lower, ble_refl_upper. Qed.

Lemma bound_eqb_refl b : bound_eqb b b = true.
Proof. destruct b as [[]|[]]; cbn; auto; apply veqb_vcmp, v_refl. Qed.

(** [ble] on same-kind bounds says which operand [max]/[min] keeps (up to [PartialEq]) *)
Lemma ble_max_eqb l1 l2 : is_lower l1 = true -> is_lower l2 = true ->
  ble l1 l2 = bound_eqb (bmax l2 l1) l2.
Proof.
  intros H1 H2. unfold ble, bmax, blt.
  destruct (bcmp l1 l2) eqn:E.
  - symmetry. apply bcmp_eq_lower; auto.
  - symmetry. apply bound_eqb_refl.
  - destruct (bound_eqb l1 l2) eqn:B; auto. apply bcmp_eq_lower in B; auto. congruence.
Qed.
Lemma ble_min_eqb u1 u2 : is_upper u1 = true -> is_upper u2 = true ->
  ble u1 u2 = bound_eqb (bmin u1 u2) u1.
Proof.
  intros H1 H2. unfold ble, bmin, blt.
  rewrite (bcmp_anti_upper u1 u2 H1 H2).
  destruct (bcmp u1 u2) eqn:E; simpl.
  - symmetry. apply bound_eqb_refl.
  - symmetry. apply bound_eqb_refl.
  - destruct (bound_eqb u2 u1) eqn:B; auto. apply bcmp_eq_upper in B; auto.
    rewrite (bcmp_anti_upper u1 u2 H1 H2), E in B. discriminate.
Qed.

(** validity is insensitive to [PartialEq]-equal replacements *)
Lemma valid_eqb_lower l l' u : is_lower l = true -> is_lower l' = true -> is_upper u = true ->
  bound_eqb l' l = true -> valid l' u = valid l u.
Proof.
  intros Hl Hl' Hu E.
  assert (M : bmax l l' = l \/ bmax l l' = l') by apply bmax_cases.
  pose proof (valid_max l l' u Hl Hl' Hu) as V1.
  pose proof (valid_max l' l u Hl' Hl Hu) as V2.
  apply bcmp_eq_lower in E; auto.
  pose proof (bcmp_anti_lower l' l Hl' Hl) as A. rewrite E in A. simpl in A.
  unfold bmax, blt in V1, V2. rewrite E in V1. rewrite A in V2.
  destruct (valid l u), (valid l' u); simpl in *; congruence.
Qed.
Lemma valid_eqb_upper l u u' : is_lower l = true -> is_upper u = true -> is_upper u' = true ->
  bound_eqb u' u = true -> valid l u' = valid l u.
Proof.
  intros Hl Hu Hu' E.
  pose proof (valid_min l u u' Hl Hu Hu') as V1.
  pose proof (valid_min l u' u Hl Hu' Hu) as V2.
  apply bcmp_eq_upper in E; auto.
  pose proof (bcmp_anti_upper u' u Hu' Hu) as A. rewrite E in A. simpl in A.
  unfold bmin, blt in V1, V2. rewrite E in V1. rewrite A in V2.
  destruct (valid l u), (valid l u'); simpl in *; congruence.
Qed.

(** ** difference of two intervals *)

Definition within_list (l : list boundset) (v : version) : bool := existsb (fun bs => within bs v) l.

(** the overlap's bounds relative to [self]'s *)
Lemma overlap_lower_ge_gen l1 l2 : is_lower l1 = true -> is_lower l2 = true ->
  blt l1 (bmax l1 l2) = false -> bound_eqb (bmax l1 l2) l1 = true.
Proof.
  intros H1 H2. unfold bmax, blt.
  destruct (bcmp l2 l1) eqn:E.
  - intros _. apply bcmp_eq_lower; auto.
  - intros _. apply bound_eqb_refl.
  - rewrite (bcmp_anti_lower l2 l1 H2 H1), E. simpl. discriminate.
Qed.
Lemma overlap_upper_le_gen u1 u2 : is_upper u1 = true -> is_upper u2 = true ->
  blt (bmin u1 u2) u1 = false -> bound_eqb (bmin u1 u2) u1 = true.
Proof.
  intros H1 H2. unfold bmin, blt.
  destruct (bcmp u2 u1) eqn:E.
  - intros _. apply bound_eqb_refl.
  - rewrite E. discriminate.
  - intros _. apply bound_eqb_refl.
Qed.
Lemma overlap_lower_ge a b : is_lower (bs_lower a) = true -> is_lower (bs_lower b) = true ->
  blt (bs_lower a) (bmax (bs_lower a) (bs_lower b)) = false ->
  bound_eqb (bmax (bs_lower a) (bs_lower b)) (bs_lower a) = true.
Proof. apply overlap_lower_ge_gen. Qed.
Lemma overlap_upper_le a b : is_upper (bs_upper a) = true -> is_upper (bs_upper b) = true ->
  blt (bmin (bs_upper a) (bs_upper b)) (bs_upper a) = false ->
  bound_eqb (bmin (bs_upper a) (bs_upper b)) (bs_upper a) = true.
Proof. apply overlap_upper_le_gen. Qed.

Lemma lower_predicate l : is_lower l = true -> Lower (predicate l) = l.
Proof. destruct l; [reflexivity|discriminate]. Qed.
Lemma upper_predicate u : is_upper u = true -> Upper (predicate u) = u.
Proof. destruct u; [discriminate|reflexivity]. Qed.

Theorem bs_difference_spec a b : wf_bs a -> wf_bs b ->
  exists r, bs_difference a b = Ok r /\
    (forall v, within_list (match r with Some l => l | None => [] end) v = within a v && negb (within b v)) /\
    Forall wf_bs (match r with Some l => l | None => [] end) /\
    (r = None -> forall v, within a v = true -> within b v = true) /\
    (r = None -> exists ov, bs_intersect a b = Some ov /\ bs_eqb ov a = true).
Proof.
  intros Wa Wb. pose proof Wa as (Hla & Hua & Va). pose proof Wb as (Hlb & Hub & Vb).
  pose proof (bs_intersect_within a b) as IW.
  unfold bs_difference. destruct (bs_intersect a b) as [ov|] eqn:EI.
  2:{ (* no overlap: [self] is left *)
    exists (Some [a]). split; [reflexivity|]. split; [|split; [|split]].
    - intro v. specialize (IW v Wa Wb). cbn. rewrite orb_false_r.
      destruct (within a v), (within b v); simpl in *; congruence.
    - repeat constructor; assumption.
    - discriminate.
    - discriminate. }
  pose proof (bs_intersect_shape _ _ _ EI) as Sh.
  pose proof (bs_intersect_wf _ _ _ Wa Wb EI) as (Hlo & Huo & Vo).
  set (lo := bmax (bs_lower a) (bs_lower b)) in *. set (uo := bmin (bs_upper a) (bs_upper b)) in *.
  assert (Elo : bs_lower ov = lo) by (subst ov; reflexivity).
  assert (Euo : bs_upper ov = uo) by (subst ov; reflexivity).
  rewrite Elo in Hlo. rewrite Euo in Huo. rewrite Elo, Euo in Vo.
  (* membership in the overlap *)
  assert (Wov : forall v, within ov v = within a v && within b v) by (intro v; exact (IW v Wa Wb)).
  assert (Llo : forall v, lower_ok lo v = lower_ok (bs_lower a) v && lower_ok (bs_lower b) v)
    by (intro v; apply lower_ok_max; assumption).
  assert (Uuo : forall v, upper_ok uo v = upper_ok (bs_upper a) v && upper_ok (bs_upper b) v)
    by (intro v; apply upper_ok_min; assumption).
  destruct (bs_eqb ov a) eqn:EQ.
  { (* overlap == self: nothing is left *)
    exists None. split; [reflexivity|]. split; [|split; [|split]].
    - intro v. cbn. unfold bs_eqb in EQ. apply andb_true_iff in EQ as [EU EL].
      rewrite Elo in EL. rewrite Euo in EU.
      pose proof (lower_ok_eqb _ _ v EL) as L1. pose proof (upper_ok_eqb _ _ v EU) as U1.
      rewrite Llo in L1. rewrite Uuo in U1. unfold within.
      destruct (lower_ok (bs_lower a) v), (lower_ok (bs_lower b) v), (upper_ok (bs_upper a) v), (upper_ok (bs_upper b) v); simpl in *; congruence.
    - constructor.
    - intros _ v Hv. unfold bs_eqb in EQ. apply andb_true_iff in EQ as [EU EL].
      rewrite Elo in EL. rewrite Euo in EU.
      pose proof (lower_ok_eqb _ _ v EL) as L1. pose proof (upper_ok_eqb _ _ v EU) as U1.
      rewrite Llo in L1. rewrite Uuo in U1. unfold within in *.
      destruct (lower_ok (bs_lower a) v), (lower_ok (bs_lower b) v), (upper_ok (bs_upper a) v), (upper_ok (bs_upper b) v); simpl in *; congruence.
    - intros _. exists ov. split; [reflexivity | exact EQ]. }
  rewrite Elo, Euo.
  (* facts shared by the three remaining branches *)
  assert (Cover : forall v, lower_ok lo v || upper_ok uo v = true).
  { intro v. apply valid_cover; auto. }
  destruct (blt (bs_lower a) lo) eqn:BL; destruct (blt uo (bs_upper a)) eqn:BU; cbn [andb].
  - (* both remainders *)
    pose proof (remainder_left_valid _ _ Hla Hlo BL) as V1.
    pose proof (remainder_right_valid _ _ Huo Hua BU) as V2.
    rewrite (valid_bs_new _ _ V1), (valid_bs_new _ _ V2).
    eexists. split; [reflexivity|]. split; [|split; [|split]].
    + intro v. cbn [within_list existsb]. rewrite orb_false_r. unfold within at 1 2; cbn [bs_lower bs_upper].
      rewrite upper_flip by (eapply blt_lower_bounded; [| |exact BL]; assumption).
      rewrite lower_flip by (eapply blt_upper_bounded; [| |exact BU]; assumption).
      rewrite ?(lower_predicate lo Hlo), ?(upper_predicate uo Huo).
      pose proof (Cover v) as C. unfold within. rewrite ?Llo, ?Uuo in *.
      destruct (lower_ok (bs_lower a) v), (lower_ok (bs_lower b) v), (upper_ok (bs_upper a) v), (upper_ok (bs_upper b) v);
        simpl in *; congruence.
    + repeat constructor; cbn; auto.
    + discriminate.
    + discriminate.
  - (* left remainder only; the overlap reaches [self]'s upper bound *)
    pose proof (remainder_left_valid _ _ Hla Hlo BL) as V1.
    rewrite (valid_bs_new _ _ V1). cbn [option_map].
    eexists. split; [reflexivity|]. split; [|split; [|split]].
    + intro v. cbn [within_list existsb]. rewrite orb_false_r. unfold within at 1; cbn [bs_lower bs_upper].
      rewrite upper_flip by (eapply blt_lower_bounded; [| |exact BL]; assumption).
      pose proof (overlap_upper_le a b Hua Hub BU) as EU. fold uo in EU.
      pose proof (upper_ok_eqb _ _ v EU) as U1.
      rewrite ?(lower_predicate lo Hlo), ?(upper_predicate uo Huo).
      pose proof (Cover v) as C. unfold within. rewrite ?Llo, ?Uuo in *.
      destruct (lower_ok (bs_lower a) v), (lower_ok (bs_lower b) v), (upper_ok (bs_upper a) v), (upper_ok (bs_upper b) v);
        simpl in *; congruence.
    + repeat constructor; cbn; auto.
    + discriminate.
    + discriminate.
  - (* right remainder only *)
    pose proof (remainder_right_valid _ _ Huo Hua BU) as V2.
    rewrite (valid_bs_new _ _ V2). cbn [option_map].
    eexists. split; [reflexivity|]. split; [|split; [|split]].
    + intro v. cbn [within_list existsb]. rewrite orb_false_r. unfold within at 1; cbn [bs_lower bs_upper].
      rewrite lower_flip by (eapply blt_upper_bounded; [| |exact BU]; assumption).
      pose proof (overlap_lower_ge a b Hla Hlb BL) as EL. fold lo in EL.
      pose proof (lower_ok_eqb _ _ v EL) as L1.
      rewrite ?(lower_predicate lo Hlo), ?(upper_predicate uo Huo).
      pose proof (Cover v) as C. unfold within. rewrite ?Llo, ?Uuo in *.
      destruct (lower_ok (bs_lower a) v), (lower_ok (bs_lower b) v), (upper_ok (bs_upper a) v), (upper_ok (bs_upper b) v);
        simpl in *; congruence.
    + repeat constructor; cbn; auto.
    + discriminate.
    + discriminate.
  - (* neither: the overlap would equal [self] *)
    exfalso.
    pose proof (overlap_lower_ge a b Hla Hlb BL) as EL. pose proof (overlap_upper_le a b Hua Hub BU) as EU.
    unfold bs_eqb in EQ. rewrite Elo, Euo in EQ. fold lo in EL. fold uo in EU. rewrite EL, EU in EQ. discriminate.
Qed.

(** [difference] returns [None] exactly when [other] allows all of [self] *)
Theorem bs_difference_none_iff a b : wf_bs a -> wf_bs b ->
  (bs_difference a b = Ok None <-> bs_allows_all b a = true).
Proof.
  intros Wa Wb. pose proof Wa as (Hla & Hua & Va). pose proof Wb as (Hlb & Hub & Vb).
  unfold bs_allows_all. rewrite (ble_max_eqb _ _ Hlb Hla), (ble_min_eqb _ _ Hua Hub).
  split.
  - intro H. destruct (bs_difference_spec a b Wa Wb) as (r & Hr & _ & _ & _ & Hn).
    rewrite H in Hr. injection Hr as <-. destruct (Hn eq_refl) as (ov & EI & EQ).
    apply bs_intersect_shape in EI. subst ov. unfold bs_eqb in EQ; cbn [bs_lower bs_upper] in EQ.
    apply andb_true_iff in EQ as [EU EL]. now rewrite EL, EU.
  - intro H. apply andb_true_iff in H as [EL EU].
    unfold bs_difference, bs_intersect.
    set (lo := bmax (bs_lower a) (bs_lower b)) in *. set (uo := bmin (bs_upper a) (bs_upper b)) in *.
    assert (V : valid lo uo = true).
    { rewrite (valid_eqb_lower (bs_lower a) lo uo); auto; try (apply is_lower_max; auto); try (apply is_upper_min; auto).
      rewrite (valid_eqb_upper (bs_lower a) (bs_upper a) uo); auto. apply is_upper_min; auto. }
    rewrite (valid_bs_new _ _ V). unfold bs_eqb; cbn [bs_lower bs_upper]. now rewrite EL, EU.
Qed.
