(** Support for the generated version-grammar parsers (coq/Gen/V_*.v, tools/translate_v.py): adapters that present the model
    functions of Model/VParse.v as error-carrying parsers, the closures recognised token by token, and the lemmas the generated
    equality proofs apply. *)
From Semver Require Import Version VParse CombE ParseLen.
From Coq Require Import Lia.

(** erasing the error: what the model's option-valued parsers of the qualifier keep *)
Definition erase {A} (x : pr A) : option (A * str) := match x with POk a r => Some (a, r) | PErr _ => None end.
Lemma erase_ctx {A} c (x : pr A) : erase (with_ctx c x) = erase x. Proof. destruct x; reflexivity. Qed.
Lemma lit_single c s : lit [c] s = lit1 c s.
Proof. destruct s as [|x r]; cbn [lit lit1]; auto. rewrite (N.eqb_sym c x). destruct (x =? c); reflexivity. Qed.

(** model functions as error-carrying parsers (the content of the error is immaterial for the option-valued ones) *)
Definition of_opt {A} (f : str -> option (A * str)) : eparser A := fun s => match f s with Some (a, r) => POk a r | None => PErr (perr_at s) end.
Definition identifier_m : eparser ident := of_opt identifier.
Definition pre_release_m : eparser (list ident) := of_opt pre_release.
Definition build_m : eparser (list ident) := of_opt build_meta.
Definition number_pm : eparser N := number.
Definition extras_pm : eparser (list ident * list ident) := fun s => let '(p, b, r) := extras s in POk (p, b) r.
Lemma erase_of_opt {A} (f : str -> option (A * str)) s : erase (of_opt f s) = f s.
Proof. unfold of_opt. destruct (f s) as [[a r]|]; reflexivity. Qed.

(** the closures that are recognised rather than translated *)
Inductive extras_t := EBuild (b : list ident) | ERelease (p : list ident) | EBoth (pb : list ident * list ident).
Definition extras_values (e : extras_t) : list ident * list ident :=
  match e with ERelease i => (i, []) | EBuild i => ([], i) | EBoth i => i end.
Definition number_check (copied raw : str) : N + perr :=
  let v := dec_value raw in
  if U64_LIMIT <=? v then inr (mkPE copied None (Some KParseInt))
  else if MAX_SAFE_INTEGER <? v then inr (mkPE copied None (Some (KMaxInt v)))
  else inl v.

(** identifier() *)
Lemma span_ext p q : (forall c, p c = q c) -> forall s, span p s = span q s.
Proof. intros H s. induction s as [|c r IH]; cbn; auto. rewrite H, IH. reflexivity. Qed.
Lemma erase_identifier_gen pred : (forall c, pred c = is_ident_char c) ->
  forall s, erase (e_context CIdentifier (e_map (e_take_while1 pred) classify) s) = identifier s.
Proof.
  intros H s. unfold e_context. rewrite erase_ctx. unfold e_map, e_take_while1, identifier. rewrite (span_ext _ _ H).
  destruct (span is_ident_char s) as [cs rest]. destruct cs; reflexivity.
Qed.

(** separated(1.., identifier, ".") for any parser that succeeds exactly like the model's [identifier] *)
Section Idents.
  Variable ip : eparser ident.
  Hypothesis Hip : forall s, erase (ip s) = identifier s.
  Lemma sep_tail_idents f : forall s, e_sep_tail f ip (e_literal [46]) s = idents_tail f s.
  Proof.
    induction f as [|f IH]; intro s; cbn [e_sep_tail idents_tail]; [reflexivity|].
    unfold e_literal. rewrite lit_single. destruct (lit1 46 s) as [r|]; [|reflexivity].
    pose proof (Hip r) as E. destruct (ip r) as [i r'|e]; destruct (identifier r) as [[i' r'']|]; cbn in E; try discriminate; [|reflexivity].
    injection E as <- <-. now rewrite IH.
  Qed.
  Lemma separated1_idents s : erase (e_separated1 ip (e_literal [46]) s) = idents1 s.
  Proof.
    unfold e_separated1, idents1. pose proof (Hip s) as E.
    destruct (ip s) as [i r|e]; destruct (identifier s) as [[i' r']|]; cbn in E; try discriminate; [|reflexivity].
    injection E as <- <-. rewrite sep_tail_idents. destruct (idents_tail (length r) r); reflexivity.
  Qed.
  Lemma erase_pre_release_gen s :
    erase (e_context CPreRelease (e_preceded (e_opt (e_literal [45])) (e_separated1 ip (e_literal [46]))) s) = pre_release s.
  Proof.
    unfold e_context. rewrite erase_ctx. set (S := e_separated1 ip (e_literal [46])).
    assert (HS : forall t, erase (S t) = idents1 t) by (intro t; apply separated1_idents).
    unfold e_preceded, e_map, e_pair, e_opt, pre_release, opt_lit1. unfold e_literal at 1. rewrite lit_single.
    destruct (lit1 45 s) as [r|].
    - specialize (HS r). destruct (S r); destruct (idents1 r) as [[l r']|]; cbn in *; congruence.
    - specialize (HS s). destruct (S s); destruct (idents1 s) as [[l r']|]; cbn in *; congruence.
  Qed.
  Lemma erase_build_gen s :
    erase (e_context CBuild (e_preceded (e_literal [43]) (e_separated1 ip (e_literal [46]))) s) = build_meta s.
  Proof.
    unfold e_context. rewrite erase_ctx. set (S := e_separated1 ip (e_literal [46])).
    assert (HS : forall t, erase (S t) = idents1 t) by (intro t; apply separated1_idents).
    unfold e_preceded, e_map, e_pair, build_meta. unfold e_literal at 1. rewrite lit_single.
    destruct (lit1 43 s) as [r|]; [|reflexivity].
    specialize (HS r). destruct (S r); destruct (idents1 r) as [[l r']|]; cbn in *; congruence.
  Qed.
End Idents.
Lemma erase_identifier_m s : erase (identifier_m s) = identifier s. Proof. apply erase_of_opt. Qed.

(** extras() for any parsers that succeed exactly like the model's [pre_release] and [build_meta] *)
Lemma extras_gen (pp bp : eparser (list ident)) : (forall s, erase (pp s) = pre_release s) -> (forall s, erase (bp s) = build_meta s) ->
  forall s, e_map (e_opt (e_alt [e_map (e_pair pp bp) EBoth; e_map pp ERelease; e_map bp EBuild]))
                  (fun x => match x with Some e => extras_values e | None => ([], []) end) s = extras_pm s.
Proof.
  intros Hp Hb s. unfold extras_pm, e_map, e_opt, e_alt, extras. cbn [e_alt_from]. unfold e_map, e_pair.
  pose proof (Hp s) as Ep. destruct (pp s) as [p r|e]; destruct (pre_release s) as [[p' r']|]; cbn in Ep; try discriminate.
  - injection Ep as <- <-. pose proof (Hb r) as Eb. destruct (bp r) as [b r2|e]; destruct (build_meta r) as [[b' r2']|]; cbn in Eb; try discriminate.
    + injection Eb as <- <-. reflexivity.
    + reflexivity.
  - pose proof (Hb s) as Eb. destruct (bp s) as [b r2|e']; destruct (build_meta s) as [[b' r2']|]; cbn in Eb; try discriminate.
    + injection Eb as <- <-. reflexivity.
    + reflexivity.
Qed.

(** number(), version_core(), version(): exactly the model, errors included *)
Lemma number_gen s : e_context CNumber (e_try_map (e_take_while1 is_digit) (number_check s)) s = number s.
Proof.
  unfold number, e_context, e_try_map, e_take_while1, number_check. destruct (span is_digit s) as [ds rest]. destruct ds as [|d ds]; [reflexivity|].
  cbv zeta. destruct (U64_LIMIT <=? dec_value (d :: ds)); [reflexivity|]. destruct (MAX_SAFE_INTEGER <? dec_value (d :: ds)); reflexivity.
Qed.
Lemma version_core_gen s :
  e_context CVersionCore (e_map (e_pair number_pm (e_pair (e_literal [46]) (e_pair number_pm (e_pair (e_literal [46]) number_pm))))
                               (fun '(major_, (_, (minor_, (_, patch_)))) => (major_, minor_, patch_))) s = version_core s.
Proof.
  unfold version_core, e_context, e_map, e_pair, number_pm, e_literal, dot. f_equal.
  destruct (number s) as [ma s1|e]; [|reflexivity]. rewrite lit_single. destruct (lit1 46 s1) as [s2|]; [|reflexivity].
  destruct (number s2) as [mi s3|e]; [|reflexivity]. rewrite lit_single. destruct (lit1 46 s3) as [s4|]; [|reflexivity].
  destruct (number s4) as [pa s5|e]; reflexivity.
Qed.
Lemma version_gen s :
  e_context CVersion (e_map (e_pair (e_opt (e_alt [e_literal [118]; e_literal [86]])) (e_pair e_space0 (e_pair version_core extras_pm)))
                            (fun '(_, (_, ((major_, minor_, patch_), (pre_release_, build_)))) => mkV major_ minor_ patch_ build_ pre_release_)) s = version_p s.
Proof.
  unfold version_p, e_context, e_map, e_pair, e_opt, e_alt, e_space0, extras_pm, opt_lit1. cbn [e_alt_from]. unfold e_literal. rewrite !lit_single. f_equal.
  destruct (lit1 118 s) as [r|].
  - destruct (version_core (space0 r)) as [[[ma mi] pa] s3|e]; [|reflexivity]. destruct (extras s3) as [[p b] s4]. reflexivity.
  - destruct (lit1 86 s) as [r|].
    + destruct (version_core (space0 r)) as [[[ma mi] pa] s3|e]; [|reflexivity]. destruct (extras s3) as [[p b] s4]. reflexivity.
    + destruct (version_core (space0 s)) as [[[ma mi] pa] s3|e]; [|reflexivity]. destruct (extras s3) as [[p b] s4]. reflexivity.
Qed.
