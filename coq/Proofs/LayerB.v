(** Layer B: the character-level range grammar, run on any text of a syntax tree
    ([Spec/RangeText.v]: every loose spelling), returns what the desugaring tables give for
    the tree.  Together with Layer A ([Tables.v]) this is property C01 for texts. *)
From Semver Require Import Version VersionOrder VParse VersionGrammar Range RParse NpmRange RangeText
  ParseLen ParseWf DecLemmas ParseLemmas VersionRT PrintParse Interval SetOps RangeOps RangeLaws AndFold Tables.
From Coq Require Import Lia.
Set Default Timeout 180.

(** ** characters *)
Lemma wild_facts c : is_wild c = true ->
  is_space c = false /\ is_digit c = false /\ (c =? 118) = false /\ (c =? 62) = false /\ (c =? 61) = false /\
  (c =? 60) = false /\ (c =? 126) = false /\ (c =? 94) = false /\ (c =? 124) = false /\ (c =? 45) = false.
Proof.
  unfold is_wild. rewrite !orb_true_iff, !N.eqb_eq. intros [[-> | ->] | ->]; repeat split; reflexivity.
Qed.
Lemma blank1_head w r : blank1 w -> exists c t, w ++ r = c :: t /\ is_space c = true.
Proof.
  intros [Hne Hw]. destruct w as [|c w]; [congruence|]. unfold all in Hw. cbn in Hw. apply andb_true_iff in Hw as [Hc _].
  exists c, (w ++ r). auto.
Qed.
Lemma blank1_term w r : blank1 w -> term (w ++ r).
Proof. intro H. destruct (blank1_head w r H) as (c & t & -> & Hc). unfold term, at_term. now rewrite Hc. Qed.
Lemma blank1_blank w : blank1 w -> blank_str w. Proof. now intros [_ H]. Qed.
Lemma space1_fwd w r : blank1 w -> not_head is_space r -> space1 (w ++ r) = Some r.
Proof.
  intros [Hne Hw] Hr. destruct w as [|c w]; [congruence|]. unfold all in Hw. cbn in Hw. apply andb_true_iff in Hw as [Hc Hw].
  cbn [app space1]. rewrite Hc. f_equal. now apply space0_fwd.
Qed.
Lemma term_not_dot r : term r -> lit1 46 r = None.
Proof.
  intro H. destruct (term_cases r H) as [->|[(c & t & -> & Hc)|(t & ->)]]; cbn; auto.
  destruct (c =? 46) eqn:E; auto. apply N.eqb_eq in E. subst. discriminate Hc.
Qed.

(** ** components *)
Lemma xr_text_head t a : xr_text t a -> exists c t', t = c :: t' /\ (is_digit c = true \/ is_wild c = true).
Proof.
  intros [c Hc|ds n (Hd & _)].
  - exists c, []. auto.
  - destruct (digits_head ds Hd) as (c & t' & -> & Hc). eauto.
Qed.
Lemma component_xr t a r : xr_text t a -> not_head is_digit r -> component (t ++ r) = Some (a, r).
Proof.
  intros [c Hc|ds n (Hd & Hv & Hm)] Hr.
  - cbn. now rewrite Hc.
  - destruct (digits_head ds Hd) as (c & t' & E & Hc). destruct (digit_facts c Hc) as (_ & W & _).
    unfold component, number_o. rewrite (number_fwd ds r Hd Hr) by (rewrite Hv; exact Hm).
    rewrite E. cbn [app]. rewrite W. now rewrite <- E, Hv.
Qed.
Lemma opt_dot_xr t a r : xr_text t a -> not_head is_digit r -> opt_dot_component (46 :: t ++ r) = (Some a, r).
Proof. intros. unfold opt_dot_component. rewrite lit1_fwd, (component_xr t a r); auto. Qed.
Lemma opt_dot_none r : lit1 46 r = None -> opt_dot_component r = (None, r).
Proof. intro H. unfold opt_dot_component. now rewrite H. Qed.

(** ** partial versions *)
Lemma pnorm_model a b c pre bld :
  (let mi' := opt_and a (opt_flatten b) in
   let pa' := opt_and mi' (opt_flatten c) in
   let '(pre1, bld1) := match pa' with Some _ => (pre, bld) | None => ([], []) end in
   mkP a mi' pa' pre1 bld1) =
  pnorm a (opt_flatten b) (opt_flatten c) (match c with Some _ => pre | None => []  end) (match c with Some _ => bld | None => [] end).
Proof. destruct a, b as [[|]|], c as [[|]|]; reflexivity. Qed.

Lemma partial_core_head t p : partial_core t p -> exists c t', t = c :: t' /\ (is_digit c = true \/ is_wild c = true).
Proof.
  intros [t1 a H|t1 a t2 b H _|t1 a t2 b t3 c e pre bld H _ _ _]; destruct (xr_text_head _ _ H) as (x & t' & -> & Hx); cbn; eauto.
Qed.
Lemma head_plain c : is_digit c = true \/ is_wild c = true -> is_space c = false /\ (c =? 118) = false /\ (c =? 45) = false /\ (c =? 124) = false.
Proof.
  intros [H|H]; [destruct (digit_facts c H) as (A & _ & B & _ & _ & _ & _ & _ & C & D)|destruct (wild_facts c H) as (A & _ & B & _ & _ & _ & _ & _ & C & D)]; auto.
Qed.

Theorem partial_core_fwd t p r : partial_core t p -> term r -> partial_version (t ++ r) = Some (p, r).
Proof.
  intros H Hr. destruct (partial_core_head t p H) as (c0 & t0 & E0 & Hc0). destruct (head_plain c0 Hc0) as (Sp & V & _).
  unfold partial_version.
  assert (E1 : opt_lit1 118 (t ++ r) = t ++ r). { rewrite E0. unfold opt_lit1. cbn [app lit1]. now rewrite V. }
  assert (E2 : space0 (t ++ r) = t ++ r). { rewrite E0. unfold space0. cbn [app drop_while]. now rewrite Sp. }
  rewrite E1, E2. clear E0 E1 E2 Sp V Hc0 c0 t0.
  pose proof (term_not_digit r Hr) as Nd. pose proof (term_not_dot r Hr) as Ndot.
  destruct H as [t1 a H1|t1 a t2 b H1 H2|t1 a t2 b t3 c e pre bld H1 H2 H3 He].
  - rewrite (component_xr t1 a r H1 Nd). rewrite (opt_dot_none r Ndot). rewrite (opt_dot_none r Ndot).
    destruct a; reflexivity.
  - rewrite <- app_assoc. cbn [app]. rewrite (component_xr t1 a _ H1) by reflexivity.
    rewrite (opt_dot_xr t2 b r H2 Nd). rewrite (opt_dot_none r Ndot). destruct a, b; reflexivity.
  - rewrite <- !app_assoc. cbn [app]. rewrite <- !app_assoc. cbn [app]. rewrite (component_xr t1 a _ H1) by reflexivity.
    rewrite (opt_dot_xr t2 b _ H2) by reflexivity. rewrite <- ?app_assoc.
    assert (Nd3 : not_head is_digit (e ++ r)) by (eapply extras_text_not_digit; eauto).
    rewrite (opt_dot_xr t3 c _ H3 Nd3).
    rewrite (extras_fwd e pre bld r He (term_stop_extras r Hr)).
    destruct a, b, c; reflexivity.
Qed.

Lemma partial_text_head t p : partial_text t p -> exists c t', t = c :: t' /\ (is_digit c = true \/ is_wild c = true \/ c = 118).
Proof.
  intros [t0 p0 H|w t0 p0 _ H].
  - destruct (partial_core_head _ _ H) as (c & t' & -> & [Hc|Hc]); exists c, t'; auto.
  - exists 118, (w ++ t0). auto.
Qed.
Theorem partial_text_fwd t p r : partial_text t p -> term r -> partial_version (t ++ r) = Some (p, r).
Proof.
  intros [t0 p0 H|w t0 p0 Hw H] Hr; [now apply partial_core_fwd|].
  pose proof (partial_core_fwd t0 p0 r H Hr) as F. unfold partial_version in *.
  destruct (partial_core_head t0 p0 H) as (c0 & t1 & E0 & Hc0). destruct (head_plain c0 Hc0) as (Sp & V & _).
  assert (E1 : opt_lit1 118 ((118 :: w ++ t0) ++ r) = w ++ t0 ++ r). { unfold opt_lit1. cbn [app lit1]. rewrite N.eqb_refl. now rewrite <- app_assoc. }
  assert (E2 : space0 (w ++ t0 ++ r) = t0 ++ r). { apply space0_fwd; auto. rewrite E0. cbn. exact Sp. }
  rewrite E1, E2.
  assert (E3 : opt_lit1 118 (t0 ++ r) = t0 ++ r). { rewrite E0. unfold opt_lit1. cbn [app lit1]. now rewrite V. }
  assert (E4 : space0 (t0 ++ r) = t0 ++ r). { rewrite E0. unfold space0. cbn [app drop_while]. now rewrite Sp. }
  rewrite E3, E4 in F. exact F.
Qed.

(** ** comparators through [simple] *)
Lemma partial_version_bad c s : (c =? 118) = false -> is_space c = false -> is_wild c = false -> is_digit c = false ->
  partial_version (c :: s) = None.
Proof.
  intros V Sp W D. unfold partial_version, opt_lit1. cbn [lit1]. rewrite V. unfold space0. cbn [drop_while]. rewrite Sp.
  unfold component. rewrite W. unfold number_o, number. cbn [span]. rewrite D. reflexivity.
Qed.
Lemma operation_p_bad c s : (c =? 62) = false -> (c =? 61) = false -> (c =? 60) = false -> operation_p (c :: s) = None.
Proof.
  intros A B C. unfold operation_p. cbn [lit lit1]. now rewrite (N.eqb_sym 62 c), (N.eqb_sym 60 c), A, B, C.
Qed.
(** first scalar of a partial version's text *)
Definition pstart (c : N) : Prop := is_digit c = true \/ is_wild c = true \/ c = 118.
Lemma pstart_facts c : pstart c ->
  is_space c = false /\ (c =? 62) = false /\ (c =? 61) = false /\ (c =? 60) = false /\ (c =? 126) = false /\ (c =? 94) = false /\
  (c =? 124) = false /\ (c =? 45) = false.
Proof.
  intros [H|[H| ->]].
  - destruct (digit_facts c H) as (A & _ & _ & B & C & D & E & F & G & I). repeat split; auto.
  - destruct (wild_facts c H) as (A & _ & _ & B & C & D & E & F & G & I). repeat split; auto.
  - repeat split; reflexivity.
Qed.
Lemma blank_then w t r c t' : blank_str w -> t = c :: t' -> pstart c -> space0 (w ++ t ++ r) = t ++ r.
Proof. intros Hw -> Hc. apply space0_fwd; auto. cbn. now destruct (pstart_facts c Hc). Qed.
(** the scalar after an operator, when blanks and a partial version follow *)
Lemma after_op_head w t r c t' : blank_str w -> t = c :: t' -> pstart c ->
  exists x y, w ++ t ++ r = x :: y /\ (x =? 61) = false /\ (x =? 62) = false.
Proof.
  intros Hw -> Hc. destruct w as [|x w].
  - exists c, (t' ++ r). destruct (pstart_facts c Hc) as (_ & A & B & _). auto.
  - exists x, (w ++ (c :: t') ++ r). unfold blank_str, all in Hw. cbn in Hw. apply andb_true_iff in Hw as [Hx _].
    split; [reflexivity|]. unfold is_space in Hx. apply orb_true_iff in Hx as [E|E]; apply N.eqb_eq in E; subst; auto.
Qed.

Definition form_op (f : form) : option operation :=
  match f with FEq => Some OpExact | FGt => Some OpGT | FGte => Some OpGTE | FLt => Some OpLT | FLte => Some OpLTE | _ => None end.
Lemma operation_p_lead f op l t r c t' : form_op f = Some op -> form_lead f l -> t = c :: t' -> pstart c ->
  exists w, blank_str w /\ operation_p (l ++ t ++ r) = Some (op, w ++ t ++ r).
Proof.
  intros Hf Hl Et Hc.
  destruct f; try discriminate; injection Hf as <-; cbn in Hl; destruct Hl as (w & Hw & ->); exists w; (split; [exact Hw|]);
    destruct (after_op_head w t r c t' Hw Et Hc) as (x & y & E & N61 & N62); cbn [app]; rewrite E; unfold operation_p; cbn [lit lit1].
  all: repeat match goal with
       | |- context [?a =? ?a] => rewrite (N.eqb_refl a)
       | H : (?z =? 61) = false |- context [61 =? ?z] => rewrite (N.eqb_sym 61 z), H
       | |- context [62 =? 61] => change (62 =? 61) with false
       | |- context [61 =? 62] => change (61 =? 62) with false
       | |- context [62 =? 60] => change (62 =? 60) with false
       | |- context [60 =? 62] => change (60 =? 62) with false
       | |- context [60 =? 61] => change (60 =? 61) with false
       | |- context [61 =? 60] => change (61 =? 60) with false
       end; cbv iota; try reflexivity.
Qed.

Lemma primitive_p_fwd f op l t p r : form_op f = Some op -> form_lead f l -> partial_text t p -> term r ->
  primitive_p (l ++ t ++ r) = Some (primitive_tbl op p, r).
Proof.
  intros Hf Hl Ht Hr. destruct (partial_text_head t p Ht) as (c & t' & Et & Hc).
  destruct (operation_p_lead f op l t r c t' Hf Hl Et Hc) as (w & Hw & Eo). unfold primitive_p. rewrite Eo.
  rewrite (blank_then w t r c t' Hw Et Hc). now rewrite (partial_text_fwd t p r Ht Hr).
Qed.

Lemma partial_text_pstart t p : partial_text t p -> exists c t', t = c :: t' /\ pstart c.
Proof. intro H. destruct (partial_text_head t p H) as (c & t' & E & Hc). exists c, t'. split; auto. Qed.

Lemma primitive_p_none c s : (c =? 62) = false -> (c =? 61) = false -> (c =? 60) = false -> primitive_p (c :: s) = None.
Proof. intros. unfold primitive_p. now rewrite operation_p_bad. Qed.
Lemma tilde_p_none c s : (c =? 126) = false -> tilde_p (c :: s) = None.
Proof. intro H. unfold tilde_p. cbn [lit1]. now rewrite H. Qed.
Lemma caret_p_none c s : (c =? 94) = false -> caret_p (c :: s) = None.
Proof. intro H. unfold caret_p. cbn [lit1]. now rewrite H. Qed.
Lemma partial_p_none c s : (c =? 118) = false -> is_space c = false -> is_wild c = false -> is_digit c = false -> partial_p (c :: s) = None.
Proof. intros. unfold partial_p. now rewrite partial_version_bad. Qed.

Lemma simple_unfold s : simple s =
  match terminated_p primitive_p s with Some x => x | None =>
  match terminated_p partial_p s with Some x => x | None =>
  match terminated_p tilde_p s with Some x => x | None =>
  match terminated_p caret_p s with Some x => x | None => (None, garbage s) end end end end.
Proof. reflexivity. Qed.
Lemma terminated_some p s b r : p s = Some (b, r) -> term r -> terminated_p p s = Some (b, r).
Proof. intros H Hr. unfold terminated_p. rewrite H. unfold term in Hr. now rewrite Hr. Qed.
Lemma terminated_none p s : p s = None -> terminated_p p s = None.
Proof. intro H. unfold terminated_p. now rewrite H. Qed.

(** what the tables give for a comparator *)
Theorem simple_comp f p l t r : form_lead f l -> partial_text t p -> term r ->
  simple (l ++ t ++ r) = (tbl f p, r).
Proof.
  intros Hl Ht Hr. destruct (partial_text_pstart t p Ht) as (c & t' & Et & Hc).
  destruct (pstart_facts c Hc) as (Sp & N62 & N61 & N60 & N126 & N94 & N124 & N45).
  rewrite simple_unfold.
  destruct (form_op f) as [op|] eqn:Ef.
  - rewrite (terminated_some primitive_p _ _ r (primitive_p_fwd f op l t p r Ef Hl Ht Hr) Hr).
    destruct f; try discriminate; injection Ef as <-; reflexivity.
  - destruct f; try discriminate; cbn in Hl.
    + (* bare *) subst l. cbn [app].
      assert (Hp : primitive_p (t ++ r) = None) by (rewrite Et; apply primitive_p_none; auto).
      rewrite (terminated_none primitive_p _ Hp).
      rewrite (terminated_some partial_p _ (partial_tbl p) r); auto. unfold partial_p. now rewrite (partial_text_fwd t p r Ht Hr).
    + (* tilde *) destruct Hl as (w & Hw & ->). cbn [app].
      rewrite (terminated_none primitive_p) by (apply primitive_p_none; reflexivity).
      rewrite (terminated_none partial_p) by (apply partial_p_none; reflexivity).
      rewrite (terminated_some tilde_p _ (tilde_tbl false p) r); auto.
      unfold tilde_p. cbn [lit1]. rewrite N.eqb_refl. rewrite (blank_then w t r c t' Hw Et Hc).
      assert (E1 : lit1 62 (t ++ r) = None) by (rewrite Et; cbn [app lit1]; now rewrite N62).
      rewrite E1.
      assert (E0 : space0 (t ++ r) = t ++ r) by (apply (blank_then [] t r c t'); [reflexivity|exact Et|exact Hc]).
      rewrite E0. now rewrite (partial_text_fwd t p r Ht Hr).
    + (* tilde > *) destruct Hl as (w1 & w2 & Hw1 & Hw2 & ->). cbn [app]. rewrite <- app_assoc. cbn [app].
      rewrite (terminated_none primitive_p) by (apply primitive_p_none; reflexivity).
      rewrite (terminated_none partial_p) by (apply partial_p_none; reflexivity).
      rewrite (terminated_some tilde_p _ (tilde_tbl true p) r); auto.
      unfold tilde_p. cbn [lit1]. rewrite N.eqb_refl.
      rewrite (space0_fwd w1 (62 :: w2 ++ t ++ r)) by (auto; reflexivity). cbn [lit1]. rewrite N.eqb_refl.
      rewrite (blank_then w2 t r c t' Hw2 Et Hc). now rewrite (partial_text_fwd t p r Ht Hr).
    + (* caret *) destruct Hl as (w & Hw & ->). cbn [app].
      rewrite (terminated_none primitive_p) by (apply primitive_p_none; reflexivity).
      rewrite (terminated_none partial_p) by (apply partial_p_none; reflexivity).
      rewrite (terminated_none tilde_p) by (apply tilde_p_none; reflexivity).
      rewrite (terminated_some caret_p _ (caret_tbl p) r); auto.
      unfold caret_p. cbn [lit1]. rewrite N.eqb_refl. rewrite (blank_then w t r c t' Hw Et Hc). now rewrite (partial_text_fwd t p r Ht Hr).
Qed.

(** garbage *)
Lemma garbage_fwd t : forall r, all tok_char t -> term r -> garbage (t ++ r) = r.
Proof.
  induction t as [|c t IH]; intros r Ht Hr.
  - cbn [app]. destruct r as [|x r]; [reflexivity|]. unfold term in Hr. cbn [garbage]. now rewrite Hr.
  - unfold all in Ht. cbn in Ht. apply andb_true_iff in Ht as [Hc Ht]. unfold tok_char in Hc. apply andb_true_iff in Hc as [Hs Hb].
    apply negb_true_iff in Hs, Hb. cbn [app].
    change (garbage (c :: t ++ r)) with (if at_term (c :: t ++ r) then c :: t ++ r else garbage (t ++ r)).
    assert (E : at_term (c :: t ++ r) = false).
    { unfold at_term. rewrite Hs. cbn [lit orb]. now rewrite (N.eqb_sym 124 c), Hb. }
    rewrite E. now apply IH.
Qed.
Lemma junk_facts c : junk_start c = true -> is_digit c = false /\ is_wild c = false /\ is_space c = false /\ (c =? 118) = false /\ (c =? 62) = false /\ (c =? 61) = false /\
  (c =? 60) = false /\ (c =? 126) = false /\ (c =? 94) = false /\ (c =? 124) = false /\ (c =? 45) = false.
Proof.
  unfold junk_start. rewrite !andb_true_iff, !negb_true_iff. intros ((((((((((A & B) & C) & D) & E) & F) & G) & H) & I) & J) & K). repeat split; assumption.
Qed.
Theorem simple_garbage t r : garbage_token t -> term r -> simple (t ++ r) = (None, r).
Proof.
  intros (c & t' & -> & Ha & Ht) Hr.
  destruct (junk_facts c Ha) as (D & W & Sp & N118 & N62 & N61 & N60 & N126 & N94 & N124 & N45).
  rewrite simple_unfold. cbn [app].
  rewrite (terminated_none primitive_p) by (apply primitive_p_none; auto).
  rewrite (terminated_none partial_p) by (apply partial_p_none; auto).
  rewrite (terminated_none tilde_p) by (apply tilde_p_none; auto).
  rewrite (terminated_none caret_p) by (apply caret_p_none; auto).
  f_equal. change (c :: t' ++ r) with ((c :: t') ++ r). apply garbage_fwd; auto.
  unfold all. cbn. unfold tok_char at 1. now rewrite Sp, N124.
Qed.

Theorem simple_comp_text c t r : comp_text c t -> term r -> simple (t ++ r) = (comp_tbl c, r).
Proof.
  intros [f p l t0 Hl Ht|t0 Hg] Hr.
  - rewrite <- app_assoc. now apply simple_comp.
  - now apply simple_garbage.
Qed.

(** ** comparator sets through [simples_p] *)
Lemma comp_text_head c t : comp_text c t -> exists x t', t = x :: t' /\ is_space x = false /\ (x =? 45) = false /\ (x =? 124) = false.
Proof.
  intros [f p l t0 Hl Ht|t0 (x & t' & -> & Ha & _)].
  - destruct (partial_text_pstart t0 p Ht) as (x & t' & -> & Hx). destruct (pstart_facts x Hx) as (Sp & _ & _ & _ & _ & _ & B & D).
    destruct f; cbn in Hl; try (destruct Hl as (w & _ & ->)); try (destruct Hl as (w1 & w2 & _ & _ & ->)); try subst l; cbn [app];
      eexists _, _; (split; [reflexivity|]); auto.
  - destruct (junk_facts x Ha) as (_ & _ & Sp & _ & _ & _ & _ & _ & _ & B & D). eexists _, _. split; [reflexivity|]. auto.
Qed.
Lemma set_text_head cs s : set_text cs s -> exists x t', s = x :: t' /\ is_space x = false /\ (x =? 45) = false /\ (x =? 124) = false.
Proof.
  intros [c t H|c t w H _|c t w cs' s' H _ _]; destruct (comp_text_head c t H) as (x & t' & -> & Hx); cbn [app]; eexists _, _; (split; [reflexivity|exact Hx]).
Qed.
Lemma alt_end_simple r : alt_end r -> simple r = (None, r).
Proof. intros [->|(t & ->)]; reflexivity. Qed.
Lemma alt_end_not_space r : alt_end r -> not_head is_space r.
Proof. intros [->|(t & ->)]; reflexivity. Qed.

(** the tail of the separated list, started at the blanks before a set *)
Lemma simples_tail_set cs s : set_text cs s -> forall r f w, alt_end r -> (length (s ++ r) < f)%nat -> blank1 w ->
  simples_tail f (w ++ s ++ r) = Some (map comp_tbl cs, r).
Proof.
  induction 1 as [c t Hc|c t w' Hc Hw'|c t w' cs s Hc Hw' Hs IH]; intros r f w Hr Hf Hw.
  - destruct f as [|f]; [lia|]. cbn [simples_tail].
    destruct (comp_text_head c t Hc) as (x & t' & Et & Sp & _).
    rewrite (space1_fwd w (t ++ r) Hw) by (rewrite Et; exact Sp).
    rewrite (simple_comp_text c t r Hc (alt_end_term r Hr)). now rewrite (simples_tail_stop f r Hr).
  - destruct f as [|f]; [lia|]. cbn [simples_tail].
    destruct (comp_text_head c t Hc) as (x & t' & Et & Sp & _). rewrite <- app_assoc.
    rewrite (space1_fwd w (t ++ w' ++ r) Hw) by (rewrite Et; exact Sp).
    rewrite (simple_comp_text c t (w' ++ r) Hc (blank1_term w' r Hw')).
    destruct f as [|f]. { rewrite Et in Hf. destruct Hw' as [Hne _]. destruct w'; [congruence|]. cbn in Hf. rewrite !app_length in Hf. cbn in Hf. lia. }
    cbn [simples_tail]. rewrite (space1_fwd w' r Hw' (alt_end_not_space r Hr)). rewrite (alt_end_simple r Hr).
    now rewrite (simples_tail_stop f r Hr).
  - destruct f as [|f]; [lia|]. cbn [simples_tail].
    destruct (comp_text_head c t Hc) as (x & t' & Et & Sp & _). rewrite <- !app_assoc.
    rewrite (space1_fwd w (t ++ w' ++ s ++ r) Hw) by (rewrite Et; exact Sp).
    rewrite (simple_comp_text c t (w' ++ s ++ r) Hc (blank1_term w' _ Hw')).
    rewrite (IH r f w' Hr); auto.
    rewrite Et in Hf. cbn in Hf. rewrite !app_length in Hf. rewrite app_length. destruct Hw' as [Hne _]. destruct w'; [congruence|]. cbn in Hf. lia.
Qed.

Theorem simples_p_set cs s r : set_text cs s -> alt_end r ->
  simples_p (s ++ r) = Some (and_fold (flatten_opts (map comp_tbl cs)), r).
Proof.
  intros H Hr. unfold simples_p. destruct H as [c t Hc|c t w' Hc Hw'|c t w' cs s Hc Hw' Hs].
  - rewrite (simple_comp_text c t r Hc (alt_end_term r Hr)). now rewrite (simples_tail_stop _ r Hr).
  - rewrite <- app_assoc. rewrite (simple_comp_text c t (w' ++ r) Hc (blank1_term w' r Hw')).
    destruct (blank1_head w' r Hw') as (x & y & E & Hx).
    assert (L : (1 <= length (w' ++ r))%nat) by (rewrite E; cbn; lia).
    destruct (length (w' ++ r)) as [|f] eqn:El; [lia|]. cbn [simples_tail].
    rewrite (space1_fwd w' r Hw' (alt_end_not_space r Hr)). rewrite (alt_end_simple r Hr). now rewrite (simples_tail_stop f r Hr).
  - rewrite <- !app_assoc. rewrite (simple_comp_text c t (w' ++ s ++ r) Hc (blank1_term w' _ Hw')).
    rewrite (simples_tail_set cs s Hs r _ w' Hr); auto.
    destruct Hw' as [Hne _]. destruct w'; [congruence|]. cbn. rewrite !app_length. lia.
Qed.

(** ** a comparator set is never mistaken for a hyphen range *)
Lemma comp_text_partial c t rest : comp_text c t -> term rest ->
  partial_version (t ++ rest) = None \/ exists p, partial_version (t ++ rest) = Some (p, rest).
Proof.
  intros [f p l t0 Hl Ht|t0 (x & t' & -> & Ha & _)] Hr.
  - destruct f; cbn in Hl; try (destruct Hl as (w & _ & ->)); try (destruct Hl as (w1 & w2 & _ & _ & ->)); try subst l; cbn [app];
      try (left; apply partial_version_bad; reflexivity).
    right. exists p. now apply partial_text_fwd.
  - left. destruct (junk_facts x Ha) as (D & W & Sp & N118 & _). cbn [app]. now apply partial_version_bad.
Qed.
Lemma hyphen_p_after p0 rest : forall s, partial_version s = Some (p0, rest) ->
  (space1 rest = None \/ exists r2, space1 rest = Some r2 /\ lit1 45 r2 = None) -> hyphen_p s = None.
Proof.
  intros s E H. unfold hyphen_p. rewrite E. destruct H as [->|(r2 & -> & ->)]; reflexivity.
Qed.
Lemma alt_end_lit45 r : alt_end r -> lit1 45 r = None.
Proof. intros [->|(t & ->)]; reflexivity. Qed.
Theorem hyphen_p_set cs s r : set_text cs s -> alt_end r -> hyphen_p (s ++ r) = None.
Proof.
  intros H Hr. destruct H as [c t Hc|c t w' Hc Hw'|c t w' cs s Hc Hw' Hs]; rewrite <- ?app_assoc.
  - destruct (comp_text_partial c t r Hc (alt_end_term r Hr)) as [E|(p & E)].
    + unfold hyphen_p. now rewrite E.
    + apply (hyphen_p_after p r _ E). left. now apply alt_end_space1.
  - destruct (comp_text_partial c t (w' ++ r) Hc (blank1_term w' r Hw')) as [E|(p & E)].
    + unfold hyphen_p. now rewrite E.
    + apply (hyphen_p_after p (w' ++ r) _ E). right. exists r. split; [apply space1_fwd; auto; now apply alt_end_not_space|now apply alt_end_lit45].
  - destruct (comp_text_partial c t (w' ++ s ++ r) Hc (blank1_term w' _ Hw')) as [E|(p & E)].
    + unfold hyphen_p. now rewrite E.
    + apply (hyphen_p_after p (w' ++ s ++ r) _ E). right. destruct (set_text_head cs s Hs) as (x & t' & -> & Sp & N45 & _).
      exists ((x :: t') ++ r). split; [apply space1_fwd; auto; exact Sp|]. cbn [app lit1]. now rewrite N45.
Qed.

(** ** one alternative through [range_p] *)
Lemma space0_id_head x t : is_space x = false -> space0 (x :: t) = x :: t.
Proof. intro H. unfold space0. cbn. now rewrite H. Qed.
Lemma at_alt_end_fwd w r : blank_str w -> alt_end r -> at_alt_end (w ++ r) = true.
Proof.
  intros Hw Hr. unfold at_alt_end. rewrite (space0_fwd w r Hw (alt_end_not_space r Hr)). destruct Hr as [->|(t & ->)]; reflexivity.
Qed.
Lemma blank_or_end_term w r : blank_str w -> alt_end r -> term (w ++ r).
Proof.
  intros Hw Hr. destruct w as [|x w]; [now apply alt_end_term|]. apply (blank1_term (x :: w) r). split; [discriminate|exact Hw].
Qed.

Lemma at_empty_alt_head x t : (x =? 124) = false -> at_empty_alt (x :: t) = false.
Proof. intro H. unfold at_empty_alt. cbn [lit]. rewrite N.eqb_sym in H. now rewrite H. Qed.
Lemma at_empty_alt_end r : alt_end r -> at_empty_alt r = true /\ space0 r = r.
Proof. intros [->|(t & ->)]; split; reflexivity. Qed.
Lemma set_text_nonempty cs s : set_text cs s -> cs <> [].
Proof. intros [c t H|c t w H _|c t w cs' s' H _ _]; discriminate. Qed.
Lemma compile_alt_set cs : cs <> [] -> compile_alt (ASet cs) = and_fold (flatten_opts (map comp_tbl cs)).
Proof. destruct cs; [congruence|reflexivity]. Qed.

Theorem range_p_alt a s r : alt_text a s -> alt_end r ->
  exists w0, blank_str w0 /\ range_p (s ++ r) = Some (compile_alt a, w0 ++ r).
Proof.
  intros H Hr. destruct H as [lo hi t1 w1 w2 t2 w3 H1 Hw1 Hw2 H2 Hw3|cs s Hs|].
  - exists w3. split; [exact Hw3|]. unfold range_p.
    destruct (partial_text_pstart t1 lo H1) as (c1 & t1' & E1 & Hc1). destruct (pstart_facts c1 Hc1) as (Sp1 & _ & _ & _ & _ & _ & B1 & _).
    destruct (partial_text_pstart t2 hi H2) as (c2 & t2' & E2 & Hc2). destruct (pstart_facts c2 Hc2) as (Sp2 & _).
    rewrite <- !app_assoc. cbn [app]. rewrite <- !app_assoc.
    assert (E0 : space0 (t1 ++ w1 ++ 45 :: w2 ++ t2 ++ w3 ++ r) = t1 ++ w1 ++ 45 :: w2 ++ t2 ++ w3 ++ r).
    { rewrite E1. cbn [app]. now apply space0_id_head. }
    rewrite E0.
    assert (Ee : at_empty_alt (t1 ++ w1 ++ 45 :: w2 ++ t2 ++ w3 ++ r) = false) by (rewrite E1; cbn [app]; now apply at_empty_alt_head).
    rewrite Ee. unfold hyphen_p.
    rewrite (partial_text_fwd t1 lo _ H1 (blank1_term w1 _ Hw1)).
    rewrite (space1_fwd w1 _ Hw1) by reflexivity. cbn [lit1]. rewrite N.eqb_refl.
    rewrite (space1_fwd w2 (t2 ++ w3 ++ r) Hw2) by (rewrite E2; exact Sp2).
    rewrite (partial_text_fwd t2 hi (w3 ++ r) H2 (blank_or_end_term w3 r Hw3 Hr)).
    rewrite (at_alt_end_fwd w3 r Hw3 Hr). reflexivity.
  - exists []. split; [reflexivity|]. cbn [app]. unfold range_p.
    destruct (set_text_head cs s Hs) as (x & t' & Es & Sp & _ & B).
    assert (E0 : space0 (s ++ r) = s ++ r) by (rewrite Es; cbn [app]; now apply space0_id_head).
    assert (Ee : at_empty_alt (s ++ r) = false) by (rewrite Es; cbn [app]; now apply at_empty_alt_head).
    rewrite E0, Ee, (hyphen_p_set cs s r Hs Hr). rewrite (compile_alt_set cs (set_text_nonempty cs s Hs)). now apply simples_p_set.
  - exists []. split; [reflexivity|]. cbn [app]. unfold range_p. destruct (at_empty_alt_end r Hr) as (Ee & E0). now rewrite E0, Ee.
Qed.

(** ** the `||`-joined list through [bound_sets] *)
Lemma alt_text_head a s t : alt_text a s -> alt_end t -> not_head is_space (s ++ t).
Proof.
  intros [lo hi t1 w1 w2 t2 w3 H1 _ _ _ _|cs s0 Hs|] Ht.
  - destruct (partial_text_pstart t1 lo H1) as (c & t' & -> & Hc). destruct (pstart_facts c Hc) as (Sp & _). cbn [app]. exact Sp.
  - destruct (set_text_head cs s0 Hs) as (x & t' & -> & Sp & _). exact Sp.
  - now apply alt_end_not_space.
Qed.
Lemma ast_tail_end rest t : ast_tail_text rest t -> alt_end t.
Proof. intros [|w a s rest' t' _ _ _]; [now left|right; eauto]. Qed.
Lemma space0_app_blank w x : blank_str w -> space0 (w ++ x) = space0 x.
Proof.
  unfold blank_str, all, space0. induction w as [|c w IH]; cbn; auto. intro H. apply andb_true_iff in H as [Hc Hw]. rewrite Hc. auto.
Qed.
Lemma range_p_skip w x : blank_str w -> range_p (w ++ x) = range_p x.
Proof. intro H. unfold range_p. now rewrite (space0_app_blank w x H). Qed.
Lemma logical_or_fwd w0 w t : blank_str w0 -> blank_str w -> not_head is_space t ->
  logical_or (w0 ++ 124 :: 124 :: w ++ t) = Some t.
Proof.
  intros H0 Hw Ht. unfold logical_or. rewrite (space0_fwd w0 (124 :: 124 :: w ++ t) H0) by reflexivity.
  cbn [lit N.eqb Pos.eqb]. now rewrite (space0_fwd w t Hw Ht).
Qed.
Lemma logical_or_blank w0 : blank_str w0 -> logical_or w0 = None.
Proof. intro H. unfold logical_or. rewrite <- (app_nil_r w0). rewrite (space0_fwd w0 [] H) by exact I. reflexivity. Qed.

Lemma ranges_tail_text rest t : ast_tail_text rest t -> forall f w0, blank_str w0 -> (length (w0 ++ t) <= f)%nat ->
  exists w', ranges_tail f (w0 ++ t) = Some (compile rest, w').
Proof.
  induction 1 as [|w a s rest t Hw Ha Ht IH]; intros f w0 H0 Hf.
  - rewrite app_nil_r. exists w0. destruct f; cbn [ranges_tail]; now rewrite (logical_or_blank w0 H0).
  - pose proof (alt_text_head a s t Ha (ast_tail_end rest t Ht)) as Sp.
    destruct f as [|f]; [rewrite app_length in Hf; cbn in Hf; lia|]. cbn [ranges_tail].
    rewrite (logical_or_fwd w0 w (s ++ t) H0 Hw) by exact Sp.
    destruct (range_p_alt a s t Ha (ast_tail_end rest t Ht)) as (w1 & Hw1 & E). rewrite E.
    destruct (range_p_total (s ++ t)) as (bs & r' & E' & L). rewrite E in E'. injection E' as <- <-.
    destruct (IH f w1 Hw1) as (w' & Et).
    { rewrite !app_length in *. cbn in Hf. rewrite !app_length in Hf. lia. }
    rewrite Et. exists w'. reflexivity.
Qed.

(** Layer B: [Range::parse] on any text of a syntax tree returns what the tables give for the tree *)
Theorem layer_b r s : ast_text r s -> r_parse s = parse_spec s r.
Proof.
  intros [w a s0 rest t Hw Ha Ht]. unfold r_parse, bound_sets, parse_spec.
  rewrite (range_p_skip w (s0 ++ t) Hw).
  destruct (range_p_alt a s0 t Ha (ast_tail_end rest t Ht)) as (w1 & Hw1 & E). rewrite E.
  destruct (ranges_tail_text rest t Ht (length (w1 ++ t)) w1 Hw1 (le_n _)) as (w' & Et). rewrite Et.
  cbn [compile flat_map]. fold (compile rest). destruct (compile_alt a ++ compile rest); reflexivity.
Qed.

(** ** consequences *)

(** texts denote trees in the domain of Layer A *)
Lemma xr_text_le t a : xr_text t a -> opt_le_max a.
Proof. intros [c _|ds n (_ & _ & H)]; cbn; auto. Qed.
Lemma pnorm_dom a b c pre bld : opt_le_max a -> opt_le_max b -> opt_le_max c -> partial_dom (pnorm a b c pre bld).
Proof.
  intros Ha Hb Hc. destruct a, b, c; cbn in *; unfold partial_dom, partial_norm; cbn; repeat split; auto; intros; try discriminate; auto.
Qed.
Lemma partial_core_dom t p : partial_core t p -> partial_dom p.
Proof.
  intros [t1 a H1|t1 a t2 b H1 H2|t1 a t2 b t3 c e pre bld H1 H2 H3 _]; apply pnorm_dom; cbn; eauto using xr_text_le.
Qed.
Lemma partial_text_dom t p : partial_text t p -> partial_dom p.
Proof. intros [t0 p0 H|w t0 p0 _ H]; eapply partial_core_dom; eauto. Qed.
Lemma comp_text_dom c t : comp_text c t -> comp_dom c.
Proof. intros [f p l t0 _ H|t0 _]; cbn; auto. eapply partial_text_dom; eauto. Qed.
Lemma set_text_dom cs s : set_text cs s -> Forall comp_dom cs.
Proof. induction 1; repeat constructor; eauto using comp_text_dom. Qed.
Lemma alt_text_dom a s : alt_text a s -> alt_dom a.
Proof. intros [lo hi t1 w1 w2 t2 w3 H1 _ _ H2 _|cs s0 H|]; cbn; eauto using partial_text_dom, set_text_dom. Qed.
Lemma ast_tail_dom r t : ast_tail_text r t -> Forall alt_dom r.
Proof. induction 1; constructor; eauto using alt_text_dom. Qed.
Theorem ast_text_dom r s : ast_text r s -> Forall alt_dom r.
Proof. intros [w a s0 rest t _ Ha Ht]. constructor; eauto using alt_text_dom, ast_tail_dom. Qed.

(** C01 for texts: Layer B composed with Layer A *)
Theorem range_text_npm r s v : ast_text r s -> version_dom v -> (forall a, In a r -> known_class a v = false) ->
  match r_parse s with
  | ROk R => r_satisfies R v = npm_admits r v
  | RErr e => npm_admits r v = false /\ e = mkErr s 0 KNoValidRanges
  | ROutOfFuel => False
  end.
Proof.
  intros Ht Dv K. rewrite (layer_b r s Ht). unfold parse_spec. pose proof (ast_text_dom r s Ht) as Hd.
  destruct (compile r) as [|b R] eqn:E.
  - split; [|reflexivity]. now apply (compile_empty r v Hd Dv K).
  - rewrite <- E. now apply compile_npm.
Qed.

(** satisfaction of a parse result; a text that does not parse admits nothing *)
Definition sat_res (x : rparse_res) (v : version) : bool := match x with ROk R => r_satisfies R v | _ => false end.
Definition within_res (x : rparse_res) (v : version) : bool := match x with ROk R => r_within R v | _ => false end.
Lemma sat_spec s r v : sat_res (parse_spec s r) v = r_satisfies (compile r) v.
Proof. unfold parse_spec. destruct (compile r); reflexivity. Qed.
Lemma within_spec s r v : within_res (parse_spec s r) v = r_within (compile r) v.
Proof. unfold parse_spec. destruct (compile r); reflexivity. Qed.

(** C02, `||`: blanks after the left text, `||`, then the right text *)
Lemma set_text_trail cs s w : set_text cs s -> blank1 w -> exists cs', set_text cs' (s ++ w) /\
  flatten_opts (map comp_tbl cs') = flatten_opts (map comp_tbl cs).
Proof.
  induction 1 as [c t Hc|c t w' Hc Hw'|c t w' cs s Hc Hw' Hs IH]; intro Hw.
  - exists [c; Garbage]. split; [now constructor|]. cbn. destruct (comp_tbl c); reflexivity.
  - exists [c; Garbage]. split; [|reflexivity]. rewrite <- app_assoc. constructor; auto.
    destruct Hw' as [Hne H1], Hw as [_ H2]. split; [destruct w'; [congruence|discriminate]|]. now apply all_app.
  - destruct (IH Hw) as (cs' & Hs' & E). exists (c :: cs'). split.
    + rewrite <- !app_assoc. now constructor.
    + cbn. rewrite E. reflexivity.
Qed.
Lemma alt_text_nil a : alt_text a [] -> a = ASet [].
Proof.
  intro H. remember [] as s eqn:Es. destruct H as [lo hi t1 w1 w2 t2 w3 H1 _ _ _ _|cs s Hs|]; [exfalso|exfalso|reflexivity].
  - destruct (partial_text_pstart t1 lo H1) as (c & t' & -> & _). discriminate.
  - destruct (set_text_head cs s Hs) as (x & t' & E & _). congruence.
Qed.
(** blanks after a non-empty alternative belong to it (after an empty one they are the blanks of the [||] / of the start in front of it) *)
Lemma alt_text_trail a s w : alt_text a s -> s <> [] -> blank_str w -> exists a', alt_text a' (s ++ w) /\ compile_alt a' = compile_alt a.
Proof.
  intros H Hne Hw. destruct w as [|x w]; [exists a; rewrite app_nil_r; auto|].
  assert (Hw1 : blank1 (x :: w)) by (split; [discriminate|exact Hw]).
  destruct H as [lo hi t1 w1 w2 t2 w3 H1 Hw1' Hw2 H2 Hw3|cs s0 Hs|]; [| |congruence].
  - exists (AHyphen lo hi). split; [|reflexivity].
    replace ((t1 ++ w1 ++ 45 :: w2 ++ t2 ++ w3) ++ x :: w) with (t1 ++ w1 ++ 45 :: w2 ++ t2 ++ (w3 ++ x :: w)).
    + constructor; auto. now apply all_app.
    + rewrite <- !app_assoc. cbn [app]. now rewrite <- !app_assoc.
  - destruct (set_text_trail cs s0 (x :: w) Hs Hw1) as (cs' & Hs' & E). exists (ASet cs'). split; [now constructor|].
    rewrite (compile_alt_set cs (set_text_nonempty _ _ Hs)), (compile_alt_set cs' (set_text_nonempty _ _ Hs')). now rewrite E.
Qed.
Lemma ast_tail_trail r t w : ast_tail_text r t -> r <> [] -> blank_str w -> exists r', ast_tail_text r' (t ++ w) /\ compile r' = compile r.
Proof.
  induction 1 as [|w0 a s rest t Hw0 Ha Ht IH]; intros Hne Hw; [congruence|].
  destruct rest as [|b rest].
  - inversion Ht; subst. destruct s as [|x0 s1].
    { (* an empty last alternative: the blanks join those after its `||` *)
      exists [a]. split; [|reflexivity]. rewrite (alt_text_nil a Ha) in *.
      replace ((124 :: 124 :: w0 ++ [] ++ []) ++ w) with (124 :: 124 :: (w0 ++ w) ++ [] ++ []) by (cbn [app]; rewrite !app_nil_r; reflexivity).
      constructor; [now apply all_app|apply AT_empty|constructor]. }
    destruct (alt_text_trail a (x0 :: s1) w Ha ltac:(discriminate) Hw) as (a' & Ha' & E). exists [a']. split.
    + replace ((124 :: 124 :: w0 ++ (x0 :: s1) ++ []) ++ w) with (124 :: 124 :: w0 ++ ((x0 :: s1) ++ w) ++ []).
      * constructor; auto; constructor.
      * cbn [app]. rewrite !app_nil_r. now rewrite <- !app_assoc.
    + cbn. now rewrite E.
  - destruct (IH ltac:(discriminate) Hw) as (r' & Hr' & E). exists (a :: r'). split.
    + cbn [app]. rewrite <- !app_assoc. constructor; auto.
    + cbn [compile flat_map]. fold (compile r'). fold (compile (b :: rest)). now rewrite E.
Qed.

Lemma ast_tail_app a s b t : ast_tail_text a s -> ast_tail_text b t -> ast_tail_text (a ++ b) (s ++ t).
Proof.
  induction 1 as [|w x sx rest tx Hw Hx Ht IH]; intro Hb; [exact Hb|].
  cbn [app]. rewrite <- !app_assoc. constructor; auto.
Qed.
Lemma compile_app a b : compile (a ++ b) = compile a ++ compile b.
Proof. unfold compile. apply flat_map_app. Qed.
Lemma ast_text_trail r s w : ast_text r s -> blank_str w -> exists r', ast_text r' (s ++ w) /\ compile r' = compile r.
Proof.
  intros [w0 a s0 rest t Hw0 Ha Ht] Hw. destruct rest as [|b rest].
  - inversion Ht; subst. destruct s0 as [|x0 s1].
    { exists [a]. split; [|reflexivity]. rewrite (alt_text_nil a Ha) in *.
      replace ((w0 ++ [] ++ []) ++ w) with ((w0 ++ w) ++ [] ++ []) by (cbn [app]; rewrite !app_nil_r; reflexivity).
      constructor; [now apply all_app|apply AT_empty|constructor]. }
    destruct (alt_text_trail a (x0 :: s1) w Ha ltac:(discriminate) Hw) as (a' & Ha' & E). exists [a']. split.
    + replace ((w0 ++ (x0 :: s1) ++ []) ++ w) with (w0 ++ ((x0 :: s1) ++ w) ++ []) by (rewrite !app_nil_r; now rewrite <- !app_assoc).
      constructor; auto; constructor.
    + cbn. now rewrite E.
  - destruct (ast_tail_trail (b :: rest) t w Ht ltac:(discriminate) Hw) as (r' & Hr' & E). exists (a :: r'). split.
    + rewrite <- !app_assoc. constructor; auto.
    + cbn [compile flat_map]. fold (compile r'). fold (compile (b :: rest)). now rewrite E.
Qed.

(** [a || b]: the text [a], blanks, `||`, the text [b] (which may start with blanks) is a text of the concatenated trees *)
Theorem or_text a sa b sb w : ast_text a sa -> ast_text b sb -> blank_str w ->
  exists c, ast_text c (sa ++ w ++ 124 :: 124 :: sb) /\ compile c = compile a ++ compile b.
Proof.
  intros Ha Hb Hw. destruct (ast_text_trail a sa w Ha Hw) as (a' & Ha' & Ea).
  destruct Hb as [wb xb sb0 restb tb Hwb Hxb Htb].
  assert (Tb : ast_tail_text (xb :: restb) (124 :: 124 :: wb ++ sb0 ++ tb)) by (constructor; auto).
  rewrite app_assoc. destruct Ha' as [wa xa sa0 resta ta Hwa Hxa Hta].
  exists ((xa :: resta) ++ (xb :: restb)). split.
  - cbn [app]. rewrite <- !app_assoc. constructor; auto. now apply ast_tail_app.
  - rewrite compile_app. now rewrite Ea.
Qed.
Theorem or_text_sat a sa b sb w v : ast_text a sa -> ast_text b sb -> blank_str w ->
  sat_res (r_parse (sa ++ w ++ 124 :: 124 :: sb)) v = sat_res (r_parse sa) v || sat_res (r_parse sb) v.
Proof.
  intros Ha Hb Hw. destruct (or_text a sa b sb w Ha Hb Hw) as (c & Hc & E).
  rewrite (layer_b c _ Hc), (layer_b a sa Ha), (layer_b b sb Hb), !sat_spec, E. apply alternatives_app.
Qed.
Theorem or_text_parses a sa b sb w A B : ast_text a sa -> ast_text b sb -> blank_str w ->
  r_parse sa = ROk A -> r_parse sb = ROk B -> r_parse (sa ++ w ++ 124 :: 124 :: sb) = ROk (A ++ B).
Proof.
  intros Ha Hb Hw EA EB. destruct (or_text a sa b sb w Ha Hb Hw) as (c & Hc & E).
  rewrite (layer_b a sa Ha) in EA. rewrite (layer_b b sb Hb) in EB. rewrite (layer_b c _ Hc). unfold parse_spec in *. rewrite E.
  destruct (compile a) as [|x A']; [discriminate|]. injection EA as <-. destruct (compile b) as [|y B']; [discriminate|]. injection EB as <-. reflexivity.
Qed.

(** [a b]: two comparator lists joined by blanks *)
Lemma set_text0_set cs s : set_text0 cs s -> set_text cs s.
Proof. induction 1; [now constructor|now apply ST_cons]. Qed.
Lemma set_text_app cs1 s1 w cs2 s2 : set_text0 cs1 s1 -> blank1 w -> set_text cs2 s2 -> set_text (cs1 ++ cs2) (s1 ++ w ++ s2).
Proof.
  induction 1 as [c t Hc|c t w' cs s Hc Hw' Hs IH]; intros Hw H2; cbn [app].
  - now apply ST_cons.
  - rewrite <- !app_assoc. apply ST_cons; auto.
Qed.
Lemma set_ast cs s : set_text cs s -> ast_text [ASet cs] s.
Proof.
  intro H. replace s with ([] ++ s ++ []) by (cbn; apply app_nil_r). constructor; [reflexivity|now constructor|constructor].
Qed.
Definition comps_of (cs : list comp) : list boundset := flatten_opts (map comp_tbl cs).
Lemma comps_of_app a b : comps_of (a ++ b) = comps_of a ++ comps_of b.
Proof.
  unfold comps_of. induction a as [|c a IH]; cbn; auto. destruct (comp_tbl c); cbn; now rewrite IH.
Qed.
Lemma comps_of_wf cs : Forall wf_bs (comps_of cs).
Proof.
  unfold comps_of. apply flatten_opts_wf. induction cs as [|c cs IH]; cbn; constructor; auto.
  destruct c as [f p|]; cbn [comp_tbl]; [|exact I]. destruct f; cbn [tbl]; auto using partial_tbl_wf, primitive_tbl_wf, tilde_tbl_wf, caret_tbl_wf.
Qed.
Lemma compile_set cs : cs <> [] -> compile [ASet cs] = and_fold (comps_of cs).
Proof. intro H. unfold compile. cbn [flat_map]. rewrite (compile_alt_set cs H). apply app_nil_r. Qed.
Lemma parse_set_ok cs s A : set_text cs s -> r_parse s = ROk A -> A = and_fold (comps_of cs) /\ comps_of cs <> [].
Proof.
  intros H E. rewrite (layer_b _ s (set_ast cs s H)) in E. unfold parse_spec in E. rewrite (compile_set cs (set_text_nonempty _ _ H)) in E.
  destruct (and_fold (comps_of cs)) as [|x l] eqn:Ef; [discriminate|]. injection E as <-. split; [reflexivity|].
  intro E0. rewrite E0 in Ef. discriminate.
Qed.

Theorem and_text_sat cs1 s1 cs2 s2 w A B v : set_text0 cs1 s1 -> set_text cs2 s2 -> blank1 w ->
  r_parse s1 = ROk A -> r_parse s2 = ROk B ->
  let C := r_parse (s1 ++ w ++ s2) in
  (is_pre v = false -> sat_res C v = r_satisfies A v && r_satisfies B v) /\
  (is_pre v = true -> sat_res C v = r_within A v && r_within B v && (r_satisfies A v || r_satisfies B v)) /\
  (sat_res C v = true -> r_within A v = true /\ r_within B v = true).
Proof.
  intros H1 H2 Hw EA EB C.
  destruct (parse_set_ok cs1 s1 A (set_text0_set _ _ H1) EA) as (-> & N1).
  destruct (parse_set_ok cs2 s2 B H2 EB) as (-> & N2).
  assert (EC : forall v, sat_res C v = r_satisfies (and_fold (comps_of cs1 ++ comps_of cs2)) v).
  { intro u. unfold C. pose proof (set_text_app cs1 s1 w cs2 s2 H1 Hw H2) as H12.
    rewrite (layer_b _ _ (set_ast _ _ H12)), sat_spec, (compile_set _ (set_text_nonempty _ _ H12)), comps_of_app. reflexivity. }
  pose proof (comps_of_wf cs1) as W1. pose proof (comps_of_wf cs2) as W2.
  rewrite EC. repeat split.
  - intro P. apply (and_fold_app_release _ _ v N1 N2 W1 W2 P).
  - intro P. apply (and_fold_app_pre _ _ v N1 N2 W1 W2 P).
  - apply (and_fold_never_widens _ _ v N1 N2 W1 W2 H).
  - apply (and_fold_never_widens _ _ v N1 N2 W1 W2 H).
Qed.

(** a lone [-] followed by blanks is an unparseable token *)
Lemma simple_dash w rest : blank1 w -> simple (45 :: w ++ rest) = (None, w ++ rest).
Proof.
  intro Hw. rewrite simple_unfold.
  rewrite (terminated_none primitive_p) by (apply primitive_p_none; reflexivity).
  rewrite (terminated_none partial_p) by (apply partial_p_none; reflexivity).
  rewrite (terminated_none tilde_p) by (apply tilde_p_none; reflexivity).
  rewrite (terminated_none caret_p) by (apply caret_p_none; reflexivity).
  f_equal. change (45 :: w ++ rest) with ([45] ++ (w ++ rest)). apply garbage_fwd; [reflexivity|]. now apply blank1_term.
Qed.
Lemma at_alt_end_more w s r : blank_str w -> (exists x t, s = x :: t /\ is_space x = false /\ (x =? 124) = false) -> at_alt_end (w ++ s ++ r) = false.
Proof.
  intros Hw (x & t & -> & Sp & Nb). unfold at_alt_end. rewrite (space0_fwd w ((x :: t) ++ r) Hw) by exact Sp.
  cbn [app lit]. now rewrite (N.eqb_sym 124 x), Nb.
Qed.

(** D19 as a theorem: a hyphen range followed by further tokens is NOT a hyphen range; its [-] is a dropped token and
    the alternative is the comparator set [lo hi ...] *)
Theorem hyphen_then_tokens lo hi t1 w1 w2 t2 w cs s r :
  partial_text t1 lo -> blank1 w1 -> blank1 w2 -> partial_text t2 hi -> blank1 w -> set_text cs s -> alt_end r ->
  range_p (t1 ++ w1 ++ 45 :: w2 ++ t2 ++ w ++ s ++ r) =
  Some (compile_alt (ASet (Comp FBare lo :: Garbage :: Comp FBare hi :: cs)), r).
Proof.
  intros H1 Hw1 Hw2 H2 Hw Hs Hr. unfold range_p.
  destruct (partial_text_pstart t1 lo H1) as (c1 & t1' & E1 & Hc1). destruct (pstart_facts c1 Hc1) as (Sp1 & _ & _ & _ & _ & _ & Bar1 & _).
  destruct (partial_text_pstart t2 hi H2) as (c2 & t2' & E2 & Hc2). destruct (pstart_facts c2 Hc2) as (Sp2 & _).
  destruct (set_text_head cs s Hs) as (x & s' & Es & Spx & _ & Nbx).
  set (whole := t1 ++ w1 ++ 45 :: w2 ++ t2 ++ w ++ s ++ r).
  assert (E0 : space0 whole = whole). { unfold whole. rewrite E1. cbn [app]. now apply space0_id_head. }
  assert (Ee : at_empty_alt whole = false). { unfold whole. rewrite E1. cbn [app]. now apply at_empty_alt_head. }
  rewrite E0, Ee.
  (* the hyphen parser succeeds, but more tokens follow *)
  assert (Eh : hyphen_p whole = Some (hyphen_tbl lo hi, w ++ s ++ r)).
  { unfold whole, hyphen_p. rewrite (partial_text_fwd t1 lo _ H1 (blank1_term w1 _ Hw1)).
    rewrite (space1_fwd w1 _ Hw1) by reflexivity. cbn [lit1]. rewrite N.eqb_refl.
    rewrite (space1_fwd w2 (t2 ++ w ++ s ++ r) Hw2) by (rewrite E2; exact Sp2).
    now rewrite (partial_text_fwd t2 hi (w ++ s ++ r) H2 (blank1_term w _ Hw)). }
  rewrite Eh. rewrite (at_alt_end_more w s r (blank1_blank w Hw)) by (exists x, s'; auto).
  (* so the alternative is a comparator set: lo, a dropped `-`, hi, and the rest *)
  unfold simples_p, whole.
  assert (B1 : comp_text (Comp FBare lo) t1) by (apply (CT_comp FBare lo [] t1); [reflexivity|exact H1]).
  assert (B2 : comp_text (Comp FBare hi) t2) by (apply (CT_comp FBare hi [] t2); [reflexivity|exact H2]).
  rewrite (simple_comp_text _ t1 (w1 ++ 45 :: w2 ++ t2 ++ w ++ s ++ r) B1 (blank1_term w1 _ Hw1)).
  set (f := length (w1 ++ 45 :: w2 ++ t2 ++ w ++ s ++ r)).
  assert (Hf : (length w1 + 1 + length w2 + length t2 + length w + length (s ++ r) <= f)%nat).
  { unfold f. rewrite !app_length. cbn [length]. rewrite !app_length. lia. }
  assert (L1 : (1 <= length w1)%nat) by (destruct Hw1 as [N _]; destruct w1; [congruence|cbn; lia]).
  assert (L2 : (1 <= length w2)%nat) by (destruct Hw2 as [N _]; destruct w2; [congruence|cbn; lia]).
  assert (L3 : (1 <= length t2)%nat) by (rewrite E2; cbn; lia).
  assert (L4 : (1 <= length w)%nat) by (destruct Hw as [N _]; destruct w; [congruence|cbn; lia]).
  destruct f as [|f1]; [lia|]. cbn [simples_tail].
  rewrite (space1_fwd w1 (45 :: w2 ++ t2 ++ w ++ s ++ r) Hw1) by reflexivity.
  rewrite (simple_dash w2 (t2 ++ w ++ s ++ r) Hw2).
  destruct f1 as [|f2]; [lia|]. cbn [simples_tail].
  rewrite (space1_fwd w2 (t2 ++ w ++ s ++ r) Hw2) by (rewrite E2; exact Sp2).
  rewrite (simple_comp_text _ t2 (w ++ s ++ r) B2 (blank1_term w _ Hw)).
  rewrite (simples_tail_set cs s Hs r f2 w Hr) by (auto; lia).
  reflexivity.
Qed.
