(** C03 at text level: a prerelease version satisfies a range text only if, inside one alternative whose bounds it meets,
    some comparator was written with a prerelease tag on its major.minor.patch; and when there is one, the bounds decide. *)
From Semver Require Import Version VersionOrder C04Proofs VParse VersionGrammar Range RParse NpmRange RangeText
  Interval SetOps RangeOps RangeLaws ParseWf AndFold Tables LayerB.
From Coq Require Import Lia.
Set Default Timeout 180.

(** the partial version [p] was written with a prerelease tag on [v]'s major.minor.patch *)
Definition written_on (p : partial_t) (v : version) : Prop :=
  p_pre p <> [] /\ p_major p = Some (major v) /\ p_minor p = Some (minor v) /\ p_patch p = Some (patch v).
Definition written_in (a : alt) (v : version) : Prop :=
  match a with
  | AHyphen lo hi => written_on lo v \/ written_on hi v
  | ASet cs => exists f p, In (Comp f p) cs /\ written_on p v
  end.

Lemma same_tuple_eq v a b c bl pr : same_tuple v (mkV a b c bl pr) = true -> a = major v /\ b = minor v /\ c = patch v.
Proof. intro H. apply same_tuple_iff in H. cbn in H. destruct H as (A & B & C). auto. Qed.
Lemma tagged_written B P (HB : B = Lower \/ B = Upper) (HP : P = Including \/ P = Excluding) v a b c bl pr :
  tagged_same_tuple (B (P (mkV a b c bl pr))) v = true -> pr <> [] /\ a = major v /\ b = minor v /\ c = patch v.
Proof.
  destruct HB as [-> | ->], HP as [-> | ->]; unfold tagged_same_tuple; cbn [predicate]; rewrite andb_true_iff; intros [H1 H2];
    (split; [unfold is_pre in H1; cbn in H1; destruct pr; [discriminate|discriminate]|now apply same_tuple_eq in H2]).
Qed.
(** a generated [-0] exclusive upper bound is never the reason *)
Lemma dash0_not_tagged a b c v : is_pre v = true -> vlt v (v4 a b c 0) = true -> same_tuple v (v4 a b c 0) = false.
Proof.
  intros Pv L. destruct (same_tuple v (v4 a b c 0)) eqn:S; auto.
  rewrite (dash0_upper_closed (v4 a b c 0) v eq_refl L S) in Pv. discriminate.
Qed.

Ltac tag_crush :=
  repeat match goal with
  | H : bs_new _ _ = Some _ |- _ => apply bs_new_shape in H; subst
  | H : context [is_pre (v3 _ _ _)] |- _ => change (is_pre (v3 _ _ _)) with false in H
  end.

Theorem tbl_written f p bs v : partial_norm p -> tbl f p = Some bs -> is_pre v = true -> within bs v = true -> tags bs v = true -> written_on p v.
Proof.
  destruct p as [ma mi pa pr bl]. unfold written_on, partial_norm; cbn [p_major p_minor p_patch p_pre p_build].
  intros (N1 & N2 & N3) E Pv W T.
  destruct f; unfold tbl, primitive_tbl, partial_tbl, tilde_tbl, caret_tbl, at_least, at_most, exact, partial_into, unwrap0, caret_upper in E;
    cbn [p_major p_minor p_patch p_pre p_build] in E;
    destruct ma as [ma|], mi as [mi|], pa as [pa|]; try discriminate; try (destruct ma as [|ma']; try discriminate);
    cbn [N.eqb] in E; try (destruct (mi =? 0));
    try (destruct (N3 eq_refl) as [-> ->]);
    apply bs_new_shape in E; subst bs;
    unfold within, tags in *; cbn [bs_lower bs_upper lower_ok upper_ok] in *;
    apply andb_true_iff in W as [W1 W2]; apply orb_true_iff in T as [T|T];
    try (unfold tagged_same_tuple in T; cbn [predicate] in T; discriminate T);
    try (unfold tagged_same_tuple, v3, is_pre in T; cbn in T; discriminate T);
    try (unfold tagged_same_tuple in T; cbn [predicate] in T; apply andb_true_iff in T as [_ T]; rewrite (dash0_not_tagged _ _ _ v Pv W2) in T; discriminate T);
    try (apply (tagged_written Lower Including (or_introl eq_refl) (or_introl eq_refl)) in T; destruct T as (A & E1 & E2 & E3); repeat split; congruence);
    try (apply (tagged_written Lower Excluding (or_introl eq_refl) (or_intror eq_refl)) in T; destruct T as (A & E1 & E2 & E3); repeat split; congruence);
    try (apply (tagged_written Upper Including (or_intror eq_refl) (or_introl eq_refl)) in T; destruct T as (A & E1 & E2 & E3); repeat split; congruence);
    try (apply (tagged_written Upper Excluding (or_intror eq_refl) (or_intror eq_refl)) in T; destruct T as (A & E1 & E2 & E3); repeat split; congruence);
    try (specialize (N1 eq_refl); discriminate N1); try (specialize (N2 eq_refl); discriminate N2);
    try (destruct (N3 eq_refl) as [-> _]; congruence).
Qed.

Theorem hyphen_written lo hi bs v : partial_norm lo -> partial_norm hi -> hyphen_tbl lo hi = Some bs -> is_pre v = true ->
  within bs v = true -> tags bs v = true -> written_on lo v \/ written_on hi v.
Proof.
  destruct lo as [la li lp lpr lbl], hi as [ma mi pa pr bl]. unfold written_on, partial_norm; cbn [p_major p_minor p_patch p_pre p_build].
  intros (L1 & L2 & L3) (N1 & N2 & N3) E Pv W T.
  unfold hyphen_tbl, hyphen_upper, partial_into, unwrap0 in E; cbn [p_major p_minor p_patch p_pre p_build] in E.
  destruct ma as [ma|], mi as [mi|], pa as [pa|]; try (specialize (N1 eq_refl); discriminate N1); try (specialize (N2 eq_refl); discriminate N2);
    try (destruct (N3 eq_refl) as [-> ->]);
    apply bs_new_shape in E; subst bs; unfold within, tags in *; cbn [bs_lower bs_upper lower_ok upper_ok] in *;
    apply andb_true_iff in W as [W1 W2]; apply orb_true_iff in T as [T|T];
    try (unfold tagged_same_tuple in T; cbn [predicate] in T; discriminate T);
    try (unfold tagged_same_tuple in T; cbn [predicate] in T; apply andb_true_iff in T as [_ T]; rewrite (dash0_not_tagged _ _ _ v Pv W2) in T; discriminate T);
    try (right; apply (tagged_written Upper Including (or_intror eq_refl) (or_introl eq_refl)) in T; destruct T as (A & E1 & E2 & E3); repeat split; congruence).
  all: left; apply (tagged_written Lower Including (or_introl eq_refl) (or_introl eq_refl)) in T; destruct T as (A & E1 & E2 & E3);
    destruct la as [la|], li as [li|], lp as [lp|]; cbn in *;
    try (specialize (L1 eq_refl); discriminate L1); try (specialize (L2 eq_refl); discriminate L2);
    try (destruct (L3 eq_refl) as [-> _]; congruence); repeat split; congruence.
Qed.

(** one alternative *)
Lemma in_flatten {A} (x : A) l : In x (flatten_opts l) -> In (Some x) l.
Proof. induction l as [|[y|] l IH]; cbn; auto. intros [->|H]; auto. Qed.
Theorem alt_written a v : alt_dom a -> is_pre v = true -> r_satisfies (compile_alt a) v = true -> written_in a v.
Proof.
  intros Hd Pv S. destruct a as [lo hi|[|c0 cs0]]; [| |remember (c0 :: cs0) as cs eqn:Ecs; rewrite (compile_alt_set cs) in S by (subst; discriminate); clear Ecs c0 cs0];
    cbn [compile_alt written_in alt_dom] in *.
  - destruct Hd as [(Nl & _) (Nh & _)]. destruct (hyphen_tbl lo hi) as [bs|] eqn:E; [|discriminate]. cbn in S. rewrite orb_false_r in S.
    unfold bs_satisfies in S. apply andb_true_iff in S as [W G]. rewrite gate_tags, Pv in G. cbn in G.
    eapply hyphen_written; eauto.
  - (* nothing written: [*] admits no prerelease *)
    exfalso. cbn in S. rewrite orb_false_r in S. unfold bs_satisfies in S. apply andb_true_iff in S as [W G]. rewrite gate_tags, Pv in G. cbn in G. discriminate G.
  - pose proof (comps_of_wf cs) as Wf. fold (comps_of cs) in S.
    assert (Ne : comps_of cs <> []) by (intro E0; rewrite E0 in S; discriminate).
    change (r_satisfies (and_fold (comps_of cs)) v) with (sat_list (and_fold (comps_of cs)) v) in S.
    rewrite (and_fold_sat _ v Ne Wf), Pv in S. cbn in S. apply andb_true_iff in S as [Wall T].
    apply existsb_exists in T as (c & Hc & Tc). rewrite forallb_forall in Wall. specialize (Wall c Hc).
    unfold comps_of in Hc. apply in_flatten in Hc. apply in_map_iff in Hc as (x & Ex & Hx).
    destruct x as [f p|]; [|discriminate]. cbn in Ex. exists f, p. split; [exact Hx|].
    rewrite Forall_forall in Hd. specialize (Hd _ Hx). cbn in Hd. destruct Hd as (Np & _).
    eapply tbl_written; eauto.
Qed.

(** C03 for texts: a prerelease version satisfies the parsed range only through an alternative in which a comparator was
    written with a prerelease tag on its major.minor.patch *)
Theorem text_written r s R v : ast_text r s -> r_parse s = ROk R -> is_pre v = true -> r_satisfies R v = true ->
  exists a, In a r /\ written_in a v /\ r_satisfies (compile_alt a) v = true.
Proof.
  intros Ht E Pv S. rewrite (layer_b r s Ht) in E. unfold parse_spec in E.
  destruct (compile r) as [|b R'] eqn:Ec; [discriminate|]. injection E as <-. rewrite <- Ec in S.
  unfold compile, r_satisfies in S. rewrite existsb_flat_map in S. apply existsb_exists in S as (a & Ha & Sa).
  exists a. split; [exact Ha|]. split; [|exact Sa].
  pose proof (ast_text_dom r s Ht) as Hd. rewrite Forall_forall in Hd. now apply alt_written; auto.
Qed.

(** ... and when such a comparator exists, the bounds decide *)
Lemma written_tagged f p v : written_on p v -> existsb (fun c => tagged_on c v) (desugar f p) = true.
Proof.
  destruct p as [ma mi pa pr bl]. unfold written_on; cbn [p_major p_minor p_patch p_pre p_build]. intros (A & -> & -> & ->).
  assert (T : forall op, tagged_on (op, vfull (major v) (minor v) (patch v) (mkP (Some (major v)) (Some (minor v)) (Some (patch v)) pr bl)) v = true).
  { intro op. unfold tagged_on, vfull, is_pre, same_tuple; cbn. rewrite !N.eqb_refl. destruct pr; [congruence|reflexivity]. }
  destruct f; unfold desugar; cbn [p_major p_minor p_patch existsb]; rewrite T; reflexivity.
Qed.
Lemma written_dom_class f p v : written_on p v -> d12_comp (Comp f p) v || d13_comp (Comp f p) v = false.
Proof.
  destruct p as [ma mi pa pr bl]. unfold written_on; cbn [p_major p_minor p_patch p_pre p_build]. intros (A & -> & -> & ->).
  destruct f; unfold d12_comp, d13_comp; cbn [p_major p_minor]; try reflexivity. destruct (major v); reflexivity.
Qed.
Lemma written_hyphen_tagged lo hi v : written_on lo v \/ written_on hi v -> partial_norm lo -> partial_norm hi ->
  existsb (fun c => tagged_on c v) (desugar_hyphen lo hi) = true.
Proof.
  intros H Nl Nh. unfold desugar_hyphen. rewrite existsb_app. apply orb_true_iff.
  assert (T : forall op p, written_on p v -> tagged_on (op, vfull (major v) (minor v) (patch v) p) v = true).
  { intros op p (A & _). unfold tagged_on, vfull, is_pre, same_tuple; cbn. rewrite !N.eqb_refl. destruct (p_pre p); [congruence|reflexivity]. }
  destruct H as [H|H]; [left|right]; pose proof (T CGte _ H) as T1; pose proof (T CLte _ H) as T2; destruct H as (A & E1 & E2 & E3).
  - unfold hyphen_lower. rewrite E1, E2, E3. cbn [existsb]. now rewrite T1.
  - unfold hyphen_upper_c. rewrite E1, E2, E3. cbn [existsb]. now rewrite T2.
Qed.

Theorem alt_written_decides a v : alt_dom a -> version_dom v -> written_in a v ->
  r_satisfies (compile_alt a) v = r_within (compile_alt a) v.
Proof.
  intros Hd Dv Hw. destruct a as [lo hi|[|c0 cs0]]; [|destruct Hw as (f & p & [] & _)|remember (c0 :: cs0) as cs eqn:Ecs; rewrite (compile_alt_set cs) by (subst; discriminate); clear Ecs c0 cs0];
    cbn [compile_alt written_in alt_dom] in *.
  - destruct Hd as [Dl Dh]. pose proof (hyphen_row lo hi v Dl Dh) as R. unfold row_opt in R.
    destruct (hyphen_tbl lo hi) as [bs|]; [|reflexivity]. destruct R as (_ & _ & HT). cbn. rewrite !orb_false_r.
    unfold bs_satisfies. destruct (within bs v) eqn:W; [|reflexivity]. rewrite gate_tags, (HT eq_refl).
    rewrite (written_hyphen_tagged lo hi v Hw (proj1 Dl) (proj1 Dh)). now rewrite orb_true_r.
  - destruct Hw as (f & p & Hin & Hp). fold (comps_of cs).
    pose proof (comps_of_wf cs) as Wf.
    destruct (comps_of cs) as [|c0 l0] eqn:El; [reflexivity|]. rewrite <- El in *.
    assert (Ne : comps_of cs <> []) by (rewrite El; discriminate).
    change (r_satisfies (and_fold (comps_of cs)) v) with (sat_list (and_fold (comps_of cs)) v).
    unfold r_within. rewrite (and_fold_sat _ v Ne Wf), (and_fold_within _ v Ne Wf).
    destruct (forallb (fun c => within c v) (comps_of cs)) eqn:Wall; [|reflexivity]. cbn [andb].
    rewrite Forall_forall in Hd. pose proof (Hd _ Hin) as Dp. cbn in Dp.
    destruct (tbl_row f p v Dp Dv (written_dom_class f p v Hp)) as (bs & Eb & _ & _ & HT).
    assert (Hb : In bs (comps_of cs)).
    { unfold comps_of. clear -Hin Eb. induction cs as [|x cs IH]; [destruct Hin|]. cbn. destruct Hin as [->|Hin].
      - cbn [comp_tbl]. rewrite Eb. now left.
      - destruct (comp_tbl x); [right|]; auto. }
    rewrite forallb_forall in Wall. pose proof (Wall bs Hb) as Wb.
    assert (Tb : tags bs v = true) by (rewrite (HT Wb); now apply written_tagged).
    assert (Ex : existsb (fun c => tags c v) (comps_of cs) = true) by (apply existsb_exists; eauto).
    rewrite Ex. now rewrite orb_true_r.
Qed.

(** the gate, stated on texts: for a prerelease version, satisfaction = "some alternative was written with a tag on the
    version's tuple, and the version lies within that alternative's bounds" *)
Theorem text_gate r s R v : ast_text r s -> r_parse s = ROk R -> version_dom v -> is_pre v = true ->
  (r_satisfies R v = true <-> exists a, In a r /\ written_in a v /\ r_within (compile_alt a) v = true).
Proof.
  intros Ht E Dv Pv. pose proof (ast_text_dom r s Ht) as Hd. rewrite Forall_forall in Hd. split.
  - intro S. destruct (text_written r s R v Ht E Pv S) as (a & Ha & Hw & Sa). exists a. repeat split; auto.
    now rewrite <- (alt_written_decides a v (Hd a Ha) Dv Hw).
  - intros (a & Ha & Hw & Wa). rewrite (layer_b r s Ht) in E. unfold parse_spec in E.
    assert (S : r_satisfies (compile r) v = true).
    { unfold compile, r_satisfies. rewrite existsb_flat_map. apply existsb_exists. exists a. split; [exact Ha|].
      change (r_satisfies (compile_alt a) v = true). now rewrite (alt_written_decides a v (Hd a Ha) Dv Hw). }
    destruct (compile r) as [|b R']; [discriminate S|]. now injection E as <-.
Qed.
