(** Layer A of C01: the desugaring tables of range.rs compile every comparator to an
    interval whose bounds membership and prerelease tags agree with npm's documented
    comparators (Spec/NpmRange.v); the AND-fold and the alternatives are then handled by
    AndFold.  The two recorded departures (D12, D13) are carved out as [known_class]. *)
From Semver Require Import Version VersionOrder C04Proofs Range RParse NpmRange Interval SetOps RangeOps RangeLaws MinVersion ParseWf AndFold.
From Coq Require Import Lia Btauto.
Set Default Timeout 180.

(** two versions equal up to build metadata *)
Definition same_ver (w w' : version) : Prop :=
  major w = major w' /\ minor w = minor w' /\ patch w = patch w' /\ pre w = pre w'.
Lemma same_ver_refl w : same_ver w w. Proof. repeat split. Qed.
Lemma same_ver_cmp w w' v : same_ver w w' -> vcmp w' v = vcmp w v /\ vcmp v w' = vcmp v w.
Proof. intros (A & B & C & D). unfold vcmp. now rewrite A, B, C, D. Qed.
Lemma same_ver_lt w w' v : same_ver w w' -> vlt w' v = vlt w v /\ vlt v w' = vlt v w /\ vle w' v = vle w v /\ vle v w' = vle v w.
Proof. intro H. destruct (same_ver_cmp w w' v H) as [A B]. unfold vlt, vle. now rewrite A, B. Qed.
Lemma same_ver_tag w w' v : same_ver w w' -> is_pre w' && same_tuple v w' = is_pre w && same_tuple v w.
Proof. intros (A & B & C & D). unfold is_pre, same_tuple. now rewrite A, B, C, D. Qed.

(** what one table row must satisfy: it is an interval, its bounds are the comparators, and
    for a version within the bounds its tags are the comparators' tags *)
Definition row_ok (o : option boundset) (D : list comparator) (v : version) : Prop :=
  exists bs, o = Some bs /\ wf_bs bs /\
    within bs v = forallb (fun c => holds c v) D /\
    (within bs v = true -> tags bs v = existsb (fun c => tagged_on c v) D).

Lemma valid_unb_upper l : is_lower l = true -> valid l (Upper Unbounded) = true.
Proof. destruct l as [[]|]; try discriminate; reflexivity. Qed.
Lemma valid_unb_lower u : is_upper u = true -> valid (Lower Unbounded) u = true.
Proof. destruct u as [|[]]; try discriminate; reflexivity. Qed.

Ltac row_start bs :=
  exists bs; split; [apply valid_bs_new; auto|]; split; [repeat split; auto|]; unfold within, tags, tagged_on, tagged_same_tuple, holds; cbn [bs_lower bs_upper lower_ok upper_ok forallb existsb fst snd predicate].

(** one-sided rows *)
Lemma row_gte w w' v : same_ver w w' -> row_ok (at_least (Including w')) [(CGte, w)] v.
Proof.
  intro S. unfold at_least. row_start (mkBS (Upper Unbounded) (Lower (Including w'))).
  destruct (same_ver_lt w w' v S) as (_ & _ & A & _). rewrite (same_ver_tag w w' v S), A. split; [btauto|intros _; btauto].
Qed.
Lemma row_gt w w' v : same_ver w w' -> row_ok (at_least (Excluding w')) [(CGt, w)] v.
Proof.
  intro S. unfold at_least. row_start (mkBS (Upper Unbounded) (Lower (Excluding w'))).
  destruct (same_ver_lt w w' v S) as (A & _ & _ & _). rewrite (same_ver_tag w w' v S), A. split; [btauto|intros _; btauto].
Qed.
Lemma row_lt w w' v : same_ver w w' -> row_ok (at_most (Excluding w')) [(CLt, w)] v.
Proof.
  intro S. unfold at_most. row_start (mkBS (Upper (Excluding w')) (Lower Unbounded)).
  destruct (same_ver_lt w w' v S) as (_ & A & _ & _). rewrite (same_ver_tag w w' v S), A. split; [btauto|intros _; btauto].
Qed.
Lemma row_lte w w' v : same_ver w w' -> row_ok (at_most (Including w')) [(CLte, w)] v.
Proof.
  intro S. unfold at_most. row_start (mkBS (Upper (Including w')) (Lower Unbounded)).
  destruct (same_ver_lt w w' v S) as (_ & _ & _ & A). rewrite (same_ver_tag w w' v S), A. split; [btauto|intros _; btauto].
Qed.
Lemma row_eq w w' v : same_ver w w' -> row_ok (exact w') [(CEq, w)] v.
Proof.
  intro S. unfold exact.
  assert (V : valid (Lower (Including w')) (Upper (Including w')) = true).
  { unfold valid, bs_new. assert (E : veqb w' w' = true) by (apply veqb_vcmp, v_refl). now rewrite E. }
  exists (mkBS (Upper (Including w')) (Lower (Including w'))). split; [now apply valid_bs_new|]. split; [repeat split; auto|].
  unfold within, tags, tagged_on, tagged_same_tuple, holds; cbn [bs_lower bs_upper lower_ok upper_ok forallb existsb fst snd predicate].
  destruct (same_ver_lt w w' v S) as (_ & _ & A & B). rewrite (same_ver_tag w w' v S), A, B.
  assert (E : vle w v && vle v w = veqb v w).
  { rewrite veqb_cmp. unfold vle. rewrite (v_anti v w). destruct (vcmp v w); reflexivity. }
  rewrite E. split; [btauto|intros _; btauto].
Qed.

(** two-sided rows: the pair is valid because the lower version is below the upper one *)
Lemma row_gte_lt l l' u v : same_ver l l' -> vcmp l u = Lt ->
  row_ok (bs_new (Lower (Including l')) (Upper (Excluding u))) [(CGte, l); (CLt, u)] v.
Proof.
  intros S L. destruct (same_ver_cmp l l' u S) as [_ C].
  assert (V : valid (Lower (Including l')) (Upper (Excluding u)) = true).
  { assert (L' : vcmp l' u = Lt) by (destruct (same_ver_cmp l l' u S) as [A _]; congruence).
    unfold valid, bs_new. rewrite veqb_cmp, L'. unfold blt, bcmp, vle. rewrite (v_anti l' u), L'. try reflexivity. }
  row_start (mkBS (Upper (Excluding u)) (Lower (Including l'))).
  destruct (same_ver_lt l l' v S) as (_ & _ & A & _). rewrite (same_ver_tag l l' v S), A. split; [btauto|intros _; btauto].
Qed.
Lemma row_gte_lte l l' u u' v : same_ver l l' -> same_ver u u' -> vcmp l u <> Gt ->
  row_ok (bs_new (Lower (Including l')) (Upper (Including u'))) [(CGte, l); (CLte, u)] v.
Proof.
  intros S S' L.
  assert (L' : vcmp l' u' <> Gt).
  { destruct (same_ver_cmp l l' u' S) as [A _]. destruct (same_ver_cmp u u' l S') as [_ B]. congruence. }
  assert (V : valid (Lower (Including l')) (Upper (Including u')) = true).
  { unfold valid, bs_new. rewrite veqb_cmp. unfold blt, bcmp. destruct (vcmp l' u'); auto; congruence. }
  row_start (mkBS (Upper (Including u')) (Lower (Including l'))).
  destruct (same_ver_lt l l' v S) as (_ & _ & A & _). destruct (same_ver_lt u u' v S') as (_ & _ & _ & B).
  rewrite (same_ver_tag l l' v S), (same_ver_tag u u' v S'), A, B. split; [btauto|intros _; btauto].
Qed.

(** the same without an order hypothesis: the pair may be empty, and then no version meets both comparators *)
Definition row_opt (o : option boundset) (D : list comparator) (v : version) : Prop :=
  match o with
  | Some bs => wf_bs bs /\ within bs v = forallb (fun c => holds c v) D /\
               (within bs v = true -> tags bs v = existsb (fun c => tagged_on c v) D)
  | None => forallb (fun c => holds c v) D = false
  end.
Lemma row_ok_opt o D v : row_ok o D v -> row_opt o D v.
Proof. intros (bs & -> & H). exact H. Qed.
Lemma rowopt_gte_lt l l' u v : same_ver l l' ->
  row_opt (bs_new (Lower (Including l')) (Upper (Excluding u))) [(CGte, l); (CLt, u)] v.
Proof.
  intro S. destruct (same_ver_lt l l' v S) as (_ & _ & A & _).
  destruct (bs_new (Lower (Including l')) (Upper (Excluding u))) as [c|] eqn:E; unfold row_opt.
  - pose proof (bs_new_shape _ _ _ E) as ->. split; [eapply bs_new_wf; [| |exact E]; reflexivity|].
    unfold within, tags, tagged_on, tagged_same_tuple, holds; cbn [bs_lower bs_upper lower_ok upper_ok forallb existsb fst snd predicate].
    rewrite (same_ver_tag l l' v S), A. split; [btauto|intros _; btauto].
  - assert (V : valid (Lower (Including l')) (Upper (Excluding u)) = false) by (unfold valid; now rewrite E).
    pose proof (fun a b => invalid_empty _ _ v a b V) as H; specialize (H eq_refl eq_refl). cbn in H. cbn [forallb holds fst snd]. rewrite <- A. rewrite andb_true_r. exact H.
Qed.
Lemma rowopt_gte_lte l l' u u' v : same_ver l l' -> same_ver u u' ->
  row_opt (bs_new (Lower (Including l')) (Upper (Including u'))) [(CGte, l); (CLte, u)] v.
Proof.
  intros S S'. destruct (same_ver_lt l l' v S) as (_ & _ & A & _). destruct (same_ver_lt u u' v S') as (_ & _ & _ & B).
  destruct (bs_new (Lower (Including l')) (Upper (Including u'))) as [c|] eqn:E; unfold row_opt.
  - pose proof (bs_new_shape _ _ _ E) as ->. split; [eapply bs_new_wf; [| |exact E]; reflexivity|].
    unfold within, tags, tagged_on, tagged_same_tuple, holds; cbn [bs_lower bs_upper lower_ok upper_ok forallb existsb fst snd predicate].
    rewrite (same_ver_tag l l' v S), (same_ver_tag u u' v S'), A, B. split; [btauto|intros _; btauto].
  - assert (V : valid (Lower (Including l')) (Upper (Including u')) = false) by (unfold valid; now rewrite E).
    pose proof (fun a b => invalid_empty _ _ v a b V) as H; specialize (H eq_refl eq_refl). cbn in H. cbn [forallb holds fst snd]. rewrite <- A, <- B. rewrite andb_true_r. exact H.
Qed.

(** ** rows where the crate's bound is not literally npm's comparator *)
Lemma ncmp_succ a : (a ?= a + 1) = Lt. Proof. apply N.compare_lt_iff. lia. Qed.
Lemma ncmp_succ_gt a : (a + 1 ?= a) = Gt. Proof. apply N.compare_gt_iff. lia. Qed.

(** [<=M] is [<=M.MAX.MAX] in the crate and [<(M+1).0.0-0] in npm: the same on the property's domain *)
Lemma lte_major_within M v : version_dom v ->
  vle v (v3 M MAX_SAFE_INTEGER MAX_SAFE_INTEGER) = vlt v (vz (M + 1) 0 0).
Proof.
  intros (D1 & D2 & D3). unfold vle, vlt, vcmp, v3, vz; cbn [major minor patch pre].
  destruct (N.compare_spec (major v) M) as [E|E|E].
  - subst M. rewrite ncmp_succ.
    destruct (N.compare_spec (minor v) MAX_SAFE_INTEGER) as [F|F|F]; [|reflexivity|lia].
    destruct (N.compare_spec (patch v) MAX_SAFE_INTEGER) as [G|G|G]; [|reflexivity|lia].
    destruct (pre v); reflexivity.
  - replace (major v ?= M + 1) with Lt by (symmetry; apply N.compare_lt_iff; lia). reflexivity.
  - destruct (N.compare_spec (major v) (M + 1)) as [F|F|F]; [|lia|reflexivity].
    destruct (N.compare_spec (minor v) 0) as [G|G|G]; [|lia|reflexivity].
    destruct (N.compare_spec (patch v) 0) as [H|H|H]; [|lia|reflexivity].
    destruct (pre v) as [|i t] eqn:Ep; [reflexivity|]. pose proof (tag0_least (i :: t)) as T.
    rewrite (p_anti (i :: t) [Num 0]) in T. destruct (pcmp (i :: t) [Num 0]); auto. exfalso. apply T; [discriminate|reflexivity].
Qed.
Lemma lte_minor_within M m v : version_dom v ->
  vle v (v3 M m MAX_SAFE_INTEGER) = vlt v (vz M (m + 1) 0).
Proof.
  intros (D1 & D2 & D3). unfold vle, vlt, vcmp, v3, vz; cbn [major minor patch pre].
  destruct (N.compare_spec (major v) M) as [E|E|E]; try reflexivity.
  destruct (N.compare_spec (minor v) m) as [F|F|F].
  - subst m. rewrite ncmp_succ.
    destruct (N.compare_spec (patch v) MAX_SAFE_INTEGER) as [G|G|G]; [|reflexivity|lia].
    destruct (pre v); reflexivity.
  - replace (minor v ?= m + 1) with Lt by (symmetry; apply N.compare_lt_iff; lia). reflexivity.
  - destruct (N.compare_spec (minor v) (m + 1)) as [G|G|G]; [|lia|reflexivity].
    destruct (N.compare_spec (patch v) 0) as [H|H|H]; [|lia|reflexivity].
    destruct (pre v) as [|i t] eqn:Ep; [reflexivity|]. pose proof (tag0_least (i :: t)) as T.
    rewrite (p_anti (i :: t) [Num 0]) in T. destruct (pcmp (i :: t) [Num 0]); auto. exfalso. apply T; [discriminate|reflexivity].
Qed.
(** a version below [a.b.c-0] does not have the tuple [a.b.c] *)
Lemma below_dash0_tuple a b c v : vlt v (vz a b c) = true -> same_tuple v (vz a b c) = false.
Proof.
  intro L. destruct (same_tuple v (vz a b c)) eqn:S; auto. exfalso.
  destruct (is_pre v) eqn:P.
  - pose proof (dash0_upper_closed (vz a b c) v eq_refl L S). congruence.
  - apply same_tuple_iff in S. destruct S as (S1 & S2 & S3). unfold vlt, vcmp, vz in L; cbn in *.
    rewrite S1, S2, S3, !N.compare_refl in L. unfold is_pre in P. destruct (pre v); [discriminate L|discriminate P].
Qed.
Lemma row_lte_major M v : version_dom v ->
  row_ok (at_most (Including (v3 M MAX_SAFE_INTEGER MAX_SAFE_INTEGER))) [(CLt, vz (M + 1) 0 0)] v.
Proof.
  intro Dv. unfold at_most. row_start (mkBS (Upper (Including (v3 M MAX_SAFE_INTEGER MAX_SAFE_INTEGER))) (Lower Unbounded)).
  rewrite (lte_major_within M v Dv). split; [btauto|]. intro L. cbn [andb] in L. rewrite (below_dash0_tuple _ _ _ _ L). reflexivity.
Qed.
Lemma row_lte_minor M m v : version_dom v ->
  row_ok (at_most (Including (v3 M m MAX_SAFE_INTEGER))) [(CLt, vz M (m + 1) 0)] v.
Proof.
  intro Dv. unfold at_most. row_start (mkBS (Upper (Including (v3 M m MAX_SAFE_INTEGER))) (Lower Unbounded)).
  rewrite (lte_minor_within M m v Dv). split; [btauto|]. intro L. cbn [andb] in L. rewrite (below_dash0_tuple _ _ _ _ L). reflexivity.
Qed.

(** D12: [<M] is [<M.0.0] in the crate, [<M.0.0-0] in npm; they agree except on the prereleases of M.0.0 *)
Lemma row_lt_major M w' v : same_ver (vr M 0 0) w' ->
  is_pre v && (major v =? M) && (minor v =? 0) && (patch v =? 0) = false ->
  row_ok (at_most (Excluding w')) [(CLt, vz M 0 0)] v.
Proof.
  intros S K. unfold at_most. row_start (mkBS (Upper (Excluding w')) (Lower Unbounded)).
  destruct (same_ver_lt (vr M 0 0) w' v S) as (_ & A & _ & _). rewrite A.
  assert (E : vlt v (vr M 0 0) = vlt v (vz M 0 0)).
  { destruct (vlt v (vz M 0 0)) eqn:L1.
    - unfold vlt in *. destruct (vcmp v (vz M 0 0)) eqn:C; try discriminate.
      assert (C2 : vcmp (vz M 0 0) (vr M 0 0) = Lt) by (unfold vcmp, vz, vr; cbn; now rewrite !N.compare_refl).
      rewrite (v_trans _ _ _ C C2). reflexivity.
    - destruct (vlt v (vr M 0 0)) eqn:L2; auto. exfalso.
      unfold vlt in L1, L2. destruct (vcmp v (vr M 0 0)) eqn:C2; try discriminate.
      assert (C1 : vcmp (vz M 0 0) v <> Gt) by (rewrite (v_anti v (vz M 0 0)); destruct (vcmp v (vz M 0 0)); cbn; congruence).
      destruct (between_pre M 0 0 [] [] v C1 C2) as [P T]. apply same_tuple_iff in T. destruct T as (T1 & T2 & T3). cbn in T1, T2, T3.
      rewrite P, T1, T2, T3, !N.eqb_refl in K. discriminate K. }
  rewrite E. split; [btauto|]. intro L. cbn [andb] in L. rewrite (below_dash0_tuple _ _ _ _ L).
  destruct S as (_ & _ & _ & S4). cbn in S4. unfold is_pre at 1. rewrite <- S4. reflexivity.
Qed.
(** D13: [^0] / [^0.x] is [<1.0.0-0] in the crate, [>=0.0.0 <1.0.0-0] in npm; they agree except on the prereleases of 0.0.0 *)
Lemma row_caret_zero v :
  is_pre v && (major v =? 0) && (minor v =? 0) && (patch v =? 0) = false ->
  row_ok (at_most (Excluding (v4 1 0 0 0))) [(CGte, vr 0 0 0); (CLt, vz 1 0 0)] v.
Proof.
  intro K. unfold at_most. row_start (mkBS (Upper (Excluding (v4 1 0 0 0))) (Lower Unbounded)).
  assert (E : vle (vr 0 0 0) v = true).
  { unfold vle. destruct (vcmp (vr 0 0 0) v) eqn:C; auto. exfalso.
    assert (C1 : vcmp (vz 0 0 0) v <> Gt) by apply zero_least.
    assert (C2 : vcmp v (vr 0 0 0) = Lt) by (rewrite (v_anti (vr 0 0 0) v), C; reflexivity).
    destruct (between_pre 0 0 0 [] [] v C1 C2) as [P T]. apply same_tuple_iff in T. destruct T as (T1 & T2 & T3). cbn in T1, T2, T3.
    rewrite P, T1, T2, T3 in K. discriminate K. }
  rewrite E. change (vz 1 0 0) with (v4 1 0 0 0). split; [btauto|]. intros _. cbn. btauto.
Qed.

(** ** every row of every table *)
Ltac sv := repeat split; reflexivity.
Ltac lt_side := unfold vcmp, vr, vz, vfull, v3, v4; cbn [major minor patch pre]; rewrite ?N.compare_refl, ?ncmp_succ; reflexivity.
Ltac row :=
  first
  [ apply row_gte; sv | apply row_gt; sv | apply row_lt; sv | apply row_lte; sv | apply row_eq; sv
  | apply row_gte_lt; [sv|lt_side] ].

Theorem tbl_row f p v : partial_dom p -> version_dom v ->
  d12_comp (Comp f p) v || d13_comp (Comp f p) v = false ->
  row_ok (tbl f p) (desugar f p) v.
Proof.
  destruct p as [ma mi pa pr bl]. unfold partial_dom, partial_norm, opt_le_max; cbn [p_major p_minor p_patch p_pre p_build].
  intros ((N1 & N2 & N3) & L1 & L2 & L3) Dv K.
  destruct ma as [M|].
  2:{ (* wildcard major *)
      rewrite (N1 eq_refl) in *. rewrite (N2 eq_refl) in *. destruct (N3 eq_refl) as [-> ->].
      destruct f; unfold tbl, primitive_tbl, partial_tbl, tilde_tbl, caret_tbl, desugar, ANY, NONE, partial_into, unwrap0;
        cbn [p_major p_minor p_patch p_pre p_build]; row. }
  destruct mi as [m|].
  2:{ (* M *)
      rewrite (N2 eq_refl) in *. destruct (N3 eq_refl) as [-> ->].
      destruct f; unfold tbl, primitive_tbl, partial_tbl, tilde_tbl, caret_tbl, desugar, partial_into, unwrap0;
        cbn [p_major p_minor p_patch p_pre p_build]; try row.
      - (* <M : D12 *)
        apply row_lt_major; [sv|]. unfold d12_comp in K; cbn [p_major p_minor] in K. now apply orb_false_iff in K as [K _].
      - (* <=M *) now apply row_lte_major.
      - (* ^M *)
        destruct M as [|M']; [|row].
        apply row_caret_zero. unfold d12_comp, d13_comp in K; cbn [p_major p_minor] in K. exact K. }
  destruct pa as [q|].
  2:{ (* M.m *)
      destruct (N3 eq_refl) as [-> ->].
      destruct f; unfold tbl, primitive_tbl, partial_tbl, tilde_tbl, caret_tbl, desugar, partial_into, unwrap0;
        cbn [p_major p_minor p_patch p_pre p_build]; try row.
      - (* <=M.m *) now apply row_lte_minor.
      - (* ^M.m *) destruct M as [|M']; cbn [N.eqb]; row. }
  (* M.m.q with tag and build *)
  destruct f; unfold tbl, primitive_tbl, partial_tbl, tilde_tbl, caret_tbl, desugar, partial_into, unwrap0, vfull;
    cbn [p_major p_minor p_patch p_pre p_build]; try row.
  (* ^M.m.q *)
  unfold caret_upper. destruct M as [|M']; cbn [N.eqb]; [destruct m as [|m']; cbn [N.eqb]|]; row.
Qed.

(** ** comparator sets *)
Definition desugar' (fp : form * partial_t) : list comparator := desugar (fst fp) (snd fp).
Lemma forallb_flat_map {A B} (f : A -> list B) (p : B -> bool) l :
  forallb p (flat_map f l) = forallb (fun a => forallb p (f a)) l.
Proof. induction l as [|a l IH]; cbn; auto. now rewrite forallb_app, IH. Qed.

Lemma set_rows cs v : Forall comp_dom cs -> version_dom v ->
  existsb (fun c => d12_comp c v || d13_comp c v) cs = false ->
  let l := flatten_opts (map comp_tbl cs) in
  let D := flat_map desugar' (real_comps cs) in
  Forall wf_bs l /\ (l = [] <-> real_comps cs = []) /\
  forallb (fun c => within c v) l = forallb (fun c => holds c v) D /\
  (forallb (fun c => within c v) l = true -> existsb (fun c => tags c v) l = existsb (fun c => tagged_on c v) D).
Proof.
  intros Hd Dv. induction Hd as [|c cs Hc _ IH]; cbn [existsb]; intro K.
  - cbn. repeat split; auto.
  - apply orb_false_iff in K as [Kc Kcs]. specialize (IH Kcs). cbn zeta in IH. destruct IH as (W & Em & HW & HT).
    destruct c as [f p|]; cbn [map comp_tbl flatten_opts real_comps flat_map].
    + destruct (tbl_row f p v Hc Dv Kc) as (bs & E & Wb & Hw & Ht). rewrite E. cbn [flatten_opts].
      split; [constructor; auto|]. split; [split; discriminate|].
      cbn [forallb existsb]. unfold desugar' at 1 3. cbn [fst snd]. rewrite forallb_app, existsb_app, Hw, HW.
      split; [reflexivity|]. intro H. apply andb_true_iff in H as [H1 H2].
      rewrite Ht by (now rewrite Hw). rewrite HT by (now rewrite HW). reflexivity.
    + auto.
Qed.

Lemma row_opt_sat o D v : row_opt o D v ->
  r_satisfies (opt_to_list o) v = npm_set D v.
Proof.
  unfold row_opt, npm_set. destruct o as [bs|]; cbn.
  - intros (W & Hw & Ht). rewrite orb_false_r. unfold bs_satisfies. rewrite gate_tags, Hw.
    destruct (forallb (fun c => holds c v) D) eqn:E; cbn [andb]; auto. rewrite Ht by (now rewrite Hw). reflexivity.
  - intros ->. reflexivity.
Qed.
Theorem set_alt cs v : Forall comp_dom cs -> version_dom v -> known_class (ASet cs) v = false ->
  r_satisfies (compile_alt (ASet cs)) v = npm_alt (ASet cs) v.
Proof.
  intros Hd Dv K. cbn [known_class] in K.
  destruct cs as [|c0 cs0].
  { (* nothing written: [*] *)
    cbn [compile_alt npm_alt]. apply row_opt_sat. apply row_ok_opt. apply (row_gte (vr 0 0 0) (v3 0 0 0) v). sv. }
  remember (c0 :: cs0) as cs eqn:Ecs.
  destruct (set_rows cs v Hd Dv K) as (W & Em & HW & HT).
  assert (Ec : compile_alt (ASet cs) = and_fold (flatten_opts (map comp_tbl cs))) by (rewrite Ecs; reflexivity).
  assert (En : npm_alt (ASet cs) v = match real_comps cs with [] => false | rc => npm_set (flat_map (fun fp => desugar (fst fp) (snd fp)) rc) v end) by (rewrite Ecs; reflexivity).
  rewrite Ec, En. clear Ec En Ecs. destruct (real_comps cs) as [|fp rc] eqn:Er.
  - rewrite (proj2 Em eq_refl). reflexivity.
  - assert (Ne : flatten_opts (map comp_tbl cs) <> []) by (intro E; apply Em in E; discriminate).
    change (r_satisfies (and_fold (flatten_opts (map comp_tbl cs))) v) with (sat_list (and_fold (flatten_opts (map comp_tbl cs))) v).
    rewrite (and_fold_sat _ v Ne W). unfold npm_set.
    change (flat_map (fun fp0 => desugar (fst fp0) (snd fp0)) (fp :: rc)) with (flat_map desugar' (fp :: rc)).
    rewrite HW. destruct (forallb (fun c => holds c v) (flat_map desugar' (fp :: rc))) eqn:Hall; cbn [andb]; auto.
    rewrite HT by (now rewrite HW). reflexivity.
Qed.

(** ** hyphen ranges *)
Lemma hyphen_row lo hi v : partial_dom lo -> partial_dom hi ->
  row_opt (hyphen_tbl lo hi) (desugar_hyphen lo hi) v.
Proof.
  destruct hi as [ma mi pa pr bl]. unfold partial_dom, partial_norm, opt_le_max; cbn [p_major p_minor p_patch p_pre p_build].
  intros Hlo ((N1 & N2 & N3) & _).
  assert (Hup : forall lw lw', same_ver lw lw' ->
    row_opt (bs_new (Lower (Including lw')) (Upper (hyphen_upper (mkP ma mi pa pr bl))))
            ((CGte, lw) :: hyphen_upper_c (mkP ma mi pa pr bl)) v).
  { intros lw lw' S. unfold hyphen_upper, hyphen_upper_c, partial_into, unwrap0, vfull; cbn [p_major p_minor p_patch p_pre p_build].
    destruct ma as [M|].
    2:{ rewrite (N1 eq_refl) in *. rewrite (N2 eq_refl) in *. apply row_ok_opt. apply (row_gte lw lw' v S). }
    destruct mi as [m|].
    2:{ rewrite (N2 eq_refl) in *. apply (rowopt_gte_lt lw lw' _ v S). }
    destruct pa as [q|]; [|apply (rowopt_gte_lt lw lw' _ v S)].
    apply (rowopt_gte_lte lw lw' (mkV M m q [] pr) (mkV M m q bl pr) v S). sv. }
  unfold hyphen_tbl, desugar_hyphen. destruct lo as [lma lmi lpa lpr lbl].
  destruct Hlo as ((M1 & M2 & M3) & _). cbn [p_major p_minor p_patch p_pre p_build] in *.
  unfold hyphen_lower, partial_into, unwrap0, vfull; cbn [p_major p_minor p_patch p_pre p_build].
  destruct lma as [A|].
  2:{ rewrite (M1 eq_refl) in *. rewrite (M2 eq_refl) in *. destruct (M3 eq_refl) as [-> ->]. cbn [app]. apply Hup. sv. }
  destruct lmi as [B|].
  2:{ rewrite (M2 eq_refl) in *. destruct (M3 eq_refl) as [-> ->]. cbn [app]. apply Hup. sv. }
  destruct lpa as [C|]; [|destruct (M3 eq_refl) as [-> ->]]; cbn [app]; apply Hup; sv.
Qed.

Theorem hyphen_alt lo hi v : alt_dom (AHyphen lo hi) ->
  r_satisfies (compile_alt (AHyphen lo hi)) v = npm_alt (AHyphen lo hi) v.
Proof. intros [H1 H2]. cbn [compile_alt npm_alt]. apply row_opt_sat. now apply hyphen_row. Qed.

(** ** whole ranges *)
Theorem compile_npm (r : ast) v : Forall alt_dom r -> version_dom v ->
  (forall a, In a r -> known_class a v = false) ->
  r_satisfies (compile r) v = npm_admits r v.
Proof.
  intros Hd Dv K. unfold compile, npm_admits, r_satisfies. rewrite existsb_flat_map.
  apply existsb_ext. intros a Ha. rewrite Forall_forall in Hd.
  change (existsb (fun bs => bs_satisfies bs v) (compile_alt a)) with (r_satisfies (compile_alt a) v).
  destruct a as [lo hi|cs].
  - apply hyphen_alt. now apply Hd.
  - apply set_alt; auto. exact (Hd _ Ha).
Qed.
(** the compilation yields no range at all only if npm admits nothing (on the domain, outside the known classes) *)
Theorem compile_empty (r : ast) v : Forall alt_dom r -> version_dom v ->
  (forall a, In a r -> known_class a v = false) -> compile r = [] -> npm_admits r v = false.
Proof. intros Hd Dv K E. rewrite <- (compile_npm r v Hd Dv K), E. reflexivity. Qed.
(** the compiled range is well formed *)
Theorem compile_wf (r : ast) : wf (compile r).
Proof.
  unfold compile. apply wf_flat_map. intros a _. destruct a as [lo hi|cs]; cbn [compile_alt].
  - pose proof (hyphen_tbl_wf lo hi) as H. destruct (hyphen_tbl lo hi); cbn; [constructor; [exact H|constructor]|constructor].
  - destruct cs as [|c0 cs0]; [vm_compute; repeat constructor|]. remember (c0 :: cs0) as cs. clear Heqcs.
    apply and_fold_wf. apply flatten_opts_wf. induction cs as [|c cs IH]; cbn; constructor; auto.
    destruct c as [f p|]; cbn [comp_tbl]; [|exact I]. destruct f; cbn [tbl]; auto using partial_tbl_wf, primitive_tbl_wf, tilde_tbl_wf, caret_tbl_wf.
Qed.

(** ** what the grammar hands to the tables is in the domain of the theorem *)
From Semver Require Import VParse ParseLemmas NoPanic.
Theorem partial_version_dom s p r : partial_version s = Some (p, r) -> partial_dom p.
Proof.
  intro H. pose proof (partial_version_ok s p r H) as (O1 & O2 & O3). split; [|exact (conj O1 (conj O2 O3))].
  unfold partial_version in H.
  destruct (component (space0 (opt_lit1 118 s))) as [[ma s3]|]; [|discriminate].
  destruct (opt_dot_component s3) as [mi s4]. destruct (opt_dot_component s4) as [pa s5].
  destruct (match pa with Some _ => extras s5 | None => ([], [], s5) end) as [[pre0 bld0] s6].
  destruct (opt_and (opt_and ma (opt_flatten mi)) (opt_flatten pa)) eqn:Ep; injection H as <- _; unfold partial_norm; cbn;
    destruct ma, mi as [[|]|], pa as [[|]|]; cbn in *; repeat split; intros; try discriminate; try congruence; auto.
Qed.

(** the two recorded departures are real: the crate's tables and npm's desugaring differ there *)
Definition p_major_only (M : N) : partial_t := mkP (Some M) None None [] [].
Definition p_full (a b c : N) (tag : list ident) : partial_t := mkP (Some a) (Some b) (Some c) tag [].
Example known_D12 :
  let a := ASet [Comp FLt (p_major_only 1); Comp FGte (p_full 1 0 0 [Alpha [97]])] in
  let v := mkV 1 0 0 [] [Alpha [98]] in
  known_class a v = true /\ r_satisfies (compile [a]) v = true /\ npm_admits [a] v = false.
Proof. vm_compute. auto. Qed.
Example known_D13 :
  let a := ASet [Comp FCaret (p_major_only 0); Comp FLt (p_full 0 0 0 [Num 5])] in
  let v := mkV 0 0 0 [] [Num 0] in
  known_class a v = true /\ r_satisfies (compile [a]) v = true /\ npm_admits [a] v = false.
Proof. vm_compute. auto. Qed.
