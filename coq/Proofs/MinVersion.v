(** [Range::min_version] returns the least version that satisfies the range (C11).
    Order-theoretic core: the candidates tried for one alternative are the immediate
    successors of its lower bound, and an alternative that admits none of them admits
    nothing at all. *)
From Semver Require Import Version VersionOrder C04Proofs Range Interval SetOps RangeOps RangeLaws.
From Coq Require Import Lia.
Set Default Timeout 120.

(** ** successors *)
Lemma lex_app0 a : forall b, lex icmp a b = Lt -> lex icmp (a ++ [Num 0]) b <> Gt.
Proof.
  induction a as [|x a IH]; intros b H.
  - destruct b as [|y b]; cbn [lex] in H; [discriminate H|]. cbn [app lex]. pose proof (num0_least y) as L.
    destruct (icmp (Num 0) y); [destruct b; cbn; discriminate|discriminate|congruence].
  - destruct b as [|y b]; cbn [lex] in H; [discriminate H|]. cbn [app lex].
    destruct (icmp x y); [auto|discriminate|discriminate H].
Qed.
Lemma lex_snoc_lt a x : lex icmp a (a ++ [x]) = Lt.
Proof. induction a as [|y a IH]; cbn; auto. now rewrite i_refl. Qed.

Lemma push0_gt v : is_pre v = true -> vcmp v (push0 v) = Lt.
Proof.
  intro P. unfold vcmp, push0; cbn. rewrite !N.compare_refl. unfold is_pre in P.
  destruct (pre v) as [|i t] eqn:E; [discriminate|]. cbn [app]. rewrite pcmp_cons.
  change (i :: t ++ [Num 0]) with ((i :: t) ++ [Num 0]). apply lex_snoc_lt.
Qed.
Lemma push0_succ v w : is_pre v = true -> vcmp v w = Lt -> vcmp (push0 v) w <> Gt.
Proof.
  intros P H. destruct (vcmp_cases v w) as [[T _]|[[_ C]|[S C]]]; try congruence.
  - destruct (vcmp_cases (push0 v) w) as [[_ E]|[[T2 _]|[S2 E]]]; try congruence.
    + unfold tuple_lt in *; cbn in *. lia.
    + unfold tuple_lt, same_tuple_p in *; cbn in *. lia.
  - destruct (vcmp_cases (push0 v) w) as [[_ E]|[[T2 _]|[S2 E]]]; try congruence.
    + unfold tuple_lt, same_tuple_p in *; cbn in *. lia.
    + rewrite E. cbn [push0 pre]. rewrite C in H. unfold is_pre in P.
      destruct (pre v) as [|i t] eqn:Ev; [discriminate|]. destruct (pre w) as [|j u] eqn:Ew.
      * cbn. discriminate.
      * rewrite pcmp_cons in H. change ((i :: t) ++ [Num 0]) with (i :: (t ++ [Num 0])).
        rewrite pcmp_cons. change (i :: (t ++ [Num 0])) with ((i :: t) ++ [Num 0]). now apply lex_app0.
Qed.
Lemma push0_same_tuple v : same_tuple (push0 v) v = true.
Proof. unfold same_tuple, push0; cbn. now rewrite !N.eqb_refl. Qed.
Lemma push0_is_pre v : is_pre (push0 v) = true.
Proof. unfold is_pre, push0; cbn. destruct (pre v); reflexivity. Qed.

(** the versions from [M.m.p-0] up to, but not including, [M.m.p] are the prereleases of [M.m.p] *)
Lemma between_pre M m p b1 b2 v :
  vcmp (mkV M m p b1 [Num 0]) v <> Gt -> vcmp v (mkV M m p b2 []) = Lt ->
  is_pre v = true /\ same_tuple v (mkV M m p b1 [Num 0]) = true.
Proof.
  intros H1 H2.
  destruct (vcmp_cases (mkV M m p b1 [Num 0]) v) as [[T _]|[[_ C]|[S C]]]; try congruence;
  destruct (vcmp_cases v (mkV M m p b2 [])) as [[T2 _]|[[_ C2]|[S2 C2]]]; try congruence;
  unfold tuple_lt, same_tuple_p in *; cbn in *; try lia.
  split.
  - rewrite C2 in H2. unfold is_pre. destruct (pre v); [discriminate|reflexivity].
  - unfold same_tuple; cbn. destruct S2 as (-> & -> & ->). now rewrite !N.eqb_refl.
Qed.

(** ** monotonicity of bounds membership *)
Lemma upper_ok_down u w w' : is_upper u = true -> upper_ok u w = true -> vcmp w' w <> Gt -> upper_ok u w' = true.
Proof. destruct u as [|[x|x|]]; try discriminate; intros _; bcrush. Qed.
Lemma lower_ok_up l w w' : is_lower l = true -> lower_ok l w = true -> vcmp w w' <> Gt -> lower_ok l w' = true.
Proof. destruct l as [[x|x|]|]; try discriminate; intros _; bcrush. Qed.
Lemma valid_incl_upper l u : is_upper u = true -> valid (Lower (Including l)) u = true -> upper_ok u l = true.
Proof. destruct u as [|[x|x|]]; try discriminate; intros _; bcrush. Qed.
Lemma tagged_congr b v v' : same_tuple v v' = true -> tagged_same_tuple b v = tagged_same_tuple b v'.
Proof.
  intro S. unfold tagged_same_tuple. apply same_tuple_iff in S. destruct S as (S1 & S2 & S3).
  destruct (predicate b) as [w|w|]; auto; unfold same_tuple; now rewrite S1, S2, S3.
Qed.

(** ** one alternative *)
Definition min_spec (bs : boundset) (o : option version) : Prop :=
  match o with
  | Some m => bs_satisfies bs m = true /\ forall v, bs_satisfies bs v = true -> vcmp m v <> Gt
  | None => forall v, bs_satisfies bs v = false
  end.

Lemma sat_parts bs v : bs_satisfies bs v = true ->
  lower_ok (bs_lower bs) v = true /\ upper_ok (bs_upper bs) v = true /\ gate bs v = true.
Proof. unfold bs_satisfies, within. rewrite !andb_true_iff. tauto. Qed.
Lemma sat_build bs l u v : bs_lower bs = l -> bs_upper bs = u ->
  lower_ok l v = true -> upper_ok u v = true -> gate bs v = true -> bs_satisfies bs v = true.
Proof. intros <- <- A B C. unfold bs_satisfies, within. now rewrite A, B, C. Qed.

(** the two-candidate case: the lower bound is untagged, [c1 = M.m.p-0] is the least version
    above it and [c2 = M.m.p] *)
Lemma two_candidates bs M m p b1 b2 :
  is_upper (bs_upper bs) = true -> is_lower (bs_lower bs) = true ->
  let c1 := mkV M m p b1 [Num 0] in let c2 := mkV M m p b2 [] in
  lower_ok (bs_lower bs) c1 = true ->
  (forall v, lower_ok (bs_lower bs) v = true -> vcmp c1 v <> Gt) ->
  (forall v, tagged_same_tuple (bs_lower bs) v = false) ->
  min_spec bs (find (bs_satisfies bs) [c1; c2]).
Proof.
  intros Hu Hl c1 c2 L1 Least Untagged.
  assert (C12 : vcmp c1 c2 = Lt).
  { unfold c1, c2, vcmp; cbn. now rewrite !N.compare_refl. }
  assert (L2 : lower_ok (bs_lower bs) c2 = true) by (eapply lower_ok_up; eauto; congruence).
  (* a prerelease below c2 that satisfies forces c1 to satisfy *)
  assert (Below : forall v, bs_satisfies bs v = true -> vcmp v c2 = Lt -> bs_satisfies bs c1 = true).
  { intros v Sv Hv. apply sat_parts in Sv as (Lv & Uv & Gv).
    destruct (between_pre M m p b1 b2 v (Least v Lv) Hv) as [Pv Tv].
    eapply sat_build; eauto.
    - eapply upper_ok_down; eauto.
    - unfold gate in *. rewrite Pv, Untagged in Gv. cbn in Gv.
      rewrite (tagged_congr _ _ _ Tv) in Gv. fold c1 in Gv. rewrite Gv. now rewrite orb_true_r. }
  cbn [find]. destruct (bs_satisfies bs c1) eqn:S1.
  - split; auto. intros v Sv. apply Least. now apply sat_parts in Sv.
  - destruct (bs_satisfies bs c2) eqn:S2.
    + split; auto. intros v Sv. destruct (vcmp c2 v) eqn:C; try discriminate.
      assert (X : false = true) by (apply (Below v Sv); rewrite (v_anti c2 v), C; reflexivity).
      discriminate X.
    + intros v. destruct (bs_satisfies bs v) eqn:Sv; auto. exfalso.
      destruct (vcmp v c2) eqn:C.
      * (* v = c2 in precedence: c2 satisfies *)
        pose proof Sv as Sv'. apply sat_parts in Sv' as (Lv & Uv & _).
        assert (bs_satisfies bs c2 = true).
        { eapply sat_build; eauto. eapply upper_ok_down; eauto. rewrite (v_anti v c2), C. discriminate. }
        congruence.
      * pose proof (Below v Sv C) as X. discriminate X.
      * pose proof Sv as Sv'. apply sat_parts in Sv' as (Lv & Uv & _).
        assert (bs_satisfies bs c2 = true).
        { eapply sat_build; eauto. eapply upper_ok_down; eauto. rewrite (v_anti v c2), C. discriminate. }
        congruence.
Qed.

Theorem bs_min_spec bs : wf_bs bs -> min_spec bs (bs_min bs).
Proof.
  intros (Hl & Hu & Hv). unfold bs_min, min_candidates.
  destruct (bs_lower bs) as [[l|l|]|] eqn:El; try discriminate.
  - (* > l *)
    destruct (is_pre l) eqn:Pl.
    + cbn [find].
      assert (L0 : lower_ok (Lower (Excluding l)) (push0 l) = true).
      { cbn. unfold vlt. now rewrite push0_gt. }
      assert (G0 : gate bs (push0 l) = true).
      { unfold gate. rewrite El. unfold tagged_same_tuple at 1. cbn [predicate]. rewrite Pl, push0_same_tuple.
        now rewrite orb_true_r. }
      destruct (bs_satisfies bs (push0 l)) eqn:S0.
      * split; auto. intros v Sv. apply sat_parts in Sv as (Lv & _ & _). rewrite El in Lv. cbn in Lv.
        apply push0_succ; auto. unfold vlt in Lv. destruct (vcmp l v); congruence.
      * intros v. destruct (bs_satisfies bs v) eqn:Sv; auto. exfalso.
        apply sat_parts in Sv as (Lv & Uv & _). rewrite El in Lv. cbn in Lv.
        assert (bs_satisfies bs (push0 l) = true); [|congruence].
        eapply sat_build; eauto. eapply upper_ok_down; eauto.
        apply push0_succ; auto. unfold vlt in Lv. destruct (vcmp l v); congruence.
    + assert (Pl' : pre l = []) by (unfold is_pre in Pl; destruct (pre l); [reflexivity|discriminate]).
      unfold push0, bump_patch. cbn [major minor patch build pre]. rewrite Pl'. cbn [app].
      apply (two_candidates bs (major l) (minor l) (patch l + 1) (build l) (build l)); rewrite ?El; auto.
      * cbn. unfold vlt, vcmp; cbn. rewrite !N.compare_refl.
        replace (patch l ?= patch l + 1)%N with Lt; auto. symmetry. apply N.compare_lt_iff. lia.
      * intros v Lv. cbn in Lv. apply succ_release; auto. unfold vlt in Lv. destruct (vcmp l v); congruence.
      * intros v. unfold tagged_same_tuple. cbn. now rewrite Pl.
  - (* >= l *)
    cbn [find].
    assert (S : bs_satisfies bs l = true).
    { apply (sat_build bs _ _ l El eq_refl).
      - cbn. unfold vle. now rewrite v_refl.
      - apply valid_incl_upper; auto.
      - unfold gate. rewrite El. unfold tagged_same_tuple at 1. cbn [predicate].
        destruct (is_pre l); cbn; auto. unfold same_tuple. now rewrite !N.eqb_refl. }
    rewrite S. split; auto. intros v Sv. apply sat_parts in Sv as (Lv & _ & _). rewrite El in Lv. cbn in Lv.
    unfold vle in Lv. destruct (vcmp l v); congruence.
  - (* unbounded below *)
    apply (two_candidates bs 0 0 0 [] []); rewrite ?El; auto.
    intros v _. apply zero_least.
Qed.

(** ** the range *)
Lemma fold_vmin2_le r : forall x, vcmp (fold_left vmin2 r x) x <> Gt /\
  forall y, In y r -> vcmp (fold_left vmin2 r x) y <> Gt.
Proof.
  induction r as [|a r IH]; cbn; intros x.
  - split; [rewrite v_refl; discriminate|tauto].
  - destruct (IH (vmin2 x a)) as [H1 H2].
    assert (Hx : vcmp (vmin2 x a) x <> Gt /\ vcmp (vmin2 x a) a <> Gt).
    { unfold vmin2. destruct (vcmp x a) eqn:C; rewrite ?v_refl; repeat split; try discriminate; try congruence.
      rewrite (v_anti x a), C. discriminate. }
    destruct Hx as [Hx Ha]. split; [vorder|]. intros y [<-|Hy]; [vorder|auto].
Qed.

Theorem r_min_version_some R m : wf R -> r_min_version R = Some m ->
  r_satisfies R m = true /\ forall v, r_satisfies R v = true -> vcmp m v <> Gt.
Proof.
  intros W H. unfold r_min_version in H.
  pose proof H as H'. apply iter_min_spec in H' as [Hin Hmin].
  apply in_flat_map in Hin as (bs & Hbs & Hm).
  unfold wf in W. rewrite Forall_forall in W.
  pose proof (bs_min_spec bs (W bs Hbs)) as Sp. destruct (bs_min bs) as [m0|]; [|destruct Hm].
  destruct Hm as [<-|[]]. destruct Sp as [Sm _]. split.
  - unfold r_satisfies. apply existsb_exists. eauto.
  - intros v Sv. unfold r_satisfies in Sv. apply existsb_exists in Sv as (bs' & Hbs' & Sv).
    pose proof (bs_min_spec bs' (W bs' Hbs')) as Sp'. destruct (bs_min bs') as [m'|] eqn:E'.
    + destruct Sp' as [_ Le]. specialize (Le v Sv).
      assert (vcmp m0 m' <> Gt).
      { apply Hmin. apply in_flat_map. exists bs'. split; auto. rewrite E'. now left. }
      vorder.
    + rewrite Sp' in Sv. discriminate.
Qed.
Theorem r_min_version_none R v : wf R -> r_min_version R = None -> r_satisfies R v = false.
Proof.
  intros W H. unfold r_min_version in H. apply iter_min_none in H.
  unfold r_satisfies. destruct (existsb _ R) eqn:E; auto. exfalso.
  apply existsb_exists in E as (bs & Hbs & Sv).
  unfold wf in W. rewrite Forall_forall in W.
  pose proof (bs_min_spec bs (W bs Hbs)) as Sp. destruct (bs_min bs) as [m|] eqn:Em.
  - assert (In m (flat_map (fun bs => opt_to_list (bs_min bs)) R)).
    { apply in_flat_map. exists bs. split; auto. rewrite Em. now left. }
    rewrite H in H0. destruct H0.
  - rewrite Sp in Sv. discriminate.
Qed.
