(** Consequences of the exact characterisation of [Version::parse]: completeness for the
    strict grammar (C05), print/parse round trip (C12), tuple conversions (C18). *)
From Semver Require Import Version VParse VersionGrammar ParseLen DecLemmas ParseLemmas.
From Coq Require Import Lia ZArith.
Set Default Timeout 120.

Lemma extras_text_loosen e p b : extras_text false e p b -> extras_text true e p b.
Proof. destruct 1; try discriminate; now constructor. Qed.
Theorem vparse_sound s v : vparse s = inl v -> is_version_text_loose s v.
Proof. apply vparse_iff. Qed.
Theorem vparse_complete s v : is_version_text s v -> vparse s = inl v.
Proof.
  intro H. apply vparse_iff. destruct H as (Hl & l & M & m & p & e & t & E & H1 & H2 & H3 & H4 & H5 & H6).
  split; auto. exists l, M, m, p, e, t. apply extras_text_loosen in H5. tauto.
Qed.

(** ** what parsed versions look like *)
Definition canonical_ident (i : ident) : Prop :=
  match i with
  | Num n => n < U64_LIMIT
  | Alpha s => ident_text s /\ classify s = Alpha s
  end.
Definition canonical_version (v : version) : Prop :=
  major v <= MAX_SAFE_INTEGER /\ minor v <= MAX_SAFE_INTEGER /\ patch v <= MAX_SAFE_INTEGER /\
  Forall canonical_ident (pre v) /\ Forall canonical_ident (build v).

Lemma classify_canonical s : ident_text s -> canonical_ident (classify s).
Proof.
  intro H. unfold classify. destruct (forallb is_digit s && (dec_value s <? U64_LIMIT)) eqn:E; cbn.
  - apply andb_true_iff in E as [_ E]. now apply N.ltb_lt.
  - split; auto. unfold classify. now rewrite E.
Qed.
Lemma idents_text_canonical s l : idents_text s l -> Forall canonical_ident l.
Proof. induction 1; constructor; auto using classify_canonical. Qed.
Lemma extras_text_canonical loose e p b : extras_text loose e p b -> Forall canonical_ident p /\ Forall canonical_ident b.
Proof. destruct 1; split; eauto using idents_text_canonical. Qed.
Theorem vparse_canonical s v : vparse s = inl v -> canonical_version v.
Proof.
  intro H. apply vparse_sound in H as (_ & l & M & m & p & e & t & _ & _ & (_ & _ & H1) & (_ & _ & H2) & (_ & _ & H3) & H4 & _).
  apply extras_text_canonical in H4. unfold canonical_version. tauto.
Qed.

(** ** printing *)
Lemma print_N_num_text n : n <= MAX_SAFE_INTEGER -> num_text (print_N n) n.
Proof.
  intro H. split; [|split; auto using dec_value_print]. split; [apply print_N_nonempty|apply print_N_digits].
Qed.
Lemma digit_ident_char c : is_digit c = true -> is_ident_char c = true.
Proof. unfold is_ident_char. now intros ->. Qed.
Lemma all_impl (p q : N -> bool) s : (forall c, p c = true -> q c = true) -> all p s -> all q s.
Proof. unfold all. intros H. induction s as [|c s IH]; cbn; auto. rewrite !andb_true_iff. intros [A B]. auto. Qed.
Lemma print_ident_text i : canonical_ident i -> ident_text (print_ident i) /\ classify (print_ident i) = i.
Proof.
  destruct i as [n|s]; cbn.
  - intro H. split.
    + split; [apply print_N_nonempty|]. apply (all_impl is_digit); auto using digit_ident_char. apply print_N_digits.
    + unfold classify. rewrite print_N_digits, dec_value_print. apply N.ltb_lt in H. now rewrite H.
  - tauto.
Qed.
Lemma print_tail_text r : Forall canonical_ident r -> tail_text (print_idents_tail r) r.
Proof.
  induction 1 as [|i r Hi _ IH]; cbn; [constructor|].
  destruct (print_ident_text i Hi) as [Ht Hc]. rewrite <- Hc at 2. now constructor.
Qed.
Lemma print_idents_text i r : Forall canonical_ident (i :: r) ->
  idents_text (print_ident i ++ print_idents_tail r) (i :: r).
Proof.
  intro H. inversion H as [|? ? Hi Hr]; subst. destruct (print_ident_text i Hi) as [Ht Hc].
  rewrite <- Hc at 2. apply idents_text_join; auto using print_tail_text.
Qed.
Lemma print_extras_text p b : Forall canonical_ident p -> Forall canonical_ident b ->
  extras_text false (print_idents 45 p ++ print_idents 43 b) p b.
Proof.
  intros Hp Hb. destruct p as [|i p], b as [|j b]; cbn [print_idents app].
  - constructor.
  - constructor. now apply print_idents_text.
  - rewrite app_nil_r. constructor. now apply print_idents_text.
  - rewrite <- app_assoc. cbn [app]. rewrite app_assoc. constructor; now apply print_idents_text.
Qed.

Theorem vprint_is_version_text v : canonical_version v -> utf8_len (vprint v) <= MAX_LENGTH ->
  is_version_text (vprint v) v.
Proof.
  intros (H1 & H2 & H3 & H4 & H5) Hl. split; auto.
  exists [], (print_N (major v)), (print_N (minor v)), (print_N (patch v)),
         (print_idents 45 (pre v) ++ print_idents 43 (build v)), [].
  split; [unfold vprint; cbn [app]; now rewrite app_nil_r|].
  split; [exists []; split; [reflexivity|auto]|].
  repeat split; auto using print_N_num_text, print_extras_text; try apply print_N_nonempty; try apply print_N_digits;
    try apply dec_value_print; try apply print_extras_text; auto.
Qed.

(** C12: the printed form of a canonical version parses back to exactly that version *)
Theorem vprint_vparse v : canonical_version v -> utf8_len (vprint v) <= MAX_LENGTH -> vparse (vprint v) = inl v.
Proof. intros. now apply vparse_complete, vprint_is_version_text. Qed.
Theorem vparse_roundtrip s v : vparse s = inl v -> utf8_len (vprint v) <= MAX_LENGTH -> vparse (vprint v) = inl v.
Proof. intros H. apply vprint_vparse. eapply vparse_canonical; eauto. Qed.

(** the printed form only uses [0-9A-Za-z.+-] (so a JSON string needs no escaping) *)
Definition is_plain (c : N) : bool := is_ident_char c || (c =? 46) || (c =? 43).
Lemma all_app p a b : all p a -> all p b -> all p (a ++ b).
Proof. unfold all. intros. rewrite forallb_app. now rewrite H, H0. Qed.
Lemma all_cons p c s : p c = true -> all p s -> all p (c :: s).
Proof. unfold all. cbn. now intros -> ->. Qed.
Lemma print_N_plain n : all is_plain (print_N n).
Proof. apply (all_impl is_digit); [|apply print_N_digits]. intros c H. unfold is_plain, is_ident_char. now rewrite H. Qed.
Lemma print_ident_plain i : canonical_ident i -> all is_plain (print_ident i).
Proof.
  intro H. destruct (print_ident_text i H) as [[_ Ht] _]. eapply all_impl; [|exact Ht].
  intros c Hc. unfold is_plain. now rewrite Hc.
Qed.
Lemma print_tail_plain r : Forall canonical_ident r -> all is_plain (print_idents_tail r).
Proof.
  induction 1 as [|i r Hi _ IH]; cbn; [reflexivity|]. apply all_cons; [reflexivity|].
  apply all_app; auto using print_ident_plain.
Qed.
Lemma print_idents_plain lead l : is_plain lead = true -> Forall canonical_ident l -> all is_plain (print_idents lead l).
Proof.
  intros Hl H. destruct l as [|i r]; [reflexivity|]. inversion H; subst. cbn.
  apply all_cons; auto. apply all_app; auto using print_ident_plain, print_tail_plain.
Qed.
Theorem vprint_plain v : canonical_version v -> all is_plain (vprint v).
Proof.
  intros (_ & _ & _ & Hp & Hb). unfold vprint.
  repeat (first [apply all_app | apply all_cons | apply print_N_plain | reflexivity
                | apply print_idents_plain; [reflexivity|assumption]]).
Qed.

(** ** tuple conversions (C18) *)
Definition dotted (a b c : N) : str := print_N a ++ 46 :: print_N b ++ 46 :: print_N c.
Lemma cast_small x : (0 <= x < 18446744073709551616)%Z -> cast_u64 x = Z.to_N x.
Proof. intro H. unfold cast_u64. now rewrite Z.mod_small. Qed.

Lemma max_lt_pow16 : MAX_SAFE_INTEGER < 10 ^ N.of_nat 16. Proof. reflexivity. Qed.
Lemma u64_lt_pow20 : U64_LIMIT < 10 ^ N.of_nat 20. Proof. reflexivity. Qed.
Lemma len_small n : n <= MAX_SAFE_INTEGER -> utf8_len (print_N n) <= 16.
Proof. intro H. apply (print_N_utf8_len n 16); [lia|]. pose proof max_lt_pow16. lia. Qed.
Lemma len_u64 n : n < U64_LIMIT -> utf8_len (print_N n) <= 20.
Proof. intro H. apply (print_N_utf8_len n 20); [lia|]. pose proof u64_lt_pow20. lia. Qed.
Lemma utf8_len_cons c s : utf8_len (c :: s) = utf8_len1 c + utf8_len s. Proof. reflexivity. Qed.

Theorem tuple3_roundtrip a b c :
  a <= MAX_SAFE_INTEGER -> b <= MAX_SAFE_INTEGER -> c <= MAX_SAFE_INTEGER ->
  vprint (mkV a b c [] []) = dotted a b c /\ vparse (dotted a b c) = inl (mkV a b c [] []).
Proof.
  intros Ha Hb Hc.
  assert (E : vprint (mkV a b c [] []) = dotted a b c).
  { unfold vprint, dotted. cbn [major minor patch pre build print_idents]. now rewrite !app_nil_r. }
  split; auto. rewrite <- E. apply vprint_vparse.
  - unfold canonical_version; cbn. repeat split; auto.
  - rewrite E. unfold dotted. rewrite !utf8_len_app, !utf8_len_cons, !utf8_len_app, !utf8_len_cons.
    pose proof (len_small a Ha). pose proof (len_small b Hb). pose proof (len_small c Hc).
    change (utf8_len1 46) with 1. unfold MAX_LENGTH. lia.
Qed.
Theorem tuple4_roundtrip a b c d :
  a <= MAX_SAFE_INTEGER -> b <= MAX_SAFE_INTEGER -> c <= MAX_SAFE_INTEGER -> d < U64_LIMIT ->
  vprint (mkV a b c [] [Num d]) = dotted a b c ++ 45 :: print_N d /\
  vparse (dotted a b c ++ 45 :: print_N d) = inl (mkV a b c [] [Num d]).
Proof.
  intros Ha Hb Hc Hd.
  assert (E : vprint (mkV a b c [] [Num d]) = dotted a b c ++ 45 :: print_N d).
  { unfold vprint, dotted. cbn [major minor patch pre build print_idents print_idents_tail print_ident].
    rewrite !app_nil_r. rewrite <- !app_assoc. cbn [app]. now rewrite <- !app_assoc. }
  split; auto. rewrite <- E. apply vprint_vparse.
  - unfold canonical_version; cbn. repeat split; auto.
  - rewrite E. unfold dotted. rewrite !utf8_len_app, !utf8_len_cons, !utf8_len_app, !utf8_len_cons.
    pose proof (len_small a Ha). pose proof (len_small b Hb). pose proof (len_small c Hc). pose proof (len_u64 d Hd).
    change (utf8_len1 46) with 1. change (utf8_len1 45) with 1. unfold MAX_LENGTH. lia.
Qed.

Local Open Scope Z_scope.
Theorem from3_spec a b c :
  0 <= a <= Z.of_N MAX_SAFE_INTEGER -> 0 <= b <= Z.of_N MAX_SAFE_INTEGER -> 0 <= c <= Z.of_N MAX_SAFE_INTEGER ->
  from3 a b c = mkV (Z.to_N a) (Z.to_N b) (Z.to_N c) [] [] /\
  vprint (from3 a b c) = dotted (Z.to_N a) (Z.to_N b) (Z.to_N c) /\
  vparse (dotted (Z.to_N a) (Z.to_N b) (Z.to_N c)) = inl (from3 a b c).
Proof.
  intros Ha Hb Hc. unfold MAX_SAFE_INTEGER in *.
  assert (E : from3 a b c = mkV (Z.to_N a) (Z.to_N b) (Z.to_N c) [] []).
  { unfold from3. rewrite !cast_small by lia. reflexivity. }
  rewrite E. split; auto. apply tuple3_roundtrip; unfold MAX_SAFE_INTEGER; lia.
Qed.
Theorem from4_spec a b c d :
  0 <= a <= Z.of_N MAX_SAFE_INTEGER -> 0 <= b <= Z.of_N MAX_SAFE_INTEGER -> 0 <= c <= Z.of_N MAX_SAFE_INTEGER ->
  0 <= d < Z.of_N U64_LIMIT ->
  from4 a b c d = mkV (Z.to_N a) (Z.to_N b) (Z.to_N c) [] [Num (Z.to_N d)] /\
  vprint (from4 a b c d) = (dotted (Z.to_N a) (Z.to_N b) (Z.to_N c) ++ 45%N :: print_N (Z.to_N d))%list /\
  vparse (dotted (Z.to_N a) (Z.to_N b) (Z.to_N c) ++ 45%N :: print_N (Z.to_N d)) = inl (from4 a b c d).
Proof.
  intros Ha Hb Hc Hd. unfold MAX_SAFE_INTEGER, U64_LIMIT in *.
  assert (E : from4 a b c d = mkV (Z.to_N a) (Z.to_N b) (Z.to_N c) [] [Num (Z.to_N d)]).
  { unfold from4. rewrite !cast_small by lia. reflexivity. }
  rewrite E. split; auto. apply tuple4_roundtrip; unfold MAX_SAFE_INTEGER, U64_LIMIT; lia.
Qed.
