(** String literals for examples: an ASCII Coq [string] as a model [str]. *)
From Semver Require Import Base.
From Coq Require Import String Ascii.
Fixpoint str_of (s : string) : str :=
  match s with EmptyString => [] | String a r => N_of_ascii a :: str_of r end.
