(** The AND-fold of the comparators of one alternative ([range()] in range.rs): its bounds
    are the conjunction of the comparators' bounds, and for a version within all of them
    the prerelease gate of the surviving interval opens exactly when the gate of some
    comparator does (the gate-preservation lemma behind C01/C02). *)
From Semver Require Import Version VersionOrder C04Proofs Range RParse Interval SetOps RangeOps RangeLaws ParseWf.
From Coq Require Import Lia Btauto Permutation.
Set Default Timeout 120.

Definition tags (bs : boundset) (v : version) : bool :=
  tagged_same_tuple (bs_lower bs) v || tagged_same_tuple (bs_upper bs) v.
Lemma gate_tags bs v : gate bs v = negb (is_pre v) || tags bs v.
Proof. unfold gate, tags. now rewrite orb_assoc. Qed.

Definition fold_step (acc : option boundset) (bs : boundset) : option boundset :=
  match acc with Some a => bs_intersect a bs | None => None end.
Lemma and_fold_unfold first rest : and_fold (first :: rest) = opt_to_list (fold_left fold_step rest (Some first)).
Proof. reflexivity. Qed.
Lemma fold_none rest : fold_left fold_step rest None = None.
Proof. induction rest; cbn; auto. Qed.

Definition sat_list (l : list boundset) (v : version) : bool := existsb (fun c => bs_satisfies c v) l.

Lemma fold_sat rest : forall acc v, wf_bs acc -> Forall wf_bs rest ->
  sat_list (opt_to_list (fold_left fold_step rest (Some acc))) v =
  within acc v && forallb (fun c => within c v) rest &&
  (negb (is_pre v) || tags acc v || existsb (fun c => tags c v) rest).
Proof.
  induction rest as [|b rest IH]; intros acc v Wa Wr; cbn [fold_left forallb existsb].
  - cbn. unfold bs_satisfies. rewrite gate_tags. btauto.
  - inversion Wr as [|? ? Wb Wr']; subst. cbn [fold_step].
    pose proof (bs_intersect_within acc b v Wa Wb) as HW.
    destruct (bs_intersect acc b) as [c|] eqn:E.
    + rewrite IH; auto; [|apply (bs_intersect_wf acc b); auto]. rewrite HW.
      destruct (within acc v) eqn:Ia, (within b v) eqn:Ib; cbn [andb]; auto.
      pose proof (bs_intersect_gate acc b c v Wa Wb E Ia Ib) as G. rewrite !gate_tags in G.
      destruct (is_pre v); cbn [negb orb] in *; auto. rewrite G. btauto.
    + rewrite fold_none. cbn. destruct (within acc v), (within b v); cbn in *; auto; discriminate.
Qed.

(** the comparator set as a whole *)
Theorem and_fold_sat l v : l <> [] -> Forall wf_bs l ->
  sat_list (and_fold l) v =
  forallb (fun c => within c v) l && (negb (is_pre v) || existsb (fun c => tags c v) l).
Proof.
  intros Hne W. destruct l as [|first rest]; [congruence|]. inversion W; subst.
  rewrite and_fold_unfold, fold_sat by assumption. cbn. btauto.
Qed.
Theorem and_fold_within l v : l <> [] -> Forall wf_bs l ->
  existsb (fun c => within c v) (and_fold l) = forallb (fun c => within c v) l.
Proof.
  intros Hne W. destruct l as [|first rest]; [congruence|]. inversion W as [|? ? Wf Wr]; subst.
  rewrite and_fold_unfold. clear Hne W. revert first Wf. induction Wr as [|b rest Wb Wr IH]; intros first Wf; cbn.
  - now rewrite orb_false_r, andb_true_r.
  - pose proof (bs_intersect_within first b v Wf Wb) as HW. destruct (bs_intersect first b) as [c|] eqn:E.
    + rewrite IH by (apply (bs_intersect_wf first b); auto). cbn. rewrite HW. btauto.
    + rewrite fold_none. cbn. destruct (within first v), (within b v); cbn in *; auto; discriminate.
Qed.

Lemma sat_list_r_satisfies l v : sat_list l v = r_satisfies l v. Proof. reflexivity. Qed.

(** C02: conjunction of two comparator lists *)
Theorem and_fold_app_release l1 l2 v : l1 <> [] -> l2 <> [] -> Forall wf_bs l1 -> Forall wf_bs l2 -> is_pre v = false ->
  sat_list (and_fold (l1 ++ l2)) v = sat_list (and_fold l1) v && sat_list (and_fold l2) v.
Proof.
  intros N1 N2 W1 W2 P. rewrite !and_fold_sat; auto; [|destruct l1; [congruence|discriminate] | apply Forall_app; auto].
  rewrite forallb_app, P. cbn. btauto.
Qed.
Theorem and_fold_app_pre l1 l2 v : l1 <> [] -> l2 <> [] -> Forall wf_bs l1 -> Forall wf_bs l2 -> is_pre v = true ->
  sat_list (and_fold (l1 ++ l2)) v =
  existsb (fun c => within c v) (and_fold l1) && existsb (fun c => within c v) (and_fold l2) &&
  (sat_list (and_fold l1) v || sat_list (and_fold l2) v).
Proof.
  intros N1 N2 W1 W2 P. rewrite !and_fold_sat, !and_fold_within; auto; [|destruct l1; [congruence|discriminate] | apply Forall_app; auto].
  rewrite forallb_app, existsb_app, P. cbn. btauto.
Qed.
Theorem and_fold_never_widens l1 l2 v : l1 <> [] -> l2 <> [] -> Forall wf_bs l1 -> Forall wf_bs l2 ->
  sat_list (and_fold (l1 ++ l2)) v = true ->
  existsb (fun c => within c v) (and_fold l1) = true /\ existsb (fun c => within c v) (and_fold l2) = true.
Proof.
  intros N1 N2 W1 W2. rewrite !and_fold_sat, !and_fold_within; auto; [|destruct l1; [congruence|discriminate] | apply Forall_app; auto].
  rewrite forallb_app, !andb_true_iff. tauto.
Qed.

(** order of comparators never matters *)
Lemma forallb_perm {A} (p : A -> bool) l l' : Permutation l l' -> forallb p l = forallb p l'.
Proof. induction 1; cbn; auto; [now rewrite IHPermutation | btauto | congruence]. Qed.
Lemma existsb_perm {A} (p : A -> bool) l l' : Permutation l l' -> existsb p l = existsb p l'.
Proof. induction 1; cbn; auto; [now rewrite IHPermutation | btauto | congruence]. Qed.
Theorem and_fold_perm l l' v : Permutation l l' -> Forall wf_bs l ->
  sat_list (and_fold l) v = sat_list (and_fold l') v.
Proof.
  intros P W. destruct l as [|a l].
  - apply Permutation_nil in P. now subst.
  - assert (N' : l' <> []) by (intro; subst; apply Permutation_sym, Permutation_nil in P; discriminate).
    assert (W' : Forall wf_bs l') by (eapply Permutation_Forall; eauto).
    rewrite !and_fold_sat; auto; [|discriminate].
    now rewrite (forallb_perm _ _ _ P), (existsb_perm _ _ _ P).
Qed.
(** order of alternatives never matters *)
Theorem alternatives_perm A A' v : Permutation A A' -> r_satisfies A v = r_satisfies A' v.
Proof. intro P. unfold r_satisfies. now apply existsb_perm. Qed.
Theorem alternatives_app A B v : r_satisfies (A ++ B) v = r_satisfies A v || r_satisfies B v.
Proof. unfold r_satisfies. apply existsb_app. Qed.
