(** C06: no reachable panic arm, no overflowing [+ 1], no loop that fails to make progress.
    - the [unreachable!] arms of [BoundSet::satisfies] / [Display] need an [Upper] in the lower
      slot or a [Lower] in the upper slot: impossible for well-formed ranges;
    - the [unwrap()]s of [difference] and [Range::any] are never reached ([r_difference_ok], [r_any_wf]);
    - every [+ 1] of the desugaring tables is applied to a parsed component, which is at most
      MAX_SAFE_INTEGER; bound components therefore stay at most MAX_SAFE_INTEGER + 1 under
      parsing and all set operations, and [min_version]'s [patch + 1] stays below 2^64;
    - fuel sufficiency is [ParseLen.r_parse_fuel]. *)
From Semver Require Import Version VersionOrder C04Proofs VParse Range RParse Interval SetOps RangeOps RangeLaws MinVersion
  ParseLen ParseWf ParseLemmas.
From Coq Require Import Lia.
Set Default Timeout 120.

(** ** dead [unreachable!] arms *)
Lemma bs_print_ok bs : wf_bs bs -> exists s, bs_print bs = Ok s.
Proof.
  intros (Hl & Hu & _). unfold bs_print. destruct (bs_lower bs) as [[l|l|]|]; try discriminate;
  destruct (bs_upper bs) as [|[u|u|]]; try discriminate; try (destruct (veqb l u)); eauto.
Qed.
Lemma r_print_tail_ok r : wf r -> exists s, r_print_tail r = Ok s.
Proof.
  induction 1 as [|bs r Hb _ (t & Ht)]; cbn; eauto.
  destruct (bs_print_ok bs Hb) as (s & Hs). rewrite Hs, Ht. cbn. eauto.
Qed.
Theorem r_print_ok r : wf r -> exists s, r_print r = Ok s.
Proof.
  intro W. destruct r as [|bs r]; cbn; eauto. inversion W as [|? ? Hb Hr]; subst.
  destruct (bs_print_ok bs Hb) as (s & Hs). destruct (r_print_tail_ok r Hr) as (t & Ht). rewrite Hs, Ht. cbn. eauto.
Qed.

(** ** components stay small *)
Definition vle_k (k : N) (v : version) : Prop := major v <= k /\ minor v <= k /\ patch v <= k.
Definition bound_le (k : N) (b : bound) : Prop :=
  match predicate b with Including v | Excluding v => vle_k k v | Unbounded => True end.
Definition bs_le (k : N) (bs : boundset) : Prop := bound_le k (bs_lower bs) /\ bound_le k (bs_upper bs).
Definition range_le (k : N) (r : range) : Prop := Forall (bs_le k) r.
Definition opt_le (k : N) (o : option boundset) : Prop := match o with Some c => bs_le k c | None => True end.

Lemma bs_new_le k l u : bound_le k l -> bound_le k u -> opt_le k (bs_new l u).
Proof. intros Hl Hu. destruct (bs_new l u) eqn:E; cbn; auto. apply bs_new_shape in E. subst. split; auto. Qed.
Lemma bmax_le k a b : bound_le k a -> bound_le k b -> bound_le k (bmax a b).
Proof. unfold bmax. destruct (blt b a); auto. Qed.
Lemma bmin_le k a b : bound_le k a -> bound_le k b -> bound_le k (bmin a b).
Proof. unfold bmin. destruct (blt b a); auto. Qed.
Lemma bs_intersect_le k a b : bs_le k a -> bs_le k b -> opt_le k (bs_intersect a b).
Proof. intros [A1 A2] [B1 B2]. apply bs_new_le; [now apply bmax_le|now apply bmin_le]. Qed.
Lemma flip_le k b : bound_le k b -> bound_le k (Upper (flip (predicate b))) /\ bound_le k (Lower (flip (predicate b))).
Proof. unfold bound_le. cbn. destruct (predicate b); cbn; auto. Qed.

Lemma range_le_app k a b : range_le k a -> range_le k b -> range_le k (a ++ b).
Proof. unfold range_le. intros. apply Forall_app; auto. Qed.
Lemma opt_list_le k o : opt_le k o -> range_le k (opt_to_list o).
Proof. destruct o; cbn; intro H; [constructor; [exact H|constructor]|constructor]. Qed.

Theorem r_intersect_le k A B : range_le k A -> range_le k B -> range_le k (opt_range (r_intersect A B)).
Proof.
  intros HA HB. unfold r_intersect. rewrite nonempty_opt_range. unfold r_intersect_list, range_le in *.
  rewrite Forall_forall in *. intros c Hc. apply in_flat_map in Hc as (a & Ha & Hc). apply in_flat_map in Hc as (b & Hb & Hc).
  pose proof (bs_intersect_le k a b (HA a Ha) (HB b Hb)) as H. destruct (bs_intersect a b); cbn in *; [|destruct Hc].
  destruct Hc as [<-|[]]. exact H.
Qed.

Ltac fa := unfold range_le; repeat (apply Forall_cons || apply Forall_nil); auto.
Lemma bs_difference_le k a b l : bs_le k a -> bs_le k b -> bs_difference a b = Ok (Some l) -> range_le k l.
Proof.
  intros Ha Hb. unfold bs_difference. pose proof (bs_intersect_le k a b Ha Hb) as Ho.
  destruct (bs_intersect a b) as [ov|]; [|intros [= <-]; fa; split; tauto].
  cbn in Ho. destruct Ho as [O1 O2]. destruct Ha as [A1 A2].
  destruct (flip_le k _ O1) as [F1 _]. destruct (flip_le k _ O2) as [_ F2].
  pose proof (bs_new_le k _ _ A1 F1) as N1. pose proof (bs_new_le k _ _ F2 A2) as N2.
  destruct (bs_eqb ov a); [discriminate|].
  destruct (blt (bs_lower a) (bs_lower ov) && blt (bs_upper ov) (bs_upper a)).
  - destruct (bs_new (bs_lower a) _), (bs_new _ (bs_upper a)); try discriminate. intros [= <-]. fa.
  - destruct (blt (bs_lower a) (bs_lower ov)).
    + destruct (bs_new (bs_lower a) _); cbn; [|discriminate]. intros [= <-]. fa.
    + destruct (bs_new _ (bs_upper a)); cbn; [|discriminate]. intros [= <-]. fa.
Qed.
Lemma cut_pieces_le k ps b r : range_le k ps -> bs_le k b -> cut_pieces ps b = Ok r -> range_le k r.
Proof.
  intros Hp Hb. revert r. induction Hp as [|p ps Hp0 _ IH]; cbn; intros r.
  - intros [= <-]. constructor.
  - destruct (bs_difference p b) as [d|] eqn:Ed; cbn; [|discriminate].
    destruct (cut_pieces ps b) as [rest|] eqn:Er; cbn; [|discriminate]. intros [= <-].
    specialize (IH rest eq_refl). destruct d as [l|]; auto. apply range_le_app; auto. apply (bs_difference_le k p b l); auto.
Qed.
Lemma cut_all_le k other : forall ps r, range_le k ps -> range_le k other -> cut_all ps other = Ok r -> range_le k r.
Proof.
  induction other as [|b other IH]; cbn; intros ps r Hp Ho.
  - now intros [= <-].
  - inversion Ho as [|? ? Hb Ho']; subst. destruct (cut_pieces ps b) as [ps'|] eqn:E; cbn; [|discriminate].
    intro H. apply (IH ps' r); auto. apply (cut_pieces_le k ps b ps'); auto.
Qed.
Theorem r_difference_le k A B : range_le k A -> range_le k B -> range_le k (res_range (r_difference A B)).
Proof.
  intros HA HB. unfold r_difference.
  assert (H : forall r, r_difference_list A B = Ok r -> range_le k r).
  { induction HA as [|a A Ha _ IH]; cbn; intros r.
    - intros [= <-]. constructor.
    - destruct (cut_all [a] B) as [rem|] eqn:E; cbn; [|discriminate].
      destruct (r_difference_list A B) as [rest|]; cbn; [|discriminate]. intros [= <-].
      apply range_le_app; [|now apply IH]. apply (cut_all_le k B [a] rem); auto. fa. }
  destruct (r_difference_list A B) as [r|]; cbn; [|constructor]. rewrite nonempty_opt_range. auto.
Qed.

(** parsed partial versions have components within MAX_SAFE_INTEGER *)
Definition opt_n_le (o : option N) : Prop := match o with Some n => n <= MAX_SAFE_INTEGER | None => True end.
Definition partial_ok (p : partial_t) : Prop := opt_n_le (p_major p) /\ opt_n_le (p_minor p) /\ opt_n_le (p_patch p).
Lemma component_ok s c r : component s = Some (c, r) -> opt_n_le c.
Proof.
  unfold component. destruct s as [|x t]; [discriminate|]. destruct (is_wild x); [intros [= <- _]; exact I|].
  unfold number_o. destruct (number (x :: t)) as [n r'|] eqn:E; [|discriminate]. intros [= <- _].
  apply number_inv in E as (ds & _ & _ & _ & _ & H). exact H.
Qed.
Lemma opt_dot_component_ok s o r : opt_dot_component s = (o, r) -> match o with Some c => opt_n_le c | None => True end.
Proof.
  unfold opt_dot_component. destruct (lit1 46 s) as [t|]; [|intros [= <- _]; exact I].
  destruct (component t) as [[c r']|] eqn:E; intros [= <- _]; [eapply component_ok; eauto|exact I].
Qed.
Lemma partial_version_ok s p r : partial_version s = Some (p, r) -> partial_ok p.
Proof.
  unfold partial_version. destruct (component (space0 (opt_lit1 118 s))) as [[ma s3]|] eqn:Ec; [|discriminate].
  apply component_ok in Ec.
  destruct (opt_dot_component s3) as [mi s4] eqn:E1. apply opt_dot_component_ok in E1.
  destruct (opt_dot_component s4) as [pa s5] eqn:E2. apply opt_dot_component_ok in E2.
  destruct (match pa with Some _ => extras s5 | None => ([], [], s5) end) as [[pre0 bld0] s6].
  destruct (opt_and (opt_and ma (opt_flatten mi)) (opt_flatten pa)) eqn:Ep; intros [= <- _]; unfold partial_ok; cbn;
    (split; [exact Ec|]); (split; [destruct ma, mi as [[|]|]; cbn; auto|]);
    destruct ma, mi as [[|]|], pa as [[|]|]; cbn in *; auto; try discriminate; try (injection Ep as <-; auto).
Qed.

(** bounds built by the tables from such partials have components at most MAX_SAFE_INTEGER + 1:
    this is where every [+ 1] of range.rs is applied *)
Definition K1 : N := MAX_SAFE_INTEGER + 1.
Lemma K1_small : K1 + 1 < U64_LIMIT. Proof. reflexivity. Qed.

Ltac le_crush :=
  unfold opt_le, at_least, at_most, exact; 
  try (apply bs_new_le); unfold bound_le, vle_k, partial_into, v3, v4, unwrap0, caret_upper, opt_n_le, K1, MAX_SAFE_INTEGER in *; cbn;
  repeat match goal with |- context [if ?c then _ else _] => destruct c end; cbn; repeat split; try lia.

Lemma primitive_tbl_le op p : partial_ok p -> opt_le K1 (primitive_tbl op p).
Proof.
  destruct p as [ma mi pa pr bl]. unfold partial_ok, primitive_tbl; cbn [p_major p_minor p_patch p_pre p_build].
  intros (H1 & H2 & H3). destruct op, ma as [ma|], mi as [mi|], pa as [pa|]; le_crush.
Qed.
Lemma partial_tbl_le p : partial_ok p -> opt_le K1 (partial_tbl p).
Proof.
  destruct p as [ma mi pa pr bl]. unfold partial_ok, partial_tbl; cbn [p_major p_minor p_patch p_pre p_build].
  intros (H1 & H2 & H3). destruct ma as [ma|], mi as [mi|], pa as [pa|]; le_crush.
Qed.
Lemma tilde_tbl_le gt p : partial_ok p -> opt_le K1 (tilde_tbl gt p).
Proof.
  destruct p as [ma mi pa pr bl]. unfold partial_ok, tilde_tbl; cbn [p_major p_minor p_patch p_pre p_build].
  intros (H1 & H2 & H3). destruct gt, ma as [ma|], mi as [mi|], pa as [pa|]; le_crush; try exact I.
Qed.
Lemma caret_tbl_le p : partial_ok p -> opt_le K1 (caret_tbl p).
Proof.
  destruct p as [ma mi pa pr bl]. unfold partial_ok, caret_tbl; cbn [p_major p_minor p_patch p_pre p_build].
  intros (H1 & H2 & H3). destruct ma as [[|ma]|], mi as [mi|], pa as [pa|]; le_crush; try exact I.
Qed.
Lemma hyphen_tbl_le lo up : partial_ok lo -> partial_ok up -> opt_le K1 (hyphen_tbl lo up).
Proof.
  destruct up as [ma mi pa pr bl]. destruct lo as [lma lmi lpa lpr lbl].
  unfold partial_ok, hyphen_tbl, hyphen_upper; cbn [p_major p_minor p_patch p_pre p_build].
  intros (L1 & L2 & L3) (H1 & H2 & H3).
  destruct lma, lmi, lpa; destruct ma as [ma|], mi as [mi|], pa as [pa|]; le_crush.
Qed.

(** ** ... through the grammar *)
Definition le_res (x : option (option boundset * str)) : Prop :=
  match x with Some (b, _) => opt_le K1 b | None => True end.
Lemma primitive_p_le s : le_res (primitive_p s).
Proof.
  unfold primitive_p, le_res. destruct (operation_p s) as [[op r]|]; auto.
  destruct (partial_version (space0 r)) as [[p r']|] eqn:E; auto. apply primitive_tbl_le. eapply partial_version_ok; eauto.
Qed.
Lemma partial_p_le s : le_res (partial_p s).
Proof. unfold partial_p, le_res. destruct (partial_version s) as [[p r']|] eqn:E; auto. apply partial_tbl_le. eapply partial_version_ok; eauto. Qed.
Lemma tilde_p_le s : le_res (tilde_p s).
Proof.
  unfold tilde_p, le_res. destruct (lit1 126 s) as [r|]; auto.
  destruct (match lit1 62 (space0 r) with Some r' => (true, r') | None => (false, space0 r) end) as [gt r2].
  destruct (partial_version (space0 r2)) as [[p r']|] eqn:E; auto. apply tilde_tbl_le. eapply partial_version_ok; eauto.
Qed.
Lemma caret_p_le s : le_res (caret_p s).
Proof.
  unfold caret_p, le_res. destruct (lit1 94 s) as [r|]; auto.
  destruct (partial_version (space0 r)) as [[p r']|] eqn:E; auto. apply caret_tbl_le. eapply partial_version_ok; eauto.
Qed.
Lemma hyphen_p_le s : le_res (hyphen_p s).
Proof.
  unfold hyphen_p, le_res.
  destruct (partial_version s) as [[lower s1]|] eqn:E0; auto.
  destruct (space1 s1) as [s2|]; auto. destruct (lit1 45 s2) as [s3|]; auto.
  destruct (space1 s3) as [s4|]; auto. destruct (partial_version s4) as [[up r]|] eqn:E; auto.
  apply hyphen_tbl_le; eapply partial_version_ok; eauto.
Qed.
Lemma terminated_p_le p s : (forall s, le_res (p s)) -> le_res (terminated_p p s).
Proof.
  intro H. unfold terminated_p. specialize (H s). destruct (p s) as [[b r]|]; cbn; auto. destruct (at_term r); cbn; auto.
Qed.
Lemma simple_le s : opt_le K1 (fst (simple s)).
Proof.
  unfold simple.
  pose proof (terminated_p_le primitive_p s primitive_p_le) as H2. destruct (terminated_p primitive_p s) as [[b r]|]; [exact H2|].
  pose proof (terminated_p_le partial_p s partial_p_le) as H3. destruct (terminated_p partial_p s) as [[b r]|]; [exact H3|].
  pose proof (terminated_p_le tilde_p s tilde_p_le) as H4. destruct (terminated_p tilde_p s) as [[b r]|]; [exact H4|].
  pose proof (terminated_p_le caret_p s caret_p_le) as H5. destruct (terminated_p caret_p s) as [[b r]|]; [exact H5|].
  exact I.
Qed.
Lemma simples_tail_le f : forall s l r, simples_tail f s = Some (l, r) -> Forall (opt_le K1) l.
Proof.
  induction f as [|f IH]; cbn; intros s l r.
  - destruct (space1 s); [discriminate|]. intros [= <- _]. constructor.
  - destruct (space1 s) as [s1|]; [|intros [= <- _]; constructor].
    pose proof (simple_le s1) as W. destruct (simple s1) as [b s2]. cbn in W.
    destruct (simples_tail f s2) as [[l' r']|] eqn:E; [|discriminate]. intros [= <- _].
    constructor; eauto.
Qed.
Lemma flatten_opts_le l : Forall (opt_le K1) l -> range_le K1 (flatten_opts l).
Proof. induction 1 as [|o l Ho Hl IH]; cbn; [constructor|]. destruct o; auto. constructor; auto. Qed.
Lemma and_fold_le l : range_le K1 l -> range_le K1 (and_fold l).
Proof.
  unfold and_fold. destruct l as [|first rest]; [constructor|]. intro W. inversion W as [|? ? Wf Wr]; subst.
  assert (H : forall acc, opt_le K1 acc ->
    opt_le K1 (fold_left (fun acc bs => match acc with Some a => bs_intersect a bs | None => None end) rest acc)).
  { clear W Wf. induction Wr as [|b rest Wb Wr IH]; cbn; auto. intros acc Wacc. apply IH.
    destruct acc as [a|]; cbn; auto. apply (bs_intersect_le K1 a b); auto. }
  specialize (H (Some first) Wf). now apply opt_list_le.
Qed.
Lemma simples_p_le s bs r : simples_p s = Some (bs, r) -> range_le K1 bs.
Proof.
  unfold simples_p. pose proof (simple_le s) as W. destruct (simple s) as [b s1]. cbn in W.
  destruct (simples_tail (length s1) s1) as [[l r']|] eqn:E; [|discriminate]. intros [= <- _].
  apply and_fold_le. apply (flatten_opts_le (b :: l)). constructor; auto. eapply simples_tail_le; eauto.
Qed.
Lemma range_p_le s bs r : range_p s = Some (bs, r) -> range_le K1 bs.
Proof.
  unfold range_p. destruct (at_empty_alt (space0 s)); [intros [= <- _]; constructor; [split; cbn; [unfold vle_k, K1, MAX_SAFE_INTEGER; cbn; lia|exact I]|constructor]|].
  pose proof (hyphen_p_le (space0 s)) as W. destruct (hyphen_p (space0 s)) as [[b r0]|]; [|apply simples_p_le].
  destruct (at_alt_end r0); [|apply simples_p_le]. intros [= <- _]. cbn in W. now apply opt_list_le.
Qed.
Lemma ranges_tail_le f : forall s l r, ranges_tail f s = Some (l, r) -> range_le K1 l.
Proof.
  induction f as [|f IH]; cbn; intros s l r.
  - destruct (logical_or s); [discriminate|]. intros [= <- _]. constructor.
  - destruct (logical_or s) as [s1|]; [|intros [= <- _]; constructor].
    destruct (range_p s1) as [[bs s2]|] eqn:E1; [|discriminate].
    destruct (ranges_tail f s2) as [[l' r']|] eqn:E2; [|discriminate]. intros [= <- _].
    apply range_le_app; [eapply range_p_le|eapply IH]; eauto.
Qed.
Theorem r_parse_le s R : r_parse s = ROk R -> range_le K1 R.
Proof.
  unfold r_parse, bound_sets. destruct (range_p s) as [[bs s1]|] eqn:E1; [|discriminate].
  destruct (ranges_tail (length s1) s1) as [[l' r']|] eqn:E2; [|discriminate].
  destruct (bs ++ l') eqn:E; [discriminate|]. intros [= <-]. rewrite <- E.
  apply range_le_app; [eapply range_p_le|eapply ranges_tail_le]; eauto.
Qed.
Theorem reachable_le R : reachable R -> range_le K1 R.
Proof.
  induction 1 as [s R H|R H|A B R _ LA _ LB H|A B R _ LA _ LB H].
  - eapply r_parse_le; eauto.
  - injection H as <-. repeat constructor.
  - pose proof (r_intersect_le K1 A B LA LB) as W. now rewrite H in W.
  - pose proof (r_difference_le K1 A B LA LB) as W. now rewrite H in W.
Qed.

(** [min_version]'s [patch + 1] *)
Lemma find_in {A} (p : A -> bool) l x : find p l = Some x -> In x l.
Proof. induction l as [|a l IH]; cbn; [discriminate|]. destruct (p a); [intros [= <-]; auto|auto]. Qed.
Theorem r_min_version_le R m : range_le K1 R -> r_min_version R = Some m -> vle_k (K1 + 1) m.
Proof.
  intros HR H. unfold r_min_version in H. apply iter_min_spec in H as [Hin _].
  apply in_flat_map in Hin as (bs & Hbs & Hm). unfold range_le in HR. rewrite Forall_forall in HR.
  destruct (HR bs Hbs) as [HL _]. unfold bs_min in Hm. destruct (find _ _) as [m0|] eqn:Ef; [|destruct Hm].
  destruct Hm as [<-|[]]. apply find_in in Ef. unfold min_candidates in Ef. unfold bound_le in HL.
  unfold K1, MAX_SAFE_INTEGER in *.
  destruct (bs_lower bs) as [[v|v|]|p]; cbn in HL.
  - destruct (is_pre v); cbn in Ef.
    + destruct Ef as [<-|[]]. unfold vle_k, push0 in *; cbn. lia.
    + destruct Ef as [<-|[<-|[]]]; unfold vle_k, push0, bump_patch in *; cbn; lia.
  - destruct Ef as [<-|[]]. unfold vle_k in *. lia.
  - destruct Ef as [<-|[<-|[]]]; unfold vle_k, K1, MAX_SAFE_INTEGER; cbn; lia.
  - destruct Ef as [<-|[<-|[]]]; unfold vle_k, K1, MAX_SAFE_INTEGER; cbn; lia.
Qed.
