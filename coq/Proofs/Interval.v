(** The interval algebra: every table-driven function of [BoundSet] is characterised once
    against bounds membership ([lower_ok] / [upper_ok]) and against validity, by a case
    split over the bound kinds and the order of at most three versions.  Later proofs
    never unfold [bcmp]. *)
From Semver Require Import Version VersionOrder Range.
From Coq Require Import Lia.
Set Default Timeout 120.

Definition is_lower (b : bound) : bool := match b with Lower _ => true | Upper _ => false end.
Definition is_upper (b : bound) : bool := match b with Upper _ => true | Lower _ => false end.
(** "the pair (l, u) is a non-empty interval" as [BoundSet::new] decides it *)
Definition valid (l u : bound) : bool := match bs_new l u with Some _ => true | None => false end.

(** well-formed interval: a [Lower] in the lower slot, an [Upper] in the upper slot, and
    [BoundSet::new] accepts the pair *)
Definition wf_bs (bs : boundset) : Prop :=
  is_lower (bs_lower bs) = true /\ is_upper (bs_upper bs) = true /\ valid (bs_lower bs) (bs_upper bs) = true.
Definition wf (r : range) : Prop := Forall wf_bs r.

(** [veqb] in terms of [vcmp], so that a goal mentions one comparison function only *)
Lemma veqb_cmp a b : veqb a b = match vcmp a b with Eq => true | _ => false end.
Proof. destruct (veqb a b) eqn:E.
  - apply veqb_vcmp in E. now rewrite E.
  - destruct (vcmp a b) eqn:C; auto. apply veqb_vcmp in C. congruence. Qed.

(** keep one direction per pair of versions *)
Ltac norm_cmp :=
  repeat match goal with
  | |- context [vcmp ?a ?b] =>
    match goal with |- context [vcmp b a] => rewrite (v_anti a b) end
  end.
Ltac split_cmp :=
  repeat match goal with
  | |- context [vcmp ?a ?b] => destruct (vcmp_spec a b)
  end.
Ltac inj_all :=
  repeat match goal with
  | H : Lower _ = Lower _ |- _ => injection H as H
  | H : Upper _ = Upper _ |- _ => injection H as H
  | H : Including _ = Including _ |- _ => injection H as H
  | H : Excluding _ = Excluding _ |- _ => injection H as H
  end; subst.
Ltac bcrush :=
  cbn [flip predicate]; unfold valid, bs_new, bmax, bmin, blt, ble, bcmp, lower_ok, upper_ok, vlt, vle;
  repeat (progress (rewrite ?veqb_cmp; norm_cmp; split_cmp; cbn)); intros;
  try congruence; try reflexivity; try vorder; try (exfalso; vorder);
  try (exfalso; inj_all; vorder).

Lemma bs_new_shape l u c : bs_new l u = Some c -> c = mkBS u l.
Proof.
  unfold bs_new. destruct l as [[]|[]], u as [[]|[]];
  repeat match goal with |- context [if ?b then _ else _] => destruct b end; congruence.
Qed.
Lemma valid_bs_new l u : valid l u = true -> bs_new l u = Some (mkBS u l).
Proof. unfold valid. destruct (bs_new l u) eqn:E; [|discriminate]. now rewrite (bs_new_shape _ _ _ E). Qed.
Lemma bs_new_wf l u c : is_lower l = true -> is_upper u = true -> bs_new l u = Some c -> wf_bs c.
Proof. intros Hl Hu E. pose proof (bs_new_shape _ _ _ E) as ->. unfold wf_bs, valid; cbn. now rewrite E. Qed.

(** ** membership of max / min *)
Lemma lower_ok_max l1 l2 v : is_lower l1 = true -> is_lower l2 = true ->
  lower_ok (bmax l1 l2) v = lower_ok l1 v && lower_ok l2 v.
Proof.
  destruct l1 as [p1|]; try discriminate. destruct l2 as [p2|]; try discriminate. intros _ _.
  destruct p1, p2; bcrush.
Qed.
Lemma upper_ok_min u1 u2 v : is_upper u1 = true -> is_upper u2 = true ->
  upper_ok (bmin u1 u2) v = upper_ok u1 v && upper_ok u2 v.
Proof.
  destruct u1 as [|p1]; try discriminate. destruct u2 as [|p2]; try discriminate. intros _ _.
  destruct p1, p2; bcrush.
Qed.
Lemma is_lower_max l1 l2 : is_lower l1 = true -> is_lower l2 = true -> is_lower (bmax l1 l2) = true.
Proof. unfold bmax; destruct (blt l2 l1); auto. Qed.
Lemma is_upper_min u1 u2 : is_upper u1 = true -> is_upper u2 = true -> is_upper (bmin u1 u2) = true.
Proof. unfold bmin; destruct (blt u2 u1); auto. Qed.
Lemma bmax_cases l1 l2 : bmax l1 l2 = l1 \/ bmax l1 l2 = l2.
Proof. unfold bmax; destruct (blt l2 l1); auto. Qed.
Lemma bmin_cases u1 u2 : bmin u1 u2 = u1 \/ bmin u1 u2 = u2.
Proof. unfold bmin; destruct (blt u2 u1); auto. Qed.

(** ** validity against membership *)
(** an invalid pair contains no version *)
Lemma invalid_empty l u v : is_lower l = true -> is_upper u = true -> valid l u = false ->
  lower_ok l v && upper_ok u v = false.
Proof.
  destruct l as [p1|]; try discriminate. destruct u as [|p2]; try discriminate. intros _ _.
  destruct p1, p2; bcrush.
Qed.
(** in a valid pair every version is above the lower bound or below the upper bound *)
Lemma valid_cover l u v : is_lower l = true -> is_upper u = true -> valid l u = true ->
  lower_ok l v || upper_ok u v = true.
Proof.
  destruct l as [p1|]; try discriminate. destruct u as [|p2]; try discriminate. intros _ _.
  destruct p1, p2; bcrush.
Qed.

(** ** flipping a bound complements it *)
Lemma upper_flip p v : p <> Unbounded -> upper_ok (Upper (flip p)) v = negb (lower_ok (Lower p) v).
Proof. destruct p; try congruence; intros _; bcrush. Qed.
Lemma lower_flip p v : p <> Unbounded -> lower_ok (Lower (flip p)) v = negb (upper_ok (Upper p) v).
Proof. destruct p; try congruence; intros _; bcrush. Qed.

(** ** the order on same-kind bounds is monotone for membership *)
Lemma lower_mono l1 l2 v : is_lower l1 = true -> is_lower l2 = true ->
  ble l1 l2 = true -> lower_ok l2 v = true -> lower_ok l1 v = true.
Proof.
  destruct l1 as [p1|]; try discriminate. destruct l2 as [p2|]; try discriminate. intros _ _.
  destruct p1, p2; bcrush.
Qed.
Lemma upper_mono u1 u2 v : is_upper u1 = true -> is_upper u2 = true ->
  ble u1 u2 = true -> upper_ok u1 v = true -> upper_ok u2 v = true.
Proof.
  destruct u1 as [|p1]; try discriminate. destruct u2 as [|p2]; try discriminate. intros _ _.
  destruct p1, p2; bcrush.
Qed.
Lemma blt_ble a b : blt a b = true -> ble a b = true.
Proof. unfold blt, ble. destruct (bcmp a b); congruence. Qed.

(** antisymmetry of the table on same-kind bounds (what makes [Ord::max]/[min] well behaved) *)
Lemma bcmp_anti_lower l1 l2 : is_lower l1 = true -> is_lower l2 = true -> bcmp l2 l1 = CompOpp (bcmp l1 l2).
Proof.
  destruct l1 as [p1|]; try discriminate. destruct l2 as [p2|]; try discriminate. intros _ _.
  destruct p1, p2; bcrush.
Qed.
Lemma bcmp_anti_upper u1 u2 : is_upper u1 = true -> is_upper u2 = true -> bcmp u2 u1 = CompOpp (bcmp u1 u2).
Proof.
  destruct u1 as [|p1]; try discriminate. destruct u2 as [|p2]; try discriminate. intros _ _.
  destruct p1, p2; bcrush.
Qed.
(** on same-kind bounds [Equal] means equal as [PartialEq] sees them *)
Lemma bcmp_eq_lower l1 l2 : is_lower l1 = true -> is_lower l2 = true ->
  (bcmp l1 l2 = Eq <-> bound_eqb l1 l2 = true).
Proof.
  destruct l1 as [p1|]; try discriminate. destruct l2 as [p2|]; try discriminate. intros _ _.
  destruct p1, p2; unfold bound_eqb, pred_eqb; bcrush; split; intros; try congruence; try (exfalso; vorder).
Qed.
Lemma bcmp_eq_upper u1 u2 : is_upper u1 = true -> is_upper u2 = true ->
  (bcmp u1 u2 = Eq <-> bound_eqb u1 u2 = true).
Proof.
  destruct u1 as [|p1]; try discriminate. destruct u2 as [|p2]; try discriminate. intros _ _.
  destruct p1, p2; unfold bound_eqb, pred_eqb; bcrush; split; intros; try congruence; try (exfalso; vorder).
Qed.

(** [PartialEq]-equal bounds have the same members and the same validity *)
Lemma lower_ok_eqb l1 l2 v : bound_eqb l1 l2 = true -> lower_ok l1 v = lower_ok l2 v.
Proof. destruct l1 as [[]|[]], l2 as [[]|[]]; unfold bound_eqb, pred_eqb; try discriminate; bcrush. Qed.
Lemma upper_ok_eqb u1 u2 v : bound_eqb u1 u2 = true -> upper_ok u1 v = upper_ok u2 v.
Proof. destruct u1 as [[]|[]], u2 as [[]|[]]; unfold bound_eqb, pred_eqb; try discriminate; bcrush. Qed.

(** ** the remainders built by [difference] are valid *)
Lemma remainder_left_valid l1 l2 : is_lower l1 = true -> is_lower l2 = true ->
  blt l1 l2 = true -> valid l1 (Upper (flip (predicate l2))) = true.
Proof.
  destruct l1 as [p1|]; try discriminate. destruct l2 as [p2|]; try discriminate. intros _ _.
  destruct p1, p2; cbn [predicate flip]; bcrush.
Qed.
Lemma remainder_right_valid u1 u2 : is_upper u1 = true -> is_upper u2 = true ->
  blt u1 u2 = true -> valid (Lower (flip (predicate u1))) u2 = true.
Proof.
  destruct u1 as [|p1]; try discriminate. destruct u2 as [|p2]; try discriminate. intros _ _.
  destruct p1, p2; cbn [predicate flip]; bcrush.
Qed.
Lemma blt_lower_bounded l1 l2 : is_lower l1 = true -> is_lower l2 = true -> blt l1 l2 = true -> predicate l2 <> Unbounded.
Proof. destruct l1 as [[]|], l2 as [[]|]; try discriminate; cbn; congruence. Qed.
Lemma blt_upper_bounded u1 u2 : is_upper u1 = true -> is_upper u2 = true -> blt u1 u2 = true -> predicate u1 <> Unbounded.
Proof. destruct u1 as [|[]], u2 as [|[]]; try discriminate; cbn; congruence. Qed.

(** ** validity of max / min, and the cross-kind comparison used by [allows_any] *)
Lemma valid_max l1 l2 u : is_lower l1 = true -> is_lower l2 = true -> is_upper u = true ->
  valid (bmax l1 l2) u = valid l1 u && valid l2 u.
Proof.
  destruct l1 as [p1|]; try discriminate. destruct l2 as [p2|]; try discriminate.
  destruct u as [|p3]; try discriminate. intros _ _ _.
  destruct p1, p2, p3; bcrush.
Qed.
Lemma valid_min l u1 u2 : is_lower l = true -> is_upper u1 = true -> is_upper u2 = true ->
  valid l (bmin u1 u2) = valid l u1 && valid l u2.
Proof.
  destruct l as [p1|]; try discriminate. destruct u1 as [|p2]; try discriminate.
  destruct u2 as [|p3]; try discriminate. intros _ _ _.
  destruct p1, p2, p3; bcrush.
Qed.
(** an upper bound is below a lower bound exactly when the pair is not a valid interval *)
Lemma upper_lt_lower u l : is_upper u = true -> is_lower l = true -> blt u l = negb (valid l u).
Proof.
  destruct l as [p1|]; try discriminate. destruct u as [|p2]; try discriminate. intros _ _.
  destruct p1, p2; bcrush.
Qed.

(** versions carried by the greater of two lower bounds / the lesser of two upper bounds:
    used by the prerelease-gate preservation argument *)
Definition bound_version (b : bound) : option version :=
  match predicate b with Including v | Excluding v => Some v | Unbounded => None end.
Lemma lower_ok_version l w v : is_lower l = true -> bound_version l = Some w -> lower_ok l v = true -> vcmp w v <> Gt.
Proof. destruct l as [[]|]; try discriminate; cbn; intros _ [= ->] H; bcrush. Qed.
Lemma upper_ok_version u w v : is_upper u = true -> bound_version u = Some w -> upper_ok u v = true -> vcmp v w <> Gt.
Proof. destruct u as [|[]]; try discriminate; cbn; intros _ [= ->] H; bcrush. Qed.
Lemma max_version_le l1 l2 w1 w2 : is_lower l1 = true -> is_lower l2 = true ->
  bound_version l1 = Some w1 -> bound_version l2 = Some w2 -> bmax l1 l2 = l2 -> vcmp w1 w2 <> Gt.
Proof.
  destruct l1 as [[]|]; try discriminate; destruct l2 as [[]|]; try discriminate; cbn;
  intros _ _ [= ->] [= ->]; bcrush.
Qed.
Lemma max_version_le' l1 l2 w1 w2 : is_lower l1 = true -> is_lower l2 = true ->
  bound_version l1 = Some w1 -> bound_version l2 = Some w2 -> bmax l1 l2 = l1 -> vcmp w2 w1 <> Gt.
Proof.
  destruct l1 as [[]|]; try discriminate; destruct l2 as [[]|]; try discriminate; cbn;
  intros _ _ [= ->] [= ->]; bcrush.
Qed.
Lemma min_version_le u1 u2 w1 w2 : is_upper u1 = true -> is_upper u2 = true ->
  bound_version u1 = Some w1 -> bound_version u2 = Some w2 -> bmin u1 u2 = u2 -> vcmp w2 w1 <> Gt.
Proof.
  destruct u1 as [|[]]; try discriminate; destruct u2 as [|[]]; try discriminate; cbn;
  intros _ _ [= ->] [= ->]; bcrush.
Qed.
Lemma min_version_le' u1 u2 w1 w2 : is_upper u1 = true -> is_upper u2 = true ->
  bound_version u1 = Some w1 -> bound_version u2 = Some w2 -> bmin u1 u2 = u1 -> vcmp w1 w2 <> Gt.
Proof.
  destruct u1 as [|[]]; try discriminate; destruct u2 as [|[]]; try discriminate; cbn;
  intros _ _ [= ->] [= ->]; bcrush.
Qed.
