(** Laws of the range algebra derived from the characterisations in [RangeOps]:
    satisfaction of an intersection (formula, commutativity, idempotence), difference
    (disjointness, partition, emptiness), [allows_all] against [allows_any] and against
    [difference], expression trees of set operations (C15), the prerelease gate (C03)
    and [max_satisfying]/[min_satisfying] (C14). *)
From Semver Require Import Version VersionOrder C04Proofs Range Interval SetOps RangeOps.
From Coq Require Import Lia Btauto Permutation.
Set Default Timeout 120.

Ltac wf_forall := unfold wf in *; repeat match goal with H : Forall _ _ |- _ => rewrite Forall_forall in H end.

(** ** satisfaction of an intersection, as a formula over the operands *)
Definition pair_sat (v : version) (a b : boundset) : bool :=
  within a v && within b v && (gate a v || gate b v).

Theorem r_intersect_satisfies_formula A B v : wf A -> wf B ->
  r_satisfies (opt_range (r_intersect A B)) v = existsb (fun a => existsb (pair_sat v a) B) A.
Proof.
  intros WA WB. unfold r_intersect. rewrite nonempty_opt_range. unfold r_satisfies, r_intersect_list.
  wf_forall. rewrite existsb_flat_map. apply existsb_ext. intros a Ha.
  rewrite existsb_flat_map. apply existsb_ext. intros b Hb.
  apply bs_intersect_satisfies; auto.
Qed.

Lemma pair_sat_sym v a b : pair_sat v a b = pair_sat v b a.
Proof. unfold pair_sat. btauto. Qed.

Theorem r_intersect_satisfies_comm A B v : wf A -> wf B ->
  r_satisfies (opt_range (r_intersect A B)) v = r_satisfies (opt_range (r_intersect B A)) v.
Proof.
  intros WA WB. rewrite !r_intersect_satisfies_formula by assumption.
  rewrite existsb_swap. apply existsb_ext. intros b _. apply existsb_ext. intros a _. apply pair_sat_sym.
Qed.

Theorem r_intersect_within_comm A B v : wf A -> wf B ->
  r_within (opt_range (r_intersect A B)) v = r_within (opt_range (r_intersect B A)) v.
Proof. intros. rewrite !r_intersect_within by assumption. apply andb_comm. Qed.

Theorem r_intersect_within_idem A v : wf A -> r_within (opt_range (r_intersect A A)) v = r_within A v.
Proof. intros. rewrite r_intersect_within by assumption. apply andb_diag. Qed.

Theorem r_intersect_satisfies_idem A v : wf A ->
  r_satisfies (opt_range (r_intersect A A)) v = r_satisfies A v.
Proof.
  intro WA. rewrite r_intersect_satisfies_formula by assumption.
  apply eq_true_iff_eq. unfold r_satisfies. rewrite !existsb_exists. split.
  - intros (a & Ha & H). apply existsb_exists in H as (b & Hb & H).
    unfold pair_sat in H. apply andb_true_iff in H as [H G]. apply andb_true_iff in H as [Wa Wb].
    apply orb_true_iff in G as [G|G]; [exists a | exists b]; split; auto; unfold bs_satisfies;
      now rewrite ?Wa, ?Wb, G.
  - intros (a & Ha & H). exists a. split; auto. apply existsb_exists. exists a. split; auto.
    unfold bs_satisfies in H. apply andb_true_iff in H as [Wa G]. unfold pair_sat. now rewrite Wa, G.
Qed.

Theorem r_intersect_release A B v : wf A -> wf B -> is_pre v = false ->
  r_satisfies (opt_range (r_intersect A B)) v = r_satisfies A v && r_satisfies B v.
Proof. intros WA WB P. rewrite !r_satisfies_release by assumption. now apply r_intersect_within. Qed.

(** every version a range admits lies within its bounds *)
Lemma r_satisfies_within r v : r_satisfies r v = true -> r_within r v = true.
Proof.
  unfold r_satisfies, r_within. rewrite !existsb_exists. intros (bs & H & S). exists bs. split; auto.
  unfold bs_satisfies in S. now apply andb_true_iff in S as [S _].
Qed.

(** ** difference *)
Definition res_range (x : res (option range)) : range :=
  match x with Ok o => opt_range o | Panic => [] end.
Definition is_ok {A} (x : res A) : bool := match x with Ok _ => true | Panic => false end.

Theorem r_difference_ok A B : wf A -> wf B -> is_ok (r_difference A B) = true.
Proof. intros WA WB. destruct (r_difference_spec A B WA WB) as (o & H & _). now rewrite H. Qed.
Theorem r_difference_within A B v : wf A -> wf B ->
  r_within (res_range (r_difference A B)) v = r_within A v && negb (r_within B v).
Proof. intros WA WB. destruct (r_difference_spec A B WA WB) as (o & H & _ & S). rewrite H. apply S. Qed.
Theorem r_difference_wf A B : wf A -> wf B -> wf (res_range (r_difference A B)).
Proof. intros WA WB. destruct (r_difference_spec A B WA WB) as (o & H & W & _). now rewrite H. Qed.
Theorem r_difference_release A B v : wf A -> wf B -> is_pre v = false ->
  r_satisfies (res_range (r_difference A B)) v = r_satisfies A v && negb (r_satisfies B v).
Proof. intros WA WB P. rewrite !r_satisfies_release by assumption. now apply r_difference_within. Qed.
Theorem r_difference_none A B v : wf A -> wf B -> r_difference A B = Ok None ->
  r_within A v = true -> r_within B v = true.
Proof.
  intros WA WB H Hv. pose proof (r_difference_within A B v WA WB) as S. rewrite H, Hv in S. cbn in S.
  destruct (r_within B v); auto.
Qed.
Theorem r_difference_disjoint A B v : wf A -> wf B ->
  r_within (res_range (r_difference A B)) v = true -> r_within B v = false.
Proof. intros WA WB. rewrite r_difference_within by assumption. destruct (r_within B v); [|auto]. now rewrite andb_false_r. Qed.
Theorem r_partition A B v : wf A -> wf B ->
  r_within A v = r_within (opt_range (r_intersect A B)) v || r_within (res_range (r_difference A B)) v.
Proof. intros. rewrite r_intersect_within, r_difference_within by assumption. btauto. Qed.
Theorem r_partition_disjoint A B v : wf A -> wf B ->
  r_within (opt_range (r_intersect A B)) v && r_within (res_range (r_difference A B)) v = false.
Proof. intros. rewrite r_intersect_within, r_difference_within by assumption. btauto. Qed.

(** ** allows_any *)
Theorem r_allows_any_false A B v : wf A -> wf B -> r_allows_any A B = false ->
  r_within A v && r_within B v = false.
Proof.
  intros WA WB H. rewrite r_allows_any_intersect in H by assumption.
  apply r_intersect_none; auto. destruct (r_intersect A B); [discriminate|reflexivity].
Qed.
Theorem r_allows_any_true A B v : wf A -> wf B ->
  r_within A v = true -> r_within B v = true -> r_allows_any A B = true.
Proof.
  intros WA WB Ha Hb. destruct (r_allows_any A B) eqn:E; auto.
  pose proof (r_allows_any_false A B v WA WB E) as H. now rewrite Ha, Hb in H.
Qed.
Theorem r_allows_any_true_sat A B v : wf A -> wf B ->
  r_satisfies A v = true -> r_satisfies B v = true -> r_allows_any A B = true.
Proof. intros WA WB Ha Hb. apply (r_allows_any_true A B v); auto using r_satisfies_within. Qed.

(** ** allows_all *)
Lemma valid_mono_lower l1 l2 u : is_lower l1 = true -> is_lower l2 = true -> is_upper u = true ->
  ble l1 l2 = true -> valid l2 u = true -> valid l1 u = true.
Proof.
  destruct l1 as [p1|]; try discriminate. destruct l2 as [p2|]; try discriminate.
  destruct u as [|p3]; try discriminate. intros _ _ _.
  destruct p1, p2, p3; bcrush.
Qed.
Lemma valid_mono_upper l u1 u2 : is_lower l = true -> is_upper u1 = true -> is_upper u2 = true ->
  ble u1 u2 = true -> valid l u1 = true -> valid l u2 = true.
Proof.
  destruct l as [p1|]; try discriminate. destruct u1 as [|p2]; try discriminate.
  destruct u2 as [|p3]; try discriminate. intros _ _ _.
  destruct p1, p2, p3; bcrush.
Qed.

Lemma bs_allows_all_any a b : wf_bs a -> wf_bs b -> bs_allows_all a b = true -> bs_allows_any a b = true.
Proof.
  intros (Hla & Hua & Va) (Hlb & Hub & Vb) H. unfold bs_allows_all in H. apply andb_true_iff in H as [H1 H2].
  rewrite bs_allows_any_intersect by (repeat split; assumption).
  unfold bs_intersect.
  assert (V : valid (bmax (bs_lower a) (bs_lower b)) (bmin (bs_upper a) (bs_upper b)) = true).
  { rewrite valid_max by auto using is_upper_min. rewrite !valid_min by assumption.
    rewrite Va, Vb.
    rewrite (valid_mono_lower (bs_lower a) (bs_lower b) (bs_upper b)) by assumption.
    rewrite (valid_mono_upper (bs_lower b) (bs_upper b) (bs_upper a)) by assumption. reflexivity. }
  unfold valid in V. destruct (bs_new _ _); [reflexivity|discriminate].
Qed.
Theorem r_allows_all_any A b : wf A -> wf_bs b -> r_allows_all A [b] = true -> r_allows_any A [b] = true.
Proof.
  intros WA Wb. unfold r_allows_all, r_allows_any. rewrite !existsb_exists. intros (a & Ha & H).
  exists a. split; auto. cbn in *. rewrite orb_false_r in *. wf_forall. apply bs_allows_all_any; auto.
Qed.

Lemma bs_difference_some_nonempty a b l : bs_difference a b = Ok (Some l) -> l <> [].
Proof.
  unfold bs_difference. destruct (bs_intersect a b) as [ov|]; [|intros [= <-]; discriminate].
  destruct (bs_eqb ov a); [discriminate|].
  destruct (blt (bs_lower a) (bs_lower ov) && blt (bs_upper ov) (bs_upper a)).
  - repeat match goal with |- context [match bs_new ?x ?y with _ => _ end] => destruct (bs_new x y) end;
      try discriminate. intros [= <-]. discriminate.
  - destruct (blt (bs_lower a) (bs_lower ov));
      match goal with |- context [bs_new ?x ?y] => destruct (bs_new x y) end; cbn; try discriminate;
      intros [= <-]; discriminate.
Qed.
Theorem r_allows_all_difference a b : wf_bs a -> wf_bs b ->
  (r_allows_all [a] [b] = true <-> r_difference [b] [a] = Ok None).
Proof.
  intros Wa Wb. unfold r_allows_all. cbn [existsb]. rewrite !orb_false_r.
  rewrite <- (bs_difference_none_iff b a) by assumption.
  unfold r_difference. cbn. destruct (bs_difference b a) as [[l|]|] eqn:E; cbn.
  - rewrite app_nil_r. pose proof (bs_difference_some_nonempty _ _ _ E) as NE.
    destruct l; [congruence|]. cbn. split; discriminate.
  - tauto.
  - split; discriminate.
Qed.

(** ** expression trees of set operations (C15) *)
Inductive expr : Type :=
| Leaf (r : range)
| Isect (e1 e2 : expr)
| Diff (e1 e2 : expr).
(** evaluation as the crate does it: [None] is "no range" and propagates as the empty set;
    a [Panic] anywhere is [Panic] *)
Fixpoint eval (e : expr) : res range :=
  match e with
  | Leaf r => Ok r
  | Isect e1 e2 =>
    rbind (eval e1) (fun a => rbind (eval e2) (fun b => Ok (opt_range (r_intersect a b))))
  | Diff e1 e2 =>
    rbind (eval e1) (fun a => rbind (eval e2) (fun b => rmap opt_range (r_difference a b)))
  end.
(** the Boolean algebra the tree denotes, over bounds membership of the leaves *)
Fixpoint denote (e : expr) (v : version) : bool :=
  match e with
  | Leaf r => r_within r v
  | Isect e1 e2 => denote e1 v && denote e2 v
  | Diff e1 e2 => denote e1 v && negb (denote e2 v)
  end.
Fixpoint leaves_wf (e : expr) : Prop :=
  match e with
  | Leaf r => wf r
  | Isect e1 e2 | Diff e1 e2 => leaves_wf e1 /\ leaves_wf e2
  end.

Theorem eval_sem e : leaves_wf e ->
  exists r, eval e = Ok r /\ wf r /\ forall v, r_within r v = denote e v.
Proof.
  induction e as [r|e1 IH1 e2 IH2|e1 IH1 e2 IH2]; cbn; intros W.
  - exists r. auto.
  - destruct W as [W1 W2]. destruct (IH1 W1) as (a & Ea & Wa & Sa). destruct (IH2 W2) as (b & Eb & Wb & Sb).
    rewrite Ea, Eb. cbn. exists (opt_range (r_intersect a b)). split; [reflexivity|]. split.
    + now apply r_intersect_wf.
    + intro v. rewrite r_intersect_within, Sa, Sb by assumption. reflexivity.
  - destruct W as [W1 W2]. destruct (IH1 W1) as (a & Ea & Wa & Sa). destruct (IH2 W2) as (b & Eb & Wb & Sb).
    rewrite Ea, Eb. cbn. destruct (r_difference_spec a b Wa Wb) as (o & H & Wo & So).
    rewrite H. cbn. exists (opt_range o). split; [reflexivity|]. split; auto.
    intro v. rewrite So, Sa, Sb. reflexivity.
Qed.

(** ** the prerelease gate (C03) *)
Theorem r_satisfies_gate r v : is_pre v = true ->
  r_satisfies r v =
  existsb (fun bs => within bs v && (tagged_same_tuple (bs_lower bs) v || tagged_same_tuple (bs_upper bs) v)) r.
Proof.
  intro P. unfold r_satisfies. apply existsb_ext. intros bs _. unfold bs_satisfies, gate. now rewrite P.
Qed.

Definition with_build_bound (f : version -> list ident) (b : bound) : bound :=
  match b with
  | Lower (Including w) => Lower (Including (with_build w (f w)))
  | Lower (Excluding w) => Lower (Excluding (with_build w (f w)))
  | Upper (Including w) => Upper (Including (with_build w (f w)))
  | Upper (Excluding w) => Upper (Excluding (with_build w (f w)))
  | _ => b
  end.
Definition with_build_bs (f : version -> list ident) (bs : boundset) : boundset :=
  mkBS (with_build_bound f (bs_upper bs)) (with_build_bound f (bs_lower bs)).

Lemma vlt_build a b x y : vlt (with_build a x) (with_build b y) = vlt a b.
Proof. unfold vlt. now rewrite vcmp_build. Qed.
Lemma vle_build a b x y : vle (with_build a x) (with_build b y) = vle a b.
Proof. unfold vle. now rewrite vcmp_build. Qed.
Lemma with_build_id v : with_build v (build v) = v.
Proof. destruct v; reflexivity. Qed.

Lemma vlt_build_r a b y : vlt a (with_build b y) = vlt a b.
Proof. rewrite <- (with_build_id a) at 1. apply vlt_build. Qed.
Lemma vlt_build_l a b x : vlt (with_build a x) b = vlt a b.
Proof. rewrite <- (with_build_id b) at 1. apply vlt_build. Qed.
Lemma vle_build_r a b y : vle a (with_build b y) = vle a b.
Proof. rewrite <- (with_build_id a) at 1. apply vle_build. Qed.
Lemma vle_build_l a b x : vle (with_build a x) b = vle a b.
Proof. rewrite <- (with_build_id b) at 1. apply vle_build. Qed.

Lemma lower_ok_build_v b v x : lower_ok b (with_build v x) = lower_ok b v.
Proof. destruct b as [[l|l|]|p]; cbn; auto using vle_build_r, vlt_build_r. Qed.
Lemma upper_ok_build_v b v x : upper_ok b (with_build v x) = upper_ok b v.
Proof. destruct b as [p|[u|u|]]; cbn; auto using vle_build_l, vlt_build_l. Qed.
Lemma tagged_build_v b v x : tagged_same_tuple b (with_build v x) = tagged_same_tuple b v.
Proof. reflexivity. Qed.
Lemma bs_satisfies_build_v bs v x : bs_satisfies bs (with_build v x) = bs_satisfies bs v.
Proof.
  unfold bs_satisfies, within, gate. now rewrite lower_ok_build_v, upper_ok_build_v, !tagged_build_v.
Qed.
Theorem r_satisfies_build_v r v x : r_satisfies r (with_build v x) = r_satisfies r v.
Proof. unfold r_satisfies. apply existsb_ext. intros bs _. apply bs_satisfies_build_v. Qed.

Lemma lower_ok_build_r f b v : lower_ok (with_build_bound f b) v = lower_ok b v.
Proof. destruct b as [[l|l|]|[u|u|]]; cbn; auto using vle_build_l, vlt_build_l. Qed.
Lemma upper_ok_build_r f b v : upper_ok (with_build_bound f b) v = upper_ok b v.
Proof. destruct b as [[l|l|]|[u|u|]]; cbn; auto using vle_build_r, vlt_build_r. Qed.
Lemma tagged_build_r f b v : tagged_same_tuple (with_build_bound f b) v = tagged_same_tuple b v.
Proof. destruct b as [[l|l|]|[u|u|]]; reflexivity. Qed.
Lemma bs_satisfies_build_r f bs v : bs_satisfies (with_build_bs f bs) v = bs_satisfies bs v.
Proof.
  unfold bs_satisfies, within, gate, with_build_bs. cbn [bs_lower bs_upper].
  now rewrite lower_ok_build_r, upper_ok_build_r, !tagged_build_r.
Qed.
Theorem r_satisfies_build_r f r v : r_satisfies (map (with_build_bs f) r) v = r_satisfies r v.
Proof.
  unfold r_satisfies. induction r as [|bs r IH]; cbn; auto. now rewrite bs_satisfies_build_r, IH.
Qed.

(** a generated [-0] upper bound never opens the gate for a version inside the bounds *)
Theorem dash0_upper_closed u v : pre u = [Num 0] -> vlt v u = true -> same_tuple v u = true -> is_pre v = false.
Proof.
  intros Pu L S. destruct (is_pre v) eqn:Pv; auto. exfalso.
  apply same_tuple_iff in S. destruct S as (S1 & S2 & S3).
  unfold vlt in L. destruct (vcmp v u) eqn:C; try discriminate.
  destruct (vcmp_cases v u) as [[T _]|[[T _]|[_ E]]].
  - unfold tuple_lt in T. lia.
  - unfold tuple_lt in T. lia.
  - rewrite C, Pu in E. unfold is_pre in Pv. destruct (pre v) as [|i t] eqn:Ev; [discriminate|].
    pose proof (tag0_least (i :: t)) as H. rewrite (p_anti (i :: t) [Num 0]), <- E in H. cbn in H.
    apply H; [discriminate|reflexivity].
Qed.

(** ** max_satisfying / min_satisfying (C14) *)
Theorem r_max_satisfying_spec r l m : r_max_satisfying r l = Some m ->
  In m l /\ r_satisfies r m = true /\ forall x, In x l -> r_satisfies r x = true -> vcmp x m <> Gt.
Proof.
  unfold r_max_satisfying. intro H. apply iter_max_spec in H as [Hin Hmax].
  apply filter_In in Hin as [Hin Hs]. repeat split; auto.
  intros x Hx Sx. apply Hmax. apply filter_In. auto.
Qed.
Theorem r_min_satisfying_spec r l m : r_min_satisfying r l = Some m ->
  In m l /\ r_satisfies r m = true /\ forall x, In x l -> r_satisfies r x = true -> vcmp m x <> Gt.
Proof.
  unfold r_min_satisfying. intro H. apply iter_min_spec in H as [Hin Hmin].
  apply filter_In in Hin as [Hin Hs]. repeat split; auto.
  intros x Hx Sx. apply Hmin. apply filter_In. auto.
Qed.
Lemma filter_nil_iff {A} (p : A -> bool) l : filter p l = [] <-> forall x, In x l -> p x = false.
Proof.
  induction l as [|a l IH]; cbn; [tauto|]. destruct (p a) eqn:E.
  - split; [discriminate|]. intro H. specialize (H a (or_introl eq_refl)). congruence.
  - rewrite IH. split; [intros H x [<-|Hx]; auto | intros H x Hx; auto].
Qed.
Theorem r_max_satisfying_none r l : r_max_satisfying r l = None <-> forall x, In x l -> r_satisfies r x = false.
Proof. unfold r_max_satisfying. rewrite iter_max_none. apply filter_nil_iff. Qed.
Theorem r_min_satisfying_none r l : r_min_satisfying r l = None <-> forall x, In x l -> r_satisfies r x = false.
Proof. unfold r_min_satisfying. rewrite iter_min_none. apply filter_nil_iff. Qed.

(** the answer is independent of the order of the slice up to precedence-equality *)
Theorem r_max_satisfying_perm r l l' : Permutation l l' ->
  match r_max_satisfying r l, r_max_satisfying r l' with
  | Some m, Some m' => vcmp m m' = Eq
  | None, None => True
  | _, _ => False
  end.
Proof.
  intro P. destruct (r_max_satisfying r l) as [m|] eqn:E1; destruct (r_max_satisfying r l') as [m'|] eqn:E2.
  - apply r_max_satisfying_spec in E1 as (I1 & S1 & M1). apply r_max_satisfying_spec in E2 as (I2 & S2 & M2).
    assert (vcmp m m' <> Gt) by (apply M2; auto; eapply Permutation_in; eauto).
    assert (vcmp m' m <> Gt) by (apply M1; auto; eapply Permutation_in; [apply Permutation_sym|]; eauto).
    vorder.
  - apply r_max_satisfying_spec in E1 as (I1 & S1 & _). rewrite r_max_satisfying_none in E2.
    rewrite E2 in S1; [discriminate|]. eapply Permutation_in; eauto.
  - apply r_max_satisfying_spec in E2 as (I2 & S2 & _). rewrite r_max_satisfying_none in E1.
    rewrite E1 in S2; [discriminate|]. eapply Permutation_in; [apply Permutation_sym|]; eauto.
  - exact I.
Qed.
Theorem r_min_satisfying_perm r l l' : Permutation l l' ->
  match r_min_satisfying r l, r_min_satisfying r l' with
  | Some m, Some m' => vcmp m m' = Eq
  | None, None => True
  | _, _ => False
  end.
Proof.
  intro P. destruct (r_min_satisfying r l) as [m|] eqn:E1; destruct (r_min_satisfying r l') as [m'|] eqn:E2.
  - apply r_min_satisfying_spec in E1 as (I1 & S1 & M1). apply r_min_satisfying_spec in E2 as (I2 & S2 & M2).
    assert (vcmp m' m <> Gt) by (apply M2; auto; eapply Permutation_in; eauto).
    assert (vcmp m m' <> Gt) by (apply M1; auto; eapply Permutation_in; [apply Permutation_sym|]; eauto).
    vorder.
  - apply r_min_satisfying_spec in E1 as (I1 & S1 & _). rewrite r_min_satisfying_none in E2.
    rewrite E2 in S1; [discriminate|]. eapply Permutation_in; eauto.
  - apply r_min_satisfying_spec in E2 as (I2 & S2 & _). rewrite r_min_satisfying_none in E1.
    rewrite E1 in S2; [discriminate|]. eapply Permutation_in; [apply Permutation_sym|]; eauto.
  - exact I.
Qed.

(** the identities on evaluated ranges *)
Theorem eval_laws A B C v : wf A -> wf B -> wf C ->
  let W e := match eval e with Ok r => r_within r v | Panic => false end in
  W (Isect (Leaf A) (Leaf B)) = W (Isect (Leaf B) (Leaf A)) /\
  W (Isect (Isect (Leaf A) (Leaf B)) (Leaf C)) = W (Isect (Leaf A) (Isect (Leaf B) (Leaf C))) /\
  W (Isect (Leaf A) (Leaf A)) = W (Leaf A) /\
  W (Diff (Leaf A) (Leaf A)) = false /\
  W (Isect (Diff (Leaf A) (Leaf B)) (Leaf B)) = false /\
  W (Leaf A) = W (Isect (Leaf A) (Leaf B)) || W (Diff (Leaf A) (Leaf B)) /\
  W (Diff (Leaf A) (Diff (Leaf A) (Leaf B))) = W (Isect (Leaf A) (Leaf B)).
Proof.
  intros WA WB WC W.
  assert (H : forall e, leaves_wf e -> W e = denote e v).
  { intros e He. unfold W. destruct (eval_sem e He) as (r & E & _ & S). rewrite E. apply S. }
  rewrite !H by (cbn; auto). cbn [denote]. repeat split; btauto.
Qed.
