(** Everything [Range::parse] returns is well formed ([wf]): each alternative has a
    [Lower] in its lower slot, an [Upper] in its upper slot and is accepted by
    [BoundSet::new].  Together with the closure of [wf] under [intersect]/[difference]
    this is what "parsed, or produced by earlier set operations" means in C06-C15. *)
From Semver Require Import Version VersionOrder VParse Range RParse Interval SetOps RangeOps.
From Coq Require Import Lia.
Set Default Timeout 120.

Definition wf_opt (o : option boundset) : Prop := match o with Some c => wf_bs c | None => True end.

Lemma bs_new_wf_opt l u : wf_opt (bs_new (Lower l) (Upper u)).
Proof. unfold wf_opt. destruct (bs_new (Lower l) (Upper u)) eqn:E; auto. apply (bs_new_wf (Lower l) (Upper u)); auto. Qed.
Lemma at_least_wf p : wf_opt (at_least p). Proof. apply bs_new_wf_opt. Qed.
Lemma at_most_wf p : wf_opt (at_most p). Proof. apply bs_new_wf_opt. Qed.
Lemma exact_wf v : wf_opt (exact v). Proof. apply bs_new_wf_opt. Qed.
Lemma none_wf : wf_opt None. Proof. exact I. Qed.
#[local] Hint Resolve bs_new_wf_opt at_least_wf at_most_wf exact_wf none_wf : wfdb.

Ltac tbl_cases :=
  repeat match goal with
  | |- context [match ?x with _ => _ end] => destruct x
  end; auto with wfdb.

Lemma primitive_tbl_wf op p : wf_opt (primitive_tbl op p).
Proof. unfold primitive_tbl. tbl_cases. Qed.
Lemma partial_tbl_wf p : wf_opt (partial_tbl p).
Proof. unfold partial_tbl. tbl_cases. Qed.
Lemma tilde_tbl_wf gt p : wf_opt (tilde_tbl gt p).
Proof. unfold tilde_tbl. tbl_cases. Qed.
Lemma caret_tbl_wf p : wf_opt (caret_tbl p).
Proof. unfold caret_tbl. tbl_cases. Qed.
Lemma hyphen_tbl_wf lo up : wf_opt (hyphen_tbl lo up).
Proof. unfold hyphen_tbl. tbl_cases. Qed.

Definition wf_res (x : option (option boundset * str)) : Prop :=
  match x with Some (b, _) => wf_opt b | None => True end.

Lemma primitive_p_wf s : wf_res (primitive_p s).
Proof.
  unfold primitive_p, wf_res. destruct (operation_p s) as [[op r]|]; auto.
  destruct (partial_version (space0 r)) as [[p r']|]; auto. apply primitive_tbl_wf.
Qed.
Lemma partial_p_wf s : wf_res (partial_p s).
Proof. unfold partial_p, wf_res. destruct (partial_version s) as [[p r']|]; auto. apply partial_tbl_wf. Qed.
Lemma tilde_p_wf s : wf_res (tilde_p s).
Proof.
  unfold tilde_p, wf_res. destruct (lit1 126 s) as [r|]; auto.
  destruct (match lit1 62 (space0 r) with Some r' => (true, r') | None => (false, space0 r) end) as [gt r2].
  destruct (partial_version (space0 r2)) as [[p r']|]; auto. apply tilde_tbl_wf.
Qed.
Lemma caret_p_wf s : wf_res (caret_p s).
Proof.
  unfold caret_p, wf_res. destruct (lit1 94 s) as [r|]; auto.
  destruct (partial_version (space0 r)) as [[p r']|]; auto. apply caret_tbl_wf.
Qed.
Lemma hyphen_p_wf s : wf_res (hyphen_p s).
Proof.
  unfold hyphen_p, wf_res.
  destruct (partial_version s) as [[lower s1]|]; auto.
  destruct (space1 s1) as [s2|]; auto. destruct (lit1 45 s2) as [s3|]; auto.
  destruct (space1 s3) as [s4|]; auto. destruct (partial_version s4) as [[up r]|]; auto. apply hyphen_tbl_wf.
Qed.
Lemma terminated_p_wf p s : (forall s, wf_res (p s)) -> wf_res (terminated_p p s).
Proof.
  intro H. unfold terminated_p. specialize (H s). destruct (p s) as [[b r]|]; cbn; auto.
  destruct (at_term r); cbn; auto.
Qed.
Lemma simple_wf s : wf_opt (fst (simple s)).
Proof.
  unfold simple.
  pose proof (terminated_p_wf primitive_p s primitive_p_wf) as H2. destruct (terminated_p primitive_p s) as [[b r]|]; [exact H2|].
  pose proof (terminated_p_wf partial_p s partial_p_wf) as H3. destruct (terminated_p partial_p s) as [[b r]|]; [exact H3|].
  pose proof (terminated_p_wf tilde_p s tilde_p_wf) as H4. destruct (terminated_p tilde_p s) as [[b r]|]; [exact H4|].
  pose proof (terminated_p_wf caret_p s caret_p_wf) as H5. destruct (terminated_p caret_p s) as [[b r]|]; [exact H5|].
  exact I.
Qed.

Lemma simples_tail_wf f : forall s l r, simples_tail f s = Some (l, r) -> Forall wf_opt l.
Proof.
  induction f as [|f IH]; cbn; intros s l r.
  - destruct (space1 s); [discriminate|]. intros [= <- _]. constructor.
  - destruct (space1 s) as [s1|]; [|intros [= <- _]; constructor].
    pose proof (simple_wf s1) as W. destruct (simple s1) as [b s2]. cbn in W.
    destruct (simples_tail f s2) as [[l' r']|] eqn:E; [|discriminate]. intros [= <- _].
    constructor; eauto.
Qed.
Lemma flatten_opts_wf l : Forall wf_opt l -> wf (flatten_opts l).
Proof.
  induction 1 as [|o l Ho Hl IH]; cbn; [constructor|]. destruct o; auto. constructor; auto.
Qed.
Lemma and_fold_wf l : wf l -> wf (and_fold l).
Proof.
  unfold and_fold. destruct l as [|first rest]; [constructor|]. intro W. inversion W as [|? ? Wf Wr]; subst.
  assert (H : forall acc, wf_opt acc ->
    wf_opt (fold_left (fun acc bs => match acc with Some a => bs_intersect a bs | None => None end) rest acc)).
  { clear W Wf. induction Wr as [|b rest Wb Wr IH]; cbn; auto. intros acc Wacc. apply IH.
    destruct acc as [a|]; cbn; auto. destruct (bs_intersect a b) eqn:E; cbn; auto.
    apply (bs_intersect_wf a b); auto. }
  specialize (H (Some first) Wf). destruct (fold_left _ rest (Some first)); cbn; [constructor; [exact H|constructor]|constructor].
Qed.
Lemma simples_p_wf s bs r : simples_p s = Some (bs, r) -> wf bs.
Proof.
  unfold simples_p. pose proof (simple_wf s) as W. destruct (simple s) as [b s1]. cbn in W.
  destruct (simples_tail (length s1) s1) as [[l r']|] eqn:E; [|discriminate]. intros [= <- _].
  apply and_fold_wf. apply (flatten_opts_wf (b :: l)). constructor; auto. eapply simples_tail_wf; eauto.
Qed.
Lemma range_p_wf s bs r : range_p s = Some (bs, r) -> wf bs.
Proof.
  unfold range_p. destruct (at_empty_alt (space0 s)); [intros [= <- _]; vm_compute; repeat constructor|].
  pose proof (hyphen_p_wf (space0 s)) as W. destruct (hyphen_p (space0 s)) as [[b r0]|]; [|apply simples_p_wf].
  destruct (at_alt_end r0); [|apply simples_p_wf]. intros [= <- _]. cbn in W.
  destruct b; cbn; [constructor; [exact W|constructor]|constructor].
Qed.
Lemma ranges_tail_wf f : forall s l r, ranges_tail f s = Some (l, r) -> wf l.
Proof.
  induction f as [|f IH]; cbn; intros s l r.
  - destruct (logical_or s); [discriminate|]. intros [= <- _]. constructor.
  - destruct (logical_or s) as [s1|]; [|intros [= <- _]; constructor].
    destruct (range_p s1) as [[bs s2]|] eqn:E1; [|discriminate].
    destruct (ranges_tail f s2) as [[l' r']|] eqn:E2; [|discriminate]. intros [= <- _].
    apply wf_app; [eapply range_p_wf|eapply IH]; eauto.
Qed.
Lemma bound_sets_wf s l r : bound_sets s = Some (l, r) -> wf l.
Proof.
  unfold bound_sets. destruct (range_p s) as [[bs s1]|] eqn:E1; [|discriminate].
  destruct (ranges_tail (length s1) s1) as [[l' r']|] eqn:E2; [|discriminate]. intros [= <- _].
  apply wf_app; [eapply range_p_wf|eapply ranges_tail_wf]; eauto.
Qed.
Theorem r_parse_wf s R : r_parse s = ROk R -> wf R.
Proof.
  unfold r_parse. destruct (bound_sets s) as [[l r]|] eqn:E; [|discriminate].
  destruct l as [|b l]; [discriminate|]. intros [= <-]. eapply bound_sets_wf; eauto.
Qed.
Theorem r_parse_nonempty s R : r_parse s = ROk R -> R <> [].
Proof.
  unfold r_parse. destruct (bound_sets s) as [[l r]|]; [|discriminate].
  destruct l; [discriminate|]. intros [= <-]. discriminate.
Qed.
Theorem r_any_wf : exists R, r_any = Ok R /\ wf R.
Proof. eexists. split; [reflexivity|]. repeat constructor. Qed.

(** ** ranges reachable through the public API *)
Inductive reachable : range -> Prop :=
| R_parse s R : r_parse s = ROk R -> reachable R
| R_any R : r_any = Ok R -> reachable R
| R_isect A B R : reachable A -> reachable B -> r_intersect A B = Some R -> reachable R
| R_diff A B R : reachable A -> reachable B -> r_difference A B = Ok (Some R) -> reachable R.

Theorem reachable_wf R : reachable R -> wf R.
Proof.
  induction 1 as [s R H|R H|A B R _ WA _ WB H|A B R _ WA _ WB H].
  - eapply r_parse_wf; eauto.
  - destruct r_any_wf as (R' & E & W). congruence.
  - pose proof (r_intersect_wf A B WA WB) as W. now rewrite H in W.
  - destruct (r_difference_spec A B WA WB) as (o & E & W & _). rewrite H in E. injection E as <-. exact W.
Qed.
