From Semver Require Import Version VersionOrder DiffSpec C04Proofs.
From Coq Require Import Lia.

Lemma neqb_sym a b : negb (a =? b) = negb (b =? a).
Proof. now rewrite N.eqb_sym. Qed.

Lemma vdiff_spec a b : vdiff a b = npm_diff a b.
Proof.
  unfold vdiff, npm_diff, npm_diff_hl, prefixed.
  destruct (vcmp a b) eqn:E; [reflexivity| |]; cbn [is_pre];
  rewrite ?(neqb_sym (major b)), ?(neqb_sym (minor b)), ?(neqb_sym (patch b));
  repeat match goal with |- context [if ?c then _ else _] => destruct c end; reflexivity.
Qed.

Lemma npm_diff_sym a b : npm_diff a b = npm_diff b a.
Proof. unfold npm_diff. rewrite (v_anti a b). destruct (vcmp a b); reflexivity. Qed.
Lemma vdiff_sym a b : vdiff a b = vdiff b a.
Proof. rewrite !vdiff_spec. apply npm_diff_sym. Qed.

Lemma vdiff_none a b : vdiff a b = None <-> vcmp a b = Eq.
Proof. rewrite vdiff_spec. unfold npm_diff. destruct (vcmp a b); split; congruence. Qed.

Lemma vdiff_build a b x y : vdiff (with_build a x) (with_build b y) = vdiff a b.
Proof. reflexivity. Qed.

(** Reading of the result: outside the prerelease-to-release special case the answer names the
    most significant differing field, with the [pre] prefix iff the higher version is tagged. *)
Lemma npm_diff_hl_fields high low :
  (is_pre low && negb (is_pre high)) = false ->
  npm_diff_hl high low =
    if negb (major high =? major low) then prefixed (is_pre high) Major
    else if negb (minor high =? minor low) then prefixed (is_pre high) Minor
    else if negb (patch high =? patch low) then prefixed (is_pre high) Patch
    else PreRelease.
Proof. unfold npm_diff_hl. intros ->. reflexivity. Qed.
