(** Range-level semantics: [Range::intersect], [difference], [allows_any], [allows_all],
    [satisfies] over unions of intervals; closure of [wf] under the operations (hence
    over arbitrary compositions); the prerelease gate across [intersect]. *)
From Semver Require Import Version VersionOrder Range Interval SetOps.
From Coq Require Import Lia Btauto.
Set Default Timeout 120.

Lemma existsb_flat_map {A B} (f : A -> list B) (p : B -> bool) l :
  existsb p (flat_map f l) = existsb (fun a => existsb p (f a)) l.
Proof. induction l as [|a l IH]; cbn; auto. now rewrite existsb_app, IH. Qed.
Lemma existsb_ext {A} (p q : A -> bool) l : (forall a, In a l -> p a = q a) -> existsb p l = existsb q l.
Proof. induction l as [|a l IH]; cbn; auto. intro H. rewrite (H a) by (now left). rewrite IH; auto; intros; apply H; now right. Qed.
Lemma existsb_andb_const {A} (p : A -> bool) c l : existsb (fun a => c && p a) l = c && existsb p l.
Proof. induction l as [|a l IH]; cbn. - now rewrite andb_false_r. - rewrite IH. destruct c; reflexivity. Qed.

Lemma r_within_eq r v : r_within r v = within_list r v. Proof. reflexivity. Qed.

(** ** intersect *)
Lemma within_opt_intersect a b v : wf_bs a -> wf_bs b ->
  within_list (opt_to_list (bs_intersect a b)) v = within a v && within b v.
Proof.
  intros Wa Wb. pose proof (bs_intersect_within a b v Wa Wb) as H.
  destruct (bs_intersect a b); cbn; [now rewrite orb_false_r | now rewrite H].
Qed.

Theorem r_intersect_list_within A B v : wf A -> wf B ->
  r_within (r_intersect_list A B) v = r_within A v && r_within B v.
Proof.
  intros WA WB. unfold r_intersect_list, r_within. rewrite existsb_flat_map.
  rewrite (existsb_ext _ (fun a => within a v && existsb (fun b => within b v) B)).
  - induction A as [|a A IH]; cbn; auto. inversion WA; subst. rewrite IH by assumption.
    destruct (within a v), (existsb (fun b => within b v) B), (existsb (fun bs => within bs v) A); reflexivity.
  - intros a Ha. rewrite existsb_flat_map.
    rewrite (existsb_ext _ (fun b => within a v && within b v)).
    + apply existsb_andb_const.
    + intros b Hb. apply within_opt_intersect.
      * unfold wf in WA. rewrite Forall_forall in WA. auto.
      * unfold wf in WB. rewrite Forall_forall in WB. auto.
Qed.

Lemma wf_app A B : wf A -> wf B -> wf (A ++ B).
Proof. unfold wf. intros. apply Forall_app; auto. Qed.
Lemma wf_flat_map {X} (f : X -> list boundset) l : (forall x, In x l -> wf (f x)) -> wf (flat_map f l).
Proof. induction l as [|x l IH]; cbn; intros H; [constructor|]. apply wf_app; [apply H; now left | apply IH; intros; apply H; now right]. Qed.

Theorem r_intersect_list_wf A B : wf A -> wf B -> wf (r_intersect_list A B).
Proof.
  intros WA WB. unfold r_intersect_list. apply wf_flat_map. intros a Ha. apply wf_flat_map. intros b Hb.
  unfold wf in *. rewrite Forall_forall in WA, WB.
  destruct (bs_intersect a b) eqn:E; cbn; [|constructor].
  constructor; [|constructor]. apply (bs_intersect_wf a b); auto.
Qed.

Definition opt_range (o : option range) : range := match o with Some r => r | None => [] end.
Lemma nonempty_opt_range l : opt_range (nonempty l) = l.
Proof. destruct l; reflexivity. Qed.

Theorem r_intersect_within A B v : wf A -> wf B ->
  r_within (opt_range (r_intersect A B)) v = r_within A v && r_within B v.
Proof. intros. unfold r_intersect. rewrite nonempty_opt_range. now apply r_intersect_list_within. Qed.
Theorem r_intersect_wf A B : wf A -> wf B -> wf (opt_range (r_intersect A B)).
Proof. intros. unfold r_intersect. rewrite nonempty_opt_range. now apply r_intersect_list_wf. Qed.
Theorem r_intersect_none A B v : wf A -> wf B -> r_intersect A B = None -> r_within A v && r_within B v = false.
Proof. intros WA WB H. rewrite <- r_intersect_within by assumption. now rewrite H. Qed.

(** ** allows_any *)
Definition isnil {A} (l : list A) : bool := match l with [] => true | _ => false end.
Lemma isnil_app {A} (l1 l2 : list A) : isnil (l1 ++ l2) = isnil l1 && isnil l2.
Proof. destruct l1; reflexivity. Qed.
Lemma existsb_isnil_flat_map {A B} (f : A -> bool) (g : A -> list B) l :
  (forall a, In a l -> f a = negb (isnil (g a))) -> existsb f l = negb (isnil (flat_map g l)).
Proof.
  induction l as [|a l IH]; cbn; intros H; auto.
  rewrite isnil_app, negb_andb, <- IH, (H a) by (intros; auto); auto.
Qed.
Lemma is_some_nonempty {A} (l : list A) : is_some (nonempty l) = negb (isnil l).
Proof. destruct l; reflexivity. Qed.

Theorem r_allows_any_intersect A B : wf A -> wf B -> r_allows_any A B = is_some (r_intersect A B).
Proof.
  intros WA WB. unfold r_allows_any, r_intersect, r_intersect_list.
  etransitivity; [|symmetry; apply (@is_some_nonempty boundset)].
  unfold wf in *. rewrite Forall_forall in WA, WB.
  apply existsb_isnil_flat_map. intros a Ha.
  apply existsb_isnil_flat_map. intros b Hb.
  rewrite bs_allows_any_intersect by auto. destruct (bs_intersect a b); reflexivity.
Qed.

Lemma bs_allows_any_sym a b : bs_allows_any a b = bs_allows_any b a.
Proof. unfold bs_allows_any. destruct (blt (bs_upper b) (bs_lower a)), (blt (bs_upper a) (bs_lower b)); reflexivity. Qed.
Lemma existsb_swap {A B} (f : A -> B -> bool) la lb :
  existsb (fun a => existsb (fun b => f a b) lb) la = existsb (fun b => existsb (fun a => f a b) la) lb.
Proof.
  apply eq_true_iff_eq. rewrite !existsb_exists. split.
  - intros (a & Ha & H). apply existsb_exists in H as (b & Hb & H). exists b. split; auto.
    apply existsb_exists. eauto.
  - intros (b & Hb & H). apply existsb_exists in H as (a & Ha & H). exists a. split; auto.
    apply existsb_exists. eauto.
Qed.
Theorem r_allows_any_sym A B : r_allows_any A B = r_allows_any B A.
Proof.
  unfold r_allows_any. rewrite existsb_swap. apply existsb_ext. intros b _.
  apply existsb_ext. intros a _. apply bs_allows_any_sym.
Qed.

(** ** allows_all *)
Theorem r_allows_all_within A b v : wf A -> wf_bs b ->
  r_allows_all A [b] = true -> within b v = true -> r_within A v = true.
Proof.
  intros WA Wb. unfold r_allows_all, r_within. rewrite !existsb_exists.
  intros (a & Ha & H) Hv. cbn in H. rewrite orb_false_r in H.
  exists a. split; auto. unfold wf in WA. rewrite Forall_forall in WA.
  eapply bs_allows_all_within; eauto.
Qed.
Theorem r_allows_all_refl A : wf A -> A <> [] -> r_allows_all A A = true.
Proof.
  intros WA NE. destruct A as [|a A]; [congruence|]. inversion WA; subst.
  unfold r_allows_all. cbn. now rewrite bs_allows_all_refl.
Qed.

(** ** difference *)
Lemma within_list_app l1 l2 v : within_list (l1 ++ l2) v = within_list l1 v || within_list l2 v.
Proof. unfold within_list. apply existsb_app. Qed.

Lemma cut_pieces_spec ps righty : wf ps -> wf_bs righty ->
  exists r, cut_pieces ps righty = Ok r /\ wf r /\
    forall v, within_list r v = within_list ps v && negb (within righty v).
Proof.
  intros Wps Wr. induction ps as [|p ps IH]; cbn.
  - exists []. split; [reflexivity|]. split; [constructor|]. reflexivity.
  - inversion Wps; subst.
    destruct (bs_difference_spec p righty) as (d & Hd & Hw & Hwf & _); auto.
    destruct IH as (rest & Hrest & Wrest & Hrw); auto.
    rewrite Hd, Hrest. cbn.
    exists (match d with Some l => l ++ rest | None => rest end). split; [reflexivity|]. split.
    + destruct d; [apply wf_app|]; auto.
    + intro v. specialize (Hw v). specialize (Hrw v).
      destruct d as [l|]; cbn in *.
      * rewrite within_list_app, Hw, Hrw. unfold within_list. btauto.
      * rewrite Hrw. unfold within_list. rewrite andb_orb_distrib_l, <- Hw. reflexivity.
Qed.

Lemma cut_all_spec other : forall ps, wf ps -> wf other ->
  exists r, cut_all ps other = Ok r /\ wf r /\
    forall v, within_list r v = within_list ps v && negb (r_within other v).
Proof.
  induction other as [|righty other IH]; intros ps Wps Wo; cbn.
  - exists ps. split; [reflexivity|]. split; [assumption|]. intro v. now rewrite andb_true_r.
  - inversion Wo as [|? ? Wr Wo']; subst.
    destruct (cut_pieces_spec ps righty) as (r1 & E1 & W1 & S1); auto.
    destruct (IH r1) as (r2 & E2 & W2 & S2); auto.
    rewrite E1. cbn. rewrite E2. exists r2. split; [reflexivity|]. split; [assumption|].
    intro v. rewrite S2, S1. unfold r_within.
    btauto.
Qed.

Theorem r_difference_list_spec A B : wf A -> wf B ->
  exists r, r_difference_list A B = Ok r /\ wf r /\
    forall v, r_within r v = r_within A v && negb (r_within B v).
Proof.
  intros WA WB. induction A as [|a A IH]; cbn.
  - exists []. split; [reflexivity|]. split; [constructor|]. reflexivity.
  - inversion WA as [|? ? Wa WA']; subst.
    destruct (cut_all_spec B [a]) as (r1 & E1 & W1 & S1); auto. { constructor; [assumption|constructor]. }
    destruct IH as (r2 & E2 & W2 & S2); auto.
    rewrite E1. cbn. rewrite E2. cbn. exists (r1 ++ r2). split; [reflexivity|]. split; [now apply wf_app|].
    intro v. rewrite r_within_eq, within_list_app, S1. rewrite <- r_within_eq, S2. cbn. rewrite orb_false_r.
    unfold r_within. btauto.
Qed.

Theorem r_difference_spec A B : wf A -> wf B ->
  exists o, r_difference A B = Ok o /\ wf (opt_range o) /\
    forall v, r_within (opt_range o) v = r_within A v && negb (r_within B v).
Proof.
  intros WA WB. destruct (r_difference_list_spec A B WA WB) as (r & H & W & S).
  unfold r_difference. rewrite H. cbn. exists (nonempty r). rewrite nonempty_opt_range. auto.
Qed.

(** ** satisfaction: bounds plus the prerelease gate *)
Lemma shape_ok_wf bs : wf_bs bs -> shape_ok bs = true.
Proof. intros (Hl & Hu & _). unfold shape_ok. destruct (bs_lower bs), (bs_upper bs); auto; discriminate. Qed.
Lemma r_satisfies_p_ok r v : wf r -> r_satisfies_p r v = Ok (r_satisfies r v).
Proof.
  induction r as [|bs r IH]; intro W; cbn; auto. inversion W; subst.
  unfold bs_satisfies_p. rewrite shape_ok_wf by assumption.
  destruct (bs_satisfies bs v); cbn; auto.
Qed.

Lemma gate_release bs v : is_pre v = false -> gate bs v = true.
Proof. unfold gate. intros ->. reflexivity. Qed.
Theorem r_satisfies_release r v : is_pre v = false -> r_satisfies r v = r_within r v.
Proof.
  intro H. unfold r_satisfies, r_within. apply existsb_ext. intros bs _.
  unfold bs_satisfies. rewrite gate_release by assumption. apply andb_true_r.
Qed.

(** gate of an intersection: a tag that opens the gate on one operand still opens it on the
    tighter bound that survives, for any version within both *)
Lemma same_tuple_iff a b : same_tuple a b = true <-> same_tuple_p a b.
Proof. unfold same_tuple, same_tuple_p. rewrite !andb_true_iff, !N.eqb_eq. tauto. Qed.
Lemma same_tuple_p_sym a b : same_tuple_p a b -> same_tuple_p b a.
Proof. unfold same_tuple_p. intuition congruence. Qed.
Lemma same_tuple_p_trans a b c : same_tuple_p a b -> same_tuple_p b c -> same_tuple_p a c.
Proof. unfold same_tuple_p. intuition congruence. Qed.

Lemma tagged_bound_version b v : tagged_same_tuple b v = true <->
  exists w, bound_version b = Some w /\ is_pre w = true /\ same_tuple_p v w.
Proof.
  unfold tagged_same_tuple, bound_version. destruct (predicate b) as [w|w|].
  - rewrite andb_true_iff, same_tuple_iff. split; [intros []; eauto | intros (w' & [= <-] & ? & ?); auto].
  - rewrite andb_true_iff, same_tuple_iff. split; [intros []; eauto | intros (w' & [= <-] & ? & ?); auto].
  - split; [discriminate | intros (w' & [=] & _)].
Qed.

Lemma gate_lower_max l1 l2 v : is_lower l1 = true -> is_lower l2 = true -> is_pre v = true ->
  lower_ok l1 v = true -> lower_ok l2 v = true ->
  tagged_same_tuple l1 v = true -> tagged_same_tuple (bmax l1 l2) v = true.
Proof.
  intros H1 H2 Pv O1 O2 T. destruct (bmax_cases l1 l2) as [E|E]; rewrite E; auto.
  apply tagged_bound_version in T as (w1 & B1 & P1 & S1).
  destruct (bound_version l2) as [w2|] eqn:B2.
  - apply tagged_bound_version. exists w2. split; auto.
    pose proof (max_version_le l1 l2 w1 w2 H1 H2 B1 B2 E) as L12.
    pose proof (lower_ok_version l2 w2 v H2 B2 O2) as L2v.
    destruct (sandwich w1 w2 v) as [S P]; auto using same_tuple_p_sym.
  - (* l2 unbounded cannot be the max of a bounded l1 *)
    exfalso. destruct l1 as [[]|]; try discriminate; destruct l2 as [[]|]; try discriminate;
      cbn in B1, B2; try discriminate; unfold bmax, blt, bcmp in E; cbn in E; discriminate.
Qed.
Lemma gate_upper_min u1 u2 v : is_upper u1 = true -> is_upper u2 = true -> is_pre v = true ->
  upper_ok u1 v = true -> upper_ok u2 v = true ->
  tagged_same_tuple u1 v = true -> tagged_same_tuple (bmin u1 u2) v = true.
Proof.
  intros H1 H2 Pv O1 O2 T. destruct (bmin_cases u1 u2) as [E|E]; rewrite E; auto.
  apply tagged_bound_version in T as (w1 & B1 & P1 & S1).
  destruct (bound_version u2) as [w2|] eqn:B2.
  - apply tagged_bound_version. exists w2. split; auto.
    pose proof (min_version_le u1 u2 w1 w2 H1 H2 B1 B2 E) as L21.
    pose proof (upper_ok_version u2 w2 v H2 B2 O2) as Lv2.
    destruct (sandwich v w2 w1) as [S P]; auto.
    split; auto. eapply same_tuple_p_trans; eauto using same_tuple_p_sym.
  - exfalso. destruct u1 as [|[]]; try discriminate; destruct u2 as [|[]]; try discriminate;
      cbn in B1, B2; try discriminate; unfold bmin, blt, bcmp in E; cbn in E; discriminate.
Qed.

Lemma bmax_comm_tag l1 l2 v : is_lower l1 = true -> is_lower l2 = true -> is_pre v = true ->
  lower_ok l1 v = true -> lower_ok l2 v = true ->
  tagged_same_tuple l2 v = true -> tagged_same_tuple (bmax l1 l2) v = true.
Proof.
  intros H1 H2 Pv O1 O2 T. destruct (bmax_cases l1 l2) as [E|E]; rewrite E; auto.
  apply tagged_bound_version in T as (w2 & B2 & P2 & S2).
  destruct (bound_version l1) as [w1|] eqn:B1.
  - apply tagged_bound_version. exists w1. split; auto.
    pose proof (max_version_le' l1 l2 w1 w2 H1 H2 B1 B2 E) as L21.
    pose proof (lower_ok_version l1 w1 v H1 B1 O1) as L1v.
    destruct (sandwich w2 w1 v) as [S P]; auto using same_tuple_p_sym.
  - exfalso. destruct l1 as [[]|]; try discriminate; destruct l2 as [[]|]; try discriminate;
      cbn in B1, B2; try discriminate; unfold bmax, blt, bcmp in E; cbn in E;
      repeat match goal with H : context [if ?c then _ else _] |- _ => destruct c end; discriminate.
Qed.
Lemma bmin_comm_tag u1 u2 v : is_upper u1 = true -> is_upper u2 = true -> is_pre v = true ->
  upper_ok u1 v = true -> upper_ok u2 v = true ->
  tagged_same_tuple u2 v = true -> tagged_same_tuple (bmin u1 u2) v = true.
Proof.
  intros H1 H2 Pv O1 O2 T. destruct (bmin_cases u1 u2) as [E|E]; rewrite E; auto.
  apply tagged_bound_version in T as (w2 & B2 & P2 & S2).
  destruct (bound_version u1) as [w1|] eqn:B1.
  - apply tagged_bound_version. exists w1. split; auto.
    pose proof (min_version_le' u1 u2 w1 w2 H1 H2 B1 B2 E) as L12.
    pose proof (upper_ok_version u1 w1 v H1 B1 O1) as Lv1.
    destruct (sandwich v w1 w2) as [S P]; auto.
    split; auto. eapply same_tuple_p_trans; eauto using same_tuple_p_sym.
  - exfalso. destruct u1 as [|[]]; try discriminate; destruct u2 as [|[]]; try discriminate;
      cbn in B1, B2; try discriminate; unfold bmin, blt, bcmp in E; cbn in E;
      repeat match goal with H : context [if ?c then _ else _] |- _ => destruct c end; discriminate.
Qed.

(** one interval: a version within both operands passes the gate of the intersection iff it
    passes the gate of one of them *)
Theorem bs_intersect_gate a b c v : wf_bs a -> wf_bs b -> bs_intersect a b = Some c ->
  within a v = true -> within b v = true -> gate c v = gate a v || gate b v.
Proof.
  intros (Hla & Hua & _) (Hlb & Hub & _) E Wa Wb.
  apply bs_intersect_shape in E. subst c. unfold gate; cbn [bs_lower bs_upper].
  destruct (is_pre v) eqn:Pv; cbn [negb orb]; [|reflexivity].
  unfold within in Wa, Wb. apply andb_true_iff in Wa as [La Ua]. apply andb_true_iff in Wb as [Lb Ub].
  apply eq_true_iff_eq. rewrite !orb_true_iff. split.
  - intros [H|H].
    + destruct (bmax_cases (bs_lower a) (bs_lower b)) as [M|M]; rewrite M in H; auto.
    + destruct (bmin_cases (bs_upper a) (bs_upper b)) as [M|M]; rewrite M in H; auto.
  - intros [[H|H]|[H|H]].
    + left. apply gate_lower_max; auto.
    + right. apply gate_upper_min; auto.
    + left. apply bmax_comm_tag; auto.
    + right. apply bmin_comm_tag; auto.
Qed.

Theorem bs_intersect_satisfies a b v : wf_bs a -> wf_bs b ->
  existsb (fun c => bs_satisfies c v) (opt_to_list (bs_intersect a b)) =
  within a v && within b v && (gate a v || gate b v).
Proof.
  intros Wa Wb. pose proof (bs_intersect_within a b v Wa Wb) as W.
  destruct (bs_intersect a b) as [c|] eqn:E; cbn.
  - rewrite orb_false_r. unfold bs_satisfies. rewrite W.
    destruct (within a v) eqn:Ia, (within b v) eqn:Ib; cbn; auto.
    apply (bs_intersect_gate a b c v); auto.
  - rewrite W. reflexivity.
Qed.

(** satisfaction of an intersection of ranges *)
Theorem r_intersect_satisfies_fwd A B v : wf A -> wf B ->
  r_satisfies A v = true -> r_satisfies B v = true -> r_satisfies (opt_range (r_intersect A B)) v = true.
Proof.
  intros WA WB. unfold r_intersect. rewrite nonempty_opt_range. unfold r_satisfies, r_intersect_list.
  rewrite !existsb_exists. intros (a & Ha & Sa) (b & Hb & Sb).
  unfold wf in *. rewrite Forall_forall in WA, WB.
  pose proof (bs_intersect_satisfies a b v (WA a Ha) (WB b Hb)) as H.
  unfold bs_satisfies in Sa, Sb. apply andb_true_iff in Sa as [Wa Ga]. apply andb_true_iff in Sb as [Wb Gb].
  rewrite Wa, Wb, Ga in H. cbn in H. apply existsb_exists in H as (c & Hc & Sc).
  exists c. split; auto. apply in_flat_map. exists a. split; auto. apply in_flat_map. exists b. auto.
Qed.
Theorem r_intersect_satisfies_bwd A B v : wf A -> wf B ->
  r_satisfies (opt_range (r_intersect A B)) v = true ->
  r_within A v = true /\ r_within B v = true /\ (r_satisfies A v = true \/ r_satisfies B v = true).
Proof.
  intros WA WB. unfold r_intersect. rewrite nonempty_opt_range. unfold r_satisfies at 1, r_intersect_list.
  rewrite existsb_exists. intros (c & Hc & Sc).
  apply in_flat_map in Hc as (a & Ha & Hc). apply in_flat_map in Hc as (b & Hb & Hc).
  unfold wf in *. rewrite Forall_forall in WA, WB.
  pose proof (bs_intersect_satisfies a b v (WA a Ha) (WB b Hb)) as H.
  assert (E : existsb (fun c => bs_satisfies c v) (opt_to_list (bs_intersect a b)) = true)
    by (apply existsb_exists; eauto).
  rewrite E in H. symmetry in H. apply andb_true_iff in H as [H G]. apply andb_true_iff in H as [Wa Wb].
  repeat split.
  - unfold r_within. apply existsb_exists. eauto.
  - unfold r_within. apply existsb_exists. eauto.
  - apply orb_true_iff in G as [G|G]; [left|right]; unfold r_satisfies; apply existsb_exists;
      [exists a | exists b]; split; auto; unfold bs_satisfies; now rewrite ?Wa, ?Wb, G.
Qed.
