(** Parse errors (C17): the reported input is the original string, the offset is the byte
    length of a prefix of it (hence in range and on a character boundary), [location] is
    the line/column of that prefix, and the specific kinds are raised where the property
    says. *)
From Semver Require Import Version VParse Range RParse VersionGrammar ErrSpec ParseLen DecLemmas ParseLemmas.
From Coq Require Import Lia.
Set Default Timeout 120.

Definition suffix (r s : str) : Prop := exists p, s = p ++ r.
Lemma suffix_refl s : suffix s s. Proof. now exists []. Qed.
Lemma suffix_trans a b c : suffix a b -> suffix b c -> suffix a c.
Proof. intros [p ->] [q ->]. exists (q ++ p). now rewrite app_assoc. Qed.
Lemma suffix_app p r : suffix r (p ++ r). Proof. now exists p. Qed.
Lemma suffix_cons c r : suffix r (c :: r). Proof. now exists [c]. Qed.

(** ** where errors point *)
Lemma number_err s e : number s = PErr e -> pe_rest e = s.
Proof.
  unfold number. destruct (span is_digit s) as [ds rest]. destruct ds as [|d ds]; cbn.
  - now intros [= <-].
  - destruct (U64_LIMIT <=? _); cbn; [now intros [= <-]|]. destruct (MAX_SAFE_INTEGER <? _); cbn; [now intros [= <-]|discriminate].
Qed.
Lemma dot_err s e : dot s = PErr e -> pe_rest e = s.
Proof. unfold dot. destruct (lit1 46 s); [discriminate|]. now intros [= <-]. Qed.
Lemma with_ctx_err {A} c (x : pr A) e : with_ctx c x = PErr e -> exists e', x = PErr e' /\ pe_rest e = pe_rest e' /\ pe_kind e = pe_kind e'.
Proof. destruct x as [a r|e']; cbn; [discriminate|]. intros [= <-]. eauto. Qed.

Lemma number_ok_suffix s n r : number s = POk n r -> suffix r s.
Proof. intro H. apply number_inv in H as (ds & -> & _). apply suffix_app. Qed.
Lemma dot_ok_suffix s r : dot s = POk tt r -> suffix r s.
Proof. intro H. apply dot_inv in H as ->. apply suffix_cons. Qed.

Lemma version_core_err s e : version_core s = PErr e -> suffix (pe_rest e) s.
Proof.
  unfold version_core. intro H. apply with_ctx_err in H as (e' & H & -> & _).
  destruct (number s) as [ma s1|e1] eqn:E1.
  2:{ injection H as <-. rewrite (number_err _ _ E1). apply suffix_refl. }
  pose proof (number_ok_suffix _ _ _ E1) as S1.
  destruct (dot s1) as [[] s2|e2] eqn:D1.
  2:{ injection H as <-. rewrite (dot_err _ _ D1). exact S1. }
  pose proof (suffix_trans _ _ _ (dot_ok_suffix _ _ D1) S1) as S2.
  destruct (number s2) as [mi s3|e3] eqn:E2.
  2:{ injection H as <-. rewrite (number_err _ _ E2). exact S2. }
  pose proof (suffix_trans _ _ _ (number_ok_suffix _ _ _ E2) S2) as S3.
  destruct (dot s3) as [[] s4|e4] eqn:D2.
  2:{ injection H as <-. rewrite (dot_err _ _ D2). exact S3. }
  pose proof (suffix_trans _ _ _ (dot_ok_suffix _ _ D2) S3) as S4.
  destruct (number s4) as [pa s5|e5] eqn:E3; [discriminate|].
  injection H as <-. rewrite (number_err _ _ E3). exact S4.
Qed.
Lemma strip_v_suffix s : suffix (space0 (strip_v s)) s.
Proof. destruct (strip_v_inv s) as (l & E & _). exists l. exact E. Qed.
Lemma version_p_err s e : version_p s = PErr e -> suffix (pe_rest e) s.
Proof.
  rewrite version_p_unfold. intro H. apply with_ctx_err in H as (e' & H & -> & _).
  destruct (version_core (space0 (strip_v s))) as [[[ma mi] pa] s3|e3] eqn:E.
  - destruct (extras s3) as [[p b] s4]. discriminate.
  - injection H as <-. eapply suffix_trans; [eapply version_core_err; eauto|apply strip_v_suffix].
Qed.
Lemma version_p_ok_suffix s v r : version_p s = POk v r -> suffix r s.
Proof.
  rewrite version_p_unfold. intro H. apply with_ctx_ok in H.
  destruct (version_core (space0 (strip_v s))) as [[[ma mi] pa] s3|e3] eqn:E; [|discriminate].
  apply version_core_inv in E as (M & m & p & Ecore & _ & _ & _ & Hd).
  destruct (extras s3) as [[pr bl] s4] eqn:Ee. injection H as _ <-.
  apply (extras_inv _ _ _ _ Hd) in Ee as (ex & -> & _).
  eapply suffix_trans; [|apply strip_v_suffix]. rewrite Ecore.
  exists (M ++ 46 :: m ++ 46 :: p ++ ex). now rewrite <- !app_assoc; cbn; rewrite <- !app_assoc; cbn; rewrite <- !app_assoc.
Qed.
Lemma space0_suffix s : suffix (space0 s) s.
Proof. destruct (space0_inv s) as (ws & E & _). exists ws. exact E. Qed.
Lemma version_eof_err s e : version_eof s = PErr e -> suffix (pe_rest e) s.
Proof.
  unfold version_eof. destruct (version_p s) as [v r|e'] eqn:E.
  - destruct (space0 r) as [|c r'] eqn:Es; [discriminate|]. intros [= <-]. cbn.
    rewrite <- Es. eapply suffix_trans; [apply space0_suffix|eapply version_p_ok_suffix; eauto].
  - intros [= <-]. eapply version_p_err; eauto.
Qed.

(** ** offsets are character boundaries *)
Lemma utf8_len1_pos c : 1 <= utf8_len1 c.
Proof. unfold utf8_len1. destruct (c <? 128), (c <? 2048), (c <? 65536); lia. Qed.
Lemma boundary_shift s : forall at_ off, In off (boundary_offsets s at_) <-> exists k, In k (boundary_offsets s 0) /\ off = at_ + k.
Proof.
  induction s as [|c s IH]; cbn; intros at_ off.
  - split; [intros [<-|[]]; exists 0; split; auto; lia | intros (k & [<-|[]] & ->); left; lia].
  - split.
    + intros [<-|H]; [exists 0; split; auto; lia|]. apply IH in H as (k & Hk & ->).
      exists (utf8_len1 c + k). split; [right; apply IH; exists k; split; auto; lia|lia].
    + intros (k & [<-|Hk] & ->); [left; lia|]. right. apply IH in Hk as (k' & Hk' & ->). apply IH. exists k'. split; auto. lia.
Qed.
Lemma prefix_boundary p r : In (utf8_len p) (boundary_offsets (p ++ r) 0).
Proof.
  induction p as [|c p IH]; cbn [app utf8_len boundary_offsets].
  - destruct r; cbn; auto.
  - right. apply boundary_shift. exists (utf8_len p). split; auto; lia.
Qed.
Lemma is_char_boundary_prefix p r : is_char_boundary (p ++ r) (utf8_len p) = true.
Proof.
  unfold is_char_boundary. apply existsb_exists. exists (utf8_len p). split; [apply prefix_boundary|apply N.eqb_refl].
Qed.
Lemma last_char_prefix s : exists p r, s = p ++ r /\ last_char_offset s = utf8_len p.
Proof.
  induction s as [|c s (p & r & E & H)].
  - exists [], []. auto.
  - destruct s as [|d s'].
    + exists [], [c]. auto.
    + exists (c :: p), r. split; [cbn; now rewrite <- E|]. change (last_char_offset (c :: d :: s')) with (utf8_len1 c + last_char_offset (d :: s')).
      rewrite H. reflexivity.
Qed.

(** ** location *)
Lemma col_after_nonl p : forall acc, ~ In 10 p -> col_after p acc = acc + utf8_len p.
Proof.
  induction p as [|c p IH]; cbn; intros acc Hn; [lia|]. destruct (c =? 10) eqn:E.
  - apply N.eqb_eq in E. subst. exfalso. apply Hn. now left.
  - rewrite IH; [lia|]. intro. apply Hn. now right.
Qed.
Lemma loc_scan_prefix p : forall r pos line lb,
  loc_scan (p ++ r) pos (pos + utf8_len p) line lb =
  (line + count_nl p, if existsb (N.eqb 10) p then pos + utf8_len p - col_after p 0 else lb).
Proof.
  assert (Hcol : forall p acc, ~ In 10 p -> col_after p acc = acc + utf8_len p).
  { induction p0 as [|c p0 IH]; cbn; intros acc Hn; [lia|]. destruct (c =? 10) eqn:E.
    - apply N.eqb_eq in E. subst. exfalso. apply Hn. now left.
    - rewrite IH; [lia|]. intro. apply Hn. now right. }
  assert (Hcol0 : forall p acc, In 10 p -> col_after p acc = col_after p 0).
  { induction p0 as [|c p0 IH]; cbn; intros acc Hin; [destruct Hin|]. destruct (c =? 10) eqn:E; auto.
    destruct Hin as [->|Hin]; [discriminate E|]. transitivity (col_after p0 0); [apply IH|symmetry; apply IH]; auto. }
  assert (Hle : forall p acc, col_after p acc <= acc + utf8_len p).
  { induction p0 as [|c p0 IH]; cbn; intros acc; [lia|]. destruct (c =? 10).
    - specialize (IH 0). pose proof (utf8_len1_pos c). lia.
    - specialize (IH (acc + utf8_len1 c)). lia. }
  induction p as [|c p IH]; intros r pos line lb.
  - cbn [app utf8_len count_nl existsb]. rewrite !N.add_0_r. destruct r as [|d r]; cbn [loc_scan]; auto.
    now rewrite N.leb_refl.
  - cbn [app loc_scan utf8_len count_nl existsb col_after]. pose proof (utf8_len1_pos c) as Hc.
    replace (pos + (utf8_len1 c + utf8_len p) <=? pos) with false by (symmetry; apply N.leb_gt; lia).
    replace (pos + (utf8_len1 c + utf8_len p)) with ((pos + utf8_len1 c) + utf8_len p) by lia.
    rewrite (N.eqb_sym 10 c). destruct (c =? 10) eqn:E.
    + rewrite IH. cbn [orb]. f_equal; try lia.
      destruct (existsb (N.eqb 10) p) eqn:Ex; [reflexivity|].
      assert (Hn : ~ In 10 p).
      { intro Hin. assert (existsb (N.eqb 10) p = true) by (apply existsb_exists; exists 10; split; auto). congruence. }
      rewrite (Hcol p 0 Hn). lia.
    + rewrite IH. cbn [orb]. f_equal; try lia.
      destruct (existsb (N.eqb 10) p) eqn:Ex; [|reflexivity].
      apply existsb_exists in Ex as (x & Hin & Hx). apply N.eqb_eq in Hx. subst x.
      rewrite (Hcol0 p (0 + utf8_len1 c) Hin). reflexivity.
Qed.
Lemma col_after_le p : col_after p 0 <= utf8_len p.
Proof.
  assert (H : forall p acc, col_after p acc <= acc + utf8_len p).
  { induction p0 as [|c p0 IH]; cbn; intros acc; [lia|]. destruct (c =? 10).
    - specialize (IH 0). pose proof (utf8_len1_pos c). lia.
    - specialize (IH (acc + utf8_len1 c)). lia. }
  apply (H p 0).
Qed.
Theorem location_spec p r k : location (mkErr (p ++ r) (utf8_len p) k) = Ok (line_col p).
Proof.
  unfold location. cbn [e_input e_offset]. rewrite is_char_boundary_prefix.
  pose proof (loc_scan_prefix p r 0 0 0) as H. rewrite N.add_0_l in H. rewrite H.
  unfold line_col. f_equal. f_equal. destruct (existsb (N.eqb 10) p) eqn:Ex.
  - pose proof (col_after_le p). lia.
  - assert (Hn : ~ In 10 p).
    { intro Hin. assert (existsb (N.eqb 10) p = true) by (apply existsb_exists; exists 10; split; auto). congruence. }
    rewrite (col_after_nonl p 0 Hn). lia.
Qed.

(** ** the reports of [Version::parse] and [Range::parse] *)
Theorem vparse_err_prefix s e : vparse s = inr e ->
  e_input e = s /\ exists p r, s = p ++ r /\ e_offset e = utf8_len p.
Proof.
  unfold vparse. destruct (MAX_LENGTH <? utf8_len s).
  - intros [= <-]. cbn. split; auto. apply last_char_prefix.
  - destruct (version_eof s) as [v r|e'] eqn:E; [discriminate|]. intros [= <-]. cbn. split; auto.
    apply version_eof_err in E as (p & ->). exists p, (pe_rest e'). split; auto.
    rewrite utf8_len_app. lia.
Qed.
Theorem rparse_err_prefix s e : r_parse s = RErr e ->
  e_input e = s /\ e_offset e = 0 /\ e_kind e = KNoValidRanges.
Proof.
  unfold r_parse. destruct (bound_sets s) as [[l r]|]; [|discriminate]. destruct l; [|discriminate].
  intros [= <-]. auto.
Qed.
Theorem err_offset_ok s p r k : s = p ++ r ->
  utf8_len p <= utf8_len s /\ is_char_boundary s (utf8_len p) = true /\
  location (mkErr s (utf8_len p) k) = Ok (line_col p).
Proof.
  intros ->. rewrite utf8_len_app. split; [lia|]. split; [apply is_char_boundary_prefix|apply location_spec].
Qed.
Theorem vparse_maxlen s : MAX_LENGTH < utf8_len s -> exists e, vparse s = inr e /\ e_kind e = KMaxLength.
Proof. intro H. unfold vparse. apply N.ltb_lt in H. rewrite H. eauto. Qed.

(** ** the numeric error kinds, raised at the component's position *)
Lemma number_maxint ds r : digits ds -> not_head is_digit r ->
  MAX_SAFE_INTEGER < dec_value ds -> dec_value ds < U64_LIMIT ->
  number (ds ++ r) = PErr (mkPE (ds ++ r) (Some CNumber) (Some (KMaxInt (dec_value ds)))).
Proof.
  intros [Hne Hd] Hr H1 H2. unfold number. rewrite (span_fwd _ _ _ Hd Hr). destruct ds as [|d ds]; [congruence|].
  replace (U64_LIMIT <=? dec_value (d :: ds)) with false by (symmetry; apply N.leb_gt; lia).
  replace (MAX_SAFE_INTEGER <? dec_value (d :: ds)) with true by (symmetry; apply N.ltb_lt; lia). reflexivity.
Qed.
Lemma number_parseint ds r : digits ds -> not_head is_digit r -> U64_LIMIT <= dec_value ds ->
  number (ds ++ r) = PErr (mkPE (ds ++ r) (Some CNumber) (Some KParseInt)).
Proof.
  intros [Hne Hd] Hr H1. unfold number. rewrite (span_fwd _ _ _ Hd Hr). destruct ds as [|d ds]; [congruence|].
  replace (U64_LIMIT <=? dec_value (d :: ds)) with true by (symmetry; apply N.leb_le; lia). reflexivity.
Qed.

(** the valid components before the failing one, each followed by its dot *)
Definition comps_text (cs : list str) : str := flat_map (fun d => d ++ [46]) cs.
Definition good_comp (d : str) : Prop := digits d /\ dec_value d <= MAX_SAFE_INTEGER.

Lemma version_core_bad cs ds r k : Forall good_comp cs -> (length cs <= 2)%nat ->
  number (ds ++ r) = PErr (mkPE (ds ++ r) (Some CNumber) (Some k)) ->
  version_core (comps_text cs ++ ds ++ r) = PErr (mkPE (ds ++ r) (Some CVersionCore) (Some k)).
Proof.
  intros Hc Hl Hn. unfold version_core.
  destruct cs as [|M [|m [|x cs]]]; cbn [comps_text flat_map app] in *; try (cbn in Hl; lia).
  - now rewrite Hn.
  - inversion Hc as [|? ? [DM LM] _]; subst.
    replace (((M ++ [46]) ++ []) ++ ds ++ r) with (M ++ 46 :: ds ++ r)
      by (rewrite app_nil_r; repeat (rewrite <- app_assoc; cbn [app]); reflexivity).
    rewrite (number_fwd M _ DM) by (auto; reflexivity). rewrite dot_fwd. now rewrite Hn.
  - inversion Hc as [|? ? [DM LM] Hc']; subst. inversion Hc' as [|? ? [Dm Lm] _]; subst.
    replace (((M ++ [46]) ++ (m ++ [46]) ++ []) ++ ds ++ r) with (M ++ 46 :: m ++ 46 :: ds ++ r)
      by (rewrite app_nil_r; repeat (rewrite <- app_assoc; cbn [app]); reflexivity).
    rewrite (number_fwd M _ DM) by (auto; reflexivity). rewrite dot_fwd.
    rewrite (number_fwd m _ Dm) by (auto; reflexivity). rewrite dot_fwd. now rewrite Hn.
Qed.

Theorem vparse_bad_component l cs ds r k : lead_text l -> Forall good_comp cs -> (length cs <= 2)%nat ->
  digits ds ->
  number (ds ++ r) = PErr (mkPE (ds ++ r) (Some CNumber) (Some k)) ->
  let s := l ++ comps_text cs ++ ds ++ r in
  utf8_len s <= MAX_LENGTH ->
  vparse s = inr (mkErr s (utf8_len (l ++ comps_text cs)) k).
Proof.
  intros Hl Hc Hlen Hd Hn s Hs. unfold vparse. replace (MAX_LENGTH <? utf8_len s) with false by (symmetry; apply N.ltb_ge; exact Hs).
  unfold version_eof. rewrite version_p_unfold. unfold s at 1. rewrite (strip_v_fwd l); auto.
  - rewrite (version_core_bad cs ds r k Hc Hlen Hn). cbn [with_ctx pe_rest pe_kind kind_of]. f_equal. f_equal.
    unfold s. rewrite !utf8_len_app. lia.
  - destruct cs as [|M cs]; cbn [comps_text flat_map app].
    + destruct (digits_head ds Hd) as (c & t & -> & Hc0). cbn. eauto.
    + inversion Hc as [|? ? [DM _] _]; subst. destruct (digits_head M DM) as (c & t & -> & Hc0). cbn. eauto.
Qed.

(** ** summary statements *)
Theorem vparse_error_report s e : vparse s = inr e ->
  e_input e = s /\ e_offset e <= utf8_len s /\ is_char_boundary s (e_offset e) = true /\
  exists p r, s = p ++ r /\ e_offset e = utf8_len p /\ location e = Ok (line_col p).
Proof.
  intro H. destruct (vparse_err_prefix s e H) as (Hi & p & r & Hs & Ho).
  destruct (err_offset_ok s p r (e_kind e) Hs) as (H1 & H2 & H3).
  rewrite Ho. repeat split; auto. exists p, r. repeat split; auto.
  destruct e as [i o k]. cbn in *. subst i o. exact H3.
Qed.
Theorem rparse_error_report s e : r_parse s = RErr e ->
  e_input e = s /\ e_offset e = 0 /\ e_kind e = KNoValidRanges /\
  is_char_boundary s (e_offset e) = true /\ location e = Ok (0, 0).
Proof.
  intro H. destruct (rparse_err_prefix s e H) as (Hi & Ho & Hk).
  destruct (err_offset_ok s [] s (e_kind e) eq_refl) as (_ & H2 & H3). cbn in H2, H3.
  rewrite Ho. repeat split; auto. destruct e as [i o k]. cbn in *. subst i o. exact H3.
Qed.
Theorem vparse_maxint l cs ds r : lead_text l -> Forall good_comp cs -> (length cs <= 2)%nat ->
  digits ds -> not_head is_digit r ->
  let s := l ++ comps_text cs ++ ds ++ r in
  utf8_len s <= MAX_LENGTH ->
  (MAX_SAFE_INTEGER < dec_value ds -> dec_value ds < U64_LIMIT ->
     vparse s = inr (mkErr s (utf8_len (l ++ comps_text cs)) (KMaxInt (dec_value ds)))) /\
  (U64_LIMIT <= dec_value ds -> vparse s = inr (mkErr s (utf8_len (l ++ comps_text cs)) KParseInt)).
Proof.
  intros Hl Hc Hn Hd Hr s Hs. split.
  - intros H1 H2. apply vparse_bad_component; auto. now apply number_maxint.
  - intros H1. apply vparse_bad_component; auto. now apply number_parseint.
Qed.
