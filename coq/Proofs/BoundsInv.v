(** Invariants of every range reachable through the public API, needed by C13: the
    versions sitting in bounds carry identifiers as the parser produces them, and no
    alternative is unbounded on both sides.  (Components are handled in NoPanic.) *)
From Semver Require Import Version VersionOrder VParse VersionGrammar Range RParse Interval SetOps RangeOps RangeLaws
  ParseLen ParseWf ParseLemmas VersionRT NoPanic PrintParse.
From Coq Require Import Lia.
Set Default Timeout 180.

Section Generic.
  Variable P : version -> Prop.
  Definition bound_all (b : bound) : Prop :=
    match predicate b with Including v | Excluding v => P v | Unbounded => True end.
  Definition bs_all (bs : boundset) : Prop := bound_all (bs_lower bs) /\ bound_all (bs_upper bs).
  Definition range_all (r : range) : Prop := Forall bs_all r.
  Definition opt_all (o : option boundset) : Prop := match o with Some c => bs_all c | None => True end.

  Lemma bs_new_all l u : bound_all l -> bound_all u -> opt_all (bs_new l u).
  Proof. intros Hl Hu. destruct (bs_new l u) eqn:E; cbn; auto. apply bs_new_shape in E. subst. split; auto. Qed.
  Lemma bmax_all a b : bound_all a -> bound_all b -> bound_all (bmax a b).
  Proof. unfold bmax. destruct (blt b a); auto. Qed.
  Lemma bmin_all a b : bound_all a -> bound_all b -> bound_all (bmin a b).
  Proof. unfold bmin. destruct (blt b a); auto. Qed.
  Lemma bs_intersect_all a b : bs_all a -> bs_all b -> opt_all (bs_intersect a b).
  Proof. intros [A1 A2] [B1 B2]. apply bs_new_all; [now apply bmax_all|now apply bmin_all]. Qed.
  Lemma flip_all b : bound_all b -> bound_all (Upper (flip (predicate b))) /\ bound_all (Lower (flip (predicate b))).
  Proof. unfold bound_all. cbn. destruct (predicate b); cbn; auto. Qed.
  Lemma range_all_app a b : range_all a -> range_all b -> range_all (a ++ b).
  Proof. unfold range_all. intros. apply Forall_app; auto. Qed.
  Ltac fa' := unfold range_all; repeat (apply Forall_cons || apply Forall_nil); auto.

  Theorem r_intersect_all A B : range_all A -> range_all B -> range_all (opt_range (r_intersect A B)).
  Proof.
    intros HA HB. unfold r_intersect. rewrite nonempty_opt_range. unfold r_intersect_list, range_all in *.
    rewrite Forall_forall in *. intros c Hc. apply in_flat_map in Hc as (a & Ha & Hc). apply in_flat_map in Hc as (b & Hb & Hc).
    pose proof (bs_intersect_all a b (HA a Ha) (HB b Hb)) as H. destruct (bs_intersect a b); cbn in *; [|destruct Hc].
    destruct Hc as [<-|[]]. exact H.
  Qed.
  Lemma bs_difference_all a b l : bs_all a -> bs_all b -> bs_difference a b = Ok (Some l) -> range_all l.
  Proof.
    intros Ha Hb. unfold bs_difference. pose proof (bs_intersect_all a b Ha Hb) as Ho.
    destruct (bs_intersect a b) as [ov|]; [|intros [= <-]; fa'].
    cbn in Ho. destruct Ho as [O1 O2]. destruct Ha as [A1 A2].
    destruct (flip_all _ O1) as [F1 _]. destruct (flip_all _ O2) as [_ F2].
    pose proof (bs_new_all _ _ A1 F1) as N1. pose proof (bs_new_all _ _ F2 A2) as N2.
    destruct (bs_eqb ov a); [discriminate|].
    destruct (blt (bs_lower a) (bs_lower ov) && blt (bs_upper ov) (bs_upper a)).
    - destruct (bs_new (bs_lower a) _), (bs_new _ (bs_upper a)); try discriminate. intros [= <-]. fa'.
    - destruct (blt (bs_lower a) (bs_lower ov)).
      + destruct (bs_new (bs_lower a) _); cbn; [|discriminate]. intros [= <-]. fa'.
      + destruct (bs_new _ (bs_upper a)); cbn; [|discriminate]. intros [= <-]. fa'.
  Qed.
  Lemma cut_pieces_all ps b r : range_all ps -> bs_all b -> cut_pieces ps b = Ok r -> range_all r.
  Proof.
    intros Hp Hb. revert r. induction Hp as [|p ps Hp0 _ IH]; cbn; intros r.
    - intros [= <-]. constructor.
    - destruct (bs_difference p b) as [d|] eqn:Ed; cbn; [|discriminate].
      destruct (cut_pieces ps b) as [rest|] eqn:Er; cbn; [|discriminate]. intros [= <-].
      specialize (IH rest eq_refl). destruct d as [l|]; auto. apply range_all_app; auto. apply (bs_difference_all p b l); auto.
  Qed.
  Lemma cut_all_all other : forall ps r, range_all ps -> range_all other -> cut_all ps other = Ok r -> range_all r.
  Proof.
    induction other as [|b other IH]; cbn; intros ps r Hp Ho.
    - now intros [= <-].
    - inversion Ho as [|? ? Hb Ho']; subst. destruct (cut_pieces ps b) as [ps'|] eqn:E; cbn; [|discriminate].
      intro H. apply (IH ps' r); auto. apply (cut_pieces_all ps b ps'); auto.
  Qed.
  Theorem r_difference_all A B : range_all A -> range_all B -> range_all (res_range (r_difference A B)).
  Proof.
    intros HA HB. unfold r_difference.
    assert (H : forall r, r_difference_list A B = Ok r -> range_all r).
    { induction HA as [|a A Ha _ IH]; cbn; intros r.
      - intros [= <-]. constructor.
      - destruct (cut_all [a] B) as [rem|] eqn:E; cbn; [|discriminate].
        destruct (r_difference_list A B) as [rest|]; cbn; [|discriminate]. intros [= <-].
        apply range_all_app; [|now apply IH]. apply (cut_all_all B [a] rem); auto. fa'. }
    destruct (r_difference_list A B) as [r|]; cbn; [|constructor]. rewrite nonempty_opt_range. auto.
  Qed.
End Generic.

(** ** lifting a property of the table outputs through the grammar *)
Section Lift.
  Variable G : partial_t -> Prop.
  Variable Q : boundset -> Prop.
  Definition optQ (o : option boundset) : Prop := match o with Some c => Q c | None => True end.
  Hypothesis HG : forall s p r, partial_version s = Some (p, r) -> G p.
  Hypothesis Gstar : G (mkP None None None [] []).      (* the empty alternative is the partial version [*] *)
  Hypothesis Hprim : forall op p, G p -> optQ (primitive_tbl op p).
  Hypothesis Hpart : forall p, G p -> optQ (partial_tbl p).
  Hypothesis Htilde : forall gt p, G p -> optQ (tilde_tbl gt p).
  Hypothesis Hcaret : forall p, G p -> optQ (caret_tbl p).
  Hypothesis Hhyphen : forall lo up, G lo -> G up -> optQ (hyphen_tbl lo up).
  Hypothesis Hint : forall a b c, Q a -> Q b -> bs_intersect a b = Some c -> Q c.

  Definition resQ (x : option (option boundset * str)) : Prop := match x with Some (b, _) => optQ b | None => True end.
  Lemma lift_primitive s : resQ (primitive_p s).
  Proof.
    unfold primitive_p, resQ. destruct (operation_p s) as [[op r]|]; auto.
    destruct (partial_version (space0 r)) as [[p r']|] eqn:E; auto. apply Hprim. eapply HG; eauto.
  Qed.
  Lemma lift_partial s : resQ (partial_p s).
  Proof. unfold partial_p, resQ. destruct (partial_version s) as [[p r']|] eqn:E; auto. apply Hpart. eapply HG; eauto. Qed.
  Lemma lift_tilde s : resQ (tilde_p s).
  Proof.
    unfold tilde_p, resQ. destruct (lit1 126 s) as [r|]; auto.
    destruct (match lit1 62 (space0 r) with Some r' => (true, r') | None => (false, space0 r) end) as [gt r2].
    destruct (partial_version (space0 r2)) as [[p r']|] eqn:E; auto. apply Htilde. eapply HG; eauto.
  Qed.
  Lemma lift_caret s : resQ (caret_p s).
  Proof.
    unfold caret_p, resQ. destruct (lit1 94 s) as [r|]; auto.
    destruct (partial_version (space0 r)) as [[p r']|] eqn:E; auto. apply Hcaret. eapply HG; eauto.
  Qed.
  Lemma lift_hyphen s : resQ (hyphen_p s).
  Proof.
    unfold hyphen_p, resQ.
    destruct (partial_version s) as [[lower s1]|] eqn:E0; auto.
    destruct (space1 s1) as [s2|]; auto. destruct (lit1 45 s2) as [s3|]; auto.
    destruct (space1 s3) as [s4|]; auto. destruct (partial_version s4) as [[up r]|] eqn:E; auto.
    apply Hhyphen; eapply HG; eauto.
  Qed.
  Lemma lift_terminated p s : (forall s, resQ (p s)) -> resQ (terminated_p p s).
  Proof. intro H. unfold terminated_p. specialize (H s). destruct (p s) as [[b r]|]; cbn; auto. destruct (at_term r); cbn; auto. Qed.
  Lemma lift_simple s : optQ (fst (simple s)).
  Proof.
    unfold simple.
    pose proof (lift_terminated primitive_p s lift_primitive) as H2. destruct (terminated_p primitive_p s) as [[b r]|]; [exact H2|].
    pose proof (lift_terminated partial_p s lift_partial) as H3. destruct (terminated_p partial_p s) as [[b r]|]; [exact H3|].
    pose proof (lift_terminated tilde_p s lift_tilde) as H4. destruct (terminated_p tilde_p s) as [[b r]|]; [exact H4|].
    pose proof (lift_terminated caret_p s lift_caret) as H5. destruct (terminated_p caret_p s) as [[b r]|]; [exact H5|].
    exact I.
  Qed.
  Lemma lift_simples_tail f : forall s l r, simples_tail f s = Some (l, r) -> Forall optQ l.
  Proof.
    induction f as [|f IH]; cbn; intros s l r.
    - destruct (space1 s); [discriminate|]. intros [= <- _]. constructor.
    - destruct (space1 s) as [s1|]; [|intros [= <- _]; constructor].
      pose proof (lift_simple s1) as W. destruct (simple s1) as [b s2]. cbn in W.
      destruct (simples_tail f s2) as [[l' r']|] eqn:E; [|discriminate]. intros [= <- _]. constructor; eauto.
  Qed.
  Lemma lift_flatten l : Forall optQ l -> Forall Q (flatten_opts l).
  Proof. induction 1 as [|o l Ho Hl IH]; cbn; [constructor|]. destruct o; auto. Qed.
  Lemma lift_and_fold l : Forall Q l -> Forall Q (and_fold l).
  Proof.
    unfold and_fold. destruct l as [|first rest]; [constructor|]. intro W. inversion W as [|? ? Wf Wr]; subst.
    assert (H : forall acc, optQ acc ->
      optQ (fold_left (fun acc bs => match acc with Some a => bs_intersect a bs | None => None end) rest acc)).
    { clear W Wf. induction Wr as [|b rest Wb Wr IH]; cbn; auto. intros acc Wacc. apply IH.
      destruct acc as [a|]; cbn; auto. destruct (bs_intersect a b) eqn:E; cbn; auto. apply (Hint a b); auto. }
    specialize (H (Some first) Wf). destruct (fold_left _ rest (Some first)); cbn; [constructor; [exact H|constructor]|constructor].
  Qed.
  Lemma lift_simples_p s bs r : simples_p s = Some (bs, r) -> Forall Q bs.
  Proof.
    unfold simples_p. pose proof (lift_simple s) as W. destruct (simple s) as [b s1]. cbn in W.
    destruct (simples_tail (length s1) s1) as [[l r']|] eqn:E; [|discriminate]. intros [= <- _].
    apply lift_and_fold. apply (lift_flatten (b :: l)). constructor; auto. eapply lift_simples_tail; eauto.
  Qed.
  Lemma lift_range_p s bs r : range_p s = Some (bs, r) -> Forall Q bs.
  Proof.
    unfold range_p. destruct (at_empty_alt (space0 s)).
    { intros [= <- _]. pose proof (Hpart _ Gstar) as W. constructor; [exact W|constructor]. }
    pose proof (lift_hyphen (space0 s)) as W. destruct (hyphen_p (space0 s)) as [[b r0]|]; [|apply lift_simples_p].
    destruct (at_alt_end r0); [|apply lift_simples_p]. intros [= <- _]. cbn in W.
    destruct b; cbn; [constructor; [exact W|constructor]|constructor].
  Qed.
  Lemma lift_ranges_tail f : forall s l r, ranges_tail f s = Some (l, r) -> Forall Q l.
  Proof.
    induction f as [|f IH]; cbn; intros s l r.
    - destruct (logical_or s); [discriminate|]. intros [= <- _]. constructor.
    - destruct (logical_or s) as [s1|]; [|intros [= <- _]; constructor].
      destruct (range_p s1) as [[bs s2]|] eqn:E1; [|discriminate].
      destruct (ranges_tail f s2) as [[l' r']|] eqn:E2; [|discriminate]. intros [= <- _].
      apply Forall_app. split; [eapply lift_range_p|eapply IH]; eauto.
  Qed.
  Theorem r_parse_lift s R : r_parse s = ROk R -> Forall Q R.
  Proof.
    unfold r_parse, bound_sets. destruct (range_p s) as [[bs s1]|] eqn:E1; [|discriminate].
    destruct (ranges_tail (length s1) s1) as [[l' r']|] eqn:E2; [|discriminate].
    destruct (bs ++ l') eqn:E; [discriminate|]. intros [= <-]. rewrite <- E.
    apply Forall_app. split; [eapply lift_range_p|eapply lift_ranges_tail]; eauto.
  Qed.
End Lift.

(** ** instance 1: identifiers in bound versions are canonical *)
Definition Pc (v : version) : Prop := Forall canonical_ident (pre v) /\ Forall canonical_ident (build v).
Definition partial_canon (p : partial_t) : Prop := Forall canonical_ident (p_pre p) /\ Forall canonical_ident (p_build p).

Lemma extras_canonical s p b r : extras s = (p, b, r) -> Forall canonical_ident p /\ Forall canonical_ident b.
Proof.
  unfold extras. destruct (pre_release s) as [[p0 r0]|] eqn:Ep.
  - apply pre_release_inv in Ep as (ps & Hp & _ & _). apply idents_text_canonical in Hp.
    destruct (build_meta r0) as [[b0 r1]|] eqn:Eb.
    + apply build_meta_inv in Eb as (bs & _ & Hb & _). apply idents_text_canonical in Hb. intros [= <- <- _]. auto.
    + intros [= <- <- _]. auto.
  - destruct (build_meta s) as [[b0 r1]|] eqn:Eb.
    + apply build_meta_inv in Eb as (bs & _ & Hb & _). apply idents_text_canonical in Hb. intros [= <- <- _]. auto.
    + intros [= <- <- _]. auto.
Qed.
Lemma partial_version_canon s p r : partial_version s = Some (p, r) -> partial_canon p.
Proof.
  unfold partial_version. destruct (component (space0 (opt_lit1 118 s))) as [[ma s3]|]; [|discriminate].
  destruct (opt_dot_component s3) as [mi s4]. destruct (opt_dot_component s4) as [pa s5].
  assert (H : forall x y z, (match pa with Some _ => extras s5 | None => ([], [], s5) end) = (x, y, z) ->
              Forall canonical_ident x /\ Forall canonical_ident y).
  { intros x y z. destruct pa; [apply extras_canonical|intros [= <- <- _]; auto]. }
  destruct (match pa with Some _ => extras s5 | None => ([], [], s5) end) as [[pre0 bld0] s6].
  destruct (H _ _ _ eq_refl) as [H1 H2].
  destruct (opt_and (opt_and ma (opt_flatten mi)) (opt_flatten pa)); intros [= <- _]; split; cbn; auto.
Qed.

Lemma canon_num0 : Forall canonical_ident [Num 0]. Proof. constructor; [reflexivity|constructor]. Qed.
#[local] Hint Resolve canon_num0 : canon.
Ltac canon_crush :=
  unfold optQ, at_least, at_most, exact;
  try (apply bs_new_all); unfold bound_all, Pc, partial_into, v3, v4, caret_upper; cbn;
  repeat match goal with |- context [if ?c then _ else _] => destruct c end; cbn; repeat split; auto with canon.

Lemma primitive_tbl_canon op p : partial_canon p -> optQ (bs_all Pc) (primitive_tbl op p).
Proof.
  destruct p as [ma mi pa pr bl]. unfold partial_canon, primitive_tbl; cbn [p_major p_minor p_patch p_pre p_build].
  intros (H1 & H2). destruct op, ma as [ma|], mi as [mi|], pa as [pa|]; canon_crush.
Qed.
Lemma partial_tbl_canon p : partial_canon p -> optQ (bs_all Pc) (partial_tbl p).
Proof.
  destruct p as [ma mi pa pr bl]. unfold partial_canon, partial_tbl; cbn [p_major p_minor p_patch p_pre p_build].
  intros (H1 & H2). destruct ma as [ma|], mi as [mi|], pa as [pa|]; canon_crush.
Qed.
Lemma tilde_tbl_canon gt p : partial_canon p -> optQ (bs_all Pc) (tilde_tbl gt p).
Proof.
  destruct p as [ma mi pa pr bl]. unfold partial_canon, tilde_tbl; cbn [p_major p_minor p_patch p_pre p_build].
  intros (H1 & H2). destruct gt, ma as [ma|], mi as [mi|], pa as [pa|]; canon_crush; try exact I.
Qed.
Lemma caret_tbl_canon p : partial_canon p -> optQ (bs_all Pc) (caret_tbl p).
Proof.
  destruct p as [ma mi pa pr bl]. unfold partial_canon, caret_tbl; cbn [p_major p_minor p_patch p_pre p_build].
  intros (H1 & H2). destruct ma as [[|ma]|], mi as [mi|], pa as [pa|]; canon_crush; try exact I.
Qed.
Lemma hyphen_tbl_canon lo up : partial_canon lo -> partial_canon up -> optQ (bs_all Pc) (hyphen_tbl lo up).
Proof.
  destruct up as [ma mi pa pr bl]. destruct lo as [lma lmi lpa lpr lbl].
  unfold partial_canon, hyphen_tbl, hyphen_upper; cbn [p_major p_minor p_patch p_pre p_build].
  intros (L1 & L2) (H1 & H2). destruct ma as [ma|], mi as [mi|], pa as [pa|]; canon_crush.
Qed.
Lemma intersect_canon a b c : bs_all Pc a -> bs_all Pc b -> bs_intersect a b = Some c -> bs_all Pc c.
Proof. intros Ha Hb E. pose proof (bs_intersect_all Pc a b Ha Hb) as H. now rewrite E in H. Qed.

Theorem r_parse_canon s R : r_parse s = ROk R -> range_all Pc R.
Proof.
  apply (r_parse_lift partial_canon (bs_all Pc)).
  - exact partial_version_canon.
  - split; constructor.
  - exact primitive_tbl_canon.
  - exact partial_tbl_canon.
  - exact tilde_tbl_canon.
  - exact caret_tbl_canon.
  - exact hyphen_tbl_canon.
  - exact intersect_canon.
Qed.

(** ** instance 2: no alternative is unbounded on both sides *)
Definition not_any (bs : boundset) : Prop :=
  ~ (predicate (bs_lower bs) = Unbounded /\ predicate (bs_upper bs) = Unbounded).
Lemma bs_new_not_any l u c : bs_new l u = Some c -> (predicate l <> Unbounded \/ predicate u <> Unbounded) -> not_any c.
Proof. intros E H. apply bs_new_shape in E. subst. unfold not_any; cbn. tauto. Qed.
Ltac any_crush :=
  unfold optQ, at_least, at_most, exact;
  repeat match goal with
  | |- match bs_new ?l ?u with _ => _ end => let E := fresh "E" in destruct (bs_new l u) eqn:E; [apply (bs_new_not_any _ _ _ E); cbn; (left; discriminate) || (right; discriminate)|exact I]
  | |- True => exact I
  end.
Lemma primitive_tbl_not_any op p : optQ not_any (primitive_tbl op p).
Proof. destruct p as [ma mi pa pr bl]. unfold primitive_tbl; cbn [p_major p_minor p_patch p_pre p_build]. destruct op, ma, mi, pa; any_crush. Qed.
Lemma partial_tbl_not_any p : optQ not_any (partial_tbl p).
Proof. destruct p as [ma mi pa pr bl]. unfold partial_tbl; cbn [p_major p_minor p_patch p_pre p_build]. destruct ma, mi, pa; any_crush. Qed.
Lemma tilde_tbl_not_any gt p : optQ not_any (tilde_tbl gt p).
Proof. destruct p as [ma mi pa pr bl]. unfold tilde_tbl; cbn [p_major p_minor p_patch p_pre p_build]. destruct gt, ma, mi, pa; any_crush. Qed.
Lemma caret_tbl_not_any p : optQ not_any (caret_tbl p).
Proof. destruct p as [ma mi pa pr bl]. unfold caret_tbl; cbn [p_major p_minor p_patch p_pre p_build]. destruct ma as [[|ma]|], mi, pa; any_crush. Qed.
Lemma hyphen_tbl_not_any lo up : optQ not_any (hyphen_tbl lo up).
Proof.
  destruct up as [ma mi pa pr bl]. unfold hyphen_tbl, hyphen_upper; cbn [p_major p_minor p_patch p_pre p_build].
  destruct ma, mi, pa; any_crush.
Qed.
Lemma bmax_unb_inv a b : is_lower a = true -> is_lower b = true -> predicate (bmax a b) = Unbounded ->
  predicate a = Unbounded /\ predicate b = Unbounded.
Proof.
  destruct a as [[x|x|]|], b as [[y|y|]|]; try discriminate; intros _ _; unfold bmax;
    try (destruct (blt _ _); cbn; discriminate); cbn; auto; discriminate.
Qed.
Lemma bmin_unb_inv a b : is_upper a = true -> is_upper b = true -> predicate (bmin a b) = Unbounded ->
  predicate a = Unbounded /\ predicate b = Unbounded.
Proof.
  destruct a as [|[x|x|]], b as [|[y|y|]]; try discriminate; intros _ _; unfold bmin;
    try (destruct (blt _ _); cbn; discriminate); cbn; auto; discriminate.
Qed.
Lemma intersect_not_any a b c : wf_bs a -> wf_bs b -> not_any a -> not_any b -> bs_intersect a b = Some c -> not_any c.
Proof.
  intros (La & Ua & _) (Lb & Ub & _) Na Nb E. apply bs_intersect_shape in E. subst c. unfold not_any in *. cbn.
  intros [H1 H2]. apply bmax_unb_inv in H1 as [A1 B1]; auto. apply bmin_unb_inv in H2 as [A2 B2]; auto.
Qed.
(** [wf] and [not_any] together, so that the grammar lifting can use the intersection lemma *)
Definition wfna (bs : boundset) : Prop := wf_bs bs /\ not_any bs.
Lemma optQ_wfna o : wf_opt o -> optQ not_any o -> optQ wfna o.
Proof. destruct o; cbn; auto. intros; split; auto. Qed.
Theorem r_parse_not_any s R : r_parse s = ROk R -> Forall wfna R.
Proof.
  apply (r_parse_lift (fun _ => True) wfna); auto; intros.
  - apply optQ_wfna; [apply primitive_tbl_wf|apply primitive_tbl_not_any].
  - apply optQ_wfna; [apply partial_tbl_wf|apply partial_tbl_not_any].
  - apply optQ_wfna; [apply tilde_tbl_wf|apply tilde_tbl_not_any].
  - apply optQ_wfna; [apply caret_tbl_wf|apply caret_tbl_not_any].
  - apply optQ_wfna; [apply hyphen_tbl_wf|apply hyphen_tbl_not_any].
  - destruct H as [Wa Na], H0 as [Wb Nb]. split; [apply (bs_intersect_wf a b); auto|apply (intersect_not_any a b); auto].
Qed.

(** [difference] never produces a doubly unbounded piece *)
Lemma flip_unb p : flip p = Unbounded -> p = Unbounded. Proof. destruct p; cbn; congruence. Qed.
Lemma bs_difference_not_any a b l : wf_bs a -> wf_bs b -> not_any a -> bs_difference a b = Ok (Some l) -> Forall not_any l.
Proof.
  intros Wa Wb Na. pose proof Wa as (La & Ua & Va). pose proof Wb as (Lb & Ub & Vb). unfold bs_difference.
  destruct (bs_intersect a b) as [ov|] eqn:Ei; [|intros [= <-]; constructor; [exact Na|constructor]].
  pose proof (bs_intersect_shape _ _ _ Ei) as Eo. subst ov. cbn [bs_lower bs_upper].
  set (lo := bmax (bs_lower a) (bs_lower b)). set (uo := bmin (bs_upper a) (bs_upper b)).
  assert (Llo : is_lower lo = true) by (apply is_lower_max; auto). assert (Uuo : is_upper uo = true) by (apply is_upper_min; auto).
  destruct (bs_eqb (mkBS uo lo) a) eqn:Eq; [discriminate|].
  assert (Left : blt (bs_lower a) lo = true -> forall c, bs_new (bs_lower a) (Upper (flip (predicate lo))) = Some c -> not_any c).
  { intros Hb c Ec. apply (bs_new_not_any _ _ _ Ec). right. cbn. intro F. apply flip_unb in F.
    exact (blt_lower_bounded _ _ La Llo Hb F). }
  assert (Right : predicate uo <> Unbounded -> forall c, bs_new (Lower (flip (predicate uo))) (bs_upper a) = Some c -> not_any c).
  { intros Hn c Ec. apply (bs_new_not_any _ _ _ Ec). left. cbn. intro F. apply flip_unb in F. auto. }
  destruct (blt (bs_lower a) lo) eqn:B1; cbn [andb].
  - destruct (blt uo (bs_upper a)) eqn:B2.
    + destruct (bs_new (bs_lower a) _) eqn:E1, (bs_new _ (bs_upper a)) eqn:E2; try discriminate. intros [= <-].
      constructor; [apply (Left eq_refl _ eq_refl)|constructor; [|constructor]].
      apply (Right (blt_upper_bounded _ _ Uuo Ua B2) _ eq_refl).
    + destruct (bs_new (bs_lower a) _) eqn:E1; cbn; [|discriminate]. intros [= <-]. constructor; [apply (Left eq_refl _ eq_refl)|constructor].
  - destruct (bs_new _ (bs_upper a)) eqn:E2; cbn; [|discriminate]. intros [= <-]. constructor; [|constructor].
    apply (fun H => Right H _ eq_refl). intro Hu.
    (* an unbounded overlap upper with an equal lower would make the overlap equal to [a] *)
    apply bmin_unb_inv in Hu as [Hua Hub]; auto.
    assert (Q1 : bound_eqb lo (bs_lower a) = true) by (apply overlap_lower_ge_gen; auto).
    assert (Q2 : bound_eqb uo (bs_upper a) = true).
    { unfold uo. destruct (bs_upper a) as [|pa]; [discriminate|]. destruct (bs_upper b) as [|pb]; [discriminate|].
      cbn in Hua, Hub. subst pa pb. reflexivity. }
    unfold bs_eqb in Eq. cbn [bs_upper bs_lower] in Eq. rewrite Q1, Q2 in Eq. discriminate.
Qed.

(** range level *)
Lemma bs_difference_wfna a b l : wfna a -> wf_bs b -> bs_difference a b = Ok (Some l) -> Forall wfna l.
Proof.
  intros [Wa Na] Wb E. pose proof (bs_difference_not_any a b l Wa Wb Na E) as HN.
  destruct (bs_difference_spec a b Wa Wb) as (r & Er & _ & Hwf & _). rewrite E in Er. injection Er as <-.
  rewrite Forall_forall in *. intros c Hc. split; auto.
Qed.
Lemma cut_pieces_wfna ps b r : Forall wfna ps -> wf_bs b -> cut_pieces ps b = Ok r -> Forall wfna r.
Proof.
  intros Hp Hb. revert r. induction Hp as [|p ps Hp0 _ IH]; cbn; intros r.
  - intros [= <-]. constructor.
  - destruct (bs_difference p b) as [d|] eqn:Ed; cbn; [|discriminate].
    destruct (cut_pieces ps b) as [rest|] eqn:Er; cbn; [|discriminate]. intros [= <-].
    specialize (IH rest eq_refl). destruct d as [l|]; auto. apply Forall_app. split; auto. apply (bs_difference_wfna p b l); auto.
Qed.
Lemma cut_all_wfna other : forall ps r, Forall wfna ps -> wf other -> cut_all ps other = Ok r -> Forall wfna r.
Proof.
  induction other as [|b other IH]; cbn; intros ps r Hp Ho.
  - now intros [= <-].
  - inversion Ho as [|? ? Hb Ho']; subst. destruct (cut_pieces ps b) as [ps'|] eqn:E; cbn; [|discriminate].
    intro H. apply (IH ps' r); auto. apply (cut_pieces_wfna ps b ps'); auto.
Qed.
Theorem r_difference_wfna A B : Forall wfna A -> wf B -> Forall wfna (res_range (r_difference A B)).
Proof.
  intros HA HB. unfold r_difference.
  assert (H : forall r, r_difference_list A B = Ok r -> Forall wfna r).
  { induction HA as [|a A Ha _ IH]; cbn; intros r.
    - intros [= <-]. constructor.
    - destruct (cut_all [a] B) as [rem|] eqn:E; cbn; [|discriminate].
      destruct (r_difference_list A B) as [rest|]; cbn; [|discriminate]. intros [= <-].
      apply Forall_app. split; [|now apply IH]. apply (cut_all_wfna B [a] rem); auto. }
  destruct (r_difference_list A B) as [r|]; cbn; [|constructor]. rewrite nonempty_opt_range. auto.
Qed.
Theorem r_intersect_wfna A B : Forall wfna A -> Forall wfna B -> Forall wfna (opt_range (r_intersect A B)).
Proof.
  intros HA HB. unfold r_intersect. rewrite nonempty_opt_range. unfold r_intersect_list.
  rewrite Forall_forall in *. intros c Hc. apply in_flat_map in Hc as (a & Ha & Hc). apply in_flat_map in Hc as (b & Hb & Hc).
  destruct (bs_intersect a b) as [c'|] eqn:E; cbn in Hc; [|destruct Hc]. destruct Hc as [<-|[]].
  destruct (HA a Ha) as [Wa Na]. destruct (HB b Hb) as [Wb Nb].
  split; [apply (bs_intersect_wf a b); auto|apply (intersect_not_any a b); auto].
Qed.
Lemma wfna_wf R : Forall wfna R -> wf R.
Proof. unfold wf. apply Forall_impl. now intros a [H _]. Qed.

(** ** ranges obtained from [Range::parse] and from intersect / difference of such ranges *)
Inductive reachable_p : range -> Prop :=
| Rp_parse s R : r_parse s = ROk R -> reachable_p R
| Rp_isect A B R : reachable_p A -> reachable_p B -> r_intersect A B = Some R -> reachable_p R
| Rp_diff A B R : reachable_p A -> reachable_p B -> r_difference A B = Ok (Some R) -> reachable_p R.

Theorem reachable_p_inv R : reachable_p R ->
  R <> [] /\ Forall wfna R /\ range_all Pc R /\ range_le K1 R.
Proof.
  induction 1 as [s R H|A B R _ (NA & WA & CA & LA) _ (NB & WB & CB & LB) H|A B R _ (NA & WA & CA & LA) _ (NB & WB & CB & LB) H].
  - repeat split; [eapply r_parse_nonempty|eapply r_parse_not_any|eapply r_parse_canon|eapply r_parse_le]; eauto.
  - assert (Ne : R <> []) by (unfold r_intersect, nonempty in H; destruct (r_intersect_list A B); [discriminate|injection H as <-; discriminate]).
    pose proof (r_intersect_wfna A B WA WB) as W. pose proof (r_intersect_all Pc A B CA CB) as C. pose proof (r_intersect_le K1 A B LA LB) as L.
    rewrite H in W, C, L. auto.
  - assert (Ne : R <> []).
    { unfold r_difference, rmap, nonempty in H. destruct (r_difference_list A B) as [[|x l]|]; try discriminate. injection H as <-. discriminate. }
    pose proof (r_difference_wfna A B WA (wfna_wf B WB)) as W. pose proof (r_difference_all Pc A B CA CB) as C. pose proof (r_difference_le K1 A B LA LB) as L.
    rewrite H in W, C, L. auto.
Qed.

(** such a range is printable as soon as no bound component exceeds MAX_SAFE_INTEGER (the D17 class) *)
Theorem reachable_p_printable R : reachable_p R -> range_le MAX_SAFE_INTEGER R ->
  R <> [] /\ wf R /\ printable R.
Proof.
  intros H L. destruct (reachable_p_inv R H) as (Ne & W & C & _). split; auto. split; [now apply wfna_wf|].
  unfold printable, range_all, range_le in *. rewrite Forall_forall in *. intros bs Hb.
  destruct (W bs Hb) as [_ Na]. destruct (C bs Hb) as [C1 C2]. destruct (L bs Hb) as [L1 L2].
  unfold printable_bs, pred_canon, bound_all, bound_le, Pc, vle_k, canonical_version in *.
  split; [|split; [|exact Na]].
  - destruct (predicate (bs_lower bs)); tauto.
  - destruct (predicate (bs_upper bs)); tauto.
Qed.
Theorem reachable_p_roundtrip R : reachable_p R -> range_le MAX_SAFE_INTEGER R ->
  exists s R', r_print R = Ok s /\ r_parse s = ROk R' /\ range_eqb R' R = true /\ r_print R' = Ok s.
Proof. intros H L. destruct (reachable_p_printable R H L) as (Ne & W & P). now apply print_parse_roundtrip. Qed.
