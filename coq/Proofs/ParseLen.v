(** Progress of the parser model: every sub-parser returns a suffix no longer than its
    input, the repeating ones consume at least one scalar per iteration, hence the fuel
    given to the three loops ([idents_tail], [simples_tail], [ranges_tail]) is always
    sufficient and [r_parse] never returns [ROutOfFuel]. *)
From Semver Require Import Version VParse Range RParse.
From Coq Require Import Lia.
Set Default Timeout 120.
Local Open Scope nat_scope.

Lemma span_app p s : fst (span p s) ++ snd (span p s) = s.
Proof. induction s as [|c r IH]; cbn; auto. destruct (p c); cbn; auto. destruct (span p r); cbn in *. now rewrite IH. Qed.
Lemma span_len p s : length (snd (span p s)) <= length s.
Proof. rewrite <- (span_app p s) at 2. rewrite app_length. lia. Qed.
Lemma span_len_strict p s a d r : span p s = (a :: d, r) -> length r < length s.
Proof. intro E. pose proof (span_app p s) as H. rewrite E in H. cbn in H. subst s. cbn. rewrite app_length. lia. Qed.
Lemma drop_while_len p s : length (drop_while p s) <= length s.
Proof. induction s as [|c r IH]; cbn; auto. destruct (p c); cbn; lia. Qed.
Lemma space0_len s : length (space0 s) <= length s.
Proof. apply drop_while_len. Qed.
Lemma space1_len s r : space1 s = Some r -> length r < length s.
Proof. destruct s as [|c t]; cbn; [discriminate|]. destruct (is_space c); [|discriminate]. intros [= <-].
  pose proof (space0_len t). lia. Qed.

Lemma lit1_len c s r : lit1 c s = Some r -> length s = S (length r).
Proof. destruct s as [|x t]; cbn; [discriminate|]. destruct (x =? c)%N; [|discriminate]. now intros [= <-]. Qed.
Lemma opt_lit1_len c s : length (opt_lit1 c s) <= length s.
Proof. unfold opt_lit1. destruct (lit1 c s) eqn:E; [apply lit1_len in E|]; lia. Qed.
Lemma lit_len p : forall s r, lit p s = Some r -> length s = length p + length r.
Proof.
  induction p as [|a p IH]; cbn; intros s r.
  - now intros [= <-].
  - destruct s as [|b t]; [discriminate|]. destruct (a =? b)%N; [|discriminate]. intro H. apply IH in H. cbn. lia.
Qed.

Lemma with_ctx_ok {A} c (x : pr A) a r : with_ctx c x = POk a r -> x = POk a r.
Proof. destruct x; cbn; congruence. Qed.

Lemma number_len s n r : number s = POk n r -> length r < length s.
Proof.
  unfold number. intro H. apply with_ctx_ok in H.
  destruct (span is_digit s) as [ds rest] eqn:E. destruct ds as [|d ds]; [discriminate|].
  destruct (U64_LIMIT <=? _)%N; [discriminate|]. destruct (MAX_SAFE_INTEGER <? _)%N; [discriminate|].
  injection H as _ <-. eapply span_len_strict; eauto.
Qed.
Lemma identifier_len s i r : identifier s = Some (i, r) -> length r < length s.
Proof.
  unfold identifier. destruct (span is_ident_char s) as [cs rest] eqn:E. destruct cs; [discriminate|].
  intros [= _ <-]. eapply span_len_strict; eauto.
Qed.
Lemma idents_tail_len f : forall s l r, idents_tail f s = (l, r) -> length r <= length s.
Proof.
  induction f as [|f IH]; cbn; intros s l r.
  - intros [= _ <-]. lia.
  - destruct (lit1 46 s) as [t|] eqn:El; [|intros [= _ <-]; lia]. apply lit1_len in El.
    destruct (identifier t) as [[i r']|] eqn:Ei; [|intros [= _ <-]; lia].
    destruct (idents_tail f r') as [l' r''] eqn:Et. intros [= _ <-].
    apply IH in Et. apply identifier_len in Ei. lia.
Qed.
Lemma idents1_len s l r : idents1 s = Some (l, r) -> length r < length s.
Proof.
  unfold idents1. destruct (identifier s) as [[i r0]|] eqn:Ei; [|discriminate].
  destruct (idents_tail (length r0) r0) as [l' r'] eqn:Et. intros [= _ <-].
  apply idents_tail_len in Et. apply identifier_len in Ei. lia.
Qed.
Lemma pre_release_len s l r : pre_release s = Some (l, r) -> length r < length s.
Proof. unfold pre_release. intro H. apply idents1_len in H. pose proof (opt_lit1_len 45 s). lia. Qed.
Lemma build_meta_len s l r : build_meta s = Some (l, r) -> length r < length s.
Proof.
  unfold build_meta. destruct (lit1 43 s) as [t|] eqn:El; [|discriminate]. apply lit1_len in El.
  intro H. apply idents1_len in H. lia.
Qed.
Lemma extras_len s p b r : extras s = (p, b, r) -> length r <= length s.
Proof.
  unfold extras. destruct (pre_release s) as [[p0 r0]|] eqn:Ep.
  - apply pre_release_len in Ep. destruct (build_meta r0) as [[b0 r1]|] eqn:Eb.
    + apply build_meta_len in Eb. intros [= _ _ <-]. lia.
    + intros [= _ _ <-]. lia.
  - destruct (build_meta s) as [[b0 r1]|] eqn:Eb.
    + apply build_meta_len in Eb. intros [= _ _ <-]. lia.
    + intros [= _ _ <-]. lia.
Qed.

Lemma number_o_len s n r : number_o s = Some (n, r) -> length r < length s.
Proof. unfold number_o. destruct (number s) eqn:E; [|discriminate]. intros [= _ <-]. eapply number_len; eauto. Qed.
Lemma component_len s c r : component s = Some (c, r) -> length r < length s.
Proof.
  unfold component. destruct s as [|x t]; [discriminate|]. destruct (is_wild x).
  - intros [= _ <-]. cbn. lia.
  - destruct (number_o (x :: t)) as [[n r']|] eqn:E; [|discriminate]. intros [= _ <-].
    eapply number_o_len; eauto.
Qed.
Lemma opt_dot_component_len s o r : opt_dot_component s = (o, r) -> length r <= length s.
Proof.
  unfold opt_dot_component. destruct (lit1 46 s) as [t|] eqn:El; [|intros [= _ <-]; lia]. apply lit1_len in El.
  destruct (component t) as [[c' r']|] eqn:E.
  - intros [= _ <-]. apply component_len in E. lia.
  - intros [= _ <-]. lia.
Qed.

Lemma partial_version_len s p r : partial_version s = Some (p, r) -> length r < length s.
Proof.
  unfold partial_version. pose proof (opt_lit1_len 118 s) as H0.
  set (s1 := opt_lit1 118 s) in *.
  pose proof (space0_len s1) as H1.
  destruct (component (space0 s1)) as [[ma s3]|] eqn:Ec; [|discriminate].
  apply component_len in Ec.
  destruct (opt_dot_component s3) as [mi s4] eqn:E1. apply opt_dot_component_len in E1.
  destruct (opt_dot_component s4) as [pa s5] eqn:E2. apply opt_dot_component_len in E2.
  destruct pa as [pa|].
  - destruct (extras s5) as [[pre0 bld0] s6] eqn:E3. apply extras_len in E3.
    destruct (opt_and (opt_and ma (opt_flatten mi)) (opt_flatten (Some pa))); intros [= _ <-]; lia.
  - destruct (opt_and (opt_and ma (opt_flatten mi)) (opt_flatten None)); intros [= _ <-]; lia.
Qed.

Lemma operation_p_len s op r : operation_p s = Some (op, r) -> length r < length s.
Proof.
  unfold operation_p.
  repeat match goal with
  | |- context [match lit ?p s with _ => _ end] =>
    let E := fresh "E" in destruct (lit p s) eqn:E; [apply lit_len in E; cbn in E; intros [= _ <-]; lia|]
  | |- context [match lit1 ?c s with _ => _ end] =>
    let E := fresh "E" in destruct (lit1 c s) eqn:E; [apply lit1_len in E; intros [= _ <-]; lia|]
  end. discriminate.
Qed.
Lemma primitive_p_len s b r : primitive_p s = Some (b, r) -> length r < length s.
Proof.
  unfold primitive_p. destruct (operation_p s) as [[op r0]|] eqn:E; [|discriminate]. apply operation_p_len in E.
  pose proof (space0_len r0).
  destruct (partial_version (space0 r0)) as [[p r']|] eqn:Ep; [|discriminate]. apply partial_version_len in Ep.
  intros [= _ <-]. lia.
Qed.
Lemma partial_p_len s b r : partial_p s = Some (b, r) -> length r < length s.
Proof.
  unfold partial_p. destruct (partial_version s) as [[p r']|] eqn:Ep; [|discriminate]. apply partial_version_len in Ep.
  intros [= _ <-]. lia.
Qed.
Lemma tilde_p_len s b r : tilde_p s = Some (b, r) -> length r < length s.
Proof.
  unfold tilde_p. destruct (lit1 126 s) as [t|] eqn:El; [|discriminate]. apply lit1_len in El.
  pose proof (space0_len t) as H0.
  set (r1 := space0 t) in *.
  assert (H1 : length (snd (match lit1 62 r1 with Some r' => (true, r') | None => (false, r1) end)) <= length r1).
  { destruct (lit1 62 r1) eqn:E; cbn; [apply lit1_len in E|]; lia. }
  destruct (match lit1 62 r1 with Some r' => (true, r') | None => (false, r1) end) as [gt r2]. cbn in H1.
  pose proof (space0_len r2).
  destruct (partial_version (space0 r2)) as [[p r']|] eqn:Ep; [|discriminate]. apply partial_version_len in Ep.
  intros [= _ <-]. lia.
Qed.
Lemma caret_p_len s b r : caret_p s = Some (b, r) -> length r < length s.
Proof.
  unfold caret_p. destruct (lit1 94 s) as [t|] eqn:El; [|discriminate]. apply lit1_len in El.
  pose proof (space0_len t).
  destruct (partial_version (space0 t)) as [[p r']|] eqn:Ep; [|discriminate]. apply partial_version_len in Ep.
  intros [= _ <-]. lia.
Qed.
Lemma hyphen_p_len s b r : hyphen_p s = Some (b, r) -> length r < length s.
Proof.
  unfold hyphen_p.
  destruct (partial_version s) as [[lower s1]|] eqn:E0; [|discriminate]. apply partial_version_len in E0.
  destruct (space1 s1) as [s2|] eqn:E1; [|discriminate]. apply space1_len in E1.
  destruct (lit1 45 s2) as [s3|] eqn:El; [|discriminate]. apply lit1_len in El.
  destruct (space1 s3) as [s4|] eqn:E2; [|discriminate]. apply space1_len in E2.
  destruct (partial_version s4) as [[up r']|] eqn:Ep; [|discriminate]. apply partial_version_len in Ep.
  intros [= _ <-]. lia.
Qed.

Lemma garbage_len s : length (garbage s) <= length s.
Proof.
  induction s as [|c t IH]; [cbn; auto|].
  change (garbage (c :: t)) with (if at_term (c :: t) then c :: t else garbage t).
  destruct (at_term (c :: t)); cbn [length]; lia.
Qed.

Lemma terminated_p_len p s b r : (forall s b r, p s = Some (b, r) -> length r < length s) ->
  terminated_p p s = Some (b, r) -> length r < length s.
Proof.
  intros Hp. unfold terminated_p. destruct (p s) as [[b0 r0]|] eqn:E; [|discriminate].
  destruct (at_term r0); [|discriminate]. intros [= _ <-]. eauto.
Qed.
Lemma simple_len s b r : simple s = (b, r) -> length r <= length s.
Proof.
  unfold simple.
  destruct (terminated_p primitive_p s) as [[b0 r0]|] eqn:E2.
  { intros [= _ <-]. apply terminated_p_len in E2; [lia|apply primitive_p_len]. }
  destruct (terminated_p partial_p s) as [[b0 r0]|] eqn:E3.
  { intros [= _ <-]. apply terminated_p_len in E3; [lia|apply partial_p_len]. }
  destruct (terminated_p tilde_p s) as [[b0 r0]|] eqn:E4.
  { intros [= _ <-]. apply terminated_p_len in E4; [lia|apply tilde_p_len]. }
  destruct (terminated_p caret_p s) as [[b0 r0]|] eqn:E5.
  { intros [= _ <-]. apply terminated_p_len in E5; [lia|apply caret_p_len]. }
  intros [= _ <-]. apply garbage_len.
Qed.

Lemma simples_tail_fuel f : forall s, length s <= f ->
  exists l r, simples_tail f s = Some (l, r) /\ length r <= length s.
Proof.
  induction f as [|f IH]; intros s Hs.
  - destruct s; [|cbn in Hs; lia]. cbn. exists [], []. auto.
  - cbn. destruct (space1 s) as [s1|] eqn:E1.
    + pose proof (space1_len _ _ E1) as L1. destruct (simple s1) as [b s2] eqn:E2.
      pose proof (simple_len _ _ _ E2) as L2. destruct (IH s2) as (l & r & Hst & Hr); [lia|].
      rewrite Hst. exists (b :: l), r. split; auto. lia.
    + exists [], s. auto.
Qed.
Lemma simples_p_total s : exists bs r, simples_p s = Some (bs, r) /\ length r <= length s.
Proof.
  unfold simples_p. destruct (simple s) as [b s1] eqn:E. pose proof (simple_len _ _ _ E) as L1.
  destruct (simples_tail_fuel (length s1) s1) as (l & r & Hst & Hr); [lia|].
  rewrite Hst. eexists _, r. split; [reflexivity|lia].
Qed.
Lemma range_p_total s : exists bs r, range_p s = Some (bs, r) /\ length r <= length s.
Proof.
  unfold range_p. pose proof (space0_len s) as L0. set (s' := space0 s) in *.
  assert (T : exists bs r, simples_p s' = Some (bs, r) /\ length r <= length s).
  { destruct (simples_p_total s') as (bs & r & E & L). exists bs, r. split; [exact E|lia]. }
  destruct (at_empty_alt s'); [eexists _, s'; split; [reflexivity|lia]|].
  destruct (hyphen_p s') as [[b r]|] eqn:E; [|exact T].
  destruct (at_alt_end r); [|exact T]. apply hyphen_p_len in E. eexists _, r. split; [reflexivity|lia].
Qed.
Lemma logical_or_len s r : logical_or s = Some r -> length r < length s.
Proof.
  unfold logical_or. pose proof (space0_len s). destruct (lit [124%N; 124%N] (space0 s)) as [t|] eqn:E; [|discriminate].
  apply lit_len in E. cbn in E. intros [= <-]. pose proof (space0_len t). lia.
Qed.
Lemma ranges_tail_fuel f : forall s, length s <= f ->
  exists l r, ranges_tail f s = Some (l, r) /\ length r <= length s.
Proof.
  induction f as [|f IH]; intros s Hs.
  - destruct s; [|cbn in Hs; lia]. cbn. exists [], []. auto.
  - cbn. destruct (logical_or s) as [s1|] eqn:E1.
    + pose proof (logical_or_len _ _ E1) as L1. destruct (range_p_total s1) as (bs & s2 & E2 & L2).
      rewrite E2. destruct (IH s2) as (l & r & Hrt & Hr); [lia|].
      rewrite Hrt. exists (bs ++ l), r. split; auto. lia.
    + exists [], s. auto.
Qed.
Lemma bound_sets_total s : exists l r, bound_sets s = Some (l, r).
Proof.
  unfold bound_sets. destruct (range_p_total s) as (bs & s1 & E & L1). rewrite E.
  destruct (ranges_tail_fuel (length s1) s1) as (l & r & Hrt & _); [lia|]. rewrite Hrt. eauto.
Qed.
Theorem r_parse_fuel s : r_parse s <> ROutOfFuel.
Proof.
  unfold r_parse. destruct (bound_sets_total s) as (l & r & E). rewrite E. destruct l; discriminate.
Qed.
