(** Extraction of the executable model (and executable specifications) to OCaml.
    Directives used: those of [ExtrOcamlBasic] only (bool, option, unit, list, prod,
    sumbool, sumor as native OCaml types; [andb]/[orb] inlined).  [N], [positive],
    [Z], [comparison] stay extracted inductives. *)
From Semver Require Import RParse NpmRange.
From Coq Require Import Extraction ExtrOcamlBasic.
Extraction Language OCaml.
Set Extraction KeepSingleton.
Extraction "model.ml"
  utf8_len dec_value print_N str_eqb
  vcmp veqb veqb_full hash_key vdiff vprint from3 from4 iter_max iter_min vsort idents_eqb
  vparse location
  bcmp bs_new bs_satisfies_p r_satisfies_p r_within r_allows_all r_allows_any
  r_intersect r_difference r_max_satisfying r_min_satisfying r_min_version r_print r_any
  range_eqb
  r_parse
  npm_admits npm_alt compile compile_alt known_class.
