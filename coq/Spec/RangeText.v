(** The range language of property C01/C02, as a relation between texts and syntax trees
    ([Spec/NpmRange.v]).  It is the grammar of node-semver's README

      range-set  ::= range ( logical-or range ) *
      logical-or ::= ( ' ' ) * '||' ( ' ' ) *
      range      ::= hyphen | simple ( ' ' simple ) * | ''
      hyphen     ::= partial ' - ' partial
      simple     ::= primitive | partial | tilde | caret
      primitive  ::= ( '<' | '>' | '>=' | '<=' | '=' ) partial
      partial    ::= xr ( '.' xr ( '.' xr qualifier ? )? )?

    with every loose spelling the property lists: leading zeros, a [v] prefix (followed by
    blanks), blanks (spaces or tabs) after an operator / tilde / caret, [~>], any of
    [x X *] as the wildcard, components and qualifiers written after a wildcard (ignored), a
    prerelease tag written without its hyphen when it starts with a letter, one or more
    blanks between comparators, blanks around [||], at both ends of the text and around
    the hyphen of a hyphen range, and unparseable tokens (here: tokens whose first scalar
    cannot start a comparator, see [garbage_token]), which are dropped.

    This file is a specification: it mentions no parser.  [Proofs/LayerB.v] proves that
    [Range::parse]'s model returns, for every text related to a tree, exactly what the
    desugaring tables give for that tree. *)
From Semver Require Import Base Version VParse VersionGrammar Range RParse NpmRange.

Definition blank_str (w : str) : Prop := all is_space w.
Definition blank1 (w : str) : Prop := w <> [] /\ all is_space w.

(** one component: a wildcard or a decimal number (leading zeros allowed) up to MAX_SAFE_INTEGER *)
Inductive xr_text : str -> option N -> Prop :=
| XR_wild c : is_wild c = true -> xr_text [c] None
| XR_num ds n : num_text ds n -> xr_text ds (Some n).

(** the partial version denoted by up to three components and a qualifier: once a component
    is a wildcard (or missing) every later one is, and the qualifier counts only on a full
    major.minor.patch *)
Definition pnorm (a b c : option N) (pre bld : list ident) : partial_t :=
  match a, b, c with
  | Some _, Some _, Some _ => mkP a b c pre bld
  | Some _, Some _, None => mkP a b None [] []
  | Some _, None, _ => mkP a None None [] []
  | None, _, _ => mkP None None None [] []
  end.

Inductive partial_core : str -> partial_t -> Prop :=
| PC1 t1 a : xr_text t1 a -> partial_core t1 (pnorm a None None [] [])
| PC2 t1 a t2 b : xr_text t1 a -> xr_text t2 b -> partial_core (t1 ++ 46 :: t2) (pnorm a b None [] [])
| PC3 t1 a t2 b t3 c e pre bld : xr_text t1 a -> xr_text t2 b -> xr_text t3 c -> extras_text true e pre bld ->
    partial_core (t1 ++ 46 :: t2 ++ 46 :: t3 ++ e) (pnorm a b c pre bld).

(** optional [v] and blanks in front *)
Inductive partial_text : str -> partial_t -> Prop :=
| PT_plain t p : partial_core t p -> partial_text t p
| PT_v w t p : blank_str w -> partial_core t p -> partial_text (118 :: w ++ t) p.

(** what is written in front of the partial version, per comparator form *)
Definition form_lead (f : form) (l : str) : Prop :=
  match f with
  | FBare => l = []
  | FEq => exists w, blank_str w /\ l = 61 :: w
  | FGt => exists w, blank_str w /\ l = 62 :: w
  | FGte => exists w, blank_str w /\ l = 62 :: 61 :: w
  | FLt => exists w, blank_str w /\ l = 60 :: w
  | FLte => exists w, blank_str w /\ l = 60 :: 61 :: w
  | FTilde => exists w, blank_str w /\ l = 126 :: w
  | FTildeGt => exists w1 w2, blank_str w1 /\ blank_str w2 /\ l = 126 :: w1 ++ 62 :: w2
  | FCaret => exists w, blank_str w /\ l = 94 :: w
  end.

(** an unparseable token: its first scalar cannot start any comparator -- not a digit, a wildcard, [v], an operator, [~], [^] --
    and is not [-] (which after a partial version could start a hyphen range), a blank or [|]: letters other than v x X,
    [+], [.], [!], non-ASCII scalars, ...; no blank and no [|] inside *)
Definition tok_char (c : N) : bool := negb (is_space c) && negb (c =? 124).
Definition junk_start (c : N) : bool :=
  negb (is_digit c) && negb (is_wild c) && negb (is_space c) && negb (c =? 118) && negb (c =? 60) && negb (c =? 61) && negb (c =? 62)
  && negb (c =? 126) && negb (c =? 94) && negb (c =? 124) && negb (c =? 45).
Definition garbage_token (t : str) : Prop :=
  exists c t', t = c :: t' /\ junk_start c = true /\ all tok_char t'.

Inductive comp_text : comp -> str -> Prop :=
| CT_comp f p l t : form_lead f l -> partial_text t p -> comp_text (Comp f p) (l ++ t)
| CT_garbage t : garbage_token t -> comp_text Garbage t.

(** a comparator set: comparators separated by one or more blanks; blanks after the last one
    count as an empty token that is dropped *)
Inductive set_text : list comp -> str -> Prop :=
| ST_one c t : comp_text c t -> set_text [c] t
| ST_trail c t w : comp_text c t -> blank1 w -> set_text [c; Garbage] (t ++ w)
| ST_cons c t w cs s : comp_text c t -> blank1 w -> set_text cs s -> set_text (c :: cs) (t ++ w ++ s).

(** the same without trailing blanks: the left operand of a blank-joined conjunction [a b] *)
Inductive set_text0 : list comp -> str -> Prop :=
| S0_one c t : comp_text c t -> set_text0 [c] t
| S0_cons c t w cs s : comp_text c t -> blank1 w -> set_text0 cs s -> set_text0 (c :: cs) (t ++ w ++ s).

(** an alternative: a hyphen range (blanks around the hyphen, blanks after it), a set, or nothing at all
    (the blanks around an empty alternative are those of the neighbouring [||] / of the ends of the text) *)
Inductive alt_text : alt -> str -> Prop :=
| AT_hyphen lo hi t1 w1 w2 t2 w3 : partial_text t1 lo -> blank1 w1 -> blank1 w2 -> partial_text t2 hi -> blank_str w3 ->
    alt_text (AHyphen lo hi) (t1 ++ w1 ++ 45 :: w2 ++ t2 ++ w3)
| AT_set cs s : set_text cs s -> alt_text (ASet cs) s
| AT_empty : alt_text (ASet []) [].

(** alternatives joined by [||]; blanks before [||] belong to the alternative on its left *)
Inductive ast_tail_text : ast -> str -> Prop :=
| ATT_nil : ast_tail_text [] []
| ATT_cons w a s rest t : blank_str w -> alt_text a s -> ast_tail_text rest t ->
    ast_tail_text (a :: rest) (124 :: 124 :: w ++ s ++ t).
Inductive ast_text : ast -> str -> Prop :=
| AST w a s rest t : blank_str w -> alt_text a s -> ast_tail_text rest t -> ast_text (a :: rest) (w ++ s ++ t).

(** what [Range::parse] must return for a text of tree [r] *)
Definition parse_spec (s : str) (r : ast) : rparse_res :=
  match compile r with
  | [] => RErr (mkErr s 0 KNoValidRanges)
  | R => ROk R
  end.
