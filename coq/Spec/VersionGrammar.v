(** The language [Version::parse] is meant to accept (C05), stated declaratively:
    [lead major "." minor "." patch extras trail] with decimal components not above
    MAX_SAFE_INTEGER, dot-separated identifiers over [0-9A-Za-z-], total length at most
    MAX_LENGTH.  [loose = true] additionally allows the prerelease hyphen to be omitted
    when the tag starts with a letter (the crate's deliberate loose mode, finding D15). *)
From Semver Require Import Base Version VParse.

Definition all (p : N -> bool) (s : str) : Prop := forallb p s = true.
Definition digits (s : str) : Prop := s <> [] /\ all is_digit s.
Definition ident_text (s : str) : Prop := s <> [] /\ all is_ident_char s.

(** non-empty dot-separated identifiers; [classify] maps a digit string below 2^64 to
    [Num], anything else to [Alpha] *)
Inductive idents_text : str -> list ident -> Prop :=
| IT_one s : ident_text s -> idents_text s [classify s]
| IT_cons s t l : ident_text s -> idents_text t l -> idents_text (s ++ 46 :: t) (classify s :: l).

Definition starts_alpha (s : str) : Prop := match s with c :: _ => is_alpha c = true | [] => False end.

Inductive extras_text (loose : bool) : str -> list ident -> list ident -> Prop :=
| ET_none : extras_text loose [] [] []
| ET_pre ps p : idents_text ps p -> extras_text loose (45 :: ps) p []
| ET_build bs b : idents_text bs b -> extras_text loose (43 :: bs) [] b
| ET_both ps p bs b : idents_text ps p -> idents_text bs b -> extras_text loose (45 :: ps ++ 43 :: bs) p b
| ET_pre_loose ps p : loose = true -> starts_alpha ps -> idents_text ps p -> extras_text loose ps p []
| ET_both_loose ps p bs b : loose = true -> starts_alpha ps -> idents_text ps p -> idents_text bs b ->
    extras_text loose (ps ++ 43 :: bs) p b.

(** optional [v]/[V], then blanks *)
Definition lead_text (l : str) : Prop :=
  exists ws, all is_space ws /\ (l = ws \/ l = 118 :: ws \/ l = 86 :: ws).
Definition num_text (ds : str) (n : N) : Prop :=
  digits ds /\ dec_value ds = n /\ n <= MAX_SAFE_INTEGER.

Definition is_version_text_gen (loose : bool) (s : str) (v : version) : Prop :=
  utf8_len s <= MAX_LENGTH /\
  exists l M m p e t,
    s = l ++ M ++ 46 :: m ++ 46 :: p ++ e ++ t /\
    lead_text l /\ num_text M (major v) /\ num_text m (minor v) /\ num_text p (patch v) /\
    extras_text loose e (pre v) (build v) /\ all is_space t.

Definition is_version_text := is_version_text_gen false.
Definition is_version_text_loose := is_version_text_gen true.
