(** npm's documented desugaring of range syntax (DESIGN.md Appendix A; node-semver README
    "Ranges" / "Advanced Range Syntax" and the desugaring comments of classes/range.js),
    stated over syntax trees.  A partial version is the model's [partial_t] in normal form
    (once a component is a wildcard every later one is, and a tag/build needs all three
    numbers).  This file is independent of the crate's interval representation: a range
    denotes, per alternative, a conjunction of primitive comparators with npm's rule that a
    prerelease version needs a comparator with a prerelease tag on its own tuple. *)
From Semver Require Import Version Range RParse.

Inductive form := FBare | FEq | FGt | FGte | FLt | FLte | FTilde | FTildeGt | FCaret.
Inductive comp := Comp (f : form) (p : partial_t) | Garbage.
Inductive alt := AHyphen (lo hi : partial_t) | ASet (cs : list comp).
Definition ast := list alt.

Inductive cop := CGt | CGte | CLt | CLte | CEq.
Definition comparator : Type := cop * version.

Definition holds (c : comparator) (v : version) : bool :=
  let w := snd c in
  match fst c with
  | CGt => vlt w v | CGte => vle w v | CLt => vlt v w | CLte => vle v w | CEq => veqb v w
  end.
Definition tagged_on (c : comparator) (v : version) : bool := is_pre (snd c) && same_tuple v (snd c).
(** npm's testSet: all comparators hold, and a prerelease version needs a tagged comparator
    on its own major.minor.patch *)
Definition npm_set (cs : list comparator) (v : version) : bool :=
  forallb (fun c => holds c v) cs && (negb (is_pre v) || existsb (fun c => tagged_on c v) cs).

Definition vz (a b c : N) : version := mkV a b c [] [Num 0].     (* a.b.c-0 *)
Definition vr (a b c : N) : version := mkV a b c [] [].
Definition vfull (a b c : N) (p : partial_t) : version := mkV a b c [] (p_pre p).
Definition ANY : list comparator := [(CGte, vr 0 0 0)].
Definition NONE : list comparator := [(CLt, vz 0 0 0)].

Definition desugar (f : form) (p : partial_t) : list comparator :=
  match p_major p, p_minor p, p_patch p with
  | None, _, _ =>
    match f with FGt | FLt => NONE | _ => ANY end
  | Some M, None, _ =>
    match f with
    | FBare | FEq | FTilde | FTildeGt | FCaret => [(CGte, vr M 0 0); (CLt, vz (M + 1) 0 0)]
    | FGt => [(CGte, vr (M + 1) 0 0)]
    | FGte => [(CGte, vr M 0 0)]
    | FLt => [(CLt, vz M 0 0)]
    | FLte => [(CLt, vz (M + 1) 0 0)]
    end
  | Some M, Some m, None =>
    match f with
    | FBare | FEq | FTilde | FTildeGt => [(CGte, vr M m 0); (CLt, vz M (m + 1) 0)]
    | FCaret => [(CGte, vr M m 0); (CLt, if M =? 0 then vz 0 (m + 1) 0 else vz (M + 1) 0 0)]
    | FGt => [(CGte, vr M (m + 1) 0)]
    | FGte => [(CGte, vr M m 0)]
    | FLt => [(CLt, vz M m 0)]
    | FLte => [(CLt, vz M (m + 1) 0)]
    end
  | Some M, Some m, Some q =>
    let w := vfull M m q p in
    match f with
    | FBare | FEq => [(CEq, w)]
    | FGt => [(CGt, w)]
    | FGte => [(CGte, w)]
    | FLt => [(CLt, w)]
    | FLte => [(CLte, w)]
    | FTilde | FTildeGt => [(CGte, w); (CLt, vz M (m + 1) 0)]
    | FCaret => [(CGte, w); (CLt, if M =? 0 then (if m =? 0 then vz 0 0 (q + 1) else vz 0 (m + 1) 0) else vz (M + 1) 0 0)]
    end
  end.

Definition hyphen_lower (p : partial_t) : list comparator :=
  match p_major p, p_minor p, p_patch p with
  | None, _, _ => [(CGte, vr 0 0 0)]
  | Some M, None, _ => [(CGte, vr M 0 0)]
  | Some M, Some m, None => [(CGte, vr M m 0)]
  | Some M, Some m, Some q => [(CGte, vfull M m q p)]
  end.
Definition hyphen_upper_c (p : partial_t) : list comparator :=
  match p_major p, p_minor p, p_patch p with
  | None, _, _ => []
  | Some M, None, _ => [(CLt, vz (M + 1) 0 0)]
  | Some M, Some m, None => [(CLt, vz M (m + 1) 0)]
  | Some M, Some m, Some q => [(CLte, vfull M m q p)]
  end.
(** [A - B] *)
Definition desugar_hyphen (lo hi : partial_t) : list comparator := hyphen_lower lo ++ hyphen_upper_c hi.

Fixpoint real_comps (cs : list comp) : list (form * partial_t) :=
  match cs with
  | [] => []
  | Comp f p :: r => (f, p) :: real_comps r
  | Garbage :: r => real_comps r
  end.
(** the partial version [*] *)
Definition star_partial : partial_t := mkP None None None [] [].
(** unparseable tokens are dropped; an alternative whose tokens are all dropped is dropped;
    an alternative in which nothing at all is written is [*] (README: [""] := [*] := [>=0.0.0]) *)
Definition npm_alt (a : alt) (v : version) : bool :=
  match a with
  | AHyphen lo hi => npm_set (desugar_hyphen lo hi) v
  | ASet [] => npm_set (desugar FBare star_partial) v
  | ASet cs =>
    match real_comps cs with
    | [] => false
    | rc => npm_set (flat_map (fun fp => desugar (fst fp) (snd fp)) rc) v
    end
  end.
Definition npm_admits (r : ast) (v : version) : bool := existsb (fun a => npm_alt a v) r.

(** ** the crate's compilation of the same trees (the functions [range()] calls) *)
Definition tbl (f : form) (p : partial_t) : option boundset :=
  match f with
  | FBare => partial_tbl p
  | FEq => primitive_tbl OpExact p | FGt => primitive_tbl OpGT p | FGte => primitive_tbl OpGTE p
  | FLt => primitive_tbl OpLT p | FLte => primitive_tbl OpLTE p
  | FTilde => tilde_tbl false p | FTildeGt => tilde_tbl true p
  | FCaret => caret_tbl p
  end.
Definition comp_tbl (c : comp) : option boundset := match c with Comp f p => tbl f p | Garbage => None end.
Definition compile_alt (a : alt) : list boundset :=
  match a with
  | AHyphen lo hi => opt_to_list (hyphen_tbl lo hi)
  | ASet [] => opt_to_list (partial_tbl star_partial)
  | ASet cs => and_fold (flatten_opts (map comp_tbl cs))
  end.
Definition compile (r : ast) : list boundset := flat_map compile_alt r.

(** ** domain *)
Definition partial_norm (p : partial_t) : Prop :=
  (p_major p = None -> p_minor p = None) /\ (p_minor p = None -> p_patch p = None) /\
  (p_patch p = None -> p_pre p = [] /\ p_build p = []).
Definition opt_le_max (o : option N) : Prop := match o with Some n => n <= MAX_SAFE_INTEGER | None => True end.
Definition partial_dom (p : partial_t) : Prop :=
  partial_norm p /\ opt_le_max (p_major p) /\ opt_le_max (p_minor p) /\ opt_le_max (p_patch p).
Definition comp_dom (c : comp) : Prop := match c with Comp _ p => partial_dom p | Garbage => True end.
Definition alt_dom (a : alt) : Prop :=
  match a with
  | AHyphen lo hi => partial_dom lo /\ partial_dom hi
  | ASet cs => Forall comp_dom cs
  end.
Definition version_dom (v : version) : Prop :=
  major v <= MAX_SAFE_INTEGER /\ minor v <= MAX_SAFE_INTEGER /\ patch v <= MAX_SAFE_INTEGER.

(** ** the two recorded departures (known findings D12, D13), as classes of (alternative, version) *)
(** D12: [<M] (major only) is [<M.0.0] in the crate, [<M.0.0-0] in npm: they differ on the prereleases of M.0.0 *)
Definition d12_comp (c : comp) (v : version) : bool :=
  match c with
  | Comp FLt p => match p_major p, p_minor p with
                  | Some M, None => is_pre v && (major v =? M) && (minor v =? 0) && (patch v =? 0)
                  | _, _ => false end
  | _ => false
  end.
(** D13: [^0] / [^0.x] has no [>=0.0.0] lower bound in the crate: they differ on the prereleases of 0.0.0 *)
Definition d13_comp (c : comp) (v : version) : bool :=
  match c with
  | Comp FCaret p => match p_major p, p_minor p with
                     | Some 0, None => is_pre v && (major v =? 0) && (minor v =? 0) && (patch v =? 0)
                     | _, _ => false end
  | _ => false
  end.
Definition known_class (a : alt) (v : version) : bool :=
  match a with
  | ASet cs => existsb (fun c => d12_comp c v || d13_comp c v) cs
  | AHyphen _ _ => false
  end.
