(** SemVer 2.0.0 section 11 precedence, transcribed as inductive relations that do not
    mention the implementation's comparison functions. *)
From Semver Require Import Version.

(** "identifiers with letters or hyphens are compared lexically in ASCII sort order" *)
Inductive str_lt : str -> str -> Prop :=
| sl_nil : forall c t, str_lt [] (c :: t)
| sl_head : forall c d s t, c < d -> str_lt (c :: s) (d :: t)
| sl_tail : forall c s t, str_lt s t -> str_lt (c :: s) (c :: t).

(** 11.4.1 numeric identifiers numerically; 11.4.2 alphanumerics lexically;
    11.4.3 numeric identifiers are lower than non-numeric ones *)
Inductive id_lt : ident -> ident -> Prop :=
| id_num : forall a b, a < b -> id_lt (Num a) (Num b)
| id_num_alpha : forall a s, id_lt (Num a) (Alpha s)
| id_alpha : forall s t, str_lt s t -> id_lt (Alpha s) (Alpha t).

(** 11.4 compare identifiers left to right until a difference is found;
    11.4.4 a larger set of fields is higher when all preceding identifiers are equal *)
Inductive ids_lt : list ident -> list ident -> Prop :=
| il_prefix : forall i t, ids_lt [] (i :: t)
| il_head : forall i j s t, id_lt i j -> ids_lt (i :: s) (j :: t)
| il_tail : forall i s t, ids_lt s t -> ids_lt (i :: s) (i :: t).

(** 11.2 major, minor, patch numerically; 11.3 a pre-release version is lower than the
    associated normal version; 11.4 two pre-releases of the same triple by identifiers.
    Build metadata does not appear (section 10). *)
Inductive prec_lt (a b : version) : Prop :=
| pl_major : major a < major b -> prec_lt a b
| pl_minor : major a = major b -> minor a < minor b -> prec_lt a b
| pl_patch : major a = major b -> minor a = minor b -> patch a < patch b -> prec_lt a b
| pl_release : major a = major b -> minor a = minor b -> patch a = patch b ->
               pre a <> [] -> pre b = [] -> prec_lt a b
| pl_pre : major a = major b -> minor a = minor b -> patch a = patch b ->
           pre a <> [] -> pre b <> [] -> ids_lt (pre a) (pre b) -> prec_lt a b.

(** An identifier as data stands for its text: an [Alpha] must not be a digit string
    (section 9: "numeric identifiers"), which is what the parser's classification
    guarantees for digit strings below 2^64. *)
Definition canonical_ident (i : ident) : Prop :=
  match i with Num _ => True | Alpha s => forallb is_digit s = false end.
Definition canonical (v : version) : Prop := Forall canonical_ident (pre v).
