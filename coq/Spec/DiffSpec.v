(** node-semver's [diff(v1, v2)] written from its definition in terms of the higher and
    the lower of the two versions (functions/diff.js), independently of the order of the
    arguments. *)
From Semver Require Import Version.

Definition prefixed (high_has_pre : bool) (d : vdiff_t) : vdiff_t :=
  if high_has_pre then
    match d with Major => PreMajor | Minor => PreMinor | Patch => PrePatch | x => x end
  else d.

(** [high] is strictly above [low] in precedence. *)
Definition npm_diff_hl (high low : version) : vdiff_t :=
  if is_pre low && negb (is_pre high) then
    (* going from a prerelease to a release *)
    if (patch low =? 0) && (minor low =? 0) then Major
    else if negb (patch high =? 0) then Patch
    else if negb (minor high =? 0) then Minor
    else Major
  else if negb (major high =? major low) then prefixed (is_pre high) Major
  else if negb (minor high =? minor low) then prefixed (is_pre high) Minor
  else if negb (patch high =? patch low) then prefixed (is_pre high) Patch
  else PreRelease.

Definition npm_diff (a b : version) : option vdiff_t :=
  match vcmp a b with
  | Eq => None
  | Gt => Some (npm_diff_hl a b)
  | Lt => Some (npm_diff_hl b a)
  end.
