(** What [SemverError::location] should return (C17): for an offset that is the byte
    length of a prefix [p] of the input, the 0-based line is the number of newlines in [p]
    and the column is the number of bytes after the last of them. *)
From Semver Require Import Base.

Fixpoint count_nl (p : str) : N :=
  match p with [] => 0 | c :: r => (if c =? 10 then 1 else 0) + count_nl r end.
(** bytes of [p] after its last newline; [acc] = bytes since the last newline so far *)
Fixpoint col_after (p : str) (acc : N) : N :=
  match p with
  | [] => acc
  | c :: r => if c =? 10 then col_after r 0 else col_after r (acc + utf8_len1 c)
  end.
Definition line_col (p : str) : N * N := (count_nl p, col_after p 0).
