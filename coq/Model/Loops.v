(** * Target vocabulary of the accumulating-loop translation (tools/translate_fn.py, class EL)

    A Rust [for] loop that builds its result in mutable locals is emitted as [fold_left] over the
    collection with those locals as state.  Two iterator adaptors need a Gallina reading of their own:
    [.filter_map(f)] when [f] can panic ([mfilter_map]: left to right, the first [Panic] wins, which is
    what the lazily driven iterator does once [.collect()] pulls every element) and [.enumerate()]. *)
From Coq Require Import List NArith.
From Semver Require Import Base.
Import ListNotations.

Fixpoint mfilter_map {A B} (f : A -> res (option B)) (l : list A) : res (list B) :=
  match l with
  | [] => Ok []
  | a :: l' =>
    rbind (f a) (fun o =>
    rbind (mfilter_map f l') (fun r =>
    Ok (match o with Some b => b :: r | None => r end)))
  end.

Fixpoint enumerate_from {A} (i : nat) (l : list A) : list (nat * A) :=
  match l with
  | [] => []
  | a :: l' => (i, a) :: enumerate_from (S i) l'
  end.
Definition enumerate {A} (l : list A) : list (nat * A) := enumerate_from 0 l.

(** what [Vec::append(&mut other)] leaves in [other] *)
Definition drained {A} (l : list A) : list A := [].
