(** Model of [Predicate], [Bound], [BoundSet] and the set-level operations of [Range]
    (src/range.rs:20-548). *)
From Semver Require Export Version.

Inductive pred : Type :=
| Excluding (v : version)
| Including (v : version)
| Unbounded.

Inductive bound : Type :=
| Lower (p : pred)
| Upper (p : pred).

(** [struct BoundSet { upper: Box<Bound>, lower: Box<Bound> }] *)
Record boundset : Type := mkBS { bs_upper : bound; bs_lower : bound }.

(** [struct Range(Vec<BoundSet>)] *)
Definition range := list boundset.

Definition flip (p : pred) : pred :=
  match p with Excluding v => Including v | Including v => Excluding v | Unbounded => Unbounded end.
Definition predicate (b : bound) : pred := match b with Lower p => p | Upper p => p end.

(** [impl Ord for Bound] (src/range.rs:255-310), one model arm per source arm, in
    source order.  [v2 <= v1] on versions is [vle v2 v1]. *)
Definition bcmp (a b : bound) : comparison :=
  match a, b with
  | Lower Unbounded, Lower Unbounded => Eq
  | Upper Unbounded, Upper Unbounded => Eq
  | Upper Unbounded, _ => Gt
  | _, Lower Unbounded => Gt
  | Lower Unbounded, _ => Lt
  | _, Upper Unbounded => Lt
  (* v1.cmp(v2) *)
  | Upper (Including v1), Upper (Including v2)
  | Upper (Including v1), Lower (Including v2)
  | Upper (Excluding v1), Upper (Excluding v2)
  | Lower (Including v1), Upper (Including v2)
  | Lower (Including v1), Lower (Including v2)
  | Lower (Excluding v1), Lower (Excluding v2) => vcmp v1 v2
  (* if v2 <= v1 { Greater } else { Less } *)
  | Lower (Excluding v1), Upper (Excluding v2)
  | Lower (Including v1), Upper (Excluding v2)
  | Upper (Including v1), Upper (Excluding v2) => if vle v2 v1 then Gt else Lt
  (* if v2 < v1 { Greater } else { Less } *)
  | Upper (Including v1), Lower (Excluding v2)
  | Lower (Excluding v1), Upper (Including v2) => if vlt v2 v1 then Gt else Lt
  (* if v1 < v2 { Less } else { Greater } *)
  | Lower (Excluding v1), Lower (Including v2) => if vlt v1 v2 then Lt else Gt
  (* if v1 <= v2 { Less } else { Greater } *)
  | Lower (Including v1), Lower (Excluding v2)
  | Upper (Excluding v1), Lower (Excluding v2)
  | Upper (Excluding v1), Lower (Including v2)
  | Upper (Excluding v1), Upper (Including v2) => if vle v1 v2 then Lt else Gt
  end.

Definition blt (a b : bound) : bool := match bcmp a b with Lt => true | _ => false end.
Definition ble (a b : bound) : bool := match bcmp a b with Gt => false | _ => true end.

(** [Ord::max(a, b)] is [if b < a { a } else { b }], [Ord::min(a, b)] is
    [if b < a { b } else { a }]. *)
Definition bmax (a b : bound) : bound := if blt b a then a else b.
Definition bmin (a b : bound) : bound := if blt b a then b else a.

(** derived [PartialEq] (versions compared by [Version::eq], which ignores build). *)
Definition pred_eqb (p q : pred) : bool :=
  match p, q with
  | Excluding a, Excluding b => veqb a b
  | Including a, Including b => veqb a b
  | Unbounded, Unbounded => true
  | _, _ => false
  end.
Definition bound_eqb (a b : bound) : bool :=
  match a, b with
  | Lower p, Lower q => pred_eqb p q
  | Upper p, Upper q => pred_eqb p q
  | _, _ => false
  end.
Definition bs_eqb (a b : boundset) : bool :=
  bound_eqb (bs_upper a) (bs_upper b) && bound_eqb (bs_lower a) (bs_lower b).
Fixpoint range_eqb (a b : range) : bool :=
  match a, b with
  | [], [] => true
  | x :: a', y :: b' => bs_eqb x y && range_eqb a' b'
  | _, _ => false
  end.

(** [BoundSet::new] (src/range.rs:27-48). *)
Definition bs_new (lower upper : bound) : option boundset :=
  match lower, upper with
  | Lower (Excluding v1), Upper (Including v2)
  | Lower (Including v1), Upper (Excluding v2) =>
    if veqb v1 v2 then None
    else if blt lower upper then Some (mkBS upper lower) else None
  | Lower (Including v1), Upper (Including v2) =>
    if veqb v1 v2 then Some (mkBS (Upper (Including v2)) (Lower (Including v1)))
    else if blt lower upper then Some (mkBS upper lower) else None
  | _, _ => if blt lower upper then Some (mkBS upper lower) else None
  end.

Definition at_least (p : pred) : option boundset := bs_new (Lower p) (Upper Unbounded).
Definition at_most (p : pred) : option boundset := bs_new (Lower Unbounded) (Upper p).
Definition exact (v : version) : option boundset :=
  bs_new (Lower (Including v)) (Upper (Including v)).

(** The shape the [unreachable!] arms rely on. *)
Definition shape_ok (bs : boundset) : bool :=
  match bs_lower bs, bs_upper bs with Lower _, Upper _ => true | _, _ => false end.

Definition same_tuple (a b : version) : bool :=
  (major a =? major b) && (minor a =? minor b) && (patch a =? patch b).

Definition lower_ok (b : bound) (v : version) : bool :=
  match b with
  | Lower (Including l) => vle l v
  | Lower (Excluding l) => vlt l v
  | _ => true
  end.
Definition upper_ok (b : bound) (v : version) : bool :=
  match b with
  | Upper (Including u) => vle v u
  | Upper (Excluding u) => vlt v u
  | _ => true
  end.
(** Bounds membership only (no prerelease gate). *)
Definition within (bs : boundset) (v : version) : bool :=
  lower_ok (bs_lower bs) v && upper_ok (bs_upper bs) v.
Definition tagged_same_tuple (b : bound) (v : version) : bool :=
  match predicate b with
  | Including w | Excluding w => is_pre w && same_tuple v w
  | Unbounded => false
  end.
Definition gate (bs : boundset) (v : version) : bool :=
  negb (is_pre v) || tagged_same_tuple (bs_lower bs) v || tagged_same_tuple (bs_upper bs) v.

(** [BoundSet::satisfies] on a well-shaped interval. *)
Definition bs_satisfies (bs : boundset) (v : version) : bool := within bs v && gate bs v.
(** ... and with its [unreachable!] arms (src/range.rs:65-128). *)
Definition bs_satisfies_p (bs : boundset) (v : version) : res bool :=
  if shape_ok bs then Ok (bs_satisfies bs v) else Panic.

Definition bs_allows_all (self other : boundset) : bool :=
  ble (bs_lower self) (bs_lower other) && ble (bs_upper other) (bs_upper self).
Definition bs_allows_any (self other : boundset) : bool :=
  if blt (bs_upper other) (bs_lower self) then false
  else if blt (bs_upper self) (bs_lower other) then false
  else true.

Definition bs_intersect (self other : boundset) : option boundset :=
  bs_new (bmax (bs_lower self) (bs_lower other)) (bmin (bs_upper self) (bs_upper other)).

(** [BoundSet::difference] (src/range.rs:153-180); [None] = nothing left,
    [Panic] = an [unwrap()] on [None]. *)
Definition bs_difference (self other : boundset) : res (option (list boundset)) :=
  match bs_intersect self other with
  | Some overlap =>
    if bs_eqb overlap self then Ok None
    else if blt (bs_lower self) (bs_lower overlap) && blt (bs_upper overlap) (bs_upper self) then
      match bs_new (bs_lower self) (Upper (flip (predicate (bs_lower overlap)))),
            bs_new (Lower (flip (predicate (bs_upper overlap)))) (bs_upper self) with
      | Some l, Some r => Ok (Some [l; r])
      | _, _ => Panic
      end
    else if blt (bs_lower self) (bs_lower overlap) then
      Ok (option_map (fun f => [f])
            (bs_new (bs_lower self) (Upper (flip (predicate (bs_lower overlap))))))
    else
      Ok (option_map (fun f => [f])
            (bs_new (Lower (flip (predicate (bs_upper overlap)))) (bs_upper self)))
  | None => Ok (Some [self])
  end.

(** [Display for BoundSet] (src/range.rs:183-201). *)
Definition op_gte : str := [62; 61].
Definition op_lte : str := [60; 61].
Definition bs_print (bs : boundset) : res str :=
  match bs_lower bs, bs_upper bs with
  | Lower Unbounded, Upper Unbounded => Ok [42]
  | Lower Unbounded, Upper (Including v) => Ok (op_lte ++ vprint v)
  | Lower Unbounded, Upper (Excluding v) => Ok (60 :: vprint v)
  | Lower (Including v), Upper Unbounded => Ok (op_gte ++ vprint v)
  | Lower (Excluding v), Upper Unbounded => Ok (62 :: vprint v)
  | Lower (Including v), Upper (Including v2) =>
    if veqb v v2 then Ok (vprint v)
    else Ok (op_gte ++ vprint v ++ 32 :: op_lte ++ vprint v2)
  | Lower (Including v), Upper (Excluding v2) => Ok (op_gte ++ vprint v ++ 32 :: 60 :: vprint v2)
  | Lower (Excluding v), Upper (Including v2) => Ok (62 :: vprint v ++ 32 :: op_lte ++ vprint v2)
  | Lower (Excluding v), Upper (Excluding v2) => Ok (62 :: vprint v ++ 32 :: 60 :: vprint v2)
  | _, _ => Panic
  end.

(** * Range level (src/range.rs:357-548) *)

(** [Range::any()]: [BoundSet::new(..).unwrap()]. *)
Definition r_any : res range :=
  match bs_new (Lower Unbounded) (Upper Unbounded) with Some b => Ok [b] | None => Panic end.

Definition r_satisfies (r : range) (v : version) : bool := existsb (fun bs => bs_satisfies bs v) r.
Fixpoint r_satisfies_p (r : range) (v : version) : res bool :=
  match r with
  | [] => Ok false
  | bs :: r' =>
    match bs_satisfies_p bs v with
    | Ok true => Ok true
    | Ok false => r_satisfies_p r' v
    | Panic => Panic
    end
  end.
Definition r_within (r : range) (v : version) : bool := existsb (fun bs => within bs v) r.

Definition r_allows_all (self other : range) : bool :=
  existsb (fun this => existsb (fun that => bs_allows_all this that) other) self.
Definition r_allows_any (self other : range) : bool :=
  existsb (fun this => existsb (fun that => bs_allows_any this that) other) self.

Definition opt_to_list {A} (o : option A) : list A := match o with Some a => [a] | None => [] end.
Definition nonempty {A} (l : list A) : option (list A) := match l with [] => None | _ => Some l end.

(** [Range::intersect]: pairwise product, [None] when nothing is left. *)
Definition r_intersect_list (self other : range) : list boundset :=
  flat_map (fun lefty => flat_map (fun righty => opt_to_list (bs_intersect lefty righty)) other) self.
Definition r_intersect (self other : range) : option range := nonempty (r_intersect_list self other).

(** [Range::difference] (after the repair): every left alternative is cut by all right
    alternatives in turn. *)
Fixpoint cut_pieces (pieces : list boundset) (righty : boundset) : res (list boundset) :=
  match pieces with
  | [] => Ok []
  | p :: ps =>
    rbind (bs_difference p righty) (fun d =>
    rbind (cut_pieces ps righty) (fun rest =>
    Ok (match d with Some l => l ++ rest | None => rest end)))
  end.
Fixpoint cut_all (pieces : list boundset) (other : range) : res (list boundset) :=
  match other with
  | [] => Ok pieces
  | righty :: other' => rbind (cut_pieces pieces righty) (fun ps => cut_all ps other')
  end.
Fixpoint r_difference_list (self other : range) : res (list boundset) :=
  match self with
  | [] => Ok []
  | lefty :: self' =>
    rbind (cut_all [lefty] other) (fun rem =>
    rbind (r_difference_list self' other) (fun rest => Ok (rem ++ rest)))
  end.
Definition r_difference (self other : range) : res (option range) :=
  rmap nonempty (r_difference_list self other).

(** [max_satisfying] / [min_satisfying]. *)
Definition r_max_satisfying (r : range) (l : list version) : option version :=
  iter_max (filter (r_satisfies r) l).
Definition r_min_satisfying (r : range) (l : list version) : option version :=
  iter_min (filter (r_satisfies r) l).

(** [Range::min_version] (after the repair). *)
Definition push0 (v : version) : version :=
  mkV (major v) (minor v) (patch v) (build v) (pre v ++ [Num 0]).
Definition bump_patch (v : version) : version :=
  mkV (major v) (minor v) (patch v + 1) (build v) (pre v).
Definition min_candidates (bs : boundset) : list version :=
  match bs_lower bs with
  | Lower (Including v) => [v]
  | Lower (Excluding v) =>
    if is_pre v then [push0 v]
    else let next := bump_patch v in [push0 next; next]
  | _ => [mkV 0 0 0 [] [Num 0]; mkV 0 0 0 [] []]
  end.
Definition bs_min (bs : boundset) : option version :=
  find (bs_satisfies bs) (min_candidates bs).
Definition r_min_version (r : range) : option version :=
  iter_min (flat_map (fun bs => opt_to_list (bs_min bs)) r).

(** [Display for Range]: alternatives joined by "||". *)
Fixpoint r_print_tail (r : range) : res str :=
  match r with
  | [] => Ok []
  | bs :: r' =>
    rbind (bs_print bs) (fun s => rbind (r_print_tail r') (fun t => Ok (124 :: 124 :: s ++ t)))
  end.
Definition r_print (r : range) : res str :=
  match r with
  | [] => Ok []
  | bs :: r' => rbind (bs_print bs) (fun s => rbind (r_print_tail r') (fun t => Ok (s ++ t)))
  end.
