(** winnow 0.6 parser combinators as used by the range grammar of src/range.rs, over the
    model's strings.  A parser is [str -> option (A * str)]: [None] is winnow's
    [ErrMode::Backtrack] (inside the range grammar every error is a backtrack that some
    [alt] / [opt] / [separated] swallows; no parser of that grammar raises [Cut]).
    Each definition is the documented behaviour of the combinator of the same name; the
    range-grammar functions that tools/translate_p.py regenerates from the source are terms
    over these combinators, and are proved equal to the hand-written model (Model/RParse.v). *)
From Semver Require Export VParse Range RParse.

Definition parser (A : Type) : Type := str -> option (A * str).

Definition p_map {A B} (p : parser A) (f : A -> B) : parser B :=
  fun s => match p s with Some (a, r) => Some (f a, r) | None => None end.
Definition p_bind {A B} (p : parser A) (f : A -> parser B) : parser B :=
  fun s => match p s with Some (a, r) => f a r | None => None end.
Definition p_ret {A} (a : A) : parser A := fun s => Some (a, s).

(** [literal("..")] *)
Definition p_literal (l : str) : parser unit :=
  fun s => match lit l s with Some r => Some (tt, r) | None => None end.
(** [space0] never fails; [space1] needs one blank; [eof]; [any] takes one scalar *)
Definition p_space0 : parser unit := fun s => Some (tt, space0 s).
Definition p_space1 : parser unit := fun s => match space1 s with Some r => Some (tt, r) | None => None end.
Definition p_eof : parser unit := fun s => match s with [] => Some (tt, []) | _ :: _ => None end.
Definition p_any : parser N := fun s => match s with c :: r => Some (c, r) | [] => None end.

(** [opt(p)]: resets on failure *)
Definition p_opt {A} (p : parser A) : parser (option A) :=
  fun s => match p s with Some (a, r) => Some (Some a, r) | None => Some (None, s) end.
(** [alt((p1, p2, ..))]: the first that succeeds, each tried from the same position *)
Fixpoint p_alt {A} (ps : list (parser A)) : parser A :=
  fun s => match ps with
           | [] => None
           | p :: ps' => match p s with Some x => Some x | None => p_alt ps' s end
           end.
(** [peek(p)]: the result of [p] without consuming *)
Definition p_peek {A} (p : parser A) : parser A :=
  fun s => match p s with Some (a, _) => Some (a, s) | None => None end.
(** tuples of parsers run in sequence *)
Definition p_pair {A B} (p : parser A) (q : parser B) : parser (A * B) :=
  fun s => match p s with
           | Some (a, r) => match q r with Some (b, r') => Some ((a, b), r') | None => None end
           | None => None
           end.
Definition p_preceded {A B} (p : parser A) (q : parser B) : parser B := p_map (p_pair p q) snd.
Definition p_terminated {A B} (p : parser A) (q : parser B) : parser A := p_map (p_pair p q) fst.
Definition p_delimited {A B C} (p : parser A) (q : parser B) (r : parser C) : parser B :=
  p_preceded p (p_terminated q r).

(** [separated(0.., elem, sep)]: zero or more; after each element the separator is tried, and
    when the element after a separator fails the input is reset to before that separator.
    [fuel] bounds the iterations (winnow itself asserts progress). *)
Fixpoint p_sep_tail {A B} (fuel : nat) (elem : parser A) (sep : parser B) : parser (list A) :=
  fun s => match sep s with
           | None => Some ([], s)
           | Some (_, s1) =>
             match fuel with
             | O => None
             | S f =>
               match elem s1 with
               | None => Some ([], s)
               | Some (a, s2) =>
                 match p_sep_tail f elem sep s2 with
                 | Some (l, r) => Some (a :: l, r)
                 | None => None
                 end
               end
             end
           end.
Definition p_separated0 {A B} (elem : parser A) (sep : parser B) : parser (list A) :=
  fun s => match elem s with
           | None => Some ([], s)
           | Some (a, s1) =>
             match p_sep_tail (length s1) elem sep s1 with
             | Some (l, r) => Some (a :: l, r)
             | None => None
             end
           end.

(** [repeat_till(0.., p, stop)]: [stop] is tried before every [p]; the values of [p] are dropped here *)
Fixpoint p_repeat_till {A B} (fuel : nat) (p : parser A) (stop : parser B) : parser B :=
  fun s => match stop s with
           | Some x => Some x
           | None =>
             match fuel with
             | O => None
             | S f => match p s with Some (_, r) => p_repeat_till f p stop r | None => None end
             end
           end.
Definition p_repeat_till0 {A B} (p : parser A) (stop : parser B) : parser B :=
  fun s => p_repeat_till (S (length s)) p stop s.
