(** Model of [Version], [Identifier], their [Ord]/[PartialEq]/[Hash]/[Display],
    [Version::diff] and the tuple conversions (src/lib.rs). *)
From Semver Require Export Base.
From Coq Require Import ZArith.

(** [enum Identifier { Numeric(u64), AlphaNumeric(String) }] *)
Inductive ident : Type :=
| Num (n : N)
| Alpha (s : str).

(** [struct Version { major, minor, patch, build, pre_release }] *)
Record version : Type := mkV {
  major : N; minor : N; patch : N;
  build : list ident;
  pre : list ident
}.

(** Lexicographic order on lists, a strict prefix being lower
    ([Vec<T>: Ord], [String: Ord]). *)
Section Lex.
  Context {A : Type} (c : A -> A -> comparison).
  Fixpoint lex (x y : list A) : comparison :=
    match x, y with
    | [], [] => Eq
    | [], _ :: _ => Lt
    | _ :: _, [] => Gt
    | a :: x', b :: y' => match c a b with Eq => lex x' y' | r => r end
    end.
End Lex.

Definition scmp : str -> str -> comparison := lex N.compare.

(** derived [Ord] on [Identifier]: variant order Numeric < AlphaNumeric. *)
Definition icmp (a b : ident) : comparison :=
  match a, b with
  | Num x, Num y => N.compare x y
  | Num _, Alpha _ => Lt
  | Alpha _, Num _ => Gt
  | Alpha s, Alpha t => scmp s t
  end.

(** The [match (self.pre_release.len(), other.pre_release.len())] of [Ord for Version]. *)
Definition pcmp (a b : list ident) : comparison :=
  match a, b with
  | [], [] => Eq
  | [], _ :: _ => Gt
  | _ :: _, [] => Lt
  | _ :: _, _ :: _ => lex icmp a b
  end.

(** [impl Ord for Version] (src/lib.rs:579-610). *)
Definition vcmp (a b : version) : comparison :=
  match N.compare (major a) (major b) with
  | Eq =>
    match N.compare (minor a) (minor b) with
    | Eq =>
      match N.compare (patch a) (patch b) with
      | Eq => pcmp (pre a) (pre b)
      | r => r
      end
    | r => r
    end
  | r => r
  end.

Definition vlt (a b : version) : bool := match vcmp a b with Lt => true | _ => false end.
Definition vle (a b : version) : bool := match vcmp a b with Gt => false | _ => true end.

(** derived [PartialEq] on [Identifier]; [impl PartialEq for Version] ignores [build]. *)
Definition ident_eqb (a b : ident) : bool :=
  match a, b with
  | Num x, Num y => x =? y
  | Alpha s, Alpha t => str_eqb s t
  | _, _ => false
  end.
Fixpoint idents_eqb (a b : list ident) : bool :=
  match a, b with
  | [], [] => true
  | x :: a', y :: b' => ident_eqb x y && idents_eqb a' b'
  | _, _ => false
  end.
Definition veqb (a b : version) : bool :=
  (major a =? major b) && (minor a =? minor b) && (patch a =? patch b)
  && idents_eqb (pre a) (pre b).

(** Equality on all five fields (what C12 compares). *)
Definition veqb_full (a b : version) : bool :=
  veqb a b && idents_eqb (build a) (build b).

(** What [impl Hash for Version] feeds to the hasher. *)
Definition hash_key (a : version) : N * N * N * list ident :=
  (major a, minor a, patch a, pre a).

Definition is_pre (v : version) : bool :=
  match pre v with [] => false | _ :: _ => true end.

(** [enum VersionDiff] and [Version::diff] (src/lib.rs:379-445). *)
Inductive vdiff_t := Major | Minor | Patch | PreMajor | PreMinor | PrePatch | PreRelease.

Definition vdiff (self other : version) : option vdiff_t :=
  match vcmp self other with
  | Eq => None
  | c =>
    let self_higher := match c with Gt => true | _ => false end in
    let high := if self_higher then self else other in
    let low := if self_higher then other else self in
    let high_has_pre := is_pre high in
    let low_has_pre := is_pre low in
    if low_has_pre && negb high_has_pre then
      if (patch low =? 0) && (minor low =? 0) then Some Major
      else if negb (patch high =? 0) then Some Patch
      else if negb (minor high =? 0) then Some Minor
      else Some Major
    else if negb (major self =? major other) then
      Some (if high_has_pre then PreMajor else Major)
    else if negb (minor self =? minor other) then
      Some (if high_has_pre then PreMinor else Minor)
    else if negb (patch self =? patch other) then
      Some (if high_has_pre then PrePatch else Patch)
    else Some PreRelease
  end.

(** [Display]. *)
Definition print_ident (i : ident) : str :=
  match i with Num n => print_N n | Alpha s => s end.
Fixpoint print_idents_tail (l : list ident) : str :=
  match l with
  | [] => []
  | i :: r => 46 :: print_ident i ++ print_idents_tail r   (* "." *)
  end.
Definition print_idents (lead : N) (l : list ident) : str :=
  match l with
  | [] => []
  | i :: r => lead :: print_ident i ++ print_idents_tail r
  end.
Definition vprint (v : version) : str :=
  print_N (major v) ++ 46 :: print_N (minor v) ++ 46 :: print_N (patch v)
  ++ print_idents 45 (pre v) ++ print_idents 43 (build v).   (* "-" , "+" *)

(** Tuple conversions: [x as u64] on a (possibly signed) integer. *)
Definition cast_u64 (x : Z) : N := Z.to_N (Z.modulo x 18446744073709551616%Z).
Definition from3 (a b c : Z) : version :=
  mkV (cast_u64 a) (cast_u64 b) (cast_u64 c) [] [].
Definition from4 (a b c d : Z) : version :=
  mkV (cast_u64 a) (cast_u64 b) (cast_u64 c) [] [Num (cast_u64 d)].

(** [Iterator::max] keeps the last maximal element, [Iterator::min] the first minimal
    one ([reduce] with [cmp::max_by]/[cmp::min_by]). *)
Definition vmax2 (x y : version) : version := match vcmp x y with Gt => x | _ => y end.
Definition vmin2 (x y : version) : version := match vcmp x y with Gt => y | _ => x end.
Definition iter_max (l : list version) : option version :=
  match l with [] => None | x :: r => Some (fold_left vmax2 r x) end.
Definition iter_min (l : list version) : option version :=
  match l with [] => None | x :: r => Some (fold_left vmin2 r x) end.

(** [slice::sort] is a stable sort; on a total preorder its result is the stable
    insertion sort. *)
Fixpoint vinsert (x : version) (l : list version) : list version :=
  match l with
  | [] => [x]
  | y :: r => if vle x y then x :: l else y :: vinsert x r
  end.
Fixpoint vsort (l : list version) : list version :=
  match l with [] => [] | x :: r => vinsert x (vsort r) end.
