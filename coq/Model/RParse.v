(** Model of the range grammar and [Range::parse] (src/range.rs:361-385, 595-1125). *)
From Semver Require Export VParse Range.

(** [struct Partial] *)
Record partial_t : Type := mkP {
  p_major : option N; p_minor : option N; p_patch : option N;
  p_pre : list ident; p_build : list ident
}.

Definition unwrap0 (o : option N) : N := match o with Some n => n | None => 0 end.
(** [impl From<Partial> for Version] *)
Definition partial_into (p : partial_t) : version :=
  mkV (unwrap0 (p_major p)) (unwrap0 (p_minor p)) (unwrap0 (p_patch p)) (p_build p) (p_pre p).

Definition v3 (a b c : N) : version := mkV a b c [] [].
Definition v4 (a b c d : N) : version := mkV a b c [] [Num d].

Inductive operation := OpExact | OpGT | OpGTE | OpLT | OpLTE.

(** ** Desugaring tables (the [match] bodies) *)

(** [primitive()] (src/range.rs, after the repairs), arms in source order. *)
Definition primitive_tbl (op : operation) (p : partial_t) : option boundset :=
  match op, p_major p, p_minor p, p_patch p with
  | (OpGT | OpLT), None, _, _ => at_most (Excluding (v4 0 0 0 0))
  | (OpLTE | OpExact), None, _, _ => at_least (Including (v3 0 0 0))
  | OpGTE, _, _, _ => at_least (Including (partial_into p))
  | OpGT, Some ma, Some mi, None => at_least (Including (v3 ma (mi + 1) 0))
  | OpGT, Some ma, None, None => at_least (Including (v3 (ma + 1) 0 0))
  | OpGT, _, _, _ => at_least (Excluding (partial_into p))
  | OpLT, Some ma, Some mi, None => at_most (Excluding (v4 ma mi 0 0))
  | OpLT, ma, mi, pa => at_most (Excluding (mkV (unwrap0 ma) (unwrap0 mi) (unwrap0 pa) (p_build p) (p_pre p)))
  | OpLTE, ma, None, None => at_most (Including (v3 (unwrap0 ma) MAX_SAFE_INTEGER MAX_SAFE_INTEGER))
  | OpLTE, ma, mi, None => at_most (Including (v3 (unwrap0 ma) (unwrap0 mi) MAX_SAFE_INTEGER))
  | OpLTE, _, _, _ => at_most (Including (partial_into p))
  | OpExact, Some ma, Some mi, Some pa => exact (mkV ma mi pa [] (p_pre p))
  | OpExact, Some ma, Some mi, _ =>
    bs_new (Lower (Including (v3 ma mi 0))) (Upper (Excluding (v4 ma (mi + 1) 0 0)))
  | OpExact, Some ma, _, _ =>
    bs_new (Lower (Including (v3 ma 0 0))) (Upper (Excluding (v4 (ma + 1) 0 0 0)))
  end.

(** [partial()] *)
Definition partial_tbl (p : partial_t) : option boundset :=
  match p_major p, p_minor p, p_patch p with
  | None, _, _ => at_least (Including (v3 0 0 0))
  | Some ma, None, _ =>
    bs_new (Lower (Including (v3 ma 0 0))) (Upper (Excluding (v4 (ma + 1) 0 0 0)))
  | Some ma, Some mi, None =>
    bs_new (Lower (Including (v3 ma mi 0))) (Upper (Excluding (v4 ma (mi + 1) 0 0)))
  | _, _, _ => exact (partial_into p)
  end.

(** [tilde()]; [gt] = whether "~>" was written. *)
Definition tilde_tbl (gt : bool) (p : partial_t) : option boundset :=
  match gt, p_major p, p_minor p, p_patch p with
  | _, None, _, _ => at_least (Including (v3 0 0 0))
  | true, Some ma, None, None =>
    bs_new (Lower (Including (v3 ma 0 0))) (Upper (Excluding (v4 (ma + 1) 0 0 0)))
  | true, Some ma, Some mi, pa =>
    bs_new (Lower (Including (mkV ma mi (unwrap0 pa) [] (p_pre p))))
           (Upper (Excluding (v4 ma (mi + 1) 0 0)))
  | false, Some ma, Some mi, Some pa =>
    bs_new (Lower (Including (mkV ma mi pa [] (p_pre p))))
           (Upper (Excluding (v4 ma (mi + 1) 0 0)))
  | false, Some ma, Some mi, None =>
    bs_new (Lower (Including (v3 ma mi 0))) (Upper (Excluding (v4 ma (mi + 1) 0 0)))
  | false, Some ma, None, None =>
    bs_new (Lower (Including (v3 ma 0 0))) (Upper (Excluding (v4 (ma + 1) 0 0 0)))
  | _, _, _, _ => None
  end.

(** [caret()] *)
Definition caret_upper (ma mi pa : N) : version :=
  if ma =? 0 then
    if mi =? 0 then v4 0 0 (pa + 1) 0 else v4 0 (mi + 1) 0 0
  else v4 (ma + 1) 0 0 0.
Definition caret_tbl (p : partial_t) : option boundset :=
  match p_major p, p_minor p, p_patch p with
  | None, _, _ => at_least (Including (v3 0 0 0))
  | Some 0, None, None => at_most (Excluding (v4 1 0 0 0))
  | Some 0, Some mi, None =>
    bs_new (Lower (Including (v3 0 mi 0))) (Upper (Excluding (v4 0 (mi + 1) 0 0)))
  | Some ma, None, None =>
    bs_new (Lower (Including (v3 ma 0 0))) (Upper (Excluding (v4 (ma + 1) 0 0 0)))
  | Some ma, Some mi, None =>
    bs_new (Lower (Including (v3 ma mi 0))) (Upper (Excluding (v4 (ma + 1) 0 0 0)))
  | Some ma, Some mi, Some pa =>
    bs_new (Lower (Including (mkV ma mi pa [] (p_pre p))))
           (Upper (Excluding (caret_upper ma mi pa)))
  | _, _, _ => None
  end.

(** [hyphen()]: upper predicate, then the three-way construction. *)
Definition hyphen_upper (p : partial_t) : pred :=
  match p_major p, p_minor p, p_patch p with
  | None, None, None => Unbounded
  | Some ma, None, None => Excluding (v4 (ma + 1) 0 0 0)
  | Some ma, Some mi, None => Excluding (v4 ma (mi + 1) 0 0)
  | _, _, _ => Including (partial_into p)
  end.
Definition pred_is_unbounded (p : pred) : bool := match p with Unbounded => true | _ => false end.
Definition hyphen_tbl (lower upper : partial_t) : option boundset :=
  bs_new (Lower (Including (partial_into lower))) (Upper (hyphen_upper upper)).

(** The fold of [range()] (after the repair): conjunction of the comparators of one
    alternative; an empty conjunction contributes no alternative. *)
Definition and_fold (comps : list boundset) : list boundset :=
  match comps with
  | [] => []
  | first :: rest =>
    opt_to_list
      (fold_left (fun acc bs => match acc with Some a => bs_intersect a bs | None => None end)
                 rest (Some first))
  end.
Fixpoint flatten_opts {A} (l : list (option A)) : list A :=
  match l with
  | [] => []
  | Some a :: r => a :: flatten_opts r
  | None :: r => flatten_opts r
  end.

(** ** Character level *)

(** [number()] with its errors dropped (inside the range grammar every error is a
    backtrack that some [alt]/[opt] swallows). *)
Definition number_o (s : str) : option (N * str) :=
  match number s with POk n r => Some (n, r) | PErr _ => None end.

(** [component()]: [alt((x_or_asterisk -> None, number -> Some))]. *)
Definition is_wild (c : N) : bool := (c =? 120) || (c =? 88) || (c =? 42).
Definition component (s : str) : option (option N * str) :=
  match s with
  | c :: r =>
    if is_wild c then Some (None, r)
    else match number_o s with Some (n, r') => Some (Some n, r') | None => None end
  | [] => None
  end.

(** [opt(preceded(literal("."), component))] *)
Definition opt_dot_component (s : str) : option (option N) * str :=
  match lit1 46 s with
  | Some r =>
    match component r with
    | Some (c, r') => (Some c, r')
    | None => (None, s)
    end
  | None => (None, s)
  end.

Definition opt_flatten {A} (o : option (option A)) : option A :=
  match o with Some x => x | None => None end.
Definition opt_and {A B} (a : option A) (b : option B) : option B :=
  match a with Some _ => b | None => None end.

(** [partial_version()] (after the repair: components after a wildcard are wildcards). *)
Definition partial_version (s : str) : option (partial_t * str) :=
  let s1 := opt_lit1 118 s in
  let s2 := space0 s1 in
  match component s2 with
  | None => None
  | Some (ma, s3) =>
    let '(mi, s4) := opt_dot_component s3 in
    let '(pa, s5) := opt_dot_component s4 in
    let '(pre0, bld0, s6) :=
      match pa with Some _ => extras s5 | None => ([], [], s5) end in
    let mi' := opt_and ma (opt_flatten mi) in
    let pa' := opt_and mi' (opt_flatten pa) in
    let '(pre1, bld1) := match pa' with Some _ => (pre0, bld0) | None => ([], []) end in
    Some (mkP ma mi' pa' pre1 bld1, s6)
  end.

(** [operation()]: [alt((">=", ">", "=", "<=", "<"))]. *)
Definition operation_p (s : str) : option (operation * str) :=
  match lit [62; 61] s with Some r => Some (OpGTE, r) | None =>
  match lit1 62 s with Some r => Some (OpGT, r) | None =>
  match lit1 61 s with Some r => Some (OpExact, r) | None =>
  match lit [60; 61] s with Some r => Some (OpLTE, r) | None =>
  match lit1 60 s with Some r => Some (OpLT, r) | None => None
  end end end end end.

Definition primitive_p (s : str) : option (option boundset * str) :=
  match operation_p s with
  | Some (op, r) =>
    match partial_version (space0 r) with
    | Some (p, r') => Some (primitive_tbl op p, r')
    | None => None
    end
  | None => None
  end.

Definition partial_p (s : str) : option (option boundset * str) :=
  match partial_version s with
  | Some (p, r) => Some (partial_tbl p, r)
  | None => None
  end.

(** [tilde_gt()]: "~", [space0], [opt(">")], [space0]. *)
Definition tilde_p (s : str) : option (option boundset * str) :=
  match lit1 126 s with
  | Some r =>
    let r1 := space0 r in
    let '(gt, r2) := match lit1 62 r1 with Some r' => (true, r') | None => (false, r1) end in
    match partial_version (space0 r2) with
    | Some (p, r') => Some (tilde_tbl gt p, r')
    | None => None
    end
  | None => None
  end.

Definition caret_p (s : str) : option (option boundset * str) :=
  match lit1 94 s with
  | Some r =>
    match partial_version (space0 r) with
    | Some (p, r') => Some (caret_tbl p, r')
    | None => None
    end
  | None => None
  end.

(** [hyphen()]: [partial_version], [space1], "-", [space1], [partial_version]
    (after the repair: the lower partial version is mandatory). *)
Definition hyphen_p (s : str) : option (option boundset * str) :=
  match partial_version s with
  | None => None
  | Some (lower, s1) =>
    match space1 s1 with
    | None => None
    | Some s2 =>
      match lit1 45 s2 with
      | Some s3 =>
        match space1 s3 with
        | None => None
        | Some s4 =>
          match partial_version s4 with
          | Some (up, r) => Some (hyphen_tbl lower up, r)
          | None => None
          end
        end
      | None => None
      end
    end
  end.

(** [peek(alt((space1, literal("||"), eof)))] *)
Definition at_term (s : str) : bool :=
  match s with
  | [] => true
  | c :: r => is_space c || match lit [124; 124] s with Some _ => true | None => false end
  end.

(** [garbage()]: [repeat_till(0.., any, ...)] consumes scalars up to the terminator. *)
Fixpoint garbage (s : str) : str :=
  if at_term s then s else match s with [] => [] | _ :: r => garbage r end.

Definition terminated_p (p : str -> option (option boundset * str)) (s : str)
  : option (option boundset * str) :=
  match p s with
  | Some (b, r) => if at_term r then Some (b, r) else None
  | None => None
  end.

(** [simple()]: never fails. *)
Definition simple (s : str) : option boundset * str :=
  match terminated_p primitive_p s with
  | Some x => x
  | None =>
  match terminated_p partial_p s with
  | Some x => x
  | None =>
  match terminated_p tilde_p s with
  | Some x => x
  | None =>
  match terminated_p caret_p s with
  | Some x => x
  | None => (None, garbage s)
  end end end end.

(** [separated(0.., simple, space1)]; [None] = out of fuel (proved impossible with
    fuel [length s]: every iteration consumes at least one blank). *)
Fixpoint simples_tail (fuel : nat) (s : str) : option (list (option boundset) * str) :=
  match space1 s with
  | None => Some ([], s)
  | Some s1 =>
    match fuel with
    | O => None
    | S f =>
      let '(b, s2) := simple s1 in
      match simples_tail f s2 with
      | Some (l, r) => Some (b :: l, r)
      | None => None
      end
    end
  end.
Definition simples_p (s : str) : option (list boundset * str) :=
  let '(b, s1) := simple s in
  match simples_tail (length s1) s1 with
  | Some (l, r) => Some (and_fold (flatten_opts (b :: l)), r)
  | None => None
  end.

(** [peek((space0, alt((literal("||"), eof))))]: what must follow a hyphen range *)
Definition at_alt_end (s : str) : bool :=
  match space0 s with
  | [] => true
  | r => match lit [124; 124] r with Some _ => true | None => false end
  end.

(** [peek(alt((literal("||"), eof)))]: nothing is written in this alternative *)
Definition at_empty_alt (s : str) : bool :=
  match s with
  | [] => true
  | _ => match lit [124; 124] s with Some _ => true | None => false end
  end.
(** the empty alternative is [*], i.e. what the partial version [*] gives: [>=0.0.0] *)
Definition star_bs : option boundset := at_least (Including (v3 0 0 0)).

(** [range()] (after the repairs): leading blanks are skipped; an empty alternative is [*];
    a hyphen range is a whole alternative; otherwise a blank-separated comparator set. *)
Definition range_p (s0 : str) : option (list boundset * str) :=
  let s := space0 s0 in
  if at_empty_alt s then Some (opt_to_list star_bs, s)
  else
  match hyphen_p s with
  | Some (b, r) => if at_alt_end r then Some (opt_to_list b, r) else simples_p s
  | None => simples_p s
  end.

(** [logical_or()]: [delimited(space0, literal("||"), space0)]. *)
Definition logical_or (s : str) : option str :=
  match lit [124; 124] (space0 s) with
  | Some r => Some (space0 r)
  | None => None
  end.

(** [separated(0.., range, logical_or)] + flatten. *)
Fixpoint ranges_tail (fuel : nat) (s : str) : option (list boundset * str) :=
  match logical_or s with
  | None => Some ([], s)
  | Some s1 =>
    match fuel with
    | O => None
    | S f =>
      match range_p s1 with
      | None => None
      | Some (bs, s2) =>
        match ranges_tail f s2 with
        | Some (l, r) => Some (bs ++ l, r)
        | None => None
        end
      end
    end
  end.
Definition bound_sets (s : str) : option (list boundset * str) :=
  match range_p s with
  | None => None
  | Some (bs, s1) =>
    match ranges_tail (length s1) s1 with
    | Some (l, r) => Some (bs ++ l, r)
    | None => None
    end
  end.

(** [Range::parse]: [Ok] range, [Err] (always NoValidRanges at offset 0 of the whole
    input), or [OutOfFuel] (proved unreachable). *)
Inductive rparse_res :=
| ROk (r : range)
| RErr (e : semver_error)
| ROutOfFuel.
Definition r_parse (s : str) : rparse_res :=
  match bound_sets s with
  | None => ROutOfFuel
  | Some ([], _) => RErr (mkErr s 0 KNoValidRanges)
  | Some (sets, _) => ROk sets
  end.
