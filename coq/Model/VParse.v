(** Model of the version grammar and [Version::parse] (src/lib.rs:339-371, 633-727),
    including winnow's error bookkeeping: which slice an error carries, which
    context wins, and how [SemverError] turns that into input/offset/kind. *)
From Semver Require Export Version.

(** [SemverErrorKind].  [Context] only ever surfaces with the outermost context of the
    failing parser, so it carries that context's name. *)
Inductive ctx := CVersion | CVersionCore | CNumber | CIdentifier | CBuild | CPreRelease.
Inductive ekind :=
| KMaxLength | KIncomplete | KParseInt | KMaxInt (n : N)
| KContext (c : ctx) | KNoValidRanges | KOther.

(** [SemverParseError<&str>]: the slice where the error was raised (its length gives the
    offset), the last context added, the specific kind if any. *)
Record perr := mkPE { pe_rest : str; pe_ctx : option ctx; pe_kind : option ekind }.

Inductive pr (A : Type) : Type :=
| POk (a : A) (rest : str)
| PErr (e : perr).
Arguments POk {A} a rest.
Arguments PErr {A} e.

(** [.context(c)]: [add_context] overwrites the context (the outermost one wins). *)
Definition with_ctx {A} (c : ctx) (x : pr A) : pr A :=
  match x with
  | POk a r => POk a r
  | PErr e => PErr (mkPE (pe_rest e) (Some c) (pe_kind e))
  end.
(** [ParserError::from_error_kind(input, _)]. *)
Definition perr_at (s : str) : perr := mkPE s None None.

(** [number()] (src/lib.rs:704-727): [digit1], [str::parse::<u64>], cap at
    MAX_SAFE_INTEGER; both external errors carry the slice at the first digit. *)
Definition number (s : str) : pr N :=
  with_ctx CNumber
  (let '(ds, rest) := span is_digit s in
   match ds with
   | [] => PErr (perr_at s)
   | _ :: _ =>
     let v := dec_value ds in
     if U64_LIMIT <=? v then PErr (mkPE s None (Some KParseInt))
     else if MAX_SAFE_INTEGER <? v then PErr (mkPE s None (Some (KMaxInt v)))
     else POk v rest
   end).

(** [identifier()] (src/lib.rs:691-702): [str::parse::<u64>] succeeds exactly on a
    non-empty all-digit string whose value fits ('+' and '-' signs: '+' is not an
    identifier character and "-5" is not a valid u64). *)
Definition classify (s : str) : ident :=
  if forallb is_digit s && (dec_value s <? U64_LIMIT) then Num (dec_value s) else Alpha s.
Definition identifier (s : str) : option (ident * str) :=
  let '(cs, rest) := span is_ident_char s in
  match cs with
  | [] => None
  | _ :: _ => Some (classify cs, rest)
  end.

(** [separated(1.., identifier, literal("."))]: stops (and un-reads the '.') when no
    identifier follows a '.'.  Fuel bounds the number of iterations; every iteration
    consumes at least the '.', so [length s] is enough. *)
Fixpoint idents_tail (fuel : nat) (s : str) : list ident * str :=
  match fuel with
  | O => ([], s)
  | S f =>
    match lit1 46 s with
    | Some r =>
      match identifier r with
      | Some (i, r') => let '(l, r'') := idents_tail f r' in (i :: l, r'')
      | None => ([], s)
      end
    | None => ([], s)
    end
  end.
Definition idents1 (s : str) : option (list ident * str) :=
  match identifier s with
  | Some (i, r) => let '(l, r') := idents_tail (length r) r in Some (i :: l, r')
  | None => None
  end.

(** [pre_release()]: [preceded(opt(literal("-")), separated(1.., ..))]. *)
Definition pre_release (s : str) : option (list ident * str) :=
  idents1 (opt_lit1 45 s).
(** [build()]: [preceded(literal("+"), separated(1.., ..))]. *)
Definition build_meta (s : str) : option (list ident * str) :=
  match lit1 43 s with Some r => idents1 r | None => None end.

(** [extras()]: [opt(alt(((pre_release, build), pre_release, build)))]; never fails. *)
Definition extras (s : str) : list ident * list ident * str :=
  match pre_release s with
  | Some (p, r) =>
    match build_meta r with
    | Some (b, r') => (p, b, r')
    | None => (p, [], r)
    end
  | None =>
    match build_meta s with
    | Some (b, r) => ([], b, r)
    | None => ([], [], s)
    end
  end.

Definition dot (s : str) : pr unit :=
  match lit1 46 s with Some r => POk tt r | None => PErr (perr_at s) end.

(** [version_core()]. *)
Definition version_core (s : str) : pr (N * N * N) :=
  with_ctx CVersionCore
  (match number s with
   | PErr e => PErr e
   | POk ma s1 =>
     match dot s1 with
     | PErr e => PErr e
     | POk _ s2 =>
       match number s2 with
       | PErr e => PErr e
       | POk mi s3 =>
         match dot s3 with
         | PErr e => PErr e
         | POk _ s4 =>
           match number s4 with
           | PErr e => PErr e
           | POk pa s5 => POk (ma, mi, pa) s5
           end
         end
       end
     end
   end).

(** [version()]: [opt(alt(("v","V")))], [space0], core, extras. *)
Definition version_p (s : str) : pr version :=
  with_ctx CVersion
  (let s1 := match lit1 118 s with Some r => r | None => opt_lit1 86 s end in
   let s2 := space0 s1 in
   match version_core s2 with
   | PErr e => PErr e
   | POk (ma, mi, pa) s3 =>
     let '(p, b, s4) := extras s3 in
     POk (mkV ma mi pa b p) s4
   end).

(** [terminated(version, (space0, eof))]. *)
Definition version_eof (s : str) : pr version :=
  match version_p s with
  | PErr e => PErr e
  | POk v r =>
    match space0 r with
    | [] => POk v []
    | r' => PErr (perr_at r')
    end
  end.

(** [SemverError]: the input string, the byte offset of the span, the kind. *)
Record semver_error := mkErr { e_input : str; e_offset : N; e_kind : ekind }.

Definition kind_of (e : perr) : ekind :=
  match pe_kind e with
  | Some k => k
  | None => match pe_ctx e with Some c => KContext c | None => KOther end
  end.

(** Byte offset of the start of the last scalar ([char_indices().next_back()]). *)
Fixpoint last_char_offset (s : str) : N :=
  match s with
  | [] => 0
  | [c] => 0
  | c :: r => utf8_len1 c + last_char_offset r
  end.

(** [Version::parse] (after the repairs recorded in known_findings.json). *)
Definition vparse (s : str) : version + semver_error :=
  if MAX_LENGTH <? utf8_len s then
    inr (mkErr s (last_char_offset s) KMaxLength)
  else
    match version_eof s with
    | POk v _ => inl v
    | PErr e => inr (mkErr s (utf8_len s - utf8_len (pe_rest e)) (kind_of e))
    end.

(** [SemverError::location()] (src/lib.rs:101-128).  Works on bytes; it panics when the
    offset is past the end or not a character boundary (string slicing). *)
Fixpoint boundary_offsets (s : str) (at_ : N) : list N :=
  match s with
  | [] => [at_]
  | c :: r => at_ :: boundary_offsets r (at_ + utf8_len1 c)
  end.
Definition is_char_boundary (s : str) (off : N) : bool :=
  existsb (N.eqb off) (boundary_offsets s 0).

(** Walk the scalars before byte offset [off]: count newlines and remember the byte
    offset just after the last one. *)
Fixpoint loc_scan (s : str) (pos off line line_begin : N) : N * N :=
  match s with
  | [] => (line, line_begin)
  | c :: r =>
    if off <=? pos then (line, line_begin)
    else
      let pos' := pos + utf8_len1 c in
      if c =? 10 then loc_scan r pos' off (line + 1) pos'
      else loc_scan r pos' off line line_begin
  end.
Definition location (e : semver_error) : res (N * N) :=
  if is_char_boundary (e_input e) (e_offset e) then
    let '(line, line_begin) := loc_scan (e_input e) 0 (e_offset e) 0 0 in
    Ok (line, e_offset e - line_begin)
  else Panic.
