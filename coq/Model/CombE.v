(** Error-carrying winnow combinators as used by the version grammar of src/lib.rs, over the model's
    strings and its error record ([perr]: the slice where the error was raised, the last context
    added, the specific kind).  [PErr] is winnow's [ErrMode::Backtrack] carrying a
    [SemverParseError]; the version grammar raises no [Cut].  tools/translate_v.py re-expresses the
    grammar functions of src/lib.rs over these definitions; Proofs/CombELemmas.v relates them to
    the hand-written model (Model/VParse.v). *)
From Semver Require Export Version VParse.


Definition eparser (A : Type) : Type := str -> pr A.
Definition e_map {A B} (p : eparser A) (f : A -> B) : eparser B :=
  fun s => match p s with POk a r => POk (f a) r | PErr e => PErr e end.
Definition e_pair {A B} (p : eparser A) (q : eparser B) : eparser (A * B) :=
  fun s => match p s with
           | POk a r => match q r with POk b r' => POk (a, b) r' | PErr e => PErr e end
           | PErr e => PErr e
           end.
Definition e_preceded {A B} (p : eparser A) (q : eparser B) : eparser B := e_map (e_pair p q) snd.
Definition e_terminated {A B} (p : eparser A) (q : eparser B) : eparser A := e_map (e_pair p q) fst.
(** [.context(c)] *)
Definition e_context {A} (c : ctx) (p : eparser A) : eparser A := fun s => with_ctx c (p s).
(** [literal(..)], [take_while(1.., pred)] / [digit1], [space0], [eof]: a failing token parser reports the position where it stood *)
Definition e_literal (l : str) : eparser unit := fun s => match lit l s with Some r => POk tt r | None => PErr (perr_at s) end.
Definition e_take_while1 (pred : N -> bool) : eparser str :=
  fun s => let '(cs, rest) := span pred s in match cs with [] => PErr (perr_at s) | _ :: _ => POk cs rest end.
Definition e_space0 : eparser unit := fun s => POk tt (space0 s).
Definition e_eof : eparser unit := fun s => match s with [] => POk tt [] | _ :: _ => PErr (perr_at s) end.
(** [opt], [alt]: a backtracking error is swallowed / the next alternative is tried from the same position *)
Definition e_opt {A} (p : eparser A) : eparser (option A) :=
  fun s => match p s with POk a r => POk (Some a) r | PErr _ => POk None s end.
Fixpoint e_alt_from {A} (last : perr) (ps : list (eparser A)) : eparser A :=
  fun s => match ps with
           | [] => PErr (mkPE s (pe_ctx last) (pe_kind last))       (* ParserError::append: the error moves to the start of the alt *)
           | p :: ps' => match p s with POk a r => POk a r | PErr e => e_alt_from e ps' s end
           end.
Definition e_alt {A} (ps : list (eparser A)) : eparser A := fun s => e_alt_from (perr_at s) ps s.
(** [try_map(p, f)]: an external error is the error the closure built *)
Definition e_try_map {A B} (p : eparser A) (f : A -> B + perr) : eparser B :=
  fun s => match p s with
           | POk a r => match f a with inl b => POk b r | inr e => PErr e end
           | PErr e => PErr e
           end.
(** [separated(1.., elem, sep)] *)
Fixpoint e_sep_tail {A B} (fuel : nat) (elem : eparser A) (sep : eparser B) (s : str) : list A * str :=
  match fuel with
  | O => ([], s)
  | S f =>
    match sep s with
    | POk _ s1 =>
      match elem s1 with
      | POk a s2 => let '(l, r) := e_sep_tail f elem sep s2 in (a :: l, r)
      | PErr _ => ([], s)
      end
    | PErr _ => ([], s)
    end
  end.
Definition e_separated1 {A B} (elem : eparser A) (sep : eparser B) : eparser (list A) :=
  fun s => match elem s with
           | POk a r => let '(l, r') := e_sep_tail (length r) elem sep r in POk (a :: l) r'
           | PErr e => PErr e
           end.

