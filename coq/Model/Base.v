(** Base vocabulary of the model: strings as lists of Unicode scalar values,
    results with an explicit [Panic] outcome, small list helpers.
    Definitions only; no proofs live in Model/. *)
From Coq Require Export List NArith Bool.
Export ListNotations.
Open Scope N_scope.

(** A Rust [&str] is modelled as the list of its [char]s (scalar values). *)
Definition str := list N.

(** UTF-8 byte length of one scalar / of a string ([str::len]). *)
Definition utf8_len1 (c : N) : N :=
  if c <? 128 then 1 else if c <? 2048 then 2 else if c <? 65536 then 3 else 4.
Fixpoint utf8_len (s : str) : N :=
  match s with [] => 0 | c :: r => utf8_len1 c + utf8_len r end.

(** Outcome of a public operation: a value, or a Rust panic
    ([unwrap] on [None], [unreachable!], a slice at a non-boundary, ...). *)
Inductive res (A : Type) : Type :=
| Ok (a : A)
| Panic.
Arguments Ok {A} a.
Arguments Panic {A}.

Definition rbind {A B} (x : res A) (f : A -> res B) : res B :=
  match x with Ok a => f a | Panic => Panic end.
Definition rmap {A B} (f : A -> B) (x : res A) : res B :=
  match x with Ok a => Ok (f a) | Panic => Panic end.

(** [take_while p s = (longest prefix satisfying p, rest)]. *)
Fixpoint span (p : N -> bool) (s : str) : str * str :=
  match s with
  | [] => ([], [])
  | c :: r => if p c then let '(a, b) := span p r in (c :: a, b) else ([], s)
  end.
Fixpoint drop_while (p : N -> bool) (s : str) : str :=
  match s with
  | [] => []
  | c :: r => if p c then drop_while p r else s
  end.

(** [literal(p)]: strip the prefix [p]. *)
Fixpoint lit (p s : str) : option str :=
  match p, s with
  | [], _ => Some s
  | a :: p', b :: s' => if a =? b then lit p' s' else None
  | _ :: _, [] => None
  end.

(** one-scalar literal; [opt(literal(c))] never fails *)
Definition lit1 (c : N) (s : str) : option str :=
  match s with x :: r => if x =? c then Some r else None | [] => None end.
Definition opt_lit1 (c : N) (s : str) : str :=
  match lit1 c s with Some r => r | None => s end.

Fixpoint str_eqb (a b : str) : bool :=
  match a, b with
  | [], [] => true
  | x :: a', y :: b' => (x =? y) && str_eqb a' b'
  | _, _ => false
  end.

(** Character classes used by the grammar (winnow [digit1], [space0]/[space1],
    [char::is_ascii_alphanumeric]). *)
Definition is_digit (c : N) : bool := (48 <=? c) && (c <=? 57).
Definition is_space (c : N) : bool := (c =? 32) || (c =? 9).
Definition is_alpha (c : N) : bool :=
  ((65 <=? c) && (c <=? 90)) || ((97 <=? c) && (c <=? 122)).
Definition is_ident_char (c : N) : bool := is_digit c || is_alpha c || (c =? 45).

Definition space0 (s : str) : str := drop_while is_space s.
Definition space1 (s : str) : option str :=
  match s with
  | c :: r => if is_space c then Some (space0 r) else None
  | [] => None
  end.

(** Decimal value of a digit string, most significant digit first
    (what [str::parse::<u64>] computes before its range check). *)
Definition digit_val (c : N) : N := c - 48.
Definition dec_value (ds : str) : N :=
  fold_left (fun acc c => acc * 10 + digit_val c) ds 0.

Definition MAX_SAFE_INTEGER : N := 900719925474099.
Definition MAX_LENGTH : N := 256.
Definition U64_LIMIT : N := 18446744073709551616.  (* 2^64 *)

(** Decimal printing ([Display for u64]) through the standard library's
    [N.to_uint]. *)
From Coq Require Import Decimal DecimalN.
Fixpoint uint_to_str (u : Decimal.uint) : str :=
  match u with
  | Nil => []
  | D0 u => 48 :: uint_to_str u | D1 u => 49 :: uint_to_str u
  | D2 u => 50 :: uint_to_str u | D3 u => 51 :: uint_to_str u
  | D4 u => 52 :: uint_to_str u | D5 u => 53 :: uint_to_str u
  | D6 u => 54 :: uint_to_str u | D7 u => 55 :: uint_to_str u
  | D8 u => 56 :: uint_to_str u | D9 u => 57 :: uint_to_str u
  end.
Definition print_N (n : N) : str := uint_to_str (N.to_uint n).
